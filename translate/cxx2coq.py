#!/usr/bin/env python3
"""cxx2coq.py -- table extractor: reads the clang AST (JSON) of the sigc++ headers in /repo's
working tree and writes the regenerated part of the Coq model, coq/gen/Tables.v:

  * gen_visit_table  : per visitor<X> specialisation, what do_visit_each visits
  * gen_members      : per adaptor functor class, its data members
  * gen_hop_modes    : per adaptor operator(), whether the argument pack is forwarded or taken by value
  * gen_slices       : the template arguments of tuple_start<>/tuple_end<> in bind_functor / hide_functor
  * gen_take_table   : type_trait<T>::take / pass per pattern
  * gen_callsig      : the erased-call signatures (slot::call_type, slot_call::call_it, casts)
  * gen_globals      : namespace-scope / static mutable variables in the library

It is a table extractor, not a C++-to-Gallina compiler; a construct it does not recognise is
emitted as `Unrecognised "<where>"`, which makes the consuming obligation fail (fail-closed)."""
import json, os, re, subprocess, sys, hashlib

REPO = os.environ.get("VERIF_REPO", "/repo")
VERIF = os.path.dirname(os.path.dirname(os.path.abspath(__file__)))


def clang_ast(filter_name, incdir, tu_text='#include <sigc++/sigc++.h>\n', extra=()):
    tu = os.path.join(incdir, "_tu_%s.cc" % hashlib.md5((filter_name + tu_text).encode()).hexdigest()[:8])
    with open(tu, "w") as fh:
        fh.write(tu_text)
    cmd = ["clang++", "-std=c++17", "-fsyntax-only", "-I", REPO, "-I", incdir, "-Xclang", "-ast-dump=json"]
    if filter_name:
        cmd += ["-Xclang", "-ast-dump-filter=" + filter_name]
    cmd += list(extra) + [tu]
    p = subprocess.run(cmd, stdout=subprocess.PIPE, stderr=subprocess.PIPE, text=True)
    os.remove(tu)
    s = p.stdout
    dec = json.JSONDecoder()
    i, objs = 0, []
    while i < len(s):
        while i < len(s) and s[i] in " \n\r\t":
            i += 1
        if i >= len(s):
            break
        o, i = dec.raw_decode(s, i)
        objs.append(o)
    return objs, p.stderr


class FileTracker:
    """clang's JSON prints "file" only when it changes: replay the document order."""

    def __init__(self):
        self.cur = None

    def see(self, d):
        if isinstance(d, dict):
            for k in ("spellingLoc", "expansionLoc"):
                if k in d:
                    self.see(d[k])
            if "file" in d:
                self.cur = d["file"]
        return self.cur


def walk(node, fn, ft):
    """document-order walk; fn(node, file) is called for every dict with a "kind"."""
    if isinstance(node, dict):
        if "loc" in node:
            ft.see(node["loc"])
        if "range" in node:
            ft.see(node["range"].get("begin"))
        if "kind" in node:
            fn(node, ft.cur)
        for c in node.get("inner", []) or []:
            walk(c, fn, ft)
        if "range" in node:
            ft.see(node["range"].get("end"))


def find_all(node, pred):
    out = []

    def rec(n):
        if isinstance(n, dict):
            if pred(n):
                out.append(n)
            for c in n.get("inner", []) or []:
                rec(c)
    rec(node)
    return out


def src_slice(node, file):
    r = node.get("range", {})
    b, e = r.get("begin", {}), r.get("end", {})
    b = b.get("expansionLoc", b)
    e = e.get("expansionLoc", e)
    if "offset" not in b or "offset" not in e or not file:
        return ""
    data = open(file, "rb").read()
    return data[b["offset"]: e["offset"] + e.get("tokLen", 1)].decode(errors="replace")


def callee_name(call):
    inner = call.get("inner") or []
    if not inner:
        return None
    c = inner[0]
    names = [n.get("name") or n.get("member") for n in find_all(c, lambda n: n.get("kind") in (
        "UnresolvedLookupExpr", "DeclRefExpr", "CXXDependentScopeMemberExpr", "UnresolvedMemberExpr", "MemberExpr", "DependentScopeDeclRefExpr"))]
    names = [n for n in names if n]
    if c.get("kind") == "ImplicitCastExpr" and not names:
        return None
    return names[0] if names else None


def member_names(node):
    return [n.get("member") for n in find_all(node, lambda n: n.get("kind") in ("CXXDependentScopeMemberExpr",)) if n.get("member")] + \
           [n.get("name") for n in find_all(node, lambda n: n.get("kind") == "MemberExpr") if n.get("name")]


# ---------------------------------------------------------------------------------------------

def extract_visitors(incdir):
    objs, err = clang_ast("visitor", incdir)
    table = {}
    ft = FileTracker()
    for o in objs:
        # keep the file tracker in document order
        specs = []
        walk(o, lambda n, f: specs.append((n, f)) if n.get("kind") == "ClassTemplatePartialSpecializationDecl" and n.get("name") == "visitor" else None, ft)
        for spec, file in specs:
            targ = None
            for c in spec.get("inner", []):
                if c.get("kind") == "TemplateArgument":
                    targ = c.get("type", {}).get("qualType")
                    break
            if not targ:
                continue
            m = re.match(r"(?:[\w:]*::)?(\w+)<(.*)>$", targ)
            cls = m.group(1) if m else targ
            first_arg = m.group(2).split(",")[0].strip() if m else ""
            key = cls + ("<-1>" if first_arg == "-1" else "")
            # every do_visit_each body
            visits_per_overload = []
            for fnode in find_all(spec, lambda n: n.get("kind") in ("CXXMethodDecl",) and n.get("name") == "do_visit_each"):
                body = [c for c in fnode.get("inner", []) if c.get("kind") == "CompoundStmt"]
                if not body:
                    continue
                # first parameter type tells which action the overload is for
                params = [c for c in fnode.get("inner", []) if c.get("kind") == "ParmVarDecl"]
                ptype = params[0].get("type", {}).get("qualType", "") if params else ""
                visits = []
                for call in find_all(body[0], lambda n: n.get("kind") in ("CallExpr", "CXXOperatorCallExpr", "CXXMemberCallExpr")):
                    nm = callee_name(call)
                    args = call.get("inner", [])[1:]
                    if nm in ("visit_each", "visit_each_trackable"):
                        tgt = args[1] if len(args) > 1 else None
                        if tgt is None:
                            visits.append(("Unrecognised", "visit_each without target"))
                            continue
                        gets = find_all(tgt, lambda n: n.get("kind") == "CallExpr" and callee_name(n) == "get")
                        mem = member_names(tgt)
                        if "visit" in mem:
                            visits.append(("VVisitMethod", "visit"))
                        elif gets:
                            txt = src_slice(gets[0], file_of(spec, file))
                            mi = re.search(r"get\s*<\s*(\d+)\s*>", txt)
                            visits.append(("VTupleElem", mem[0] if mem else "?", int(mi.group(1)) if mi else -1))
                        elif mem:
                            visits.append(("VMember", mem[0]))
                        else:
                            visits.append(("Unrecognised", "visit_each target"))
                    elif nm == "tuple_for_each":
                        mem = [x for a in args for x in member_names(a)]
                        visits.append(("VTupleAll", mem[0]) if mem else ("Unrecognised", "tuple_for_each target"))
                    elif nm in ("set_parent", "unset_parent"):
                        visits.append(("VSlotParent", nm))
                    elif nm == "visit":
                        pass
                    elif nm == "action":
                        mem = [x for a in args for x in member_names(a)]
                        visits.append(("VAction", mem[0] if mem else "target"))
                    elif nm == "get":
                        pass
                    elif nm is None:
                        pass
                    else:
                        pass
                visits_per_overload.append((ptype, visits))
            table[key] = {"target": targ, "overloads": visits_per_overload, "line": spec.get("loc", {}).get("line")}
    return table


_file_cache = {}


def file_of(node, fallback):
    return fallback


def extract_classes(incdir, names):
    """data members and operator() parameter packs of the adaptor functor classes"""
    out = {}
    for name in names:
        objs, err = clang_ast(name, incdir)
        ft = FileTracker()
        recs = []
        for o in objs:
            walk(o, lambda n, f: recs.append((n, f)) if n.get("kind") in ("ClassTemplateDecl", "ClassTemplatePartialSpecializationDecl") and n.get("name") == name else None, ft)
        for rec, file in recs:
            key = name
            if rec.get("kind") == "ClassTemplatePartialSpecializationDecl":
                ta = [c for c in rec.get("inner", []) if c.get("kind") == "TemplateArgument"]
                first = ""
                if ta:
                    if "value" in ta[0]:
                        first = str(ta[0]["value"])
                    elif "type" in ta[0]:
                        first = ta[0]["type"].get("qualType", "")
                        first = re.sub(r"type-parameter-\d+-\d+", "T", first)
                key = "%s<%s>" % (name, first)
                body = rec
            else:
                crs = [c for c in rec.get("inner", []) if c.get("kind") == "CXXRecordDecl" and c.get("name") == name]
                body = crs[0] if crs else rec
            fields = [(c.get("name"), c.get("type", {}).get("qualType", "")) for c in body.get("inner", []) if c.get("kind") == "FieldDecl"]
            ops = []
            for ftd in body.get("inner", []):
                meths = []
                if ftd.get("kind") == "FunctionTemplateDecl" and ftd.get("name") == "operator()":
                    meths = [c for c in ftd.get("inner", []) if c.get("kind") == "CXXMethodDecl"]
                elif ftd.get("kind") == "CXXMethodDecl" and ftd.get("name") == "operator()":
                    meths = [ftd]
                for mth in meths:
                    params = [c for c in mth.get("inner", []) if c.get("kind") == "ParmVarDecl"]
                    ptypes = [p.get("type", {}).get("qualType", "") for p in params]
                    body_c = [c for c in mth.get("inner", []) if c.get("kind") == "CompoundStmt"]
                    fwd = bool(body_c) and bool(find_all(body_c[0], lambda n: n.get("kind") in ("UnresolvedLookupExpr", "DeclRefExpr") and n.get("name") == "forward"))
                    slices = []
                    if body_c:
                        for call in find_all(body_c[0], lambda n: n.get("kind") == "CallExpr" and callee_name(n) in ("tuple_start", "tuple_end")):
                            txt = src_slice(call, file)
                            mm = re.search(r"(tuple_start|tuple_end)\s*<\s*([^>]*)>", txt)
                            if mm:
                                slices.append((mm.group(1), " ".join(mm.group(2).split())))
                            else:
                                slices.append((callee_name(call), "Unrecognised"))
                        consts = {}
                        for vd in find_all(body_c[0], lambda n: n.get("kind") == "VarDecl" and n.get("constexpr")):
                            txt = src_slice(vd, file)
                            mm = re.search(r"=\s*(.*)$", txt, re.S)
                            if mm:
                                consts[vd.get("name")] = " ".join(mm.group(1).split())
                    else:
                        consts = {}
                    ops.append({"params": ptypes, "forward": fwd, "slices": slices, "consts": consts,
                                "deduced": ftd.get("kind") == "FunctionTemplateDecl"})
            out[key] = {"fields": fields, "ops": ops, "line": rec.get("loc", {}).get("line")}
    return out


def hop_mode(op):
    ps = op["params"]
    if not ps:
        return "NoArgs"
    p = ps[-1].replace(" ", "")
    if not op.get("deduced"):
        return "Fixed"
    if p.endswith("&&..."):
        return "Forwarding" if op["forward"] else "RefNoForward"
    if p.endswith("..."):
        return "ByValue"
    return "Fixed"


# ---- arithmetic of the slicing template arguments ---------------------------------------------

TOK = re.compile(r"\s*(?:(\d+)|([A-Za-z_][\w:<>.]*(?:\.\.\.)?(?:\([^)]*\))?)|(==|[-+?:()]))")


def parse_arith(s, consts):
    """tiny expression parser -> Coq aexp.  grammar: cond := sum ('==' sum)? ('?' cond ':' cond)? ; sum := atom (('+'|'-') atom)*"""
    toks = []
    pos = 0
    s = s.strip()
    while pos < len(s):
        m = TOK.match(s, pos)
        if not m:
            return 'AUnrecognised'
        pos = m.end()
        toks.append(m.group(1) or m.group(2) or m.group(3))
    idx = [0]

    def peek():
        return toks[idx[0]] if idx[0] < len(toks) else None

    def eat():
        t = toks[idx[0]]
        idx[0] += 1
        return t

    def atom():
        t = eat()
        if t == "(":
            e = cond()
            if peek() == ")":
                eat()
            return e
        if t == "-":
            a = atom()
            return "(ANeg %s)" % a
        if t.isdigit():
            return "(AConst %s%%Z)" % t
        if t in ("I_location", "T_loc"):
            return "ALoc"
        if t in ("t_args_size", "size") or t.startswith("sizeof...") or "tuple_size" in t:
            if t in consts and t not in ("t_args_size", "size"):
                return parse_arith(consts[t], consts)
            return "ASize"
        if t in consts:
            return parse_arith(consts[t], {k: v for k, v in consts.items() if k != t})
        return "AUnrecognised"

    def summ():
        e = atom()
        while peek() in ("+", "-"):
            o = eat()
            r = atom()
            e = "(%s %s %s)" % ("AAdd" if o == "+" else "ASub", e, r)
        return e

    def cond():
        e = summ()
        if peek() == "==":
            eat()
            r = summ()
            e = "(AEq %s %s)" % (e, r)
        if peek() == "?":
            eat()
            a = cond()
            if peek() == ":":
                eat()
            b = cond()
            e = "(AIf %s %s %s)" % (e, a, b)
        return e
    try:
        e = cond()
        if idx[0] != len(toks):
            return "AUnrecognised"
        return e
    except Exception:
        return "AUnrecognised"


# ---------------------------------------------------------------------------------------------

def extract_take(incdir):
    objs, err = clang_ast("type_trait", incdir)
    rows = []
    for o in objs:
        if o.get("kind") not in ("ClassTemplateDecl", "ClassTemplatePartialSpecializationDecl", "ClassTemplateSpecializationDecl") or o.get("name") != "type_trait":
            continue
        pat = "T"
        for c in o.get("inner", []):
            if c.get("kind") == "TemplateArgument":
                pat = c.get("type", {}).get("qualType", "?")
                break
        if o.get("kind") == "ClassTemplateDecl":
            rec = [c for c in o.get("inner", []) if c.get("kind") == "CXXRecordDecl"]
            body = rec[0] if rec else o
        else:
            body = o
        pat = re.sub(r"type-parameter-\d+-\d+", "T", pat)
        al = {}
        for c in body.get("inner", []):
            if c.get("kind") in ("TypeAliasDecl", "TypedefDecl"):
                al[c.get("name")] = re.sub(r"type-parameter-\d+-\d+", "T", c.get("type", {}).get("qualType", ""))
        rows.append((pat, al.get("pass", "-"), al.get("take", "-")))
    return rows


def extract_globals(incdir):
    """variables with static storage duration declared by the library (namespace scope, class
    static, function static), from the five .cc files and the umbrella header"""
    out = []
    srcs = ["sigc++/connection.cc", "sigc++/scoped_connection.cc", "sigc++/signal_base.cc", "sigc++/trackable.cc", "sigc++/functors/slot_base.cc"]
    for s in srcs + ["<umbrella>"]:
        if s == "<umbrella>":
            # the header-only part (templates of signal.h, slot.h, the adaptors): every declaration of namespace sigc
            objs, err = clang_ast("sigc", incdir)
        else:
            tu = '#include "%s"\n' % os.path.join(REPO, s)
            objs, err = clang_ast("", incdir, tu_text=tu)
        ft = FileTracker()
        for o in objs:
            def visit(n, f):
                if n.get("kind") == "VarDecl" and f and f.startswith(REPO + "/sigc++"):
                    sc = n.get("storageClass", "")
                    parent_fn = n.get("_in_function", False)
                    out.append({"name": n.get("name"), "type": n.get("type", {}).get("qualType", ""), "file": os.path.relpath(f, REPO),
                                "line": n.get("loc", {}).get("line"), "storage": sc, "constexpr": bool(n.get("constexpr")),
                                "tls": n.get("tls", ""), "ctx": n.get("_ctx", "")})
            # annotate context: mark VarDecls inside FunctionDecl bodies
            def annotate(n, ctx):
                if isinstance(n, dict):
                    k = n.get("kind")
                    nctx = ctx
                    if k in ("FunctionDecl", "CXXMethodDecl", "CXXConstructorDecl", "CXXDestructorDecl", "LambdaExpr"):
                        nctx = "function"
                    elif k in ("CXXRecordDecl", "ClassTemplateDecl") and ctx != "function":
                        nctx = "class"
                    if k in ("VarDecl", "ParmVarDecl"):
                        n["_ctx"] = ctx
                    for c in n.get("inner", []) or []:
                        annotate(c, nctx)
            annotate(o, "namespace")
            walk(o, visit, ft)
    # static storage: namespace-scope or class-static always; function-scope only when `static`
    res = []
    seen = set()
    for v in out:
        static_dur = v["ctx"] in ("namespace", "class") or v["storage"] == "static"
        if not static_dur:
            continue
        key = (v["name"], v["file"], v["line"])
        if key in seen:
            continue
        seen.add(key)
        t = v["type"]
        is_const = v["constexpr"] or t.startswith("const ") or " const" in t.split("*")[-1] if t else False
        res.append(dict(v, mutable=not is_const, thread_local=bool(v["tls"])))
    return res


def extract_callsig(incdir):
    """text-level extraction of the erased call path (slot.h / signal.h)"""
    slot_h = open(os.path.join(REPO, "sigc++/functors/slot.h")).read()
    signal_h = open(os.path.join(REPO, "sigc++/signal.h")).read()

    def norm(s):
        return " ".join(s.split())
    m_ct = re.search(r"using\s+call_type\s*=\s*([^;]*);", slot_h)
    m_ci = re.search(r"static\s+(\w+)\s+call_it\s*\(([^)]*)\)", slot_h)
    casts_slot = re.findall(r"function_pointer_cast<\s*([\w:]+)\s*>\s*\(", slot_h)
    casts_sig = re.findall(r"function_pointer_cast<\s*([\w:]+)\s*>\s*\(", signal_h)
    uses_reinterpret = len(re.findall(r"reinterpret_cast", slot_h + signal_h))
    cstyle = len(re.findall(r"\(\s*call_type\s*\)", slot_h + signal_h))
    ct = norm(m_ct.group(1)) if m_ct else "Unrecognised"
    m_alias = re.search(r"using\s+rep_type\s*=\s*(?:sigc::)?(?:internal::)?(\w+)\s*;", slot_h)
    if m_alias:
        ct = re.sub(r"\brep_type\b", m_alias.group(1), ct)
    return {"call_type": ct,
            "call_it": (norm(m_ci.group(1)) + " (*)(" + norm(re.sub(r"\s*\w+\s*(,|$)", r"\1", norm(m_ci.group(2)))) + ")") if m_ci else "Unrecognised",
            "call_it_params": norm(m_ci.group(2)) if m_ci else "Unrecognised",
            "casts_slot": casts_slot, "casts_signal": casts_sig, "reinterpret_casts": uses_reinterpret, "cstyle_casts": cstyle}


CAST_KINDS = {"CXXStaticCastExpr": "static_cast", "CXXReinterpretCastExpr": "reinterpret_cast", "CXXConstCastExpr": "const_cast",
              "CXXDynamicCastExpr": "dynamic_cast", "CStyleCastExpr": "c_style", "CXXFunctionalCastExpr": "functional",
              "CXXUnresolvedConstructExpr": "functional"}
CAST_FILES_SKIP = ("tuple_cdr.h", "tuple_start.h", "tuple_end.h", "tuple_for_each.h", "tuple_transform_each.h")
FUNC_KINDS = ("FunctionDecl", "CXXMethodDecl", "CXXConstructorDecl", "CXXDestructorDecl", "CXXConversionDecl")


def norm_type(t):
    t = re.sub(r"type-parameter-\d+-\d+", "T", t or "?")
    t = re.sub(r"\b(?:sigc::)?(?:internal::)?slot_iterator_buf(?:<[^<>]*(?:<[^<>]*>[^<>]*)*>)?::slot_type", "slot_type", t)
    return t


def extract_casts(incdir):
    """every explicit conversion written in the library headers (named casts, C-style casts, and
    functional casts T(x) with exactly one operand whose target is not a class template-id being
    constructed by a factory), outside the index-sequence helpers of tuple-utils; discarded-value
    casts to void are not conversions"""
    objs, err = clang_ast("sigc", incdir)
    rows = set()
    aliases = {}
    for o in objs:
        ft = FileTracker()

        def rec(n, fn):
            if not isinstance(n, dict):
                return
            if "loc" in n:
                ft.see(n["loc"])
            if "range" in n:
                ft.see(n["range"].get("begin"))
            k = n.get("kind")
            if k in FUNC_KINDS:
                fn = n.get("name")
                # aliases declared inside the function are names for the types they stand for
                aliases.clear()
                for a in find_all(n, lambda x: x.get("kind") in ("TypeAliasDecl", "TypedefDecl")):
                    if a.get("name"):
                        aliases[a["name"]] = a.get("type", {}).get("qualType", "")
            if k in CAST_KINDS:
                tgt = n.get("type", {}).get("qualType") or "?"
                for _ in range(3):
                    for an, at in aliases.items():
                        tgt = re.sub(r"\b%s\b" % re.escape(an), at, tgt)
                tgt = norm_type(tgt)
                file = os.path.basename(ft.cur or "?")
                nargs = len(n.get("inner") or [])
                keep = tgt != "void" and file not in CAST_FILES_SKIP and (ft.cur or "").find("sigc++") >= 0
                if CAST_KINDS[k] == "functional":
                    # T(x): a conversion when T is not a functor/helper class being constructed
                    keep = keep and nargs == 1 and not re.search(r"(_functor|_rep|slot_do_(un)?bind|connection|std::tuple)\b", tgt)
                if keep:
                    rows.add((file, fn or "?", CAST_KINDS[k], tgt))
            for c in n.get("inner", []) or []:
                rec(c, fn)
            if "range" in n:
                ft.see(n["range"].get("end"))
        rec(o, None)
    return sorted(rows)


def extract_memfun_pass(incdir):
    """how each two-parameter mem_fun(obj, func) factory passes `func` to the functor's constructor"""
    objs, err = clang_ast("mem_fun", incdir)
    verdicts = []
    for o in objs:
        for f in find_all(o, lambda n: n.get("kind") == "FunctionDecl" and n.get("name") == "mem_fun"):
            params = [c for c in f.get("inner", []) if c.get("kind") == "ParmVarDecl"]
            if len(params) != 2:
                continue
            pname = params[1].get("name")
            body = [c for c in f.get("inner", []) if c.get("kind") == "CompoundStmt"]
            if not body:
                continue
            rets = find_all(body[0], lambda n: n.get("kind") == "ReturnStmt")
            v = "MPUnrecognised"
            if len(rets) == 1:
                ctor = find_all(rets[0], lambda n: n.get("kind") in ("CXXUnresolvedConstructExpr", "CXXTemporaryObjectExpr", "CXXConstructExpr", "InitListExpr"))
                if ctor and len(ctor[0].get("inner") or []) == 2:
                    a = ctor[0]["inner"][1]
                    refs = find_all(a, lambda n: n.get("kind") == "DeclRefExpr")
                    casts = find_all(a, lambda n: n.get("kind") in CAST_KINDS)
                    plain = a.get("kind") == "DeclRefExpr" and (a.get("referencedDecl") or {}).get("name") == pname
                    if plain:
                        v = "MPImplicit"
                    elif casts and any((r.get("referencedDecl") or {}).get("name") == pname for r in refs):
                        v = "MPExplicit"
            # a local alias / variable initialised from a cast of the parameter and then passed on
            if v == "MPUnrecognised" and find_all(body[0], lambda n: n.get("kind") in CAST_KINDS):
                v = "MPExplicit"
            verdicts.append(v)
    if not verdicts:
        return "MPUnrecognised", verdicts
    if all(v == "MPImplicit" for v in verdicts):
        return "MPImplicit", verdicts
    if any(v == "MPExplicit" for v in verdicts):
        return "MPExplicit", verdicts
    return "MPUnrecognised", verdicts


def extract_signal_connect(incdir):
    """each signal_connect() overload: (kind of its callable parameters, the functor factory its body hands to
    signal.connect(), whether the factory receives exactly the overload's own parameters in order)"""
    objs, err = clang_ast("signal_connect", incdir)
    rows = []
    for o in objs:
        for f in find_all(o, lambda n: n.get("kind") == "FunctionDecl" and n.get("name") == "signal_connect"):
            params = [c for c in f.get("inner", []) if c.get("kind") == "ParmVarDecl"]
            names = [p.get("name") for p in params]
            kind = "fun" if len(params) == 2 else ("const_mem" if len(params) == 3 and params[1].get("type", {}).get("qualType", "").startswith("const ") else ("mem" if len(params) == 3 else "Unrecognised"))
            factory, inorder = "Unrecognised", False
            rets = find_all(f, lambda n: n.get("kind") == "ReturnStmt")
            stmts = [c for c in f.get("inner", []) if c.get("kind") == "CompoundStmt"]
            body_stmts = (stmts[0].get("inner") or []) if stmts else []
            if len(rets) == 1 and len(body_stmts) == 1:
                calls = find_all(rets[0], lambda n: n.get("kind") in ("CallExpr", "CXXMemberCallExpr"))
                if len(calls) == 2 and callee_name(calls[0]) == "connect":
                    inner = calls[1]
                    outer_args = (calls[0].get("inner") or [])[1:]
                    if len(outer_args) == 1 and outer_args[0] is inner or (len(outer_args) == 1 and find_all(outer_args[0], lambda n: n is inner)):
                        factory = callee_name(inner) or "Unrecognised"
                        args = [(a.get("kind"), (a.get("referencedDecl") or {}).get("name")) for a in (inner.get("inner") or [])[1:]]
                        inorder = args == [("DeclRefExpr", n) for n in names[1:]]
            rows.append((kind, factory, inorder))
    return sorted(rows)


def extract_memfun_class(incdir):
    """the class in whose name each bound mem_fun(obj, method) factory types its functor: it must be the
    class of the OBJECT (first template parameter T_obj), not the class that declares the method (T_obj2),
    or a method inherited from a non-trackable base is not tracked"""
    objs, err = clang_ast("mem_fun", incdir)
    rows = []
    for o in objs:
        for f in find_all(o, lambda n: n.get("kind") == "FunctionDecl" and n.get("name") == "mem_fun"):
            params = [c for c in f.get("inner", []) if c.get("kind") == "ParmVarDecl"]
            if len(params) != 2:
                continue
            objty = params[0].get("type", {}).get("qualType", "")
            objcls = re.sub(r"^(const |volatile )*", "", objty).replace("&", "").strip()
            cons = find_all(f, lambda n: n.get("kind") in ("CXXUnresolvedConstructExpr", "CXXTemporaryObjectExpr", "CXXFunctionalCastExpr"))
            ty = cons[0].get("type", {}).get("qualType", "") if cons else ""
            for _ in range(2):      # local aliases
                for a in find_all(f, lambda x: x.get("kind") in ("TypeAliasDecl", "TypedefDecl")):
                    if a.get("name"):
                        ty = re.sub(r"\b%s\b" % re.escape(a["name"]), a.get("type", {}).get("qualType", ""), ty)
            m = re.search(r"\((\w+)::\*\)\s*\([^)]*\)\s*((?:const)?\s*(?:volatile)?)", ty)
            cv = " ".join(m.group(2).split()) if m else "?"
            cls = m.group(1) if m else "Unrecognised"
            rows.append((cv or "none", "object" if cls == objcls else ("method" if cls != "Unrecognised" else "Unrecognised")))
    return sorted(rows)


def extract_bases(incdir):
    """base classes, in declaration order, of the classes whose destruction order the models rely on"""
    out = []
    for cls in ("trackable_signal_with_accumulator", "slot_rep", "signal_impl"):
        objs, err = clang_ast(cls, incdir)
        found = None
        for o in objs:
            for n in find_all(o, lambda n: n.get("kind") == "CXXRecordDecl" and n.get("name") == cls and n.get("bases")):
                found = [re.sub(r"^(?:sigc::)?(?:internal::)?", "", b.get("type", {}).get("qualType", "?")) for b in n["bases"]]
                break
            if found:
                break
        out.append((cls, found or []))
    return out


def extract_pp(incdir):
    """preprocessor conditionals of the library sources (header guards excluded) and the names that
    exist only when deprecated API is enabled"""
    conds, dep_only = [], []
    root = os.path.join(REPO, "sigc++")
    for dirpath, _d, files in os.walk(root):
        for fn in sorted(files):
            if not fn.endswith((".h", ".cc")):
                continue
            path = os.path.join(dirpath, fn)
            lines = open(path, errors="replace").read().split("\n")
            for i, line in enumerate(lines):
                m = re.match(r"\s*#\s*(ifndef|ifdef|if|elif)\s+(.*)$", line)
                if not m:
                    continue
                expr = m.group(2).split("//")[0].split("/*")[0].strip()
                if m.group(1) == "ifndef":
                    nxt = next((l for l in lines[i + 1:i + 4] if l.strip()), "")
                    if re.match(r"\s*#\s*define\s+" + re.escape(expr) + r"\b", nxt):
                        continue        # header guard
                for macro in re.findall(r"[A-Za-z_]\w*", expr):
                    if macro != "defined":
                        conds.append(("%s:%d" % (os.path.relpath(path, REPO), i + 1), macro))
            txt = "\n".join(lines)
            for m in re.finditer(r"#\s*ifn?def\s+SIGCXX_DISABLE_DEPRECATED(.*?)#\s*endif", txt, re.S):
                # every identifier that is called or declared with a parameter list inside the guarded text
                body = re.sub(r"//[^\n]*|/\*.*?\*/", "", m.group(1), flags=re.S)
                for nm in re.findall(r"\b([A-Za-z_]\w*)\s*(?:<[^;(){}]*>)?\s*\(", body):
                    if nm not in ("decltype", "sizeof", "static_assert", "typename", "template", "return", "if", "for", "while"):
                        dep_only.append(nm)
    return sorted(conds), sorted(set(dep_only))


ADAPTORS = ["bind_functor", "hide_functor", "retype_functor", "retype_return_functor", "bind_return_functor",
            "compose1_functor", "compose2_functor", "exception_catch_functor", "track_obj_functor", "adaptor_functor",
            "bound_argument", "limit_reference", "bound_mem_functor", "mem_functor", "pointer_functor"]


def coq_str(s):
    return '"' + str(s).replace('"', "'") + '"'


def generate(incdir, outpath):
    vis = extract_visitors(incdir)
    cls = extract_classes(incdir, ADAPTORS)
    take = extract_take(incdir)
    glob = extract_globals(incdir)
    cs = extract_callsig(incdir)
    pp_conds, dep_only = extract_pp(incdir)
    casts = extract_casts(incdir)
    sigconn = extract_signal_connect(incdir)
    mfclass = extract_memfun_class(incdir)
    bases = extract_bases(incdir)
    mf_pass, mf_verdicts = extract_memfun_pass(incdir)
    L = []
    L.append("(* GENERATED by translate/cxx2coq.py from %s -- do not edit. *)" % REPO)
    L.append("From Coq Require Import List String ZArith.")
    L.append("Require Import GenTypes.")
    L.append("Import ListNotations.")
    L.append("Local Open Scope string_scope.")
    L.append("")
    L.append("Definition gen_visit_table : list (string * list visit) := [")
    rows = []
    for key in sorted(vis):
        # the generic overload (template T_action) is the one that matters for visit_each_trackable;
        # take the union over overloads that are not slot_do_bind/unbind special cases
        ovs = vis[key]["overloads"]
        generic = [v for (pt, v) in ovs if "limit_trackable_target" not in pt] or [v for (_pt, v) in ovs]
        visits = generic[0] if generic else []
        items = []
        for v in visits:
            if v[0] == "VMember":
                items.append("VMember %s" % coq_str(v[1]))
            elif v[0] == "VTupleAll":
                items.append("VTupleAll %s" % coq_str(v[1]))
            elif v[0] == "VTupleElem":
                items.append("VTupleElem %s %d" % (coq_str(v[1]), v[2]))
            elif v[0] == "VVisitMethod":
                items.append("VVisitMethod")
            elif v[0] == "VAction":
                items.append("VAction %s" % coq_str(v[1]))
            elif v[0] == "VSlotParent":
                items.append("VSlotParent")
            else:
                items.append("VUnrecognised %s" % coq_str(v[1]))
        rows.append("  (%s, [%s])" % (coq_str(key), "; ".join(items)))
    L.append(";\n".join(rows))
    L.append("].")
    L.append("")
    L.append("Definition gen_members : list (string * list (string * string)) := [")
    rows = []
    for key in sorted(cls):
        rows.append("  (%s, [%s])" % (coq_str(key), "; ".join("(%s, %s)" % (coq_str(n), coq_str(t)) for n, t in cls[key]["fields"])))
    L.append(";\n".join(rows))
    L.append("].")
    L.append("")
    L.append("Definition gen_hop_modes : list (string * list hop_mode) := [")
    rows = []
    for key in sorted(cls):
        # the order in which the overloads of operator() are declared means nothing: nullary overload first
        modes = sorted([hop_mode(op) for op in cls[key]["ops"]], key=lambda m: (m != "NoArgs", m))
        rows.append("  (%s, [%s])" % (coq_str(key), "; ".join(modes)))
    L.append(";\n".join(rows))
    L.append("].")
    L.append("")
    L.append("Definition gen_slices : list (string * list (string * aexp)) := [")
    rows = []
    for key in sorted(cls):
        sl = []
        for op in cls[key]["ops"]:
            for (fn, expr) in op["slices"]:
                sl.append("(%s, %s)" % (coq_str(fn), parse_arith(expr, op["consts"])))
        if sl:
            rows.append("  (%s, [%s])" % (coq_str(key), "; ".join(sl)))
    L.append(";\n".join(rows))
    L.append("].")
    L.append("")
    L.append("Definition gen_take_table : list (string * string * string) := [")
    L.append(";\n".join("  (%s, %s, %s)" % (coq_str(p), coq_str(a), coq_str(b)) for p, a, b in take))
    L.append("].")
    L.append("")
    L.append("Definition gen_callsig_call_type : string := %s." % coq_str(cs["call_type"]))
    L.append("Definition gen_callsig_call_it : string := %s." % coq_str(cs["call_it"]))
    L.append("Definition gen_callsig_casts : list string := [%s]." % "; ".join(coq_str(c) for c in cs["casts_slot"] + cs["casts_signal"]))
    L.append("Definition gen_callsig_reinterpret_casts : nat := %d." % cs["reinterpret_casts"])
    L.append("Definition gen_callsig_cstyle_casts : nat := %d." % cs["cstyle_casts"])
    L.append("")
    L.append("(* name, file:line, mutable, thread_local *)")
    L.append("Definition gen_globals : list (string * string * bool * bool) := [")
    L.append(";\n".join("  (%s, %s, %s, %s)" % (coq_str(g["name"]), coq_str("%s:%s" % (g["file"], g["line"])), "true" if g["mutable"] else "false",
                                              "true" if g["thread_local"] else "false") for g in glob))
    L.append("].")
    L.append("")
    L.append("(* where, macro: every macro tested by a preprocessor conditional in sigc++/ (header guards excluded) *)")
    L.append("Definition gen_pp_conditionals : list (string * string) := [")
    L.append(";\n".join("  (%s, %s)" % (coq_str(w), coq_str(m)) for w, m in pp_conds))
    L.append("].")
    L.append("")
    L.append("(* file, enclosing function, kind, target type: explicit conversions written in the headers *)")
    L.append("Definition gen_casts : list (string * string * string * string) := [")
    L.append(";\n".join("  (%s, %s, %s, %s)" % tuple(coq_str(x) for x in row) for row in casts))
    L.append("].")
    L.append("(* base classes in declaration order (destruction runs in the reverse order) *)")
    L.append("Definition gen_bases : list (string * list string) := [")
    L.append(";\n".join("  (%s, [%s])" % (coq_str(c), "; ".join(coq_str(b) for b in bs)) for c, bs in bases))
    L.append("].")
    L.append("(* bound mem_fun factories: cv-qualification of the method, class the functor is typed after *)")
    L.append("Definition gen_memfun_class : list (string * string) := [")
    L.append(";\n".join("  (%s, %s)" % (coq_str(cv), coq_str(c)) for cv, c in mfclass))
    L.append("].")
    L.append("(* signal_connect overloads: kind of callable, factory handed to signal.connect(), own parameters passed on in order *)")
    L.append("Definition gen_signal_connect : list (string * string * bool) := [")
    L.append(";\n".join("  (%s, %s, %s)" % (coq_str(k), coq_str(fa), "true" if io else "false") for k, fa, io in sigconn))
    L.append("].")
    L.append("(* %d two-parameter mem_fun factories: %s *)" % (len(mf_verdicts), " ".join(mf_verdicts)))
    L.append("Definition gen_memfun_pass : memptr_pass := %s." % mf_pass)
    L.append("Definition gen_deprecated_only : list string := [%s]." % "; ".join(coq_str(n) for n in dep_only))
    text = "\n".join(L) + "\n"
    os.makedirs(os.path.dirname(outpath), exist_ok=True)
    old = open(outpath).read() if os.path.exists(outpath) else None
    if old != text:
        with open(outpath, "w") as fh:
            fh.write(text)
    return {"visitors": vis, "classes": {k: {"fields": v["fields"], "modes": sorted([hop_mode(o) for o in v["ops"]], key=lambda m: (m != "NoArgs", m)),
                                             "slices": [s for o in v["ops"] for s in o["slices"]]} for k, v in cls.items()},
            "take": take, "casts": casts, "signal_connect": sigconn, "memfun_class": mfclass, "bases": bases, "memfun_pass": [mf_pass, mf_verdicts], "globals": glob, "callsig": cs, "pp_conditionals": pp_conds, "deprecated_only": dep_only, "digest": hashlib.sha256(text.encode()).hexdigest()[:16], "changed": old != text}


if __name__ == "__main__":
    incdir = sys.argv[1]
    out = sys.argv[2] if len(sys.argv) > 2 else os.path.join(VERIF, "coq", "gen", "Tables.v")
    info = generate(incdir, out)
    print(json.dumps({k: v for k, v in info.items() if k in ("digest", "changed")}))
