"""Shared machinery for the /verif checks: build of the implementation from /repo's working
tree, build of the Coq development and the extracted model, evidence writing, verdict lines."""
import fcntl, hashlib, json, os, re, shutil, subprocess, sys, time

VERIF = os.path.dirname(os.path.dirname(os.path.abspath(__file__)))
REPO = os.environ.get("VERIF_REPO", "/repo")
BUILD = os.path.join(VERIF, "build")
COQ = os.path.join(VERIF, "coq")
NPROC = os.cpu_count() or 4
HOOK_GUARD = "SIGCXX_VERIF_HOOKS"

LIB_SOURCES = ["sigc++/connection.cc", "sigc++/scoped_connection.cc", "sigc++/signal_base.cc",
               "sigc++/trackable.cc", "sigc++/functors/slot_base.cc"]

VARIANTS = {
    # name: (compiler, flags)
    "asan":    ("g++",     ["-O1", "-g", "-fsanitize=address,undefined", "-fno-sanitize-recover=all", "-fno-omit-frame-pointer"]),
    "plain":   ("g++",     ["-O1", "-g"]),
    "tsan":    ("g++",     ["-O1", "-g", "-fsanitize=thread"]),
    "gcc-O0":  ("g++",     ["-O0"]),
    "gcc-O2":  ("g++",     ["-O2"]),
    "gcc-O3":  ("g++",     ["-O3"]),
    "clang-O0": ("clang++", ["-O0"]),
    "clang-O2": ("clang++", ["-O2"]),
    "clang-O3": ("clang++", ["-O3"]),
    "gcc-O0-nodep":  ("g++",     ["-O0", "-DVERIF_NODEP"]),
    "gcc-O2-nodep":  ("g++",     ["-O2", "-DVERIF_NODEP"]),
    "gcc-O3-nodep":  ("g++",     ["-O3", "-DVERIF_NODEP"]),
    "clang-O0-nodep": ("clang++", ["-O0", "-DVERIF_NODEP"]),
    "clang-O2-nodep": ("clang++", ["-O2", "-DVERIF_NODEP"]),
    "clang-O3-nodep": ("clang++", ["-O3", "-DVERIF_NODEP"]),
    "clang-ubsan-fn": ("clang++", ["-O1", "-g", "-fsanitize=undefined,function", "-fno-sanitize-recover=all"]),
    "valgrind": ("g++", ["-O0", "-g"]),
}


class MachineryError(Exception):
    """The checking machinery itself failed (exit 2, never a verdict)."""


def log(*a):
    print(*a, file=sys.stderr, flush=True)


def run(cmd, timeout=None, cwd=None, env=None, input=None, check=False):
    p = subprocess.run(cmd, cwd=cwd, env=env, input=input, timeout=timeout,
                       stdout=subprocess.PIPE, stderr=subprocess.PIPE, text=True, errors="replace")
    if check and p.returncode != 0:
        raise MachineryError("command failed (%d): %s\n%s\n%s" % (p.returncode, " ".join(cmd), p.stdout[-4000:], p.stderr[-4000:]))
    return p


def repo_files():
    out = []
    for root, _dirs, files in os.walk(os.path.join(REPO, "sigc++")):
        for f in files:
            if f.endswith((".h", ".cc")):
                out.append(os.path.join(root, f))
    out.append(os.path.join(REPO, "sigc++config.h.cmake"))
    out.append(os.path.join(REPO, "CMakeLists.txt"))
    return sorted(out)


_repo_hash = None


def repo_hash():
    """Content hash of the library sources in /repo's *working tree* (recomputed per process)."""
    global _repo_hash
    if _repo_hash is None:
        h = hashlib.sha256()
        for f in repo_files():
            h.update(f.encode())
            with open(f, "rb") as fh:
                h.update(fh.read())
        _repo_hash = h.hexdigest()[:16]
    return _repo_hash


def file_hash(*paths):
    h = hashlib.sha256()
    for p in paths:
        with open(p, "rb") as fh:
            h.update(fh.read())
    return h.hexdigest()[:16]


class flock:
    def __init__(self, path):
        self.path = path

    def __enter__(self):
        os.makedirs(os.path.dirname(self.path), exist_ok=True)
        self.fh = open(self.path, "w")
        fcntl.flock(self.fh, fcntl.LOCK_EX)
        return self

    def __exit__(self, *a):
        fcntl.flock(self.fh, fcntl.LOCK_UN)
        self.fh.close()


def prune_build(keep_hash):
    """Keep disk use bounded: drop the oldest build caches of other source hashes (the three most
    recent ones are kept so that alternating between trees does not thrash)."""
    libroot = os.path.join(BUILD, "lib")
    if not os.path.isdir(libroot):
        return
    dirs = [d for d in os.listdir(libroot) if not d.endswith(".lock") and d != keep_hash and os.path.isdir(os.path.join(libroot, d))]
    dirs.sort(key=lambda d: os.path.getmtime(os.path.join(libroot, d)), reverse=True)
    for d in dirs[3:]:
        shutil.rmtree(os.path.join(libroot, d), ignore_errors=True)
        try:
            os.remove(os.path.join(libroot, d + ".lock"))
        except OSError:
            pass


def gen_config_header(dst_dir, nodep):
    src = open(os.path.join(REPO, "sigc++config.h.cmake")).read()
    cm = open(os.path.join(REPO, "CMakeLists.txt")).read()
    vals = {}
    for k in ("MAJOR", "MINOR", "MICRO"):
        m = re.search(r"set\s*\(\s*SIGCXX_%s_VERSION\s+(\d+)\s*\)" % k, cm)
        vals["SIGCXX_%s_VERSION" % k] = m.group(1) if m else "0"

    def repl(m):
        name = m.group(1)
        if name == "SIGCXX_DISABLE_DEPRECATED":
            return "#define SIGCXX_DISABLE_DEPRECATED 1" if nodep else "/* #undef SIGCXX_DISABLE_DEPRECATED */"
        if name in vals:
            return "#define %s %s" % (name, vals[name])
        return "/* #undef %s */" % name
    out = re.sub(r"#cmakedefine\s+(\w+)[^\n]*", repl, src)
    os.makedirs(dst_dir, exist_ok=True)
    with open(os.path.join(dst_dir, "sigc++config.h"), "w") as fh:
        fh.write(out)


def lib_build(variant):
    """Compile the five library .cc files from /repo's working tree for a build variant.
    Returns (dir, error): dir holds libsigc.a and sigc++config.h; error is compiler output or None."""
    cxx, flags = VARIANTS[variant]
    h = repo_hash()
    d = os.path.join(BUILD, "lib", h, variant)
    with flock(os.path.join(BUILD, "lib", h + ".lock")):
        prune_build(h)
        stamp = os.path.join(d, "ok")
        if os.path.exists(stamp):
            return d, None
        if os.path.exists(os.path.join(d, "fail")):
            return d, open(os.path.join(d, "fail")).read()
        os.makedirs(d, exist_ok=True)
        gen_config_header(d, "-DVERIF_NODEP" in flags)
        procs = []
        for s in LIB_SOURCES:
            o = os.path.join(d, os.path.basename(s)[:-3] + ".o")
            cmd = [cxx, "-std=c++17", "-D" + HOOK_GUARD] + flags + ["-I", d, "-I", REPO, "-c", os.path.join(REPO, s), "-o", o]
            procs.append((o, subprocess.Popen(cmd, stdout=subprocess.PIPE, stderr=subprocess.STDOUT, text=True)))
        errs = ""
        objs = []
        for o, p in procs:
            out, _ = p.communicate()
            if p.returncode != 0:
                errs += out
            objs.append(o)
        if errs:
            with open(os.path.join(d, "fail"), "w") as fh:
                fh.write(errs)
            return d, errs
        run(["ar", "rcs", os.path.join(d, "libsigc.a")] + objs, check=True)
        open(stamp, "w").write("ok")
        return d, None


def driver_build(srcs, variant, extra_flags=(), name=None):
    """Compile harness C++ file(s) against the library built from the working tree.
    Returns (exe, error)."""
    if isinstance(srcs, str):
        srcs = [srcs]
    cxx, flags = VARIANTS[variant]
    libdir, err = lib_build(variant)
    if err:
        return None, err
    name = name or os.path.splitext(os.path.basename(srcs[0]))[0]
    import glob as _glob
    hdrs = sorted(_glob.glob(os.path.join(VERIF, "harness", "*.h")))      # headers the drivers include
    key = file_hash(*(list(srcs) + hdrs)) + "-" + hashlib.sha256(" ".join(extra_flags).encode()).hexdigest()[:8]
    exe = os.path.join(libdir, "%s-%s" % (name, key))
    with flock(exe + ".lock"):
        if os.path.exists(exe):
            return exe, None
        objs = []
        procs = []
        for s in srcs:
            o = exe + "." + os.path.basename(s) + ".o"
            cmd = [cxx, "-std=c++17", "-D" + HOOK_GUARD] + flags + list(extra_flags) + ["-I", libdir, "-I", REPO, "-I", os.path.join(VERIF, "harness"), "-c", s, "-o", o]
            procs.append((o, subprocess.Popen(cmd, stdout=subprocess.PIPE, stderr=subprocess.STDOUT, text=True)))
        errs = ""
        for o, p in procs:
            out, _ = p.communicate()
            if p.returncode != 0:
                errs += out
            objs.append(o)
        if errs:
            for o in objs:
                if os.path.exists(o):
                    os.remove(o)
            if "probe.cc" in errs and "-DVERIF_NO_PROBE" not in extra_flags and any(s.endswith("probe.cc") for s in srcs):
                # the -Dprivate=public probe no longer compiles against this tree: switch probes off
                log("probe.cc does not compile against the working tree: probes switched off")
                return driver_build(srcs, variant, tuple(extra_flags) + ("-DVERIF_NO_PROBE",), name)
            return None, errs
        cmd = [cxx] + flags + objs + [os.path.join(libdir, "libsigc.a"), "-o", exe + ".tmp", "-pthread"]
        p = run(cmd)
        for o in objs:
            os.remove(o)
        if p.returncode != 0:
            return None, p.stdout + p.stderr
        os.rename(exe + ".tmp", exe)
        return exe, None


# ---------------------------------------------------------------------------------------------
# Coq side

FORBIDDEN = re.compile(r"\b(Admitted|admit|Axiom|Axioms|Parameter|Parameters|Conjecture|Admit Obligations|Unset Guard Checking|"
                       r"bypass_check|Unset Positivity Checking|Unset Universe Checking|native_compute|type-in-type|impredicative-set)\b")


def strip_coq_comments(s):
    out = []
    depth = 0
    i = 0
    while i < len(s):
        if s.startswith("(*", i):
            depth += 1
            i += 2
        elif s.startswith("*)", i) and depth > 0:
            depth -= 1
            i += 2
        else:
            if depth == 0:
                out.append(s[i])
            i += 1
    return "".join(out)


def coq_sources():
    out = []
    for root, _d, files in os.walk(COQ):
        for f in files:
            if f.endswith(".v"):
                out.append(os.path.join(root, f))
    return sorted(out)


def forbidden_vernacular():
    """grep for anything that would declare an axiom or switch off a kernel check."""
    hits = []
    for f in coq_sources():
        body = strip_coq_comments(open(f).read())
        for n, line in enumerate(body.split("\n"), 1):
            m = FORBIDDEN.search(line)
            if m:
                hits.append("%s:%d: %s" % (os.path.relpath(f, VERIF), n, line.strip()))
            if re.match(r"\s*(Variable|Variables|Hypothesis|Hypotheses|Context)\b", line):
                # legal only inside a Section: checked by coqc itself producing an axiom -> Print Assumptions
                pass
    return hits


def ensure_tables():
    """Regenerate coq/gen/Tables.v from /repo's working tree (translator output cached per source
    hash).  Returns (info dict or None, error text or None)."""
    import importlib
    sys.path.insert(0, os.path.join(VERIF, "translate"))
    libdir, err = lib_build("asan")
    if err:
        return None, err
    tkey = file_hash(os.path.join(VERIF, "translate", "cxx2coq.py"))[:10]      # a changed translator invalidates its cache
    cache = os.path.join(os.path.dirname(libdir), "Tables-%s.v" % tkey)
    info_cache = os.path.join(os.path.dirname(libdir), "Tables-%s.json" % tkey)
    dst = os.path.join(COQ, "gen", "Tables.v")
    os.makedirs(os.path.dirname(dst), exist_ok=True)
    os.makedirs(BUILD, exist_ok=True)
    with flock(os.path.join(BUILD, "tables.lock")):
        if not (os.path.exists(cache) and os.path.exists(info_cache)):
            cxx2coq = importlib.import_module("cxx2coq")
            info = cxx2coq.generate(libdir, cache + ".tmp")
            os.rename(cache + ".tmp", cache)
            json.dump(info, open(info_cache, "w"), default=str)
        text = open(cache).read()
        if not os.path.exists(dst) or open(dst).read() != text:
            with flock(os.path.join(BUILD, "coq.lock")):
                open(dst, "w").write(text)
        return json.load(open(info_cache)), None


def coq_make(targets=(), timeout=1800):
    """(Re)build the Coq development: full .vo build, never -vos. Returns (ok, output)."""
    os.makedirs(os.path.join(VERIF, "ocaml", "extracted"), exist_ok=True)     # Extract.v writes there
    os.makedirs(os.path.join(COQ, "gen"), exist_ok=True)
    with flock(os.path.join(BUILD, "coq.lock")):
        if not os.path.exists(os.path.join(COQ, "Makefile")) or \
           os.path.getmtime(os.path.join(COQ, "Makefile")) < os.path.getmtime(os.path.join(COQ, "_CoqProject")):
            run(["coq_makefile", "-f", "_CoqProject", "-o", "Makefile"], cwd=COQ, check=True)
        p = run(["timeout", str(timeout), "make", "-k", "-j%d" % NPROC] + list(targets), cwd=COQ)
        return p.returncode == 0, p.stdout + p.stderr


def coq_compile_file(path, timeout=600):
    """coqc one file (used for generated obligations and in-Coq evaluation). Returns (ok, stdout+stderr)."""
    p = run(["timeout", str(timeout), "coqc", "-R", COQ, "Sigc", path], cwd=os.path.dirname(path))
    return p.returncode == 0, p.stdout + p.stderr


def check_property_file(pid, extra_files=()):
    """Re-check Properties_<pid>.v from scratch (the .vo is deleted first so that coqc really
    re-runs and prints its Print Assumptions output).  Returns dict with
    ok, theorems (names), assumptions {name: text}, output."""
    f = os.path.join(COQ, "Properties_%s.v" % pid)
    res = {"ok": False, "theorems": [], "assumptions": {}, "output": "", "file": f}
    if not os.path.exists(f):
        res["output"] = "missing " + f
        return res
    ok, out = coq_make(["Properties_%s.vo" % pid])
    # make builds dependencies; now force the property file itself to be re-checked verbosely
    vo = f[:-2] + ".vo"
    if os.path.exists(vo):
        os.remove(vo)
    ok2, out2 = coq_compile_file(f)
    res["output"] = (out if not ok else "") + out2
    src = strip_coq_comments(open(f).read())
    res["theorems"] = re.findall(r"^\s*(?:Theorem|Corollary|Example|Lemma)\s+(\w+)", src, re.M)
    # parse Print Assumptions output: blocks follow in the order of the Print commands
    printed = re.findall(r"^\s*Print Assumptions\s+(\w+)\s*\.", src, re.M)
    blocks = re.split(r"(?m)^(?=Closed under the global context|Axioms:|Section Variables:)", out2)
    blocks = [b.strip() for b in blocks if b.strip().startswith(("Closed under", "Axioms:", "Section Variables:"))]
    for name, b in zip(printed, blocks):
        res["assumptions"][name] = b
    res["ok"] = ok and ok2 and len(blocks) == len(printed)
    res["all_closed"] = all(b.startswith("Closed under the global context") for b in blocks) and len(blocks) == len(printed)
    return res


# ---------------------------------------------------------------------------------------------
# Extracted model

def model_build():
    """Extract the models to OCaml and build the driver. Returns path of executable."""
    _info, terr = ensure_tables()
    if terr:
        raise MachineryError("library does not compile, cannot regenerate tables:\n" + terr[-3000:])
    ok, out = coq_make(["Extract.vo"])
    exe = os.path.join(VERIF, "ocaml", "_build", "model")
    with flock(os.path.join(BUILD, "ocaml.lock")):
        srcs = [os.path.join(VERIF, "ocaml", "extracted", "model.ml"), os.path.join(VERIF, "ocaml", "driver.ml")]
        if not ok or not os.path.exists(srcs[0]):
            raise MachineryError("extraction failed:\n" + out[-4000:])
        stamp = exe + ".hash"
        h = file_hash(*srcs)
        if os.path.exists(exe) and os.path.exists(stamp) and open(stamp).read() == h:
            return exe
        os.makedirs(os.path.dirname(exe), exist_ok=True)
        bd = os.path.dirname(exe)
        for s in srcs + [srcs[0] + "i"]:
            shutil.copy(s, bd)
        run(["ocamlfind", "ocamlopt", "-package", "unix", "-linkpkg", "-w", "-a", "-inline", "100", "model.mli", "model.ml", "driver.ml", "-o", "model"], cwd=bd, check=True)
        open(stamp, "w").write(h)
        return exe


# ---------------------------------------------------------------------------------------------
# Known findings, verdicts, evidence

def known_findings():
    path = os.path.join(VERIF, "known_findings.txt")
    known, fixed = [], []
    if os.path.exists(path):
        for line in open(path):
            line = line.strip()
            if line.startswith("known:"):
                m = re.match(r"known:\s*property=(\S+)\s+key=(\S+)\s+match=(\S+)\s*::\s*(.*)", line)
                if m:
                    known.append({"property": m.group(1), "key": m.group(2), "match": m.group(3), "what": m.group(4)})
            elif line.startswith("fixed:"):
                fixed.append(line)
    return known, fixed


class Verdict:
    def __init__(self, pid, tier, seed):
        self.pid, self.tier, self.seed = pid, tier, seed
        self.t0 = time.time()
        self.violations = []   # (replay_path, suffix)
        self.known = []
        self.coverage = {}
        self.assumptions = []
        self.level = "proof"

    def replay_path(self, tag):
        d = os.path.join(VERIF, "replay")
        os.makedirs(d, exist_ok=True)
        return os.path.join(d, "%s-%s-%d.json" % (self.pid, tag, self.seed))

    def violation(self, tag, payload, no_input=False):
        p = self.replay_path(tag)
        with open(p, "w") as fh:
            json.dump(payload, fh, indent=1, default=str)
        self.violations.append((p, " no-failing-input-found" if no_input else ""))

    def known_finding(self, what):
        self.known.append(what)

    def finish(self):
        os.makedirs(os.path.join(VERIF, "evidence"), exist_ok=True)
        ev = {"property_id": self.pid, "tier": self.tier, "seed": self.seed, "level": self.level,
              "coverage": self.coverage, "assumptions": self.assumptions,
              "wall_s": round(time.time() - self.t0, 2), "violations": len(self.violations),
              "known_findings": self.known, "repo_hash": repo_hash()}
        suffix = ".dev.json" if (os.environ.get("VERIF_DEV_SKIP_PROOF") or os.path.realpath(REPO) != "/repo") else ".json"   # dev runs never overwrite real evidence
        with open(os.path.join(VERIF, "evidence", self.pid + suffix), "w") as fh:
            json.dump(ev, fh, indent=1, default=str)
        for k in self.known:
            print("KNOWN-FINDING: property=%s %s" % (self.pid, k))
        for p, suffix in self.violations:
            print("VIOLATION property=%s replay=%s%s" % (self.pid, p, suffix))
        sys.stdout.flush()
        return 1 if self.violations else 0


TRUSTED_BASE_COMMON = [
    "Coq 8.16.1 kernel (coqc), incl. its vm_compute machine; no native_compute",
    "extraction: ExtrOcamlBasic only (Extract Inductive bool/option/unit/list/prod/sumbool/sumor; no Extract Constant), OCaml 4.13.1",
    "hand-written Gallina models of the C++ (std::list, shared_ptr/weak_ptr, unique_ptr, destruction order, exception unwinding taken with their standard meaning)",
    "correspondence harness (harness/*.cc, generators, canonicaliser), g++ 12 / clang++ 14 and their sanitizer runtimes",
]
