(* driver.ml -- reads programs (one per line) and prints the model's canonical trace (one line each).
   usage: model track | model sig [fuel]           (stdin -> stdout) *)
exception Parse of string
open Model

let rec pos_of_int (i : int) : positive =
  if i = 1 then XH else if i land 1 = 0 then XO (pos_of_int (i lsr 1)) else XI (pos_of_int (i lsr 1))
let n_of_int (i : int) : n = if i <= 0 then N0 else Npos (pos_of_int i)
let rec int_of_pos = function XH -> 1 | XO p -> 2 * int_of_pos p | XI p -> 2 * int_of_pos p + 1
let int_of_n = function N0 -> 0 | Npos p -> int_of_pos p
let rec nat_of_int (i : int) : nat = if i <= 0 then O else S (nat_of_int (i - 1))

let b_of s = (s = "1")
let sb b = if b then "1" else "0"


(* ---------------------------------------------------------------------------------------- *)
(* trackable programs:  K <key> <n> (r|a <key>)*n ... M <ops>
   ops: new t | cc tn to | mc tn to | as td ts | ma td ts | no t | de t | add t k | rm t k *)
let run_track line =
  let toks = Array.of_list (List.filter (fun s -> s <> "") (String.split_on_char ' ' line)) in
  let pos = ref 0 in
  let next () = if !pos >= Array.length toks then raise (Parse "eof") else (let t = toks.(!pos) in incr pos; t) in
  let nexti () = int_of_string (next ()) in
  let scripts = Hashtbl.create 8 in
  let rec header () =
    match next () with
    | "K" ->
        let k = nexti () in
        let cnt = nexti () in
        let acts = List.init cnt (fun _ ->
          let a = next () in let k2 = nexti () in
          if a = "r" then CRemove (n_of_int k2) else CAdd (n_of_int k2)) in
        Hashtbl.replace scripts k acts; header ()
    | "M" -> ()
    | t -> raise (Parse ("track header " ^ t)) in
  header ();
  let script k = try Hashtbl.find scripts k with Not_found -> [] in
  let w = ref w0 in
  let ridinfo = Hashtbl.create 16 in
  while !pos < Array.length toks do
    let o = match next () with
      | "new" -> let t = nexti () in TNew (n_of_int t)
      | "cc" -> let a = nexti () in let b = nexti () in TCopyCtor (n_of_int a, n_of_int b)
      | "mc" -> let a = nexti () in let b = nexti () in TMoveCtor (n_of_int a, n_of_int b)
      | "as" -> let a = nexti () in let b = nexti () in TAssign (n_of_int a, n_of_int b)
      | "ma" -> let a = nexti () in let b = nexti () in TMoveAssign (n_of_int a, n_of_int b)
      | "no" -> let t = nexti () in TNotify (n_of_int t)
      | "de" -> let t = nexti () in TDestroy (n_of_int t)
      | "add" -> let t = nexti () in let k = nexti () in TAdd (n_of_int t, n_of_int k, script k)
      | "rm" -> let t = nexti () in let k = nexti () in TRemove (n_of_int t, n_of_int k)
      | t -> raise (Parse ("track op " ^ t)) in
    let before = int_of_n (!w).next_rid in
    w := step !w o;
    (match o with
     | TAdd (t, k, _) when int_of_n (!w).next_rid > before -> Hashtbl.replace ridinfo before (int_of_n t, int_of_n k)
     | _ -> ())
  done;
  let b = Buffer.create 64 in
  List.iter (fun r ->
      let (t, k) = Hashtbl.find ridinfo (int_of_n r) in
      Buffer.add_string b (Printf.sprintf "d%d.%d " t k)) (delivered !w);
  Buffer.add_string b "|";
  List.iter (fun (t, o) ->
      Buffer.add_string b (match o with
          | Some l -> Printf.sprintf " %d:%d" (int_of_n t) (int_of_n l)
          | None -> Printf.sprintf " %d:-" (int_of_n t))) (obs_lists !w);
  Buffer.contents b

(* ---------------------------------------------------------------------------------------- *)
(* signal programs, see harness/FORMAT.md *)
let parse_sig line : program =
  let toks = Array.of_list (List.filter (fun s -> s <> "") (String.split_on_char ' ' line)) in
  let pos = ref 0 in
  let peek () = if !pos >= Array.length toks then "" else toks.(!pos) in
  let next () = if !pos >= Array.length toks then raise (Parse "eof") else (let t = toks.(!pos) in incr pos; t) in
  let ni () = n_of_int (int_of_string (next ())) in
  let nb () = b_of (next ()) in
  let rk () = match next () with "v" -> RV | "i" -> RI | t -> raise (Parse ("rkind " ^ t)) in
  let is_section t = (t = "S" || t = "A" || t = "M" || t = "O" || t = "") in
  let parse_op () : op =
    match next () with
    | "tnew" -> let t = ni () in OTNew t
    | "tdel" -> let t = ni () in OTDel t
    | "tasg" -> let a = ni () in let b = ni () in OTAssign (a, b)
    | "tmasg" -> let a = ni () in let b = ni () in OTMoveAssign (a, b)
    | "tnot" -> let t = ni () in OTNotify t
    | "tnewsh" -> let t = ni () in OTNewShared t
    | "trel" -> let t = ni () in OTRelease t
    | "snew" ->
        let s = ni () in let k = rk () in let body = ni () in let _shape = next () in
        let cnt = int_of_string (next ()) in
        let refs = List.init cnt (fun _ -> ni ()) in
        OSNew (s, k, body, refs)
    | "sempty" -> let s = ni () in let k = rk () in OSEmpty (s, k)
    | "scopy" -> let a = ni () in let b = ni () in OSCopy (a, b)
    | "smove" -> let a = ni () in let b = ni () in OSMove (a, b)
    | "sasg" -> let a = ni () in let b = ni () in OSAssign (a, b)
    | "smasg" -> let a = ni () in let b = ni () in OSMoveAssign (a, b)
    | "scall" -> let s = ni () in let a = ni () in let c = nb () in OSCall (s, a, c)
    | "sblock" -> let s = ni () in let b = nb () in OSBlock (s, b)
    | "sdisc" -> let s = ni () in OSDisc s
    | "sdel" -> let s = ni () in OSDel s
    | "sq" -> let s = ni () in OSQuery s
    | "gnew" ->
        let g = ni () in let k = rk () in
        let acc = int_of_string (next ()) in let tr = nb () in
        OGNew (g, { gk_ret = k; gk_acc = (if acc < 0 then None else Some (n_of_int acc)); gk_track = tr })
    | "gcopy" -> let a = ni () in let b = ni () in OGCopy (a, b)
    | "gmove" -> let a = ni () in let b = ni () in OGMove (a, b)
    | "gasg" -> let a = ni () in let b = ni () in OGAssign (a, b)
    | "gmasg" -> let a = ni () in let b = ni () in OGMoveAssign (a, b)
    | "gdel" -> let g = ni () in OGDel g
    | "gshare" -> let g = ni () in OGShare g
    | "grel" -> let g = ni () in OGRelease g
    | "gconn" ->
        let g = ni () in let s = ni () in let c = int_of_string (next ()) in
        let front = nb () in let mv = nb () in
        OGConnect (g, s, (if c < 0 then None else Some (n_of_int c)), front, mv)
    | "gemit" -> let g = ni () in let a = ni () in let c = nb () in OGEmit (g, a, c)
    | "gclear" -> let g = ni () in OGClear g
    | "gblock" -> let g = ni () in let b = nb () in OGBlock (g, b)
    | "gq" -> let g = ni () in OGQuery g
    | "gmk" -> let s = ni () in let g = ni () in OGMakeSlot (s, g)
    | "cempty" -> let c = ni () in OCEmpty c
    | "ccopy" | "cmove" -> let a = ni () in let b = ni () in OCCopy (a, b)          (* sigc::connection has no move operations: moving copies *)
    | "casg" | "cmasg" -> let a = ni () in let b = ni () in OCAssign (a, b)
    | "cshare" -> let c = ni () in OCShare c
    | "crel" -> let c = ni () in OCRelease c
    | "cdisc" -> let c = ni () in OCDisc c
    | "cblock" -> let c = ni () in let b = nb () in OCBlock (c, b)
    | "cdel" -> let c = ni () in OCDel c
    | "cq" -> let c = ni () in OCQuery c
    | "knew" | "knewm" -> let k = ni () in let c = ni () in OKNew (k, c)
    | "kempty" -> let k = ni () in OKEmpty k
    | "kasg" | "kasgm" -> let k = ni () in let c = ni () in OKAssign (k, c)
    | "kmove" -> let a = ni () in let b = ni () in OKMove (a, b)
    | "kmasg" -> let a = ni () in let b = ni () in OKMoveAssign (a, b)
    | "kswap" -> let a = ni () in let b = ni () in OKSwap (a, b)
    | "krel" -> let k = ni () in let c = ni () in OKRelease (k, c)
    | "kdisc" -> let k = ni () in OKDisc k
    | "kblock" -> let k = ni () in let b = nb () in OKBlock (k, b)
    | "kdel" -> let k = ni () in OKDel k
    | "kq" -> let k = ni () in OKQuery k
    | "probe" -> OProbe
    | "throw" -> OThrow
    | t -> raise (Parse ("op " ^ t)) in
  let rec ops acc = if is_section (peek ()) then List.rev acc else let o = parse_op () in ops (o :: acc) in
  let parse_acc () : accop =
    match next () with
    | "acopy" -> let a = ni () in let b = ni () in ACopy (a, b)
    | "ainc" | "aincp" -> let k = ni () in AInc k
    | "adec" | "adecp" -> let k = ni () in ADec k
    | "aderef" -> let k = ni () in ADeref k
    | "awalk" | "awalkp" -> let k = ni () in AWalk k
    | "awalkrev" | "awalkrevp" -> let k = ni () in AWalkRev k
    | "awalkuntil" -> let k = ni () in let z = ni () in AWalkUntil (k, z)
    | t -> raise (Parse ("accop " ^ t)) in
  let rec accops acc = if is_section (peek ()) then List.rev acc else let o = parse_acc () in accops (o :: acc) in
  let scripts = ref [] and accs = ref [] and main = ref [] and owns = ref [] in
  while !pos < Array.length toks do
    match next () with
    | "S" ->
        let id = ni () in
        let rs = (match next () with
            | "c" -> let v = ni () in RConst v
            | "a" -> let v = ni () in RArgPlus v
            | t -> raise (Parse ("retspec " ^ t))) in
        let o = ops [] in
        scripts := (id, (o, rs)) :: !scripts
    | "A" -> let id = ni () in let o = accops [] in accs := (id, o) :: !accs
    | "M" -> main := ops []
    | "O" -> let b = ni () in let cnt = int_of_string (next ()) in
        let ts = List.init cnt (fun _ -> ni ()) in owns := (b, ts) :: !owns
    | t -> raise (Parse ("section " ^ t))
  done;
  { p_scripts = List.rev !scripts; p_accs = List.rev !accs; p_owns = List.rev !owns; p_main = !main }

let print_event (b : Buffer.t) (e : event) : unit =
  let i = int_of_n in
  let s = match e with
    | EEnter (bd, a) -> Printf.sprintf "E%d,%d" (i bd) (i a)
    | ELeave (bd, r) -> Printf.sprintf "L%d,%d" (i bd) (i r)
    | EThrowOut bd -> Printf.sprintf "T%d" (i bd)
    | ECallRet v -> Printf.sprintf "cr%d" (i v)
    | EEmitRet v -> Printf.sprintf "er%d" (i v)
    | EExn -> "X"
    | ESlotQ (e, bl) -> Printf.sprintf "sq%s%s" (sb e) (sb bl)
    | ESigQ (n, e, bl) -> Printf.sprintf "gq%d,%s%s" (i n) (sb e) (sb bl)
    | EConnQ (c, bl) -> Printf.sprintf "cq%s%s" (sb c) (sb bl)
    | EBlockRet o -> Printf.sprintf "br%s" (sb o)
    | EProbe (fs, regs, lk) ->
        let fs = List.sort compare (List.map i fs) in
        let regs = List.sort compare (List.map (fun (t, c) -> (i t, i c)) regs) in
        Printf.sprintf "P[f:%s][r:%s][l:%d]"
          (String.concat "," (List.map string_of_int fs))
          (String.concat "," (List.map (fun (t, c) -> Printf.sprintf "%d=%d" t c) regs))
          (i lk)
    | ESkip -> "-" in
  Buffer.add_string b s; Buffer.add_char b ' '

let err_name = function
  | ErrUAF -> "UAF" | ErrDangling -> "DANGLING" | ErrDoubleErase -> "DOUBLE-ERASE"
  | ErrLoop -> "LOOP" | ErrFuel -> "FUEL" | ErrUnsupported -> "UNSUPPORTED"

let run_sig (fuel : int) line =
  let p = parse_sig line in
  match run_program (nat_of_int fuel) p with
  | Ok st ->
      let b = Buffer.create 256 in
      List.iter (print_event b) (List.rev (trace st));
      Buffer.add_string b (Printf.sprintf "| leaked=%d" (int_of_n st.leaked));
      Buffer.contents b
  | Err e -> "ERR " ^ err_name e


(* ---------------------------------------------------------------------------------------- *)
(* functor expressions (AdaptorModel):  <K> <nargs> <v1> ... | <term>   (prefix notation) *)
let rec z_of_int (i : int) : z = if i = 0 then Z0 else if i > 0 then Zpos (pos_of_int i) else Zneg (pos_of_int (- i))
let int_of_z = function Z0 -> 0 | Zpos p -> int_of_pos p | Zneg p -> - (int_of_pos p)

let run_expr line =
  let toks = Array.of_list (List.filter (fun s -> s <> "") (String.split_on_char ' ' line)) in
  let pos = ref 0 in
  let next () = if !pos >= Array.length toks then raise (Parse "eof") else (let t = toks.(!pos) in incr pos; t) in
  let nexti () = int_of_string (next ()) in
  let k = nexti () in
  let nargs = nexti () in
  let vals = List.init nargs (fun _ -> nexti ()) in
  if next () <> "|" then raise (Parse "expected |");
  let parse_bound () =
    let t = next () in
    let v = int_of_string (String.sub t 1 (String.length t - 1)) in
    match t.[0] with
    | 'v' -> BVal (z_of_int v) | 'r' -> BRef (n_of_int v) | 'c' -> BCRef (n_of_int v)
    | 'f' -> BFunMem (n_of_int v) | 's' -> BSlotMem (n_of_int v) | 't' -> BTrackVal
    | _ -> raise (Parse ("bound " ^ t)) in
  let rec term () : fexpr =
    match next () with
    | "leaf" -> let id = nexti () in let th = nexti () in FLeaf (n_of_int id, th <> 0)
    | "leafref" -> let id = nexti () in FLeafRef (n_of_int id)
    | "mem" ->
        let t = nexti () in let id = nexti () in let cnt = nexti () in
        let kinds = List.init cnt (fun _ -> match next () with "v" -> PVal | "r" -> PRef | "c" -> PCRef | x -> raise (Parse ("kind " ^ x))) in
        FMem (n_of_int t, n_of_int id, kinds)
    | "bind" ->
        let loc = nexti () in let nb = nexti () in
        let bs = List.init nb (fun _ -> parse_bound ()) in
        let f = term () in
        FBind ((if loc < 0 then None else Some (nat_of_int loc)), f, bs)
    | "hide" -> let loc = nexti () in let f = term () in FHide ((if loc < 0 then None else Some (nat_of_int loc)), f)
    | "retype" -> let f = term () in FRetype f
    | "rr" -> let f = term () in FRetypeReturn f
    | "hr" -> let f = term () in FHideReturn f
    | "br" -> let b = parse_bound () in let f = term () in FBindReturn (f, b)
    | "c1" -> let s = term () in let g = term () in FCompose1 (s, g)
    | "c2" -> let s = term () in let g1 = term () in let g2 = term () in FCompose2 (s, g1, g2)
    | "ec" -> let c = nexti () in let f = term () in FExcCatch (f, n_of_int c)
    | "to" -> let cnt = nexti () in let ts = List.init cnt (fun _ -> n_of_int (nexti ())) in let f = term () in FTrackObj (f, ts)
    | "slot" -> let f = term () in FSlot f
    | t -> raise (Parse ("term " ^ t)) in
  let e = term () in
  let args = List.mapi (fun i v -> { a_v = z_of_int v; a_id = IOrig (nat_of_int i) }) vals in
  let vis = List.map int_of_n (visited gen_visit_table e) in
  let rf = List.map int_of_n (refs e) in
  let counts l = String.concat "," (List.init k (fun t -> Printf.sprintf "%d=%d" t (List.length (List.filter (fun x -> x = t) l)))) in
  let inval l = String.concat "," (List.map string_of_int (List.filter (fun t -> List.mem t l) (List.init k (fun t -> t)))) in
  let rec nat_to_int = function O -> 0 | S m -> 1 + nat_to_int m in
  let show_ident = function IOrig m -> "o" ^ string_of_int (nat_to_int m) | IBoundRef t -> "b" ^ string_of_int (int_of_n t) | ICopy -> "c" in
  let show_log l = String.concat "" (List.map (fun (id, a) ->
      Printf.sprintf "%d(%s)" (int_of_n id) (String.concat "," (List.map (fun x -> Printf.sprintf "%d:%s" (int_of_z x.a_v) (show_ident x.a_id)) a))) l) in
  let show_res = function RInt v -> string_of_int (int_of_z v) | RRef a -> Printf.sprintf "ref%d:%s" (int_of_z a.a_v) (show_ident a.a_id) | RVoid -> "void" | RThrow -> "throw" in
  let show_c = function COk (l, r) -> show_log l ^ ";" ^ show_res r | CIllFormed -> "ILLFORMED" in
  let (dl, dr) = call_doc e args in
  Printf.sprintf "wt=%b regs=[%s] inval=[%s] docregs=[%s] direct=%s slot=%s doc=%s"
    (wt e (nat_of_int nargs) && wf_values e)
    (counts vis) (inval vis) (counts rf)
    (show_c (call gen_hop_modes gen_slices e true args))
    (show_c (call gen_hop_modes gen_slices (FSlot e) true args))
    (show_log dl ^ ";" ^ show_res dr)

(* ---------------------------------------------------------------------------------------- *)
(* C05: type queries.  "binds" / "results" dump the tables; "q n A.. R | functor" asks one verdict *)
let base_of_code = function
  | "i" -> TInt | "l" -> TLong | "d" -> TDouble | "b" -> TBool | "B" -> TB | "D" -> TD | "U" -> TU | "p" -> TPB | "q" -> TPD
  | t -> raise (Parse ("base " ^ t))
let code_of_base = function
  | TInt -> "i" | TLong -> "l" | TDouble -> "d" | TBool -> "b" | TB -> "B" | TD -> "D" | TU -> "U" | TPB -> "p" | TPD -> "q"
let form_of_code = function "v" -> FVal | "l" -> FLRef | "c" -> FCRef | "r" -> FRRef | t -> raise (Parse ("form " ^ t))
let code_of_form = function FVal -> "v" | FLRef -> "l" | FCRef -> "c" | FRRef -> "r"
let ptype_of tok =
  match String.split_on_char '.' tok with
  | [b; f] -> { pt_base = base_of_code b; pt_form = form_of_code f }
  | _ -> raise (Parse ("ptype " ^ tok))
let rtype_of tok = if tok = "-" then None else Some (base_of_code tok)

let run_types line =
  let toks = Array.of_list (List.filter (fun s -> s <> "") (String.split_on_char ' ' line)) in
  let pos = ref 0 in
  let next () = if !pos >= Array.length toks then raise (Parse "eof") else (let t = toks.(!pos) in incr pos; t) in
  let nexti () = int_of_string (next ()) in
  match next () with
  | "binds" ->
      String.concat " " (List.concat_map (fun p -> List.map (fun a ->
          Printf.sprintf "%s.%s:%s%s=%d" (code_of_base p.pt_base) (code_of_form p.pt_form) (code_of_base a.ae_base)
            (if a.ae_const then "c" else "m") (if binds p a then 1 else 0)) all_argexprs) all_ptypes)
  | "explicit" ->
      String.concat " " (List.concat_map (fun p -> List.map (fun a ->
          Printf.sprintf "%s.%s:%s%s=%d" (code_of_base p.pt_base) (code_of_form p.pt_form) (code_of_base a.ae_base)
            (if a.ae_const then "c" else "m") (if explicit_ok p a then 1 else 0)) all_argexprs) all_ptypes)
  | "results" ->
      String.concat " " (List.concat_map (fun s -> List.map (fun d ->
          Printf.sprintf "%s>%s=%d" (code_of_base s) (code_of_base d) (if converts s d then 1 else 0)) all_bases) all_bases)
  | "q" ->
      let n = nexti () in
      let sg = List.init n (fun _ -> ptype_of (next ())) in
      let r = rtype_of (next ()) in
      if next () <> "|" then raise (Parse "expected |");
      let rec fty () =
        match next () with
        | "fun" -> let k = nexti () in let ps = List.init k (fun _ -> ptype_of (next ())) in let rf = rtype_of (next ()) in TFun (ps, rf)
        | "mem" ->
            let rel = (match nexti () with 0 -> RSame | 1 -> RMethInBase | 2 -> RMethInDerived | _ -> RUnrelated) in
            let oc = b_of (next ()) in let mc = b_of (next ()) in
            let k = nexti () in let ps = List.init k (fun _ -> ptype_of (next ())) in let rf = rtype_of (next ()) in TMemBound (rel, oc, mc, ps, rf)
        | "bind" -> let v = base_of_code (next ()) in let f = fty () in TBindLast (f, v)
        | "hide" -> let f = fty () in THideLast f
        | "hideat" -> let i = nexti () in let f = fty () in THideAt (nat_of_int i, f)
        | "bindat" -> let i = nexti () in let v = base_of_code (next ()) in let f = fty () in TBindAt (nat_of_int i, f, v)
        | "hr" -> let f = fty () in THideReturn f
        | "retype" -> let f = fty () in TRetype f
        | t -> raise (Parse ("functor " ^ t)) in
      let f = fty () in
      Printf.sprintf "lib=%d direct=%d" (if lib_accepts gen_hop_modes gen_memfun_pass gen_slices sg r f then 1 else 0) (if direct_ok sg r f then 1 else 0)
  | t -> raise (Parse ("types " ^ t))


(* ---------------------------------------------------------------------------------------- *)
(* nested-slot programs: ops separated by ';' (see harness/nest.h); after every op the observation *)
let run_nest line =
  let b = Buffer.create 256 in
  let probe st =
    let (vs, ts) = observe st in
    let vs = List.sort compare (List.map (fun (k, o) -> (int_of_n k, o)) vs) in
    let ts = List.sort compare (List.map (fun (k, o) -> (int_of_n k, o)) ts) in
    Buffer.add_string b "{";
    List.iter (fun (k, o) ->
      Buffer.add_string b (Printf.sprintf "s%d:%s " k (match o with
        | VDead -> "x" | VNull -> "n"
        | VInvalid hp -> if hp then "i+" else "i"
        | VValid hp -> if hp then "v+" else "v"))) vs;
    Buffer.add_string b "|";
    List.iter (fun (k, o) ->
      Buffer.add_string b (Printf.sprintf "t%d:%s " k (match o with None -> "x" | Some c -> string_of_int (int_of_n c)))) ts;
    Buffer.add_string b "} " in
  let parse_op txt =
    let toks = List.filter (fun s -> s <> "") (String.split_on_char ' ' txt) in
    match toks with
    | [] -> None
    | "tnew" :: [a] -> Some (NTNew (n_of_int (int_of_string a)))
    | "tdel" :: [a] -> Some (NTDel (n_of_int (int_of_string a)))
    | "sempty" :: [a] -> Some (NSEmpty (n_of_int (int_of_string a)))
    | "snew" :: a :: _n :: rest ->
        let rec items = function
          | [] -> []
          | k :: id :: tl ->
              let i = n_of_int (int_of_string id) in
              (match k with "t" -> NPTrack i | "r" -> NPRef i | "v" -> NPVal i | x -> raise (Parse ("item " ^ x))) :: items tl
          | _ -> raise (Parse "snew items") in
        Some (NSNew (n_of_int (int_of_string a), items rest))
    | "scopy" :: [a; c] -> Some (NSCopy (n_of_int (int_of_string a), n_of_int (int_of_string c)))
    | "smove" :: [a; c] -> Some (NSMove (n_of_int (int_of_string a), n_of_int (int_of_string c)))
    | "sasg" :: [a; c] -> Some (NSAssign (n_of_int (int_of_string a), n_of_int (int_of_string c)))
    | "smasg" :: [a; c] -> Some (NSMoveAssign (n_of_int (int_of_string a), n_of_int (int_of_string c)))
    | "sdisc" :: [a] -> Some (NSDisc (n_of_int (int_of_string a)))
    | "sdel" :: [a] -> Some (NSDel (n_of_int (int_of_string a)))
    | "sq" :: [a] -> Some (NSQuery (n_of_int (int_of_string a)))
    | t :: _ -> raise (Parse ("nest op " ^ t)) in
  let st = ref nst0 in
  let failed = ref false in
  List.iter (fun txt ->
    if not !failed then
      match parse_op txt with
      | None -> ()
      | Some o when not (user_ok o !st) ->
          (* the program destroys a slot variable some functor still refers to through std::ref *)
          failed := true; Buffer.add_string b "USER-RULE"
      | Some o ->
          let before = List.length (!st).ntrace in
          (match nstep o !st with
           | NErr e ->
               failed := true;
               Buffer.add_string b (match e with NErrUAF -> "ERR UAF" | NErrLoop -> "ERR LOOP" | NErrUnsupported -> "ERR UNSUPPORTED")
           | NOk st' ->
               let evs = List.rev (List.filteri (fun i _ -> i < List.length st'.ntrace - before) st'.ntrace) in
               List.iter (fun e -> Buffer.add_string b (match e with
                 | NSkip -> "- "
                 | NQ (hr, em) -> Printf.sprintf "q%s%s " (sb hr) (sb em))) evs;
               st := st';
               probe st'))
    (String.split_on_char ';' line);
  if not !failed then Buffer.add_string b "live=0 leak=0";
  Buffer.contents b

exception Timeout

(* a per-program time limit: the model is pure code, so the only way to bound a program whose
   re-entrant scripts fan out exponentially is an alarm signal (handled at allocation points) *)
let with_timeout (secs : int) (f : unit -> 'a) (on_timeout : 'a) : 'a =
  let old = Sys.signal Sys.sigalrm (Sys.Signal_handle (fun _ -> raise Timeout)) in
  ignore (Unix.alarm secs);
  let r = (try f () with Timeout -> on_timeout) in
  ignore (Unix.alarm 0);
  Sys.set_signal Sys.sigalrm old;
  r

let () =
  let mode = if Array.length Sys.argv > 1 then Sys.argv.(1) else "sig" in
  let fuel = if Array.length Sys.argv > 2 then int_of_string Sys.argv.(2) else 8 in
  try
    while true do
      let line = input_line stdin in
      let out =
        try with_timeout 4 (fun () -> match mode with
            | "track" -> run_track line
            | "expr" -> run_expr line
            | "types" -> run_types line
            | "nest" -> run_nest line
            | _ -> run_sig fuel line) "ERR TIMEOUT"
        with Parse m -> "PARSE-ERROR " ^ m
           | Failure m -> "PARSE-ERROR " ^ m
           | Stack_overflow -> "ERR STACK" in
      print_string out; print_newline ()
    done
  with End_of_file -> ()
