# /verif/Makefile -- offline setup: full Coq build (.vo, never -vos), extraction, OCaml model driver
.PHONY: setup coq model clean
setup: coq model
coq:
	mkdir -p ocaml/extracted build coq/gen
	python3 -c "import sys; sys.path.insert(0,'$(CURDIR)'); from vlib.common import ensure_tables; ensure_tables()"
	cd coq && coq_makefile -f _CoqProject -o Makefile && timeout 3000 $(MAKE) -j16
model: coq
	python3 -c "import sys; sys.path.insert(0,'$(CURDIR)'); from vlib.common import model_build; print(model_build())"
clean:
	rm -rf build ocaml/_build ocaml/extracted; cd coq && rm -f *.vo *.vos *.vok *.glob .*.aux gen/*.vo gen/*.glob Makefile Makefile.conf .Makefile.d
