"""Common structure of a property check: proof part (P) + correspondence part (K) + search."""
import json, os, re, sys, time

sys.path.insert(0, os.path.dirname(os.path.dirname(os.path.abspath(__file__))))
sys.path.insert(0, os.path.join(os.path.dirname(os.path.dirname(os.path.abspath(__file__))), "harness"))
from vlib.common import *


def proof_part(v, pid, extra_obligation_files=()):
    """Re-check the Coq side for property pid.  Returns (ok, info).  Fills v.coverage."""
    if os.environ.get("VERIF_DEV_SKIP_PROOF"):      # development aid only; never set by registered commands
        v.coverage.update({"obligations": 0, "discharged": 0, "checker_cmd": "skipped (VERIF_DEV_SKIP_PROOF)", "trusted_base": []})
        return True, []
    hits = forbidden_vernacular()
    ensure_tables()
    ok_make, out_make = True, ""
    res = check_property_file(pid)
    n_thm = len(res["theorems"])
    discharged = n_thm if res["ok"] else 0
    problems = []
    if hits:
        problems.append("forbidden vernacular: " + "; ".join(hits[:5]))
    if not ok_make:
        problems.append("coq build failed: " + tail_err(out_make))
    if not res["ok"]:
        problems.append("Properties_%s.v does not check: %s" % (pid, tail_err(res["output"])))
    elif not res.get("all_closed", False):
        problems.append("Print Assumptions reports axioms: " + json.dumps(res["assumptions"]))
    # generated obligations (translator tables)
    gen_ok = 0
    for f in extra_obligation_files:
        okf, outf = coq_compile_file(f)
        n_thm += 1
        if okf:
            gen_ok += 1
            discharged += 1
        else:
            problems.append("generated obligation %s fails: %s" % (os.path.basename(f), tail_err(outf)))
    v.coverage.update({
        "obligations": n_thm,
        "discharged": discharged if not problems else min(discharged, max(0, n_thm - 1)),
        "checker_cmd": "coq_makefile -f _CoqProject -o Makefile && make -k -j16 (full .vo build) ; coqc -R /verif/coq Sigc Properties_%s.v" % pid,
        "theorems": res["theorems"],
        "print_assumptions": res["assumptions"],
        "trusted_base": TRUSTED_BASE_COMMON + ["Print Assumptions: " + ("; ".join("%s: %s" % (k, a.split("\n")[0]) for k, a in res["assumptions"].items()) or "n/a")],
    })
    if os.environ.get("VERIF_TIER") == "thorough" or getattr(v, "tier", "") == "thorough":
        # independent re-check of the compiled property file and everything it depends on
        p = run(["timeout", "1500", "coqchk", "-silent", "-o", "-R", COQ, "Sigc", "Sigc.Properties_%s" % pid], cwd=COQ)
        txt = (p.stdout + p.stderr)
        m = re.search(r"\* Axioms:(.*?)\n\s*\n", txt, re.S)
        axioms = " ".join(m.group(1).split()) if m else "unparsed"
        v.coverage["coqchk"] = {"rc": p.returncode, "axioms": axioms,
                                "summary": [l.strip() for l in txt.split("\n") if l.strip().startswith("*")][:6]}
        v.coverage["trusted_base"].append("coqchk -o (independent checker): axioms: " + axioms)
        if p.returncode != 0 or axioms != "<none>":
            problems.append("coqchk: rc=%d axioms=%s" % (p.returncode, axioms))
    return (not problems), problems


def tail_err(s, n=1200):
    s = s.strip()
    m = re.search(r"(File \"[^\n]*\n(?:.*\n)*?Error:(?:.*\n?)*)", s)
    if m:
        return m.group(1)[:n]
    return s[-n:]


def tier_of(args):
    t = os.environ.get("VERIF_TIER") or args.tier or "quick"
    return t if t in ("quick", "thorough") else "quick"


def seed_of():
    try:
        return int(os.environ.get("VERIF_SEED", "1"))
    except ValueError:
        return 1


def load_corpus(pid):
    d = os.path.join(VERIF, "corpus", pid)
    out = []
    if os.path.isdir(d):
        for f in sorted(os.listdir(d)):
            if f.endswith(".txt"):
                for line in open(os.path.join(d, f)):
                    line = line.strip()
                    if line and not line.startswith("#"):
                        out.append(line)
    return out
