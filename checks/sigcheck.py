"""Checks of the properties decided over SigCore (C01-C04, C06-C08, C12-C15, C17, C18):
proof part + correspondence of the extracted LL model with the library on generated histories."""
import collections, json, os, re, sys, time
from checks.base import *
import corr, gen_sig

# profile mix, non-triviality rule per property
CFG = {
    "C01": dict(profiles=[("basic", 5), ("accum", 2), ("chain", 1), ("reentrant", 2)],
                rule="history with >= 2 slot invocations in the model trace and at least one connect_first / block / disconnect / clear before an emission",
                nontrivial=lambda p, t: t.count(" L") + t.startswith("L") >= 2 and bool(re.search(r"gconn \d+ \d+ -?\d+ 1 |block \d+ 1|cdisc|gclear", p))),
    "C02": dict(profiles=[("lifetime", 5), ("reentrant", 3), ("slots", 1)],
                rule="a trackable referenced by at least one slot functor is destroyed (or assigned/moved/notified) while that slot or a copy exists, and a query or emission follows",
                nontrivial=lambda p, t: bool(re.search(r"snew \d+ [iv] \d+ [mnkbtu] [123]", p)) and bool(re.search(r"tdel|tasg|tmasg|tnot", p))),
    "C03": dict(profiles=[("reentrant", 8), ("chain", 1)],
                rule="a slot body performs at least one action (connect, disconnect, clear, block, destroy, emit) while an emission is running (an operation event nested inside an E..L pair of the model trace)",
                nontrivial=lambda p, t: bool(re.search(r"S \d+ [ca] \d+ [a-z]", p)) and bool(re.search(r"E\d+,\d+ (?!L)", t))),
    "C04": dict(profiles=[("lifetime", 4), ("reentrant", 2), ("scoped", 2), ("handles", 1)],
                rule="a connection (or copy) is queried or used after its slot has gone by disconnect / trackable death / clear / signal destruction (model trace contains cq0x after a cq1x or a disconnecting op)",
                nontrivial=lambda p, t: "cq0" in t and bool(re.search(r"cdisc|tdel|gclear|gdel|kdel|kdisc", p))),
    "C06": dict(profiles=[("lifetime", 8), ("scoped", 1), ("chain", 1)],
                rule="object graph with >= 3 object kinds among signal/slot/connection/scoped/trackable linked to each other, torn down in a random permutation",
                nontrivial=lambda p, t: sum(1 for k in ("gnew", "snew", "gconn", "knew", "tnew") if k in p) >= 4),
    "C07": dict(profiles=[("lifetime", 5), ("reentrant", 4), ("slots", 1)],
                rule="history containing a disconnect/clear/invalidate/destroy of a connected slot and at least one probe with live functor copies; all probes and the final allocation balance are compared",
                nontrivial=lambda p, t: bool(re.search(r"P\[f:\d", t)) and bool(re.search(r"cdisc|gclear|tdel|gdel|sdisc", p))),
    "C08": dict(profiles=[("throwing", 8)],
                rule="an exception leaves at least one slot body (T event) and at least one operation follows it",
                nontrivial=lambda p, t: bool(re.search(r"T\d+ .*(E\d|gq|cq)", t))),
    "C12": dict(profiles=[("basic", 6), ("scoped", 1), ("slots", 2), ("reentrant", 3)],
                rule="a block/unblock through slot, connection or signal followed by an emission, direct call or blocked() query",
                nontrivial=lambda p, t: bool(re.search(r"block \d+ 1", p)) and bool(re.search(r"gemit|scall|gq|cq", p))),
    "C13": dict(profiles=[("accum", 6), ("basic", 2)],
                rule="emission of a value-returning or accumulated signal with >= 1 slot; accumulator scripts cover walk-all, stop-at-threshold, double dereference, reverse, never dereference, cursor copies",
                nontrivial=lambda p, t: bool(re.search(r"er[1-9]", t))),
    "C14": dict(profiles=[("handles", 8), ("chain", 1)],
                rule="at least one copy/move/assignment of a signal handle and a later query or emission through a handle of the same family",
                nontrivial=lambda p, t: bool(re.search(r"gcopy|gmove|gasg|gmasg", p)) and bool(re.search(r"gq\d", t))),
    "C15": dict(profiles=[("slots", 8), ("lifetime", 1)],
                rule="at least one slot copy/move/assignment followed by a call or query of either operand",
                nontrivial=lambda p, t: bool(re.search(r"scopy|smove|sasg|smasg", p)) and bool(re.search(r"sq\d|cr\d", t))),
    "C17": dict(profiles=[("scoped", 8)],
                rule="at least one scoped_connection constructed from a live connection and one ownership-changing operation (assign/move/swap/release/destroy/disconnect)",
                nontrivial=lambda p, t: "knew" in p and bool(re.search(r"kasg|kmove|kmasg|kswap|krel|kdel|kdisc", p))),
    "C18": dict(profiles=[("chain", 8)],
                rule="at least one make_slot() forwarder connected to another signal and an emission of the upstream signal",
                nontrivial=lambda p, t: "gmk" in p and "gemit" in p),
}

COUNTS = {"quick": 2400, "thorough": 40000}
SIZES = {"quick": 24, "thorough": 48}


def op_histogram(progs):
    h = collections.Counter()
    for p in progs:
        for t in p.split():
            if t[0].isalpha() and t[0].islower() and len(t) > 1 and not t[1:].isdigit():
                h[t] += 1
    return dict(h.most_common(60))


def gen_programs(pid, tier, seed, scale=1.0):
    cfg = CFG[pid]
    total = int(COUNTS[tier] * scale)
    wsum = sum(w for _, w in cfg["profiles"])
    progs = []
    if cfg.get("scenarios", True):
        progs += gen_sig.scenarios(seed, max(4, total // 12))
    for prof, w in cfg["profiles"]:
        n = max(1, total * w // wsum)
        progs += gen_sig.generate(seed, prof, n, size=SIZES[tier])
        if tier == "thorough":
            progs += gen_sig.generate(seed + 1000, prof, n // 2, size=SIZES["quick"] // 2)
    return progs


def correspondence(v, pid, progs, exe, model_exe, label="generated"):
    """run model + impl, returns (mismatches, stats)"""
    pins = corr.PINS[pid]
    t0 = time.time()
    mout = corr.run_model(model_exe, "sig", progs)
    # programs that exhaust the default nesting fuel get one more chance with a deep budget
    deep = [k for k, m in enumerate(mout) if m.startswith("ERR FUEL") and progs[k].count(" S ") > 30]   # only the deep-recursion scenarios
    if deep:
        again = corr.run_model(model_exe, "sig", [progs[k] for k in deep], fuel=320)
        for k, m in zip(deep, again):
            mout[k] = m
    keep = [(p, m) for p, m in zip(progs, mout) if not m.startswith(("ERR FUEL", "ERR UNSUPPORTED", "ERR STACK", "ERR TIMEOUT")) and len(m) < 40000]
    model_errs = [(p, m) for p, m in zip(progs, mout) if m.startswith(("ERR UAF", "ERR DANGLING", "ERR DOUBLE", "PARSE"))]
    run = [(p, m) for p, m in keep if not m.startswith(("ERR", "PARSE"))]
    iout = corr.run_impl(exe, "sig", [p for p, _ in run])
    mism, unpinned = [], 0
    for (p, m), i in zip(run, iout):
        d = corr.diff(m, i, pins)
        if d:
            mism.append({"program": p, "model": m, "impl": i, "diff": d})
        elif m != i:
            unpinned += 1
    stats = {"generated": len(progs), "filtered_out_of_fuel_or_unsupported": len(progs) - len(keep),
             "model_errors": len(model_errs), "run_on_impl": len(run), "unpinned_deviations": unpinned,
             "seconds": round(time.time() - t0, 1)}
    return mism, stats, run, model_errs


def coq_crosscheck(v, ran, model_exe, k=8):
    """evaluate a sample of the programs inside Coq (vm_compute in coqc) and require the trace the
    extracted OCaml model printed: extraction and the OCaml driver are checked, not assumed"""
    import prog2coq
    sample = []
    cands = [re.sub(r"\bprobe\b", "", p) for p, m in ran if len(m) < 1500 and len(p) < 1500][:4 * k]
    cands = [" ".join(c.split()) for c in cands]
    for p, m in zip(cands, corr.run_model(model_exe, "sig", cands) if cands else []):
        if m.startswith(("ERR", "PARSE")):
            continue
        t = prog2coq.trace_term(m)
        if t is None:
            continue
        sample.append((p, m, t))
        if len(sample) >= k:
            break
    if not sample:
        return {"cases": 0}
    L = ["From Coq Require Import List NArith Bool.", "Import ListNotations.", "Require Import Sigc.Util Sigc.SigCore.", "Local Open Scope N_scope.",
         "Definition tr (r : res state) : option (list event) := match r with Ok st => Some (rev (trace st)) | Err _ => None end."]
    for i, (p, m, t) in enumerate(sample):
        L.append("Example xcheck_%d : tr (run_program 6 %s) = Some %s." % (i, prog2coq.program_term(p), t))
        L.append("Proof. vm_compute. reflexivity. Qed.")
    d = os.path.join(BUILD, "xcheck-%d" % os.getpid())
    os.makedirs(d, exist_ok=True)
    f = os.path.join(d, "xcheck.v")
    open(f, "w").write("\n".join(L) + "\n")
    ok, out = coq_compile_file(f)
    import shutil
    shutil.rmtree(d, ignore_errors=True)
    res = {"cases": len(sample), "ok": ok}
    if not ok:
        res["output"] = out[-1500:]
        res["first_program"] = sample[0][0]
    return res


def shrink_mismatch(pid, mm, exe, model_exe):
    pins = corr.PINS[pid]

    def fails(line):
        try:
            m = corr.run_model(model_exe, "sig", [line])[0]
        except Exception:
            return False
        if m.startswith(("ERR", "PARSE")):
            return False
        i = corr.run_impl(exe, "sig", [line], shards=1)[0]
        return corr.diff(m, i, pins) is not None
    small = corr.shrink(mm["program"], fails, max_rounds=4)
    m = corr.run_model(model_exe, "sig", [small])[0]
    i = corr.run_impl(exe, "sig", [small], shards=1)[0]
    return {"program": small, "model": m, "impl": i, "diff": corr.diff(m, i, pins), "original": mm["program"]}


# properties whose statement also covers slots held by / referring to other slots (NestModel.v)
NEST_PIDS = ("C02", "C06", "C15")


def finding_key(sm):
    """normal form of a shrunk failing input: the multiset of op mnemonics + the differing event kind"""
    ops = sorted(set(t for t in sm["program"].split() if t[0].isalpha() and t[0].islower() and len(t) > 2))
    d = sm["diff"] or {}
    kind = (d.get("model") or d.get("impl") or ("?", "?"))[0]
    return kind + ":" + "+".join(ops)


def run(pid, args):
    tier = tier_of(args)
    seed = seed_of()
    v = Verdict(pid, tier, seed)
    cfg = CFG[pid]
    model_exe = model_build()
    proof_ok, problems = proof_part(v, pid)
    exe, err = driver_build([os.path.join(VERIF, "harness", "driver.cc"), os.path.join(VERIF, "harness", "probe.cc")], "asan")
    if not exe:
        v.coverage.update({"evaluations": 0, "distinct_nontrivial": 0, "rule": cfg["rule"], "samples": [],
                           "explanation": "harness does not build against the working tree"})
        v.violation("harness-build", {"property": pid, "broken": "correspondence harness does not compile against /repo working tree",
                                      "compiler_output": err[-6000:], "proof_problems": problems}, no_input=True)
        return v.finish()
    if args.replay:
        rp = json.load(open(args.replay))
        progs = [rp["program"]] if "program" in rp and rp.get("mode") != "nest" else []
        scale = 0
    else:
        progs = load_corpus(pid) + load_corpus("sig-shared")
        scale = 1.0 if proof_ok else 3.0      # SEARCH: a broken obligation widens the exploration
        progs += gen_programs(pid, tier, seed, scale)
    mism, stats, ran, model_errs = correspondence(v, pid, progs, exe, model_exe)
    nontrivial = set(p for p, m in ran if cfg["nontrivial"](p, m))
    v.coverage.update({
        "evaluations": len(ran), "distinct_nontrivial": len(nontrivial), "rule": cfg["rule"],
        "traces_validated_against_impl": len(ran) - len(mism),
        "samples": [{"program": p, "model_trace": m} for p, m in ran[:2]] + [{"program": p, "model_trace": m} for p, m in ran if p in nontrivial][:2],
        "input_distribution": {"ops": op_histogram([p for p, _ in ran]), "profiles": cfg["profiles"],
                               "avg_ops": round(sum(len(corr.split_program(p)[-1][1]) for p, _ in ran[:500]) / max(1, min(500, len(ran))), 1)},
        "correspondence": stats, "pins": sorted(corr.PINS[pid]), "sanitizers": "g++ -O1 ASan+UBSan+LSan, allocation balance",
        "exhaustive": False,
    })
    xc = coq_crosscheck(v, ran, model_exe)
    v.coverage["extraction_crosscheck_in_coq"] = xc
    if xc.get("cases") and not xc.get("ok"):
        log("MACHINERY: extracted model disagrees with in-Coq evaluation: %s" % xc.get("output", "")[-600:])
        v.finish()
        return 2
    v.assumptions += ["the generators reach the behaviours that matter (coverage reported above, not assumed)",
                      "model errors (model predicts a memory error the implementation does not show) are reported separately and fail the run"]
    known, _fixed = known_findings()
    known = [k for k in known if k["property"] == pid]
    seen_keys = set()
    # shrink and report (at most a handful; the first ones are enough to replay)
    for mm in mism[:40]:
        if len(seen_keys) >= 6:
            break
        sm = shrink_mismatch(pid, mm, exe, model_exe)
        if not sm["diff"]:
            sm = dict(mm, original=mm["program"])
        key = finding_key(sm)
        if key in seen_keys:
            continue
        seen_keys.add(key)
        matched = [k for k in known if k["match"] == key]
        if matched:
            v.known_finding(matched[0]["what"])
        else:
            v.violation("corr-%d" % len(seen_keys), dict(sm, property=pid, key=key, broken="correspondence LL model vs implementation (pinned events differ)",
                                                         proof_problems=problems))
    if model_errs:
        # the model claims a memory error: if the implementation is clean the model is wrong (machinery defect)
        p, m = model_errs[0]
        i = corr.run_impl(exe, "sig", [p], shards=1)[0]
        v.coverage["model_error_sample"] = {"program": p, "model": m, "impl": i}
        if i.startswith("CRASH"):
            v.violation("model-err", {"property": pid, "program": p, "model": m, "impl": i, "broken": "model and implementation both report a memory error"})
        else:
            log("MACHINERY: model reports %s but implementation is clean: %s" % (m, p))
            v.finish()
            return 2
    if pid in ("C13", "C08", "C02", "C15") and not args.replay:
        from checks import exprcheck
        exprcheck.fixed_scenarios_only(v, pid)
    if pid in NEST_PIDS:
        from checks.nestpart import nest_part
        if args.replay and json.load(open(args.replay)).get("mode") == "nest":
            _a, machinery = nest_part(v, pid, tier, seed, exe, model_exe, replay=json.load(open(args.replay))["program"])
        elif not args.replay:
            _a, machinery = nest_part(v, pid, tier, seed, exe, model_exe, scale=0.6 * scale)
        else:
            machinery = False
        if machinery:
            v.finish()
            return 2
    if not proof_ok and not v.violations:
        v.violation("proof", {"property": pid, "broken": problems, "note": "no failing input found by the widened correspondence search (%d programs)" % len(ran)}, no_input=True)
    return v.finish()
