"""C20: obligations over regenerated tables (no configuration conditionals, deprecated switch only
removes track_obj, erased call well typed) + the same generated programs run by binaries of the build
matrix {g++, clang++} x {-O0,-O2,-O3} x {deprecated on, off}: every trace must equal the model's."""
import json, os, re, subprocess, time
from concurrent.futures import ThreadPoolExecutor
from checks.base import *
import corr, gen_sig, gen_expr

RULE = ("generated histories (all profiles) run by every binary of the configuration matrix; the complete trace (invocations, arguments, results, every query) "
        "must equal the model's and hence each other's; non-trivial = trace with >= 1 invocation and >= 1 accumulated or value result; distinct = distinct program text")
QUICK = ["gcc-O0", "gcc-O3-nodep", "clang-O0-nodep", "clang-O2"]
ALL = ["gcc-O0", "gcc-O2", "gcc-O3", "clang-O0", "clang-O2", "clang-O3", "gcc-O0-nodep", "gcc-O2-nodep", "gcc-O3-nodep", "clang-O0-nodep", "clang-O2-nodep", "clang-O3-nodep"]


EXPR_VARIANTS = {"quick": ["gcc-O3-nodep", "clang-O2"], "thorough": ["gcc-O0", "gcc-O3-nodep", "clang-O2", "clang-O3"]}


def expression_part(v, pid, tier, seed, model_exe):
    import shutil
    from checks import exprcheck
    cases = exprcheck.directed_cases("C10", 0) + gen_expr.generate("cfg-%s" % seed, {"quick": 40, "thorough": 400}[tier], 3)
    for k, c in enumerate(cases):
        c.idx = k
    mlines = corr.run_model(model_exe, "expr", [c.model_line() for c in cases])
    usable = [(c, m) for c, m in zip(cases, mlines) if m.startswith("wt=true") and "doc=ILLFORMED" not in m]
    out, compared = [], 0
    per_variant = {}
    for var in EXPR_VARIANTS[tier]:
        workdir = os.path.join(BUILD, "cfgexpr-%s-%d" % (var, os.getpid()))
        try:
            res, err = exprcheck.build_and_run([c for c, _ in usable], workdir, variant=var, keep_opt=True)
        finally:
            shutil.rmtree(workdir, ignore_errors=True)
        if err:
            per_variant[var] = "build failed: " + err[-300:]
            continue
        results, failures = res
        n = 0
        for c, m in usable:
            il = results.get(c.idx)
            if il is None or c.idx in failures:
                continue
            n += 1
            if il.startswith("CRASH"):
                out.append((var, c, m, il, [("crash", "", il)]))
                continue
            d = exprcheck.compare("C10", c, m, il) or exprcheck.compare("C11", c, m, il)
            if d:
                out.append((var, c, m, il, d))
        per_variant[var] = n
        compared += n
    fixed_bad = sorted(set(x for x in exprcheck.FIXED2_SEEN if x != exprcheck.FIXED2_EXPECTED))
    v.coverage["expressions_across_configurations"] = {"cases": len(usable), "compared_per_configuration": per_variant, "mismatches": len(out),
                                                       "fixed_scenarios_seen": len(exprcheck.FIXED2_SEEN), "fixed_scenarios_wrong": fixed_bad[:2]}
    if fixed_bad:
        v.violation("cfg-fixed", {"property": pid, "broken": "a fixed scenario of harness/expr_prelude.h (narrow result types through the type-erased call, signal_connect, raw method pointers, ...) gives a different outcome in some configuration",
                                  "expected": exprcheck.FIXED2_EXPECTED, "got": fixed_bad[:2], "configurations": EXPR_VARIANTS[tier]})
    return out


def run(pid, args):
    tier, seed = tier_of(args), seed_of()
    v = Verdict(pid, tier, seed)
    info, terr = ensure_tables()
    model_exe = model_build()
    proof_ok, problems = proof_part(v, pid)
    variants = QUICK if tier == "quick" else ALL + ["clang-ubsan-fn"]
    srcs = [os.path.join(VERIF, "harness", "driver.cc"), os.path.join(VERIF, "harness", "probe.cc")]
    with ThreadPoolExecutor(max_workers=6) as ex:
        built = list(ex.map(lambda var: (var,) + driver_build(srcs, var), variants))
    fails = [(var, err) for var, exe, err in built if not exe]
    if fails:
        v.coverage.update({"evaluations": 0, "distinct_nontrivial": 0, "rule": RULE, "samples": []})
        v.violation("harness-build", {"property": pid, "broken": "harness does not compile in configuration " + fails[0][0], "compiler_output": (fails[0][1] or "")[-4000:]}, no_input=True)
        return v.finish()
    n = {"quick": 630, "thorough": 9000}[tier] * (1 if proof_ok else 2)
    progs = load_corpus(pid)
    for prof in gen_sig.PROFILES:
        progs += gen_sig.generate(seed, prof, n // len(gen_sig.PROFILES), size=24)
    progs += gen_sig.scenarios(seed, 30)
    mout = corr.run_model(model_exe, "sig", progs)
    keep = [(p, m) for p, m in zip(progs, mout) if not m.startswith(("ERR", "PARSE")) and len(m) < 12000]
    lines = [p for p, _ in keep]
    plain_env = dict(os.environ, UBSAN_OPTIONS="print_stacktrace=0:halt_on_error=1")
    results = {}
    for var, exe, _ in built:
        results[var] = corr.run_impl(exe, "sig", lines, env=plain_env)
    if tier == "thorough":
        # uninitialised reads: valgrind on a sample with the -O0 binary
        vexe = [exe for var, exe, _ in built if var == "gcc-O0"][0]
        sample = lines[:150]
        vg = corr.run_impl(vexe, "sig", sample, env=plain_env, shards=NPROC,
                           wrapper=("valgrind", "-q", "--error-exitcode=77", "--track-origins=no", "--child-silent-after-fork=no"))
        results["valgrind-gcc-O0"] = vg + [None] * (len(lines) - len(vg))
    mism = []
    for k, (p, m) in enumerate(keep):
        for var in results:
            i = results[var][k]
            if i is None:
                continue
            # the model's leak verdict needs LSan/alloc accounting identical across binaries: compare everything
            if var.startswith("valgrind"):
                # valgrind is there for uninitialised reads (non-zero exit -> CRASH line); the driver's own
                # allocation accounting is not meaningful under it
                i_cmp, m_cmp = i.split("|")[0], m.split("|")[0]
            else:
                i_cmp, m_cmp = i, m
            if i_cmp != m_cmp:
                mism.append({"configuration": var, "program": p, "model": m[:3000], "impl": i[:3000],
                             "others": {w: (results[w][k] == m) for w in results if results[w][k] is not None}})
                break
    nt = set(p for p, m in keep if re.search(r" L\d", m) and re.search(r"er[1-9]", m))
    v.coverage.update({"evaluations": len(lines) * len(results), "distinct_nontrivial": len(nt), "rule": RULE,
                       "traces_validated_against_impl": len(lines) * len(results) - len(mism),
                       "configurations": list(results), "programs": len(lines),
                       "samples": [{"program": p, "model_trace": m[:400]} for p, m in keep[:2]],
                       "pp_conditionals": sorted(set(m for _, m in info["pp_conditionals"])) if info else None,
                       "deprecated_only": info["deprecated_only"] if info else None, "callsig": info["callsig"] if info else None,
                       "exhaustive": False,
                       "explanation": "partial: compilers and optimisers are not modelled; the theorem covers the source-level discipline, the matrix run the binaries that exist here"})
    # the adaptor expressions (argument evaluation order, moves of temporaries, optimisation of the
    # forwarding chain) under both compilers at their own optimisation level, against AdaptorModel
    emism = expression_part(v, pid, tier, seed, model_exe)
    for k, (var, c, m, il, d) in enumerate(emism[:3]):
        v.violation("cfg-expr-%s-%d" % (var, k + 1), {"property": pid, "configuration": var, "term": repr(c.term), "rv": c.rv, "kinds": c.kinds, "vals": c.vals,
                                                     "cpp": gen_expr.to_cpp(c.term), "model": m, "impl": il, "diff": d,
                                                     "broken": "an adaptor expression behaves differently from the model in configuration %s" % var})
    seen = set()
    for mm in mism:
        key = mm["configuration"]
        if key in seen or len(seen) >= 3:
            continue
        seen.add(key)
        try:
            from checks import sigcheck
            exe = [e for var, e, _ in built if var == key][0] if key in [b[0] for b in built] else None
        except Exception:
            exe = None
        v.violation("cfg-%s" % key, dict(mm, property=pid, broken="trace of configuration %s differs from the model (and possibly from other configurations)" % key, proof_problems=problems))
    if not proof_ok and not v.violations:
        v.violation("proof", {"property": pid, "broken": problems}, no_input=True)
    return v.finish()
