def lookup(pid):
    from checks import sigcheck, trackcheck
    if pid in sigcheck.CFG:
        return sigcheck.run
    if pid == "C16":
        return trackcheck.run
    return None
