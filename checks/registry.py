def lookup(pid):
    from checks import sigcheck, trackcheck
    if pid in ("C09", "C10", "C11"):
        from checks import exprcheck
        return exprcheck.run
    if pid == "C19":
        from checks import threadcheck
        return threadcheck.run
    if pid == "C20":
        from checks import configcheck
        return configcheck.run
    if pid == "C05":
        from checks import typecheck
        return typecheck.run
    if pid in sigcheck.CFG:
        return sigcheck.run
    if pid == "C16":
        return trackcheck.run
    return None
