"""C16: trackable notifications -- TrackModel theorems + correspondence with sigc::trackable."""
import json, os, re, time
from checks.base import *
import corr, gen_track

RULE = ("history over several trackables with >= 1 delivery and at least one of: a removal during a round, duplicate keys, "
        "copy/move construction or assignment; distinct = distinct program text")


def canon(t):
    """deliveries exactly; per live trackable only whether registrations are left (not how the list is stored)"""
    head, _, tail = t.partition("|")
    tail = re.sub(r":(?:-|0)\b", ":0", tail)
    tail = re.sub(r":[1-9]\d*", ":+", tail)
    return head + "|" + tail


def nontrivial(p, t):
    return bool(re.search(r"d\d", t)) and bool(re.search(r"K \d+ \d+ r| cc | mc | as | ma ", p))


def run(pid, args):
    tier, seed = tier_of(args), seed_of()
    v = Verdict(pid, tier, seed)
    model_exe = model_build()
    proof_ok, problems = proof_part(v, pid)
    exe, err = driver_build([os.path.join(VERIF, "harness", "driver.cc"), os.path.join(VERIF, "harness", "probe.cc")], "asan")
    if not exe:
        v.coverage.update({"evaluations": 0, "distinct_nontrivial": 0, "rule": RULE, "samples": []})
        v.violation("harness-build", {"property": pid, "broken": "harness does not compile against /repo working tree", "compiler_output": err[-6000:]}, no_input=True)
        return v.finish()
    if args.replay:
        progs = [json.load(open(args.replay))["program"]]
    else:
        n = {"quick": 1500, "thorough": 60000}[tier] * (1 if proof_ok else 3)
        progs = load_corpus(pid) + gen_track.generate(seed, n, 25 if tier == "quick" else 40)
    mout = corr.run_model(model_exe, "track", progs)
    iout = corr.run_impl(exe, "track", progs)
    mism = [{"program": p, "model": m, "impl": i} for p, m, i in zip(progs, mout, iout) if canon(m) != canon(i)]
    nt = set(p for p, m in zip(progs, mout) if nontrivial(p, m))
    v.coverage.update({"evaluations": len(progs), "distinct_nontrivial": len(nt), "rule": RULE,
                       "traces_validated_against_impl": len(progs) - len(mism),
                       "samples": [{"program": p, "model_trace": m} for p, m in list(zip(progs, mout))[:3]],
                       "sanitizers": "g++ -O1 ASan+UBSan", "exhaustive": False})
    known, _ = known_findings()
    for mm in mism[:3]:
        def fails(line):
            return canon(corr.run_model(model_exe, "track", [line])[0]) != canon(corr.run_impl(exe, "track", [line], shards=1)[0])
        toks = mm["program"].split(" M ")
        ops = re.findall(r"(?:new|no|de) \d+|(?:cc|mc|as|ma|add|rm) \d+ \d+", toks[-1])
        changed = True
        while changed:
            changed = False
            for i in range(len(ops)):
                cand = ops[:i] + ops[i + 1:]
                line = toks[0] + " M " + " ".join(cand) if len(toks) > 1 else "M " + " ".join(cand)
                if fails(line):
                    ops = cand
                    changed = True
                    break
        small = (toks[0] + " M " if len(toks) > 1 else "M ") + " ".join(ops)
        v.violation("corr-%d" % len(v.violations), {"property": pid, "program": small, "original": mm["program"],
                    "model": corr.run_model(model_exe, "track", [small])[0], "impl": corr.run_impl(exe, "track", [small], shards=1)[0],
                    "broken": "correspondence TrackModel vs sigc::trackable", "proof_problems": problems})
    if not proof_ok and not v.violations:
        v.violation("proof", {"property": pid, "broken": problems}, no_input=True)
    return v.finish()
