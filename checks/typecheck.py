"""C05: TypeModel theorems + (i) exhaustive validation of `binds`/`converts` against both compilers,
(ii) generated translation units through the library: compile status must equal the model."""
import json, os, random, re, shutil, sys, time
from concurrent.futures import ThreadPoolExecutor
from checks.base import *
from vlib.common import run as vc_run
import corr

CPP_BASE = {"i": "int", "l": "long", "d": "double", "b": "bool", "B": "B", "D": "D", "U": "U", "p": "B*", "q": "D*"}
BASES = list(CPP_BASE)
FORMS = {"v": "%s", "l": "%s&", "c": "%s const&", "r": "%s&&"}
PRELUDE = "#include <sigc++/sigc++.h>\n#include <type_traits>\nstruct B { int x; }; struct D : B { int y; }; struct U { int z; };\n"
RULE = ("pairing of a slot/signal signature (arity 0-3 over T, T&, const T& of 9 base types) with a functor (free function, function object, "
        "const/non-const member function on const/non-const object, under bind/hide), built as one accepted pairing plus single-position mutations of it aimed at each rejection class; "
        "non-trivial = arity >= 1; distinct = distinct (signature, functor) text")


def cpp_ptype(tok):
    b, f = tok.split(".")
    return FORMS[f] % CPP_BASE[b]


def cpp_rtype(tok):
    return "void" if tok == "-" else CPP_BASE[tok]


CAST_DETECT = """template<class To, class From, class = void> struct can_static_cast : std::false_type {};
template<class To, class From> struct can_static_cast<To, From, std::void_t<decltype(static_cast<To>(std::declval<From>()))>> : std::true_type {};
"""


def validation_tu(binds_line, results_line, explicit_line=""):
    """static_asserts for every (parameter, argument) pair and every result conversion"""
    L = [PRELUDE]
    n = 0
    for item in binds_line.split():
        m = re.match(r"(\w)\.(\w):(\w)([mc])=(\d)", item)
        pb, pf, ab, ac, val = m.groups()
        P = FORMS[pf] % CPP_BASE[pb]
        A = ("%s const&" if ac == "c" else "%s&") % CPP_BASE[ab]
        L.append("static_assert(std::is_invocable_v<void(*)(%s), %s> == %s, \"binds %s\");" % (P, A, "true" if val == "1" else "false", item))
        n += 1
    L.append(CAST_DETECT)
    for item in explicit_line.split():
        m = re.match(r"(\w)\.(\w):(\w)([mc])=(\d)", item)
        pb, pf, ab, ac, val = m.groups()
        P = FORMS[pf] % CPP_BASE[pb]
        A = ("%s const&" if ac == "c" else "%s&") % CPP_BASE[ab]
        L.append("static_assert(can_static_cast<%s, %s>::value == %s, \"explicit %s\");" % (P, A, "true" if val == "1" else "false", item))
        n += 1
    for item in results_line.split():
        m = re.match(r"(\w)>(\w)=(\d)", item)
        s, d, val = m.groups()
        L.append("static_assert(std::is_convertible_v<%s, %s> == %s, \"converts %s\");" % (CPP_BASE[s], CPP_BASE[d], "true" if val == "1" else "false", item))
        n += 1
    return "\n".join(L) + "\n", n


def mem_rel(f):
    """class of the method relative to the class of the object: 0 same, 1 method of a base, 2 method of a
    derived class (object is the base), 3 unrelated class"""
    return f[5] if len(f) > 5 else 0


class Pairing:
    def __init__(self, sig, r, functor):
        self.sig, self.r, self.functor = sig, r, functor     # functor: nested tuple

    def query(self):
        def ftxt(f):
            if f[0] == "fun":
                return "fun %d %s %s" % (len(f[2]), " ".join(f[2]), f[3])
            if f[0] == "mem":
                return "mem %d %d %d %d %s %s" % (mem_rel(f), f[1], f[2], len(f[3]), " ".join(f[3]), f[4])
            if f[0] == "bind":
                return "bind %s %s" % (f[1], ftxt(f[2]))
            if f[0] == "hr":
                return "hr %s" % ftxt(f[1])
            if f[0] == "retype":
                return "retype %s" % ftxt(f[1])
            if f[0] == "hideat":
                return "hideat %d %s" % (f[1], ftxt(f[2]))
            if f[0] == "bindat":
                return "bindat %d %s %s" % (f[1], f[2], ftxt(f[3]))
            return "hide %s" % ftxt(f[1])
        return "q %d %s %s | %s" % (len(self.sig), " ".join(self.sig), self.r, ftxt(self.functor))

    def cpp(self, idx):
        decls = []

        def fexpr(f):
            if f[0] == "fun":
                flavour, ps, rf = f[1], f[2], f[3]
                if flavour == "ptr":
                    decls.append("%s fn_%d(%s);" % (cpp_rtype(rf), idx, ", ".join(map(cpp_ptype, ps))))
                    return "sigc::ptr_fun(&fn_%d)" % idx
                decls.append("struct Fo_%d { %s operator()(%s) const; };" % (idx, cpp_rtype(rf), ", ".join(map(cpp_ptype, ps))))
                return "Fo_%d()" % idx
            if f[0] == "mem":
                oc, mc, ps, rf = f[1], f[2], f[3], f[4]
                meth = "%s m(%s)%s;" % (cpp_rtype(rf), ", ".join(map(cpp_ptype, ps)), " const" if mc else "")
                rel = mem_rel(f)
                objdecl = "%sC_%d& obj_%d();" % ("const " if oc else "", idx, idx)
                if rel == 0:
                    decls.append("struct C_%d : public sigc::trackable { %s }; %s" % (idx, meth, objdecl))
                    owner = "C_%d" % idx
                elif rel == 1:
                    decls.append("struct Cb_%d : public sigc::trackable { %s }; struct C_%d : public Cb_%d { int extra; }; %s" % (idx, meth, idx, idx, objdecl))
                    owner = "Cb_%d" % idx
                elif rel == 2:
                    decls.append("struct C_%d : public sigc::trackable { int own; }; struct Cd_%d : public C_%d { %s }; %s" % (idx, idx, idx, meth, objdecl))
                    owner = "Cd_%d" % idx
                else:
                    decls.append("struct C_%d : public sigc::trackable { int own; }; struct Cx_%d { %s }; %s" % (idx, idx, meth, objdecl))
                    owner = "Cx_%d" % idx
                return "sigc::mem_fun(obj_%d(), &%s::m)" % (idx, owner)
            if f[0] == "bind":
                v = f[1]
                val = {"i": "1", "l": "1L", "d": "1.5", "b": "true", "B": "B()", "D": "D()", "U": "U()", "p": "(B*)nullptr", "q": "(D*)nullptr"}[v]
                return "sigc::bind(%s, %s)" % (fexpr(f[2]), val)
            if f[0] == "hr":
                return "sigc::hide_return(%s)" % fexpr(f[1])
            if f[0] == "retype":
                return "sigc::retype(%s)" % fexpr(f[1])
            if f[0] == "hideat":
                return "sigc::hide<%d>(%s)" % (f[1], fexpr(f[2]))
            if f[0] == "bindat":
                v = f[2]
                val = {"i": "1", "l": "1L", "d": "1.5", "b": "true", "B": "B()", "D": "D()", "U": "U()", "p": "(B*)nullptr", "q": "(D*)nullptr"}[v]
                return "sigc::bind<%d>(%s, %s)" % (f[1], fexpr(f[3]), val)
            return "sigc::hide(%s)" % fexpr(f[1])
        e = fexpr(self.functor)
        sig = "%s(%s)" % (cpp_rtype(self.r), ", ".join(map(cpp_ptype, self.sig)))
        body = "void test_%d() { sigc::slot<%s> s = %s; sigc::signal<%s> g; g.connect(%s); }" % (idx, sig, e, sig, e)
        return "\n".join(decls + [body])


def compatible_param(r, a):
    """a functor parameter type that accepts signature parameter a (token b.f)"""
    b, f = a.split(".")
    opts = ["%s.v" % b, "%s.c" % b]
    if f == "l":
        opts.append("%s.l" % b)
    if b in "ilbd":
        o = r.choice([x for x in "ilbd"])
        opts += ["%s.v" % o, "%s.c" % o] + (["%s.r" % o] if o != b else [])
    if b == "D":
        opts += ["B.v", "B.c"] + (["B.l"] if f == "l" else [])
    if b == "q":
        opts += ["p.v", "p.c", "b.v", "p.r"]
    if b == "p":
        opts += ["b.v"]
    return r.choice(opts)


def gen_pairings(seed, count):
    r = random.Random("types-%s" % seed)
    out = []
    while len(out) < count:
        n = r.choice([0, 1, 1, 2, 2, 3])
        sig = ["%s.%s" % (r.choice(BASES), r.choice("vlc")) for _ in range(n)]
        res = r.choice(["-"] + BASES)
        ps = [compatible_param(r, a) for a in sig]
        if res == "-":
            rf = "-"
        else:
            rf = res
            if res in "ilbd":
                rf = r.choice("ilbd")
            elif res == "B":
                rf = r.choice("BD")
            elif res == "p":
                rf = r.choice("pq")
        kind = r.random()
        if kind < 0.12:
            # retype(): explicit conversions (downcasts B->D&, B*->D*) become legal, constness must survive
            ps2 = []
            for a, pcur in zip(sig, ps):
                b, f0 = a.split(".")
                if b == "B" and r.random() < 0.4:
                    ps2.append("D.%s" % r.choice("lc" if f0 == "l" else "c"))
                elif b == "p" and r.random() < 0.4:
                    ps2.append("q.v")
                else:
                    ps2.append(pcur)
            f = ("retype", ("fun", "ptr", ps2, rf)) if r.random() < 0.6 else ("retype", ("mem", 0, r.randint(0, 1), ps2, rf))
        elif kind < 0.5:
            f = ("fun", r.choice(["ptr", "obj"]), ps, rf)
        elif kind < 0.75:
            mc = r.randint(0, 1)
            f = ("mem", 0, mc, ps, rf, r.choice([0, 0, 1]))
        elif kind < 0.9:
            v = r.choice(BASES)
            extra = compatible_param(r, "%s.l" % v)
            f = ("bind", v, ("fun", "obj", ps + [extra], rf))
        elif kind < 0.95:
            if n == 0:
                continue
            f = ("hide", ("fun", "obj", ps[:-1], rf))
        else:
            # hide_return, alone and under a deducing adaptor (finding F7 lived here)
            res = "-"
            inner_f = ("hr", ("fun", r.choice(["ptr", "obj"]), ps, rf if rf != "-" else "i"))
            if n and r.random() < 0.6:
                f = ("hide", ("hr", ("fun", "obj", ps[:-1], rf if rf != "-" else "i")))
            else:
                f = inner_f
        out.append(Pairing(sig, res, f))
        # mutations aimed at the rejection classes
        mut = r.random()
        inner = f
        while inner[0] in ("bind", "hide", "hr", "retype"):
            inner = inner[-1]

        def rebuild(f, new_inner):
            if f[0] == "bind":
                return ("bind", f[1], rebuild(f[2], new_inner))
            if f[0] == "hide":
                return ("hide", rebuild(f[1], new_inner))
            if f[0] == "hr":
                return ("hr", rebuild(f[1], new_inner))
            if f[0] == "retype":
                return ("retype", rebuild(f[1], new_inner))
            return new_inner
        ips = list(inner[2] if inner[0] == "fun" else inner[3])
        irf = inner[3] if inner[0] == "fun" else inner[4]

        def with_params(nps, nrf=None):
            nrf = irf if nrf is None else nrf
            ni = ("fun", inner[1], nps, nrf) if inner[0] == "fun" else ("mem", inner[1], inner[2], nps, nrf, mem_rel(inner))
            return rebuild(f, ni)
        if mut < 0.2:                       # arity
            out.append(Pairing(sig, res, with_params(ips + ["i.v"]) if r.random() < 0.5 or not ips else with_params(ips[:-1])))
        elif mut < 0.5 and ips:             # one parameter replaced by an arbitrary type
            k = r.randrange(len(ips))
            nps = list(ips)
            nps[k] = "%s.%s" % (r.choice(BASES), r.choice("vlcr"))
            out.append(Pairing(sig, res, with_params(nps)))
        elif mut < 0.65 and ips:            # non-const reference to a by-value / const argument
            k = r.randrange(len(ips))
            nps = list(ips)
            nps[k] = ips[k].split(".")[0] + ".l"
            out.append(Pairing(sig, res, with_params(nps)))
        elif mut < 0.8:                     # result type
            out.append(Pairing(sig, res, with_params(ips, r.choice(["-"] + BASES))))
        elif inner[0] == "mem":             # constness of object / method; class of the method vs class of the object
            if r.random() < 0.5:
                out.append(Pairing(sig, res, rebuild(f, ("mem", r.randint(0, 1), r.randint(0, 1), ips, irf, mem_rel(inner)))))
            else:
                out.append(Pairing(sig, res, rebuild(f, ("mem", inner[1], inner[2], ips, irf, r.choice([1, 2, 2, 3])))))
    return out[:count]


def compile_status(src_text, workdir, name, cxx="g++"):
    libdir, _ = lib_build("asan")
    path = os.path.join(workdir, name + ".cc")
    open(path, "w").write(src_text)
    p = vc_run([cxx, "-std=c++17", "-fsyntax-only", "-I", libdir, "-I", REPO, path])
    return p.returncode == 0, p.stderr


def run(pid, args):
    tier, seed = tier_of(args), seed_of()
    v = Verdict(pid, tier, seed)
    model_exe = model_build()
    proof_ok, problems = proof_part(v, pid)
    libdir, err = lib_build("asan")
    if err:
        v.coverage.update({"evaluations": 0, "distinct_nontrivial": 0, "rule": RULE, "samples": []})
        v.violation("lib-build", {"property": pid, "broken": "library does not compile", "compiler_output": err[-4000:]}, no_input=True)
        return v.finish()
    workdir = os.path.join(BUILD, "types-%d" % os.getpid())
    os.makedirs(workdir, exist_ok=True)
    try:
        # (i) the hand-written conversion rules against the compilers, exhaustively
        bl, rl, el = corr.run_model(model_exe, "types", ["binds", "results", "explicit"])
        tu, n_asserts = validation_tu(bl, rl, el)
        compilers = ["g++", "clang++"] if tier == "thorough" or True else ["g++"]
        val_fail = {}
        for cxx in compilers:
            ok, errtxt = compile_status(tu, workdir, "validate_" + cxx.replace("+", "p"), cxx)
            if not ok:
                val_fail[cxx] = re.findall(r"static assertion failed[^\n]*", errtxt)[:10] or errtxt[-1500:]
        # (ii) through the library
        n = {"quick": 360, "thorough": 3000}[tier] * (1 if proof_ok else 2)
        pairs = directed_pairings() + gen_pairings(seed, n)
        if args.replay:
            rp = json.load(open(args.replay))
            pairs = [Pairing(rp["sig"], rp["r"], json.loads(json.dumps(rp["functor"]), object_hook=None))]
            pairs[0].functor = tuplify(rp["functor"])
        verdicts = corr.run_model(model_exe, "types", [p.query() for p in pairs])
        exp = [("lib=1" in vv, "direct=1" in vv) for vv in verdicts]
        pos = [(i, p) for i, (p, e) in enumerate(zip(pairs, exp)) if e[1]]
        neg = [(i, p) for i, (p, e) in enumerate(zip(pairs, exp)) if not e[1]]
        results = {}

        def compile_group(group, gname):
            txt = PRELUDE + "\n".join(p.cpp(i) for i, p in group)
            ok, errtxt = compile_status(txt, workdir, gname)
            return ok, errtxt

        def pos_batch(bi_batch):
            bi, batch = bi_batch
            ok, _ = compile_group(batch, "pos_%d" % bi)
            if ok:
                return {i: True for i, _ in batch}
            out = {}
            for i, p in batch:
                ok1, _ = compile_group([(i, p)], "pos_%d_%d" % (bi, i))
                out[i] = ok1
            return out

        def neg_one(ip):
            i, p = ip
            ok, _ = compile_group([(i, p)], "neg_%d" % i)
            return {i: ok}
        batches = [(k, pos[k:k + 12]) for k in range(0, len(pos), 12)]
        with ThreadPoolExecutor(max_workers=NPROC) as ex:
            for d in ex.map(pos_batch, batches):
                results.update(d)
            for d in ex.map(neg_one, neg):
                results.update(d)
    finally:
        shutil.rmtree(workdir, ignore_errors=True)
    mism = []
    for i, p in enumerate(pairs):
        if i in results and results[i] != exp[i][1]:
            mism.append((i, p, exp[i], results[i]))
    model_split = [(i, p) for i, (p, e) in enumerate(zip(pairs, exp)) if e[0] != e[1]]
    nt = set(p.query() for p in pairs if len(p.sig) >= 1)
    v.coverage.update({
        "evaluations": len(results) + n_asserts * len(compilers), "distinct_nontrivial": len(nt), "rule": RULE,
        "traces_validated_against_impl": len(results) - len(mism),
        "samples": [{"query": p.query(), "cpp": p.cpp(0), "model_accepts": exp[i][1], "compiler_accepts": results.get(i)} for i, p in list(enumerate(pairs))[:3]],
        "input_distribution": {"pairings": len(pairs), "model_accepts": len(pos), "model_rejects": len(neg),
                               "arity_histogram": {str(k): sum(1 for p in pairs if len(p.sig) == k) for k in range(4)}},
        "exhaustive_validation": {"static_asserts": n_asserts, "compilers": compilers, "failures": val_fail, "exhaustive": True},
        "exhaustive": False,
    })
    v.assumptions += ["finite type universe (9 base types x 4 parameter forms); user-defined conversions only via D->B",
                      "rvalue-reference parameters in slot/signal signatures are outside the universe"]
    if val_fail:
        v.violation("binds-validation", {"property": pid, "broken": "TypeModel.binds/converts disagrees with the compiler on the universe", "failures": val_fail}, no_input=True)
    for i, p in model_split[:2]:
        v.violation("model-split-%d" % i, {"property": pid, "broken": "lib_accepts differs from direct_ok in the model (a hop launders or rejects)", "query": p.query(), "cpp": p.cpp(0),
                                           "sig": p.sig, "r": p.r, "functor": p.functor, "compiler_accepts": results.get(i)})
    seen = 0
    for i, p, e, got in mism:
        if seen >= 4:
            break
        seen += 1
        v.violation("pair-%d" % seen, {"property": pid, "sig": p.sig, "r": p.r, "functor": p.functor, "query": p.query(), "cpp": PRELUDE + p.cpp(0),
                                       "model_accepts": e[1], "compiler_accepts": got, "proof_problems": problems,
                                       "broken": "compile status differs from TypeModel.direct_ok"})
    # fixed programs outside the type universe of the model: spellings of functors the pairings cannot express
    fx = fixed_programs(workdir + "-fixed")
    v.coverage["fixed_programs"] = {"count": len(FIXED), "wrong": [n for n, _ in fx]}
    for _n, (name, want, got, src, errtxt) in fx[:3]:
        v.violation("fixed-%s" % name, {"property": pid, "broken": "fixed program '%s' must %s" % (name, "compile" if want else "be rejected"), "cpp": src,
                                        "compiler_accepts": got, "compiler_output": errtxt[-1500:]})
    if not proof_ok and not v.violations:
        v.violation("proof", {"property": pid, "broken": problems}, no_input=True)
    return v.finish()


# (name, must compile?, body): each compiled alone with g++ -fsyntax-only
FIXED = [
    ("raw-method-pointer-ref-param", True,
     "struct T1 { long m(long& x, long y); long cm(long& x) const; };\n"
     "void f1() { sigc::slot<long(T1&, long&, long)> s = &T1::m; sigc::slot<long(const T1&, long&)> c = &T1::cm; sigc::signal<long(T1&, long&, long)> g; g.connect(&T1::m); (void)s; (void)c; }"),
    ("raw-method-pointer-under-bind", True,
     "struct T2 { long m(long& x, long y); };\nvoid f2() { sigc::slot<long(T2&, long&)> s = sigc::bind(&T2::m, 5L); (void)s; }"),
    ("raw-method-pointer-const-object", False,
     "struct T3 { long m(long x); };\nvoid f3() { sigc::slot<long(const T3&, long)> s = &T3::m; (void)s; }"),
    ("raw-method-pointer-value-to-ref", False,
     "struct T4 { long m(long& x); };\nvoid f4() { sigc::slot<long(T4&, long)> s = &T4::m; (void)s; }"),
    ("ptr-fun-ref-param", True,
     "long g5(long& x, const std::string& s);\nvoid f5() { sigc::slot<long(long&, const std::string&)> s = sigc::ptr_fun(&g5); sigc::slot<long(long&, std::string)> t = &g5; (void)s; (void)t; }"),
    ("lambda-ref-param", True,
     "void f6() { sigc::slot<void(long&)> s = [](long& x) { ++x; }; sigc::slot<long(long)> t = [](const long& x) { return x; }; (void)s; (void)t; }"),
    ("lambda-value-to-ref", False,
     "void f7() { sigc::slot<void(long)> s = [](long& x) { ++x; }; (void)s; }"),
    ("nullary-functor-returning-reference-to-uncopyable", True,
     "#include <iostream>\nstd::ostream& os8(); struct Abstract9 { virtual void f() = 0; }; Abstract9& ab9();\n"
     "void f9() { sigc::signal<void()> g; g.connect(sigc::hide_return(&os8)); sigc::slot<std::ostream&()> s = &os8; sigc::slot<Abstract9&()> t = sigc::ptr_fun(&ab9); (void)s; (void)t; }"),
    ("mem-functor-unbound", True,
     "struct T8 : public sigc::trackable { void m(int& x); };\nvoid f8() { sigc::slot<void(T8&, int&)> s = sigc::mem_fun(&T8::m); (void)s; }"),
]


def fixed_programs(workdir):
    os.makedirs(workdir, exist_ok=True)
    wrong = []
    try:
        def one(item):
            name, want, body = item
            src = "#include <sigc++/sigc++.h>\n#include <string>\n" + body + "\n"
            ok, errtxt = compile_status(src, workdir, "fixed_" + name.replace("-", "_"))
            return (name, (name, want, ok, src, errtxt)) if ok != want else None
        with ThreadPoolExecutor(max_workers=8) as ex:
            wrong = [x for x in ex.map(one, FIXED) if x]
    finally:
        shutil.rmtree(workdir, ignore_errors=True)
    return wrong


def directed_pairings():
    """aimed at the hop-mode table: a non-const reference parameter fed from a by-value / const
    signature parameter through every adaptor chain of the fragment (finding F7)"""
    out = []
    for b in ("i", "d", "B", "p"):
        for a in ("v", "c", "l"):
            fun = ("fun", "ptr", ["%s.l" % b], "i")
            out.append(Pairing(["%s.%s" % (b, a)], "-", ("hr", fun)))
            out.append(Pairing(["%s.%s" % (b, a), "i.v"], "-", ("hide", ("hr", fun))))
            out.append(Pairing(["%s.%s" % (b, a), "i.v"], "i", ("hide", fun)))
            out.append(Pairing(["%s.%s" % (b, a)], "-", ("bind", "i", ("hr", ("fun", "obj", ["%s.l" % b, "i.v"], "i")))))
            out.append(Pairing(["%s.%s" % (b, a)], "i", ("mem", 0, 0, ["%s.l" % b], "i")))
            out.append(Pairing(["%s.%s" % (b, a), "i.v"], "i", ("hideat", 1, fun)))
            out.append(Pairing(["i.v", "%s.%s" % (b, a)], "i", ("hideat", 0, fun)))
            out.append(Pairing(["%s.%s" % (b, a)], "i", ("bindat", 1, "i", ("fun", "obj", ["%s.l" % b, "i.v"], "i"))))
            out.append(Pairing(["%s.%s" % (b, a)], "i", ("bindat", 0, "i", ("fun", "obj", ["i.v", "%s.l" % b], "i"))))
            out.append(Pairing(["%s.%s" % (b, a)], "i", ("retype", ("fun", "ptr", ["%s.l" % b], "i"))))
            out.append(Pairing(["%s.%s" % (b, a)], "i", ("retype", ("fun", "ptr", ["%s.r" % b], "i"))))
    for a in ("v", "c", "l"):
        out.append(Pairing(["B.%s" % a], "-", ("retype", ("fun", "ptr", ["D.l"], "-"))))
        out.append(Pairing(["B.%s" % a], "-", ("retype", ("fun", "ptr", ["D.c"], "-"))))
        out.append(Pairing(["p.%s" % a], "-", ("retype", ("fun", "ptr", ["q.v"], "-"))))
        out.append(Pairing(["U.%s" % a], "-", ("retype", ("fun", "ptr", ["B.c"], "-"))))
        out.append(Pairing(["d.%s" % a], "-", ("retype", ("mem", 0, 0, ["i.v"], "-"))))
    # positional hide<I> / bind<I>: every position from 0 to one past the legal range, for arities 1..3
    for n in (1, 2, 3):
        sig = ["i.v"] * n
        for i in range(0, n + 2):
            out.append(Pairing(sig, "-", ("hideat", i, ("fun", "obj", ["i.v"] * (n - 1), "-"))))
            out.append(Pairing(sig, "-", ("bindat", i, "i", ("fun", "obj", ["i.v"] * (n + 1), "-"))))
        out.append(Pairing(sig, "-", ("hideat", 0, ("hideat", 0, ("fun", "obj", ["i.v"] * max(0, n - 2), "-")))))
        out.append(Pairing(["D.l"] + sig[1:], "i", ("bindat", 1, "d", ("fun", "ptr", ["B.l", "i.v"] + ["l.c"] * (n - 1), "i"))))
    # the method's class against the object's class, const and non-const methods, alone and under retype/bind
    for rel in (0, 1, 2, 3):
        for mc in (0, 1):
            out.append(Pairing(["i.v"], "i", ("mem", 0, mc, ["i.v"], "i", rel)))
            out.append(Pairing([], "-", ("mem", 0, mc, [], "-", rel)))
            out.append(Pairing(["d.v"], "-", ("retype", ("mem", 0, mc, ["i.v"], "-", rel))))
            out.append(Pairing([], "i", ("bind", "i", ("mem", 0, mc, ["i.v"], "i", rel))))
    return out


def tuplify(x):
    return tuple(tuplify(y) for y in x) if isinstance(x, list) and x and isinstance(x[0], str) and x[0] in ("fun", "mem", "bind", "hide", "hr", "retype", "hideat", "bindat") else x
