"""Correspondence part shared by the checks of C02, C06, C09, C15: NestModel.v (slots that hold other slots
by value or refer to slot variables through std::ref) against the library, on generated programs
(harness/gen_nest.py, driver mode `nest`).  Model and implementation print the state of every slot
variable and the length of every trackable's callback list after every operation; the two lines must be
identical.  A model error on a program the library runs cleanly is a machinery failure (rc 2)."""
import os, sys, json, time
from vlib.common import VERIF, log
sys.path.insert(0, os.path.join(VERIF, "harness"))
import corr, gen_nest

COUNTS = {"quick": 1500, "thorough": 20000}


def first_diff(a, b):
    ta, tb = a.split("} "), b.split("} ")
    for i, (x, y) in enumerate(zip(ta, tb)):
        if x != y:
            return {"op_index": i, "impl": x[-160:], "model": y[-160:]}
    return {"op_index": min(len(ta), len(tb)), "impl": a[-160:], "model": b[-160:]}


def shrink_nest(prog, exe, model_exe):
    ops = prog.split(";")
    deadline = time.time() + 30

    def fails(cand):
        p = ";".join(cand)
        i = corr.run_impl(exe, "nest", [p], shards=1)[0]
        m = corr.run_model(model_exe, "nest", [p])[0]
        return i != m and "ERR" not in m and "USER-RULE" not in m and not m.startswith("PARSE")
    changed = True
    while changed and time.time() < deadline:
        changed = False
        k = 0
        while k < len(ops) and time.time() < deadline:
            cand = ops[:k] + ops[k + 1:]
            if cand and fails(cand):
                ops = cand
                changed = True
            else:
                k += 1
    return ";".join(ops)


def nest_part(v, pid, tier, seed, exe, model_exe, replay=None, scale=1.0):
    """returns (n_violations_added, machinery_failure)"""
    if replay is not None:
        progs = [replay]
    else:
        progs = gen_nest.gen_programs("%s-%s" % (pid, seed), int(COUNTS[tier] * scale))
    t0 = time.time()
    impl = corr.run_impl(exe, "nest", progs)
    model = corr.run_model(model_exe, "nest", progs)
    mism, model_errs, crashes = [], [], 0
    for p, i, m in zip(progs, impl, model):
        if m.startswith("PARSE") or m.startswith("ERR TIMEOUT") or "USER-RULE" in m:
            model_errs.append((p, m, i))
        elif "ERR" in m and not i.startswith("CRASH"):
            model_errs.append((p, m, i))
        elif i != m:
            mism.append((p, i, m))
            crashes += i.startswith("CRASH")
    ops_hist = {}
    for p in progs[:2000]:
        for o in p.split(";"):
            k = o.split()[0] if o.split() else "?"
            ops_hist[k] = ops_hist.get(k, 0) + 1
    with_parent = sum(1 for m in model if "+" in m)
    with_invalid = sum(1 for m in model if ":i" in m)
    v.coverage["nested_slots"] = {
        "model": "NestModel.v (visitor<slot> bind/unbind, set_parent, slot_rep::disconnect, notify_slot_rep_invalidated, typed_slot_rep clone/destroy, slot_base copy/move/assign/disconnect/destroy)",
        "programs": len(progs), "agree": len(progs) - len(mism) - len(model_errs), "mismatches": len(mism), "impl_crashes": crashes,
        "programs_with_parent_links": with_parent, "programs_with_invalidated_slots": with_invalid,
        "op_histogram_first_2000": ops_hist, "wall_s": round(time.time() - t0, 1),
        "compared": "state of every slot variable (null / invalid / valid, has parent) and callback-list length of every trackable after every operation; live functor count at the end; ASan/UBSan/LSan on the library side",
    }
    if model_errs:
        p, m, i = model_errs[0]
        v.coverage["nested_slots"]["model_error_sample"] = {"program": p, "model": m[-300:], "impl": i[-300:]}
        log("MACHINERY: NestModel reports %s on a program the library runs cleanly: %s" % (m[-80:], p[:300]))
        return 0, True
    added = 0
    seen = set()
    for p, i, m in mism[:30]:
        if added >= 3:
            break
        small = shrink_nest(p, exe, model_exe)
        si = corr.run_impl(exe, "nest", [small], shards=1)[0]
        sm = corr.run_model(model_exe, "nest", [small])[0]
        key = "nest:" + "+".join(sorted(set(o.split()[0] for o in small.split(";") if o.split())))
        if key in seen:
            continue
        seen.add(key)
        added += 1
        v.violation("nest-%d" % added, {"property": pid, "broken": "correspondence NestModel vs implementation (slots holding / referring to slots)",
                                        "mode": "nest", "program": small, "original": p, "impl": si[-400:], "model": sm[-400:], "diff": first_diff(si, sm), "key": key})
    return added, False
