"""C09 / C10 / C11: AdaptorModel theorems + obligations over the regenerated tables +
correspondence on generated C++ functor expressions."""
import json, os, re, shutil, subprocess, sys, time, hashlib
from concurrent.futures import ThreadPoolExecutor
from checks.base import *
from vlib.common import run as vc_run
import corr, gen_expr

sys.path.insert(0, os.path.join(VERIF, "translate"))

RULES = {
    "C09": "generated well-typed functor expression (depth <= max) referring to >= 1 trackable by reference; for each of the %d trackables as victim the slot's emptiness is compared, plus registration counts per trackable and their return to zero when the slot dies first; distinct = distinct expression text" % gen_expr.K,
    "C10": "generated expression with >= 1 adaptor; leaf (position,value) sequences and result compared for the three routes (direct, slot, signal) with distinct argument values; distinct = distinct expression text",
    "C11": "generated expression with >= 1 argument or bound std::ref reaching a leaf; object identity (caller's object / bound object / copy) observed by every leaf compared for the three routes; distinct = distinct expression text",
}
COUNTS = {"quick": 128, "thorough": 1600}
DEPTH = {"quick": 3, "thorough": 5}
PER_TU = 8


def regenerate_tables():
    return ensure_tables()


def parse_fields(line):
    d = {}
    for m in re.finditer(r"(\w+)=(\[[^\]]*\]|\S*)", line):
        d[m.group(1)] = m.group(2)
    return d


def log_entries(s):
    log, _, res = s.rpartition(";")
    return sorted(re.findall(r"\d+\([^)]*\)", log)), res


def strip_idents(s):
    return re.sub(r":(o\d+|b\d+|c)\b", "", s)


def compare(pid, case, mline, iline):
    m, i = parse_fields(mline), parse_fields(iline)
    diffs = []
    if pid == "C09":
        if m["regs"] != i.get("regs"):
            diffs.append(("regs", m["regs"], i.get("regs")))
        if m["inval"] != i.get("inval"):
            diffs.append(("inval", m["inval"], i.get("inval")))
        zero = "[" + ",".join("%d=0" % k for k in range(gen_expr.K)) + "]"
        if i.get("after") != zero:
            diffs.append(("after", zero, i.get("after")))
        if m["regs"] != m["docregs"]:
            diffs.append(("model-visit-vs-refs", m["docregs"], m["regs"]))
    elif pid == "C11" and gen_expr.has_leafv(case.term):
        # by-value leaves see copies by design (identities are not compared), but "an argument declared by value
        # arrives equal to the emitted value": the values are
        c2 = gen_expr.has_compose2(case.term)
        key = (lambda x: log_entries(x)) if c2 else (lambda x: x)
        doc = strip_idents(m["doc"])
        for route in ("rvalue", "direct", "slot", "signal"):
            if route in i:
                b = strip_idents(i[route])
                if key(b) != key(doc):
                    diffs.append((route + "-values-vs-documented", doc, b))
    else:
        c2 = gen_expr.has_compose2(case.term)
        norm = (lambda x: strip_idents(x)) if pid == "C10" else (lambda x: x)
        key = (lambda x: log_entries(x)) if c2 else (lambda x: x)
        doc = norm(m["doc"])
        if pid == "C10" and "rvalue" in i:
            b = norm(i["rvalue"])
            if key(b) != key(doc):
                diffs.append(("rvalue-vs-documented", doc, b))
        for route, mk in (("direct", "direct"), ("slot", "slot"), ("signal", "slot")):
            a, b = norm(m[mk]), norm(i.get(route, ""))
            if key(b) != key(doc):
                diffs.append((route + "-vs-documented", doc, b))       # the property fails on this input
            if "ILLFORMED" in a:
                continue        # the model regenerated from this tree cannot run its own library path (a table obligation fails): the documented meaning decides
            if key(a) != key(b):
                diffs.append((route + "-vs-model", a, b))              # the model misrepresents the code
    return diffs


FIXED_SEEN = []
FIXED2_SEEN = []
FIXED2_EXPECTED = "fixed sigconn M:x=22,r=27,seen=5,size=0,conn=0,after=1/0 C:x=32,r=27,size=0,conn=0 F:x=42,s=n=77,r=42,size=0 R:ref=1,cref=1,hideref=1,hidecref=1 P:x=22,r=27,seen=5,bx=21,br=28,bseen=12,cx=32,cr=27 Q:pf=1,hide=1,bind=1 V:1e2e3e4ee N:-7,1,-3,200,25,-9 A:emit=1,call=1,n=23 T:ccc0 U:1ee50e X:c07110"
FIXED_EXPECTED = "fixed slotref A:outer_nonempty=1,inner_empty=1 B:inner_empty=1,outer_empty=1,copy_empty=0 C:inner_empty=1,outer_empty=1 D:outer2_empty=1"


def build_and_run(cases, workdir, variant="asan", keep_opt=False):
    """compile the cases in TUs of PER_TU, run them; returns {idx: output line} and compile failures"""
    os.makedirs(workdir, exist_ok=True)
    libdir, err = lib_build(variant)
    if err:
        return None, err
    cxx, flags = VARIANTS[variant]
    if not keep_opt:
        flags = [f for f in flags if f != "-O1"] + ["-O0"]
    probe_o = os.path.join(workdir, "probe.o")
    p = vc_run([cxx, "-std=c++17"] + flags + ["-I", libdir, "-I", REPO, "-c", os.path.join(VERIF, "harness", "probe.cc"), "-o", probe_o])
    if p.returncode != 0:
        return None, p.stderr
    groups = [cases[k:k + PER_TU] for k in range(0, len(cases), PER_TU)]

    def one(gi_group):
        gi, group = gi_group
        src = os.path.join(workdir, "tu_%d.cc" % gi)
        exe = os.path.join(workdir, "tu_%d" % gi)
        open(src, "w").write(gen_expr.translation_unit(group))
        cmd = [cxx, "-std=c++17"] + flags + ["-I", libdir, "-I", REPO, "-I", os.path.join(VERIF, "harness"), src, probe_o,
               os.path.join(libdir, "libsigc.a"), "-o", exe]
        p = vc_run(cmd)
        if p.returncode != 0:
            # find the offending cases one by one (syntax only)
            bad = {}
            good = []
            for c in group:
                s1 = os.path.join(workdir, "one_%d.cc" % c.idx)
                open(s1, "w").write(gen_expr.translation_unit([c]))
                q = vc_run([cxx, "-std=c++17", "-fsyntax-only", "-I", libdir, "-I", REPO, "-I", os.path.join(VERIF, "harness"), s1])
                if q.returncode != 0:
                    bad[c.idx] = q.stderr[-1500:]
                else:
                    good.append(c)
                os.remove(s1)
            if good and len(good) < len(group):
                open(src, "w").write(gen_expr.translation_unit(good))
                p = vc_run(cmd)
                if p.returncode != 0:
                    return {}, {c.idx: p.stderr[-1500:] for c in group}
            elif not good:
                return {}, bad
            else:
                return {}, {c.idx: p.stderr[-1500:] for c in group}
        else:
            bad = {}
        q = vc_run([exe], env=corr.ASAN_ENV, timeout=120)
        out = {}
        for line in q.stdout.split("\n"):
            if line.startswith("fixed slotref"):
                FIXED_SEEN.append(line.strip())
            if line.startswith("fixed sigconn"):
                FIXED2_SEEN.append(line.strip())
            mm = re.match(r"case (\d+)(.*)", line)
            if mm:
                out[int(mm.group(1))] = mm.group(2).strip()
        if q.returncode != 0:
            # the run died: attribute the crash to the first case without output
            summ = re.search(r"SUMMARY: [^\n]*", q.stderr) or re.search(r"ERROR: [^\n]*", q.stderr) or re.search(r"runtime error[^\n]*", q.stderr)
            for c in group:
                if c.idx not in out and c.idx not in bad:
                    out[c.idx] = "CRASH " + (summ.group(0) if summ else "rc=%d" % q.returncode)
                    break
        os.remove(exe)
        return out, bad
    results, failures = {}, {}
    with ThreadPoolExecutor(max_workers=NPROC) as ex:
        for out, bad in ex.map(one, list(enumerate(groups))):
            results.update(out)
            failures.update(bad)
    return (results, failures), None


def fixed_scenarios_only(v, pid):
    """build one translation unit with a single trivial case so that the fixed scenarios of
    harness/expr_prelude.h run, and check their outcome (used by checks whose own harness is the SigCore
    driver but whose property also speaks about spellings only the scenarios cover: accumulators returning
    references (C13), exceptions through raw method pointers (C08))"""
    del FIXED2_SEEN[:]
    c = gen_expr.Case(0, ("leaf", 1, 0), True, ["v"], [11])
    workdir = os.path.join(BUILD, "fixed-%s-%d" % (pid, os.getpid()))
    try:
        res, err = build_and_run([c], workdir)
    finally:
        shutil.rmtree(workdir, ignore_errors=True)
    seen = sorted(set(FIXED2_SEEN))
    v.coverage["fixed_scenarios"] = {"seen": [x[:80] + "..." for x in seen[:1]], "matches_expected": seen == [FIXED2_EXPECTED]}
    if err or (res and res[1]):
        msg = err or list(res[1].values())[0]
        v.violation("fixed-scenario-rejected", {"property": pid, "broken": "a fixed scenario of harness/expr_prelude.h (a documented, well-typed use of the library) is rejected by the compiler",
                                                "compiler_output": msg[-2500:], "source": "harness/expr_prelude.h"})
    elif seen != [FIXED2_EXPECTED]:
        v.violation("fixed-scenario", {"property": pid, "broken": "a fixed scenario of harness/expr_prelude.h gives a different outcome (or crashed)",
                                       "expected": FIXED2_EXPECTED, "got": seen[:2], "run_output": (res[0].get(0, "") if res else "")[:300], "source": "harness/expr_prelude.h: fixed_signal_connect"})


def nontrivial(pid, case, mline):
    m = parse_fields(mline)
    if pid == "C09":
        return bool(re.search(r"=\s*[1-9]", m.get("regs", "")))
    if pid == "C10":
        return gen_expr.depth_of(case.term) >= 2
    return bool(re.search(r":(o\d|b\d)", m.get("direct", "")))


def run(pid, args):
    tier, seed = tier_of(args), seed_of()
    v = Verdict(pid, tier, seed)
    t_info, terr = regenerate_tables()
    if terr:
        v.coverage.update({"evaluations": 0, "distinct_nontrivial": 0, "rule": RULES[pid], "samples": []})
        v.violation("lib-build", {"property": pid, "broken": "library does not compile", "compiler_output": terr[-4000:]}, no_input=True)
        return v.finish()
    model_exe = model_build()       # rebuilt with the regenerated tables
    proof_ok, problems = proof_part(v, pid)
    v.coverage["translator"] = {"tables_digest": t_info["digest"], "visit_table": {k: [list(x) for x in (t_info["visitors"][k]["overloads"][-1][1] if t_info["visitors"][k]["overloads"] else [])] for k in sorted(t_info["visitors"])},
                                "hop_modes": {k: c["modes"] for k, c in sorted(t_info["classes"].items()) if c["modes"]},
                                "slices": {k: c["slices"] for k, c in sorted(t_info["classes"].items()) if c["slices"]}}
    n = COUNTS[tier] * (1 if proof_ok else 2)
    if args.replay:
        rp = json.load(open(args.replay))
        import ast
        cases = [gen_expr.Case(0, ast.literal_eval(rp["term"]), rp["rv"], rp["kinds"], rp["vals"])]
    else:
        cases = gen_expr.generate(seed, n, DEPTH[tier])
        cases = directed_cases(pid, len(cases)) + cases
        for k, c in enumerate(cases):
            c.idx = k
    mlines = corr.run_model(model_exe, "expr", [c.model_line() for c in cases])
    usable = [(c, m) for c, m in zip(cases, mlines) if m.startswith("wt=true") and "doc=ILLFORMED" not in m]
    workdir = os.path.join(BUILD, "expr-%s-%d" % (pid, os.getpid()))
    try:
        res, err = build_and_run([c for c, _ in usable], workdir)
    finally:
        shutil.rmtree(workdir, ignore_errors=True)
    if err:
        v.coverage.update({"evaluations": 0, "distinct_nontrivial": 0, "rule": RULES[pid], "samples": []})
        v.violation("harness-build", {"property": pid, "broken": "expression harness does not compile", "compiler_output": err[-4000:]}, no_input=True)
        return v.finish()
    results, failures = res
    mism, compared, nt = [], 0, set()
    for c, m in usable:
        if c.idx in failures:
            continue
        il = results.get(c.idx)
        if il is None:
            continue
        compared += 1
        if nontrivial(pid, c, m):
            nt.add(gen_expr.to_text(c.term))
        if il.startswith("CRASH"):
            mism.append((c, m, il, [("crash", "", il)]))
            continue
        d = compare(pid, c, m, il)
        if d:
            mism.append((c, m, il, d))
    adaptors = {}
    for c, _ in usable:
        for a in gen_expr.adaptors_of(c.term):
            adaptors[a] = adaptors.get(a, 0) + 1
    v.coverage.update({
        "evaluations": compared, "distinct_nontrivial": len(nt), "rule": RULES[pid],
        "traces_validated_against_impl": compared - len(mism),
        "samples": [{"expr": gen_expr.to_cpp(c.term), "model": m, "impl": results.get(c.idx)} for c, m in usable[:3]],
        "input_distribution": {"adaptor_occurrences": adaptors, "generated": len(cases), "model_illformed_or_untyped": len(cases) - len(usable),
                               "rejected_by_compiler": len(failures), "max_depth": max([gen_expr.depth_of(c.term) for c, _ in usable] or [0])},
        "rejected_by_compiler_sample": list(failures.items())[:1],
        "sanitizers": "g++ -O0 ASan+UBSan", "exhaustive": False,
    })
    if len(failures) > max(4, len(usable) // 5):
        msgs = [m for _, m in list(failures.items())[:4]]
        in_prelude = [m for m in msgs if re.search(r"expr_prelude\.h:\d+:\d+:\s+(required from here|error)", m)]
        if in_prelude:
            # the fixed scenarios of the harness (documented, well-typed uses of the library) no longer compile:
            # that scenario is the failing input
            v.violation("fixed-scenario-rejected", {"property": pid, "broken": "a fixed scenario of harness/expr_prelude.h (a documented, well-typed use of the library) is rejected by the compiler",
                                                    "compiler_output": in_prelude[0][-2500:], "source": "harness/expr_prelude.h"})
        else:
            by_case = {c.idx: c for c, _ in usable}
            k0 = sorted(failures)[0]
            c0 = by_case.get(k0)
            v.violation("compile-rejects", {"property": pid, "broken": "the compiler rejects %d of %d expressions the model types as well-formed" % (len(failures), len(usable)),
                                            "cpp": gen_expr.to_cpp(c0.term) if c0 else None, "term": repr(c0.term) if c0 else None,
                                            "kinds": c0.kinds if c0 else None, "sample": list(failures.items())[:2]}, no_input=(c0 is None))
    v.coverage["fixed_scenarios"] = {"slot_by_reference": sorted(set(FIXED_SEEN))[:3], "expected": FIXED_EXPECTED}
    if pid == "C09" and FIXED_SEEN and any(x != FIXED_EXPECTED for x in FIXED_SEEN):
        v.violation("fixed-slotref", {"property": pid, "broken": "fixed scenario: a slot referred to by std::ref from another slot's functor",
                                      "expected": FIXED_EXPECTED, "got": sorted(set(FIXED_SEEN))[:3], "source": "harness/expr_prelude.h: fixed_slot_by_reference"})
    v.coverage["fixed_scenarios"]["signal_connect"] = {"seen": sorted(set(FIXED2_SEEN))[:3], "expected": FIXED2_EXPECTED}
    if FIXED2_SEEN and any(x != FIXED2_EXPECTED for x in FIXED2_SEEN):
        v.violation("fixed-sigconn", {"property": pid, "broken": "fixed scenario: sigc::signal_connect() must behave as connect(mem_fun(obj, fun)) / connect(ptr_fun(fun))",
                                      "expected": FIXED2_EXPECTED, "got": sorted(set(FIXED2_SEEN))[:3], "source": "harness/expr_prelude.h: fixed_signal_connect"})
    seen = set()
    for c, m, il, d in mism:
        key = d[0][0] + ":" + "+".join(sorted(gen_expr.adaptors_of(c.term)))
        if key in seen or len(seen) >= 5:
            continue
        seen.add(key)
        v.violation("expr-%d" % len(seen), {"property": pid, "term": repr(c.term), "rv": c.rv, "kinds": c.kinds, "vals": c.vals,
                                            "cpp": gen_expr.to_cpp(c.term), "model": m, "impl": il, "diff": d, "proof_problems": problems,
                                            "broken": "correspondence AdaptorModel vs library on a generated expression"})
    if pid == "C11" and not args.replay:
        # "an argument declared by value arrives at every slot equal to the emitted value ... and a result is
        # returned without being replaced by a default unless no slot ran": decided on SigCore programs
        # (value-returning and accumulated signals, blocked / disconnected slots after the one that ran)
        from checks import sigcheck
        from vlib.common import driver_build
        sexe, serr = driver_build([os.path.join(VERIF, "harness", "driver.cc"), os.path.join(VERIF, "harness", "probe.cc")], "asan")
        if sexe:
            progs = sigcheck.gen_programs("C13", tier, seed, 0.3)
            smism, sstats, sran, _merrs = sigcheck.correspondence(v, "C11", progs, sexe, model_exe)
            v.coverage["emission_results_on_sigcore_programs"] = dict(sstats, mismatches=len(smism), profiles=sigcheck.CFG["C13"]["profiles"])
            for k, mm in enumerate(smism[:2]):
                sm = sigcheck.shrink_mismatch("C11", mm, sexe, model_exe)
                if not sm["diff"]:
                    sm = dict(mm, original=mm["program"])
                v.violation("result-%d" % (k + 1), dict(sm, property=pid, broken="arguments / emission result differ from the LL model on a signal program (pinned: invocations with their arguments, results)"))
    if pid == "C09" and not args.replay:
        # slots stored inside / referred to by other slots: NestModel against the library
        from checks.nestpart import nest_part
        from vlib.common import driver_build
        nexe, nerr = driver_build([os.path.join(VERIF, "harness", "driver.cc"), os.path.join(VERIF, "harness", "probe.cc")], "asan")
        if nexe:
            _added, machinery = nest_part(v, pid, tier, seed, nexe, model_exe, scale=1.0 if proof_ok else 2.0)
            if machinery:
                v.finish()
                return 2
        else:
            v.violation("harness-build", {"property": pid, "broken": "correspondence harness does not compile against /repo working tree", "compiler_output": (nerr or "")[-4000:]}, no_input=True)
    if not proof_ok and not v.violations:
        v.violation("proof", {"property": pid, "broken": problems, "tables": v.coverage["translator"]}, no_input=True)
    return v.finish()


def directed_cases(pid, start):
    """expressions aimed at the table entries: every adaptor alone and under a deducing adaptor,
    every bound position as the only reference"""
    C = gen_expr.Case
    out = []
    leaf = ("leaf", 1, 0)
    # each bound position of bind<I> as the only tracked reference (F1)
    for nb in (1, 2, 3):
        for pos in range(nb):
            bounds = [("r", 1) if j == pos else ("v", 40 + j) for j in range(nb)]
            out.append(C(0, ("bind", 0, leaf, bounds), True, [], []))
            out.append(C(0, ("bind", -1, leaf, bounds), True, ["r"], [11]))
            out.append(C(0, ("bind", 1, leaf, bounds), True, ["r"], [11]))
    # tuples of 4, 5 and 6 elements (bound values, tracked objects): each position as the only tracked reference
    for n in (4, 5, 6):
        for pos in range(n):
            bounds = [("r", 1) if j == pos else ("v", 40 + j) for j in range(n)]
            out.append(C(0, ("bind", -1, leaf, bounds), True, [], []))
            out.append(C(0, ("bind", 0, leaf, bounds), True, ["v"], [11]))
        out.append(C(0, ("to", leaf, [0, 1, 2, 3, 0, 1][:n]), True, ["v"], [11]))
        out.append(C(0, ("to", leaf, [3] * (n - 1) + [2]), True, ["v"], [11]))
        out.append(C(0, ("to", leaf, [3] * (n - 2) + [1, 3]), True, ["v"], [11]))
    # a functor / a slot / a trackable-derived object bound by value is visited like any other bound value
    for kind in ("f", "s", "t"):
        out.append(C(0, ("bind", -1, leaf, [(kind, 2)]), True, [], []))
        out.append(C(0, ("bind", 0, leaf, [("v", 41), (kind, 1)]), True, ["r"], [11]))
        out.append(C(0, ("hide", -1, ("bind", -1, leaf, [(kind, 3), ("r", 1)])), True, ["v"], [11]))
        out.append(C(0, ("bind", -1, ("bind", -1, leaf, [(kind, 0)]), [("v", 9)]), True, [], []))
    # mem_fun with a method declared in the trackable class / inherited from a non-trackable base
    for inh in (0, 1):
        for cst in (0, 1):
            out.append(C(0, ("mem", 1, ["r"], inh, cst), True, ["r"], [11]))
            out.append(C(0, ("hide", -1, ("mem", 2, ["v"], inh, cst)), True, ["v", "c"], [11, 22]))
            out.append(C(0, ("bind", -1, ("mem", 3, ["c", "v"], inh, cst), [("v", 44)]), True, ["c"], [11]))
    # two-getter compose with getters that take their argument by value: called with temporaries (rvalue
    # route) a getter must not see an argument the other getter has moved from
    for g1, g2 in ((("mem", 0, ["v"], 0, 0), ("mem", 1, ["v"], 0, 0)), (("mem", 2, ["v"], 1, 1), ("leaf", 6, 0)),
                   (("bind", -1, ("mem", 1, ["v", "v"], 0, 0), [("v", 31)]), ("mem", 3, ["c"], 0, 0))):
        out.append(C(0, ("c2", ("leaf", 5, 0), g1, g2), True, ["v"], [11]))
        out.append(C(0, ("hide", -1, ("c2", ("leaf", 5, 0), g1, g2)), True, ["v", "v"], [11, 22]))
    for g1, g2 in ((("leafv", 7), ("leafv", 8)), (("leafv", 7), ("leaf", 8, 0)), (("hide", -1, ("leafv", 7)), ("bind", -1, ("leafv", 8), [("v", 31)]))):
        out.append(C(0, ("c2", ("leaf", 5, 0), g1, g2), True, ["v", "v"], [11, 22]))
        out.append(C(0, ("c1", ("leaf", 5, 0), g1), True, ["v", "v"], [11, 22]))
    # every adaptor under a deducing adaptor with a reference parameter (F2)
    inner = [("hr", leaf), ("retype", leaf, [("O", False)], True), ("br", leaf, 123), ("ec", leaf, 1500),
             ("c2", ("leaf", 2, 0), leaf, ("leaf", 3, 0)), ("c1", ("leaf", 2, 0), leaf), ("rr", leaf), ("to", leaf, [2]),
             ("slot", leaf, [("O", False)], True), ("bind", -1, leaf, [("v", 77)]), ("hide", -1, ("leaf", 4, 0))]
    for t in inner:
        rv = t[0] != "hr"
        if t[0] == "hide":
            out.append(C(0, ("hide", -1, t), True, ["r", "v", "c"], [11, 22, 33]))
            continue
        out.append(C(0, ("hide", -1, t), rv, ["r", "v"], [11, 22]))
        out.append(C(0, ("bind", -1, t if t[0] not in ("retype", "slot") else (t[0], ("hide", -1, leaf), [("O", False), ("O", False)], True), [("v", 55)]), rv, ["r"], [11]))
        out.append(C(0, t, rv, ["r"], [11]))
    # every position of bind<I> / hide<I> with by-value arguments (the rvalue route hands temporaries in:
    # an argument moved from twice, or in an order the compiler chooses, shows here)
    for n in (2, 3, 4):
        for loc in range(0, n + 1):
            out.append(C(0, ("bind", loc, ("leaf", 5, 0), [("v", 40), ("v", 41)]), True, ["v"] * n, [11 * (j + 1) for j in range(n)]))
        for loc in range(0, n):
            out.append(C(0, ("hide", loc, ("leaf", 5, 0)), True, ["v"] * n, [11 * (j + 1) for j in range(n)]))
            out.append(C(0, ("hide", loc, ("bind", 1, ("leaf", 5, 0), [("v", 40)])), True, ["v"] * n, [11 * (j + 1) for j in range(n)]))
    # exception_catch over a throwing functor: a catcher that returns, and one that rethrows (the
    # exception must reach the caller through every route), alone and under other adaptors
    thr = ("leaf", 6, 1)
    for c in (1500, 5500):
        out.append(C(0, ("ec", thr, c), True, ["v"], [11]))
        out.append(C(0, ("hide", -1, ("ec", thr, c)), True, ["v", "v"], [11, 22]))
        out.append(C(0, ("bind", -1, ("ec", ("leaf", 6, 1), c), [("v", 9)]), True, [], []))
        out.append(C(0, ("ec", ("ec", thr, 5600), c), True, ["v"], [11]))
        out.append(C(0, ("rr", ("ec", thr, c)), True, ["v"], [11]))
    return out
