"""C19: ThreadModel theorems + obligation over the regenerated list of static-storage variables +
correspondence under ThreadSanitizer: K threads, each running its own generated programs on its own
objects, start-aligned; every thread's traces must equal the model's solo traces and TSan must be silent."""
import json, os, re, subprocess, time
from checks.base import *
from vlib.common import run as vc_run
import corr, gen_sig

RULE = ("each program is run by one of K threads on objects only that thread touches, concurrently with the other threads' programs; "
        "non-trivial = the program's model trace contains at least one slot invocation and one disconnect/destroy; distinct = distinct program text")


def run(pid, args):
    tier, seed = tier_of(args), seed_of()
    v = Verdict(pid, tier, seed)
    info, terr = ensure_tables()
    model_exe = model_build()
    proof_ok, problems = proof_part(v, pid)
    exe, err = driver_build([os.path.join(VERIF, "harness", "driver.cc"), os.path.join(VERIF, "harness", "probe.cc")], "tsan")
    if not exe:
        v.coverage.update({"evaluations": 0, "distinct_nontrivial": 0, "rule": RULE, "samples": []})
        v.violation("harness-build", {"property": pid, "broken": "harness does not compile (TSan variant)", "compiler_output": (err or "")[-4000:]}, no_input=True)
        return v.finish()
    n = {"quick": 480, "thorough": 6000}[tier]
    reps = {"quick": 3, "thorough": 20}[tier]
    progs = []
    for prof in ("basic", "lifetime", "reentrant", "handles", "scoped", "slots", "chain"):
        progs += gen_sig.generate(seed, prof, n // 7, size=20)
    mout = corr.run_model(model_exe, "sig", progs)
    keep = [(p, m) for p, m in zip(progs, mout) if not m.startswith(("ERR", "PARSE")) and len(m) < 8000]
    lines = [p for p, _ in keep]
    env = dict(os.environ, TSAN_OPTIONS="halt_on_error=0:exitcode=66:report_signal_unsafe=0:second_deadlock_stack=1")
    races, mism, runs = [], [], 0
    for K in ([2, 8, 16] if tier == "quick" else [2, 3, 4, 8, 12, 16]):
        for rep in range(reps):
            p = subprocess.run([exe, "threads", str(K)], input="\n".join(lines) + "\n", stdout=subprocess.PIPE, stderr=subprocess.PIPE, text=True, env=env, errors="replace")
            runs += 1
            out = p.stdout.split("\n")
            if out and out[-1] == "":
                out.pop()
            if "ThreadSanitizer" in p.stderr:
                summ = re.findall(r"SUMMARY: ThreadSanitizer: [^\n]*", p.stderr)
                races.append({"threads": K, "summary": summ[:3], "report": p.stderr[:3000]})
            if len(out) != len(lines):
                mism.append({"threads": K, "problem": "driver produced %d lines for %d programs (rc=%d)" % (len(out), len(lines), p.returncode), "stderr": p.stderr[-1500:]})
                continue
            for (prog, m), i in zip(keep, out):
                if m != i:
                    mism.append({"threads": K, "program": prog, "model": m[:2000], "impl": i[:2000]})
                    break
            if races or mism:
                break
        if races or mism:
            break
    nt = set(p for p, m in keep if " L" in m and re.search(r"cdisc|tdel|gdel|sdel|gclear", p))
    globs = [g for g in info["globals"] if g["mutable"] and not g["thread_local"]] if info else []
    v.coverage.update({"evaluations": len(lines) * runs, "distinct_nontrivial": len(nt), "rule": RULE,
                       "traces_validated_against_impl": len(lines) * runs - len(mism),
                       "samples": [{"program": p, "model_trace": m[:400]} for p, m in keep[:2]],
                       "thread_counts": [2, 8, 16] if tier == "quick" else [2, 3, 4, 8, 12, 16], "repetitions": reps, "runs": runs,
                       "static_storage_variables": [{"name": g["name"], "where": "%s:%s" % (g["file"], g["line"]), "mutable": g["mutable"]} for g in (info["globals"] if info else [])],
                       "sanitizers": "g++ -O1 -fsanitize=thread", "exhaustive": False,
                       "explanation": "partial by nature: the C++ memory model, the allocator and shared_ptr atomics are not modelled; races are exhibited only by TSan"})
    v.assumptions += ["TSan observes only the interleavings that occurred in these runs", "the translator's list of static-storage variables is complete for the five .cc files and the headers they include"]
    for r in races[:2]:
        v.violation("race-%d" % r["threads"], dict(r, property=pid, broken="ThreadSanitizer reports a data race between threads that share no library object", mutable_globals=globs))
    for mm in mism[:2]:
        v.violation("trace-%d" % mm["threads"], dict(mm, property=pid, broken="a thread's trace differs from its solo (model) trace"))
    if not proof_ok and not v.violations:
        v.violation("proof", {"property": pid, "broken": problems, "mutable_globals": globs,
                              "note": "obligation broken but TSan silent on %d runs" % runs}, no_input=True)
    return v.finish()
