"""Correspondence runner: model (extracted OCaml) vs implementation (C++ driver) on the same
program lines; trace tokenisation, pin classes, comparison, shrinking."""
import os, re, subprocess, sys
from concurrent.futures import ThreadPoolExecutor

sys.path.insert(0, os.path.dirname(os.path.dirname(os.path.abspath(__file__))))
from vlib.common import NPROC, MachineryError

ASAN_ENV = dict(os.environ, ASAN_OPTIONS="detect_leaks=1:abort_on_error=0:exitcode=23:allocator_may_return_null=1:detect_stack_use_after_return=0",
                UBSAN_OPTIONS="print_stacktrace=0:halt_on_error=1", LSAN_OPTIONS="print_suppressions=0")


def run_model(model_exe, mode, lines, fuel=6):
    args = [model_exe, mode] + ([str(fuel)] if mode == "sig" else [])
    p = subprocess.run(args, input="\n".join(lines) + "\n", stdout=subprocess.PIPE, stderr=subprocess.PIPE, text=True)
    if p.returncode != 0:
        raise MachineryError("model driver failed: " + p.stderr[-2000:])
    out = p.stdout.split("\n")
    if out and out[-1] == "":
        out.pop()
    if len(out) != len(lines):
        raise MachineryError("model driver: %d lines in, %d out" % (len(lines), len(out)))
    return out


def _run_shard(args):
    exe, mode, lines, env, wrapper = args
    cmd = list(wrapper) + [exe, mode]
    p = subprocess.run(cmd, input="\n".join(lines) + "\n", stdout=subprocess.PIPE, stderr=subprocess.PIPE, text=True, env=env, errors="replace")
    out = p.stdout.split("\n")
    if out and out[-1] == "":
        out.pop()
    if len(out) != len(lines):
        # the parent driver itself died: mark the remainder
        out += ["CRASH driver-parent rc=%d %s" % (p.returncode, p.stderr[-300:].replace("\n", " "))] * (len(lines) - len(out))
    return out


def run_impl(exe, mode, lines, env=None, shards=None, wrapper=()):
    if not lines:
        return []
    shards = shards or min(NPROC, max(1, len(lines) // 8))
    chunks = [lines[i::shards] for i in range(shards)]
    with ThreadPoolExecutor(max_workers=shards) as ex:
        outs = list(ex.map(_run_shard, [(exe, mode, c, env or ASAN_ENV, wrapper) for c in chunks]))
    res = [None] * len(lines)
    for i, o in enumerate(outs):
        for j, line in enumerate(o):
            res[i + j * shards] = line
    return res


# ---------------------------------------------------------------------------------------------
# pin classes

def classify(line):
    """-> list of (class, token, depth).  Classes: inv ret sq gq0 gqN cq br pf pr leak skip err"""
    out = []
    depth = 0
    if line.startswith(("CRASH", "ERR", "PARSE-ERROR")):
        return [("err", line, 0)]
    body, _, tail = line.partition("|")
    for t in body.split():
        c = t[0]
        if c == "E":
            out.append(("inv", t, depth))
            depth += 1
        elif c in "LT":
            depth = max(0, depth - 1)
            out.append(("inv", t, depth))
        elif t.startswith(("cr", "er")) or t == "X":
            out.append(("ret", t, depth))
        elif t.startswith("sq"):
            out.append(("sq", t, depth))
        elif t.startswith("gq"):
            out.append(("gq0" if depth == 0 else "gqN", t, depth))
        elif t.startswith("cq"):
            out.append(("cq", t, depth))
        elif t.startswith("br"):
            out.append(("br", t, depth))
        elif t.startswith("P["):
            m = re.match(r"P\[f:([^\]]*)\]\[r:([^\]]*)\]\[l:(\d+)\]", t)
            out.append(("pf", "f:" + m.group(1), depth))
            # registrations per trackable are compared as "none / some": how many callbacks the library
            # registers per reference is its own business, that none is left behind is the property's
            regs = m.group(2)
            if "?" not in regs:
                out.append(("pr", "r:" + re.sub(r"=([1-9]\d*)", "=+", regs), depth))
        elif t == "-":
            out.append(("skip", t, depth))
        else:
            out.append(("other", t, depth))
    tail = tail.strip()
    if tail:
        out.append(("leak", tail, 0))
    return out


ALL_CLASSES = {"inv", "ret", "sq", "gq0", "cq", "br", "pf", "pr", "leak", "skip", "err", "other"}

PINS = {
    "C01": {"inv", "ret", "gq0", "skip", "err"},
    "C02": {"inv", "ret", "sq", "cq", "gq0", "pr", "skip", "err"},
    "C03": {"inv", "ret", "gq0", "cq", "skip", "err"},
    "C04": {"cq", "br", "gq0", "inv", "skip", "err"},
    "C06": {"err", "sq", "cq", "gq0", "pr", "leak", "inv", "skip"},
    "C07": {"pf", "pr", "gq0", "leak", "err", "skip"},
    "C08": {"inv", "ret", "gq0", "cq", "skip", "err"},
    "C12": {"br", "inv", "ret", "cq", "sq", "gq0", "skip", "err"},
    "C13": {"inv", "ret", "skip", "err"},
    "C11": {"inv", "ret", "skip", "err"},      # the by-value-argument and emission-result clauses of C11 on SigCore programs
    "C14": {"gq0", "inv", "ret", "cq", "pr", "skip", "err"},
    "C15": {"sq", "ret", "inv", "pf", "pr", "br", "skip", "err"},
    "C17": {"gq0", "cq", "inv", "ret", "skip", "err"},
    "C18": {"inv", "ret", "gq0", "sq", "skip", "err"},
    "C20": ALL_CLASSES | {"gqN"},
}


def project(line, pins):
    return [(c, t) for (c, t, _d) in classify(line) if c in pins]


def diff(model_line, impl_line, pins):
    """None when equal on the pinned classes, else a dict describing the first difference."""
    a = project(model_line, pins)
    b = project(impl_line, pins)
    if a == b:
        return None
    i = 0
    while i < len(a) and i < len(b) and a[i] == b[i]:
        i += 1
    return {"index": i, "model": a[i] if i < len(a) else None, "impl": b[i] if i < len(b) else None}


def unpinned_deviation(model_line, impl_line, pins):
    return model_line != impl_line and diff(model_line, impl_line, pins) is None


# ---------------------------------------------------------------------------------------------
# shrinking (delta debugging on op tokens of a sig program)

def split_program(line):
    """-> list of sections, each (header tokens, list of ops (each a list of tokens))"""
    toks = line.split()
    secs = []
    i = 0
    ar = {"tnew": 1, "tnewsh": 1, "trel": 1, "tdel": 1, "tasg": 2, "tmasg": 2, "tnot": 1, "sempty": 2, "scopy": 2, "smove": 2, "sasg": 2, "smasg": 2,
          "scall": 3, "sblock": 2, "sdisc": 1, "sdel": 1, "sq": 1, "gnew": 4, "gcopy": 2, "gmove": 2, "gasg": 2, "gmasg": 2, "gdel": 1,
          "gconn": 5, "gemit": 3, "gclear": 1, "gblock": 2, "gq": 1, "gmk": 2, "cempty": 1, "ccopy": 2, "casg": 2, "cdisc": 1,
          "cblock": 2, "cdel": 1, "cq": 1, "gshare": 1, "grel": 1, "cshare": 1, "crel": 1, "cmove": 2, "cmasg": 2, "knewm": 2, "kasgm": 2, "knew": 2, "kempty": 1, "kasg": 2, "kmove": 2, "kmasg": 2, "kswap": 2, "krel": 2,
          "kdisc": 1, "kblock": 2, "kdel": 1, "kq": 1, "probe": 0, "throw": 0,
          "acopy": 2, "ainc": 1, "adec": 1, "aincp": 1, "adecp": 1, "awalkp": 1, "awalkrevp": 1, "aderef": 1, "awalk": 1, "awalkrev": 1, "awalkuntil": 2}
    while i < len(toks):
        t = toks[i]
        if t == "S":
            hdr = toks[i:i + 4]
            i += 4
        elif t == "A":
            hdr = toks[i:i + 2]
            i += 2
        elif t == "M":
            hdr = [t]
            i += 1
        elif t == "O":
            n = int(toks[i + 2])
            hdr = toks[i:i + 3 + n]
            i += 3 + n
        else:
            raise ValueError("bad section " + t)
        ops = []
        while i < len(toks) and toks[i] not in ("S", "A", "M", "O"):
            m = toks[i]
            if m == "snew":
                n = int(toks[i + 5])
                ops.append(toks[i:i + 6 + n])
                i += 6 + n
            else:
                ops.append(toks[i:i + 1 + ar[m]])
                i += 1 + ar[m]
        secs.append((hdr, ops))
    return secs


def join_program(secs):
    return " ".join(" ".join(h + [t for o in ops for t in o]) for h, ops in secs)


def shrink(line, still_fails, max_rounds=6, budget_s=45.0):
    """greedy one-at-a-time removal of ops until no single removal keeps the failure (or the time
    budget is spent: the result is then a smaller, not a minimal, failing program)"""
    import time
    deadline = time.time() + budget_s
    secs = split_program(line)
    for _ in range(max_rounds):
        changed = False
        for si in range(len(secs)):
            oi = 0
            while oi < len(secs[si][1]):
                if time.time() > deadline:
                    return join_program(secs)
                cand = [(h, list(ops)) for h, ops in secs]
                del cand[si][1][oi]
                cl = join_program(cand)
                if still_fails(cl):
                    secs = cand
                    changed = True
                else:
                    oi += 1
        if not changed:
            break
    return join_program(secs)
