// probe.cc -- reads library internals without touching the library source: the standard headers
// are included first, then the sigc++ headers with access specifiers opened up.
#ifdef VERIF_NO_PROBE
// fallback when the library internals are no longer reachable this way: probes report "unknown"
#include <sigc++/sigc++.h>
size_t probe_regs(const sigc::trackable&) { return (size_t)-1; }
long probe_list(const sigc::trackable&) { return -2; }
int probe_exec(const sigc::signal_base&) { return -2; }
int probe_slot(const sigc::slot_base& s) { return s ? (s.empty() ? 1 : 2) : 0; }
#else
#include <list>
#include <memory>
#include <tuple>
#include <utility>
#include <functional>
#include <type_traits>
#include <cstddef>
#include <iterator>
#define private public
#define protected public
#include <sigc++/sigc++.h>
#undef private
#undef protected

// number of callback entries registered on a trackable (0 when no list is allocated)
size_t probe_regs(const sigc::trackable& t)
{
  return t.callback_list_ ? t.callback_list_->callbacks_.size() : 0;
}
// -1 when no callback list is allocated, else its length
long probe_list(const sigc::trackable& t)
{
  return t.callback_list_ ? (long)t.callback_list_->callbacks_.size() : -1;
}
int probe_exec(const sigc::signal_base& s)
{
  return s.impl_ ? (int)s.impl_->exec_count_ : -1;
}
// 0: rep_ == nullptr, 1: invalidated (call_ == nullptr), 2: valid; +4 when the rep has a parent
int probe_slot(const sigc::slot_base& s)
{
  if (!s.rep_) return 0;
  return (s.rep_->call_ ? 2 : 1) + (s.rep_->parent_ ? 4 : 0);
}
#endif
