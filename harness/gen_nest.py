"""Generator of nested-slot programs (driver mode `nest`, model NestModel.v).

A program is a ';'-separated list of operations over slot variables s1.. and trackables t1..:
  tnew T | tdel T | sempty S | snew S n (t T | r S' | v S')*n | scopy D S | smove D S | sasg D S | smasg D S
  | sdisc S | sdel S | sq S
User-side rules the generator keeps (breaking them is a bug of the program, not of the library):
a slot variable that some functor refers to through std::ref is never destroyed while functors may
still exist; every program ends by assigning an empty slot to every variable (which destroys every
functor while all variables are still alive) and then destroys variables and trackables."""
import random


class NestGen:
    def __init__(self, rnd, profile="mixed"):
        self.r = rnd
        self.profile = profile
        self.ops = []
        self.vars = {}           # name -> "live" | "dead"
        self.tr = {}             # name -> "live" | "dead"
        self.ref_targets = set()
        self.next_s = 1
        self.next_t = 1

    def live_vars(self):
        return [k for k, v in self.vars.items() if v == "live"]

    def live_tr(self):
        return [k for k, v in self.tr.items() if v == "live"]

    def emit(self, s):
        self.ops.append(s)

    def new_track(self):
        t = self.next_t
        self.next_t += 1
        self.tr[t] = "live"
        self.emit("tnew %d" % t)
        return t

    def fresh_s(self):
        s = self.next_s
        self.next_s += 1
        return s

    def new_slot(self, kinds=None):
        r = self.r
        s = self.fresh_s()
        items = []
        lt, lv = self.live_tr(), self.live_vars()
        n = r.choice([1, 1, 2, 2, 3])
        for _ in range(n):
            k = r.choice(kinds or "ttrrvv")
            if k == "t" and lt:
                items.append(("t", r.choice(lt)))
            elif k == "r" and lv:
                x = r.choice(lv)
                items.append(("r", x))
                self.ref_targets.add(x)
            elif k == "v" and lv:
                items.append(("v", r.choice(lv)))
            elif lt:
                items.append(("t", r.choice(lt)))
        # member order of the functor: trackables, references, values
        items.sort(key=lambda it: "trv".index(it[0]))
        self.emit("snew %d %d %s" % (s, len(items), " ".join("%s %d" % it for it in items)))
        self.vars[s] = "live"
        return s

    def step(self):
        r = self.r
        lv, lt = self.live_vars(), self.live_tr()
        c = r.random()
        if not lt or (c < 0.08 and len(self.tr) < 4):
            self.new_track()
        elif not lv or c < 0.30:
            if len(self.vars) < 9:
                self.new_slot()
            else:
                self.emit("sq %d" % r.choice(lv))
        elif c < 0.40:
            if len(self.vars) < 9:
                d = self.fresh_s()
                self.emit("scopy %d %d" % (d, r.choice(lv)))
                self.vars[d] = "live"
        elif c < 0.46:
            if len(self.vars) < 9:
                d = self.fresh_s()
                self.emit("smove %d %d" % (d, r.choice(lv)))
                self.vars[d] = "live"
        elif c < 0.58:
            self.emit("%s %d %d" % (r.choice(["sasg", "sasg", "smasg"]), r.choice(lv), r.choice(lv)))
        elif c < 0.66:
            self.emit("sdisc %d" % r.choice(lv))
        elif c < 0.76:
            cand = [x for x in lv if x not in self.ref_targets]
            if cand:
                x = r.choice(cand)
                self.emit("sdel %d" % x)
                self.vars[x] = "dead"
        elif c < 0.88:
            t = r.choice(lt)
            self.emit("tdel %d" % t)
            self.tr[t] = "dead"
        else:
            self.emit("sq %d" % r.choice(lv))

    def teardown(self):
        lv = self.live_vars()
        if lv:
            e = self.fresh_s()
            self.emit("sempty %d" % e)
            self.vars[e] = "live"
            order = list(lv)
            self.r.shuffle(order)
            for x in order:
                self.emit("sasg %d %d" % (x, e))
            order = self.live_vars()
            self.r.shuffle(order)
            for x in order:
                self.emit("sdel %d" % x)
        for t in self.live_tr():
            self.emit("tdel %d" % t)

    def program(self, length):
        for _ in range(length):
            self.step()
        if self.profile != "noteardown" or self.r.random() < 0.7:
            self.teardown()
        return ";".join(self.ops)


def scenario_unbind_by_copy(rnd):
    """a copy of the outer slot (by copy construction, reassignment, destruction) must not detach the
    inner slot from the original outer slot"""
    how = rnd.choice(["sdel", "sasg", "sdisc", "smasg"])
    ops = ["tnew 1", "snew 1 1 t 1", "snew 2 1 r 1", "scopy 3 2", "sempty 9"]
    ops.append({"sdel": "sdel 3", "sasg": "sasg 3 9", "sdisc": "sdisc 3", "smasg": "smasg 3 9"}[how])
    ops += ["tdel 1", "sq 1", "sq 2", "sasg 1 9", "sasg 2 9", "sasg 3 9", "sdel 2", "sdel 3", "sdel 1", "sdel 9"]
    return ";".join(ops)


def scenario_value_chain(rnd):
    """slots held by value, nested to depth 3, copied through the lvalue path, then the innermost target dies"""
    ops = ["tnew 1", "tnew 2", "snew 1 1 t 1", "snew 2 2 t 2 v 1", "snew 3 1 v 2", "scopy 4 3", "scopy 5 4"]
    kill = rnd.choice(["tdel 1", "tdel 2"])
    ops += [rnd.choice(["sdel 3", "sq 3", "sdisc 3"]), kill, "sq 4", "sq 5", "sq 2"]
    ops += ["sempty 9"] + ["sasg %d 9" % k for k in (1, 2, 3, 4, 5)] + ["sdel %d" % k for k in (5, 4, 3, 2, 1, 9)] + ["tdel 1", "tdel 2"]
    return ";".join(ops)


def scenario_adopt_after_parent_death(rnd):
    ops = ["tnew 1", "snew 1 1 t 1", "snew 2 1 r 1", "snew 3 1 r 1", rnd.choice(["sdel 2", "sempty 8;sasg 2 8"]), "snew 4 1 r 1", "tdel 1",
           "sq 1", "sq 3", "sq 4", "sempty 9", "sasg 1 9", "sasg 3 9", "sasg 4 9"]
    return ";".join(ops)


def scenario_double_reference(rnd):
    """one rep registered twice at the same trackable (directly and through a by-value slot)"""
    ops = ["tnew 1", "snew 1 2 t 1 t 1", "snew 2 2 t 1 v 1", "scopy 3 2", rnd.choice(["sq 3", "sdel 3", "sdisc 2"]), "tdel 1", "sq 1", "sq 2",
           "sempty 9", "sasg 1 9", "sasg 2 9", "sasg 3 9"]
    return ";".join(ops)


SCENARIOS = [scenario_unbind_by_copy] * 3 + [scenario_value_chain] * 3 + [scenario_adopt_after_parent_death, scenario_double_reference] * 2


def gen_programs(seed, count, profile="mixed"):
    out = []
    for i in range(count):
        rnd = random.Random("nest-%s-%d" % (seed, i))
        if i % 10 == 0:
            out.append(SCENARIOS[(i // 10) % len(SCENARIOS)](rnd))
        else:
            out.append(NestGen(rnd, profile).program(rnd.choice([6, 10, 14, 20, 28])))
    return out


if __name__ == "__main__":
    import sys
    for p in gen_programs(sys.argv[1] if len(sys.argv) > 1 else "1", int(sys.argv[2]) if len(sys.argv) > 2 else 10):
        print(p)
