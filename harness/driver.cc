// driver.cc -- implementation side of the correspondence check.
// Reads programs (one per line, same text format as ocaml/driver.ml), runs each one against the
// real library in a forked child, prints one canonical trace line per program.
//   usage: driver sig | driver track        (stdin -> stdout)
// Every library object a program creates is individually new-ed and delete-d so that a stale
// access is a sanitizer report and a leak is visible in the allocation balance.
#include <cstdio>
#include <cstdlib>
#include <cstring>
#include <map>
#include <new>
#include <sstream>
#include <string>
#include <vector>
#include <memory>
#include <algorithm>
#include <functional>
#include <thread>
#include <atomic>
#include <unistd.h>
#include <sys/wait.h>
#include <sigc++/sigc++.h>

#if defined(__SANITIZE_ADDRESS__)
#define VERIF_ASAN 1
#elif defined(__has_feature)
#if __has_feature(address_sanitizer)
#define VERIF_ASAN 1
#endif
#endif
#ifdef VERIF_ASAN
extern "C" int __lsan_do_recoverable_leak_check();
#endif

// ---------------------------------------------------------------------------------------------
// allocation accounting
static thread_local long g_live_blocks = 0;
void* operator new(std::size_t n)
{
  void* p = std::malloc(n ? n : 1);
  if (!p) throw std::bad_alloc();
  ++g_live_blocks;
  return p;
}
void* operator new[](std::size_t n) { return operator new(n); }
void operator delete(void* p) noexcept
{
  if (p) { --g_live_blocks; std::free(p); }
}
void operator delete[](void* p) noexcept { operator delete(p); }
void operator delete(void* p, std::size_t) noexcept { operator delete(p); }
void operator delete[](void* p, std::size_t) noexcept { operator delete(p); }

size_t probe_regs(const sigc::trackable& t);   // probe.cc
int probe_exec(const sigc::signal_base& s);    // probe.cc (exec_count_, -1 if no impl)

// ---------------------------------------------------------------------------------------------
struct ScriptExn {};

struct Op
{
  std::string m;          // mnemonic
  std::vector<long> a;    // numeric arguments
  char rk = 'i';          // result kind for snew/sempty/gnew
  char shape = 'p';       // functor shape for snew
  std::vector<long> refs;
};
struct Script { char rs = 'c'; long v = 0; std::vector<Op> ops; };
struct AccOp { std::string m; long k = 0, j = 0; };
struct Program
{
  std::map<long, std::vector<long>> owns;   // functor body -> shared trackables each copy co-owns
  std::map<long, Script> scripts;
  std::map<long, std::vector<AccOp>> accs;
  std::vector<Op> main;
};

static thread_local Program* g_prog = nullptr;
static thread_local std::string* g_trace = nullptr;
static void ev(const char* fmt, ...) __attribute__((format(printf, 1, 2)));
#include <cstdarg>
static void ev(const char* fmt, ...)
{
  char buf[256];
  va_list ap; va_start(ap, fmt); int n = vsnprintf(buf, sizeof buf, fmt, ap); va_end(ap);
  if (n >= (int)sizeof buf)
  {
    std::vector<char> big(n + 1);
    va_list ap2; va_start(ap2, fmt); vsnprintf(big.data(), big.size(), fmt, ap2); va_end(ap2);
    g_trace->append(big.data());
  }
  else g_trace->append(buf);
  g_trace->push_back(' ');
}

static int run_script(long body, int arg);

// live functor instances per body id
static thread_local long g_sc_live[4096];
struct TrA;
struct TrB;
static void collect_owned(long body, std::vector<std::shared_ptr<void>>& out);
struct SC
{
  long body;
  std::vector<std::shared_ptr<void>> keep;   // shared trackables this functor co-owns
  explicit SC(long b) : body(b) { ++g_sc_live[body]; collect_owned(b, keep); }
  SC(const SC& o) : body(o.body), keep(o.keep) { ++g_sc_live[body]; }
  SC& operator=(const SC& o) { --g_sc_live[body]; body = o.body; keep = o.keep; ++g_sc_live[body]; return *this; }
  ~SC() { --g_sc_live[body]; }
  template <class... T>
  int operator()(int arg, T&...) const
  {
    long b = body;    // the functor may be destroyed while it runs
    return run_script(b, arg);
  }
};

// a base class that is not a sigc::trackable: mem_fun with a method inherited from it must still
// track the object through its own (trackable) class
struct RunNB
{
  int run_nb(const SC& sc, int arg) { long b = sc.body; return run_script(b, arg); }
  int run_nb_c(const SC& sc, int arg) const { long b = sc.body; return run_script(b, arg); }
};
struct TrA : public RunNB, public sigc::trackable
{
  int run_sc(const SC& sc, int arg) { long b = sc.body; return run_script(b, arg); }
};
struct TrVBase : virtual public sigc::trackable { int pad = 0; };
struct TrB : public RunNB, public TrVBase
{
  int more = 0;
  int run_sc(const SC& sc, int arg) { long b = sc.body; return run_script(b, arg); }
};
// a functor that is itself a sigc::trackable, stored by value inside the slot
struct SCT : public SC, public sigc::trackable
{
  explicit SCT(long b) : SC(b) {}
};

struct TrVar
{
  TrA* a = nullptr;
  TrB* b = nullptr;
  std::shared_ptr<void> sp;   // set for shared trackables while the program holds its handle
  bool shared = false;
  bool released = false;
  std::weak_ptr<void> wp;     // shared trackables: still alive?
  sigc::trackable& base() { return a ? static_cast<sigc::trackable&>(*a) : static_cast<sigc::trackable&>(*b); }
  void destroy() { delete a; delete b; a = nullptr; b = nullptr; }
};

using SlotI = sigc::slot<int(int)>;
using SlotV = sigc::slot<void(int)>;
struct SlotVar
{
  SlotI* i = nullptr;
  SlotV* v = nullptr;
  sigc::slot_base& base() { return i ? static_cast<sigc::slot_base&>(*i) : static_cast<sigc::slot_base&>(*v); }
};

// accumulator interpreting the current program's accumulator script
static thread_local long g_cur_acc = -1;
struct ScriptAcc
{
  long id;
  mutable long calls = 0;     // an accumulator with state of its own: each emission must get a fresh one
  ScriptAcc() : id(g_cur_acc) {}
  template <class It>
  int operator()(It first, It last) const
  {
    if (++calls != 1) ev("ACC-REUSED");
    const std::vector<AccOp>* ops = nullptr;
    auto f = g_prog->accs.find(id);
    static const std::vector<AccOp> none;
    ops = (f == g_prog->accs.end()) ? &none : &f->second;
    std::map<long, It> cs;
    auto getc = [&](long k) -> It {
      if (k == 0) return first;
      if (k == 1) return last;
      auto q = cs.find(k);
      return q == cs.end() ? first : q->second;
    };
    auto setc = [&](long k, const It& c) { cs.erase(k); cs.emplace(k, c); };
    auto writable = [](long k) { return k != 0 && k != 1; };
    unsigned long a = 0;
    auto step = [&](int v) { a = (a * 3 + (unsigned long)v + 1) % 1000003UL; };
    for (const auto& o : *ops)
    {
      if (!writable(o.k)) continue;
      if (o.m == "acopy") { setc(o.k, getc(o.j)); }
      else if (o.m == "ainc") { It c = getc(o.k); if (c != last) { ++c; setc(o.k, c); } }
      else if (o.m == "adec") { It c = getc(o.k); if (c != first) { --c; setc(o.k, c); } }
      // postfix forms: same meaning, different operators of slot_iterator_buf
      else if (o.m == "aincp") { It c = getc(o.k); if (c != last) { c++; setc(o.k, c); } }
      else if (o.m == "adecp") { It c = getc(o.k); if (c != first) { c--; setc(o.k, c); } }
      else if (o.m == "awalkp") { It c = getc(o.k); while (c != last) { int v = *c; step(v); c++; } setc(o.k, c); }
      else if (o.m == "awalkrevp") { It c = last; while (c != first) { c--; int v = *c; step(v); } setc(o.k, c); }
      else if (o.m == "aderef") { It c = getc(o.k); if (c != last) { int v = *c; step(v); setc(o.k, c); } }
      else if (o.m == "awalk") { It c = getc(o.k); while (c != last) { int v = *c; step(v); ++c; } setc(o.k, c); }
      else if (o.m == "awalkuntil")
      {
        It c = getc(o.k);
        while (c != last) { int v = *c; step(v); ++c; if (v > o.j) break; }
        setc(o.k, c);
      }
      else if (o.m == "awalkrev") { It c = last; while (c != first) { --c; int v = *c; step(v); } setc(o.k, c); }
    }
    return (int)a;
  }
};

// accumulator for void signals: same scripts, dereferencing yields nothing
struct ScriptAccV
{
  long id;
  mutable long calls = 0;
  ScriptAccV() : id(g_cur_acc) {}
  template <class It>
  void operator()(It first, It last) const
  {
    if (++calls != 1) ev("ACC-REUSED");
    static const std::vector<AccOp> none;
    auto f = g_prog->accs.find(id);
    const std::vector<AccOp>* ops = (f == g_prog->accs.end()) ? &none : &f->second;
    std::map<long, It> cs;
    auto getc = [&](long k) -> It { if (k == 0) return first; if (k == 1) return last; auto q = cs.find(k); return q == cs.end() ? first : q->second; };
    auto setc = [&](long k, const It& c) { cs.erase(k); cs.emplace(k, c); };
    for (const auto& o : *ops)
    {
      if (o.k == 0 || o.k == 1) continue;
      if (o.m == "acopy") { setc(o.k, getc(o.j)); }
      else if (o.m == "ainc") { It c = getc(o.k); if (c != last) { ++c; setc(o.k, c); } }
      else if (o.m == "adec") { It c = getc(o.k); if (c != first) { --c; setc(o.k, c); } }
      else if (o.m == "aincp") { It c = getc(o.k); if (c != last) { c++; setc(o.k, c); } }
      else if (o.m == "adecp") { It c = getc(o.k); if (c != first) { c--; setc(o.k, c); } }
      else if (o.m == "aderef") { It c = getc(o.k); if (c != last) { *c; setc(o.k, c); } }
      else if (o.m == "awalk" || o.m == "awalkuntil") { It c = getc(o.k); while (c != last) { *c; ++c; } setc(o.k, c); }
      else if (o.m == "awalkp") { It c = getc(o.k); while (c != last) { *c; c++; } setc(o.k, c); }
      else if (o.m == "awalkrev") { It c = last; while (c != first) { --c; *c; } setc(o.k, c); }
      else if (o.m == "awalkrevp") { It c = last; while (c != first) { c--; *c; } setc(o.k, c); }
    }
  }
};

using SigV = sigc::signal<void(int)>;
using SigVA = sigc::signal<void(int)>::accumulated<ScriptAccV>;
using TSigVA = sigc::trackable_signal<void(int)>::accumulated<ScriptAccV>;
using SigI = sigc::signal<int(int)>;
using SigA = sigc::signal<int(int)>::accumulated<ScriptAcc>;
using TSigV = sigc::trackable_signal<void(int)>;
using TSigI = sigc::trackable_signal<int(int)>;
using TSigA = sigc::trackable_signal<int(int)>::accumulated<ScriptAcc>;

struct GBase
{
  char rk; long acc; bool track;
  GBase(char r, long a, bool t) : rk(r), acc(a), track(t) {}
  virtual ~GBase() {}
  virtual GBase* copy() = 0;
  virtual GBase* move_from() = 0;
  virtual void assign(GBase& src) = 0;
  virtual void move_assign(GBase& src) = 0;
  virtual sigc::connection connect(SlotVar& s, bool front, bool mv) = 0;
  virtual int emit(int arg) = 0;
  virtual sigc::signal_base& base() = 0;
  virtual sigc::trackable* tr() = 0;
  virtual bool make_slot(SlotVar& out) = 0;
  bool same_kind(const GBase& o) const { return rk == o.rk && acc == o.acc && track == o.track; }
};

template <class S, bool IsVoid, bool IsAcc, bool IsTrack>
struct GImpl : GBase
{
  S sig;
  GImpl(char r, long a, bool t) : GBase(r, a, t) {}
  GImpl(const GImpl& o) : GBase(o.rk, o.acc, o.track), sig(o.sig) {}
  GImpl(GImpl&& o, int) : GBase(o.rk, o.acc, o.track), sig(std::move(o.sig)) {}
  GBase* copy() override { return new GImpl(*this); }
  GBase* move_from() override { return new GImpl(std::move(*this), 0); }
  void assign(GBase& src) override { sig = static_cast<GImpl&>(src).sig; }
  void move_assign(GBase& src) override { sig = std::move(static_cast<GImpl&>(src).sig); }
  sigc::connection connect(SlotVar& s, bool front, bool mv) override
  {
    if constexpr (IsVoid)
    {
      if (front) return mv ? sig.connect_first(std::move(*s.v)) : sig.connect_first(*s.v);
      return mv ? sig.connect(std::move(*s.v)) : sig.connect(*s.v);
    }
    else
    {
      if (front) return mv ? sig.connect_first(std::move(*s.i)) : sig.connect_first(*s.i);
      return mv ? sig.connect(std::move(*s.i)) : sig.connect(*s.i);
    }
  }
  int emit(int arg) override
  {
    if constexpr (IsVoid && IsAcc)
    {
      long saved = g_cur_acc;
      g_cur_acc = acc;
      struct Restore { long s; ~Restore() { g_cur_acc = s; } } r{saved};
      sig.emit(arg);
      return 0;
    }
    else if constexpr (IsVoid) { sig.emit(arg); return 0; }
    else if constexpr (IsAcc)
    {
      long saved = g_cur_acc;
      g_cur_acc = acc;
      struct Restore { long s; ~Restore() { g_cur_acc = s; } } r{saved};
      return sig.emit(arg);
    }
    else return sig.emit(arg);
  }
  sigc::signal_base& base() override { return sig; }
  sigc::trackable* tr() override
  {
    if constexpr (IsTrack) return &static_cast<sigc::trackable&>(sig);
    else return nullptr;
  }
  bool make_slot(SlotVar& out) override
  {
    if constexpr (IsAcc) return false;
    else if constexpr (IsVoid) { out.v = new SlotV(sig.make_slot()); return true; }
    else { out.i = new SlotI(sig.make_slot()); return true; }
  }
};

static GBase* new_sig(char rk, long acc, bool track)
{
  if (rk == 'v' && acc >= 0) return track ? (GBase*)new GImpl<TSigVA, true, true, true>(rk, acc, track)
                                          : (GBase*)new GImpl<SigVA, true, true, false>(rk, acc, track);
  if (rk == 'v') return track ? (GBase*)new GImpl<TSigV, true, false, true>(rk, acc, track)
                              : (GBase*)new GImpl<SigV, true, false, false>(rk, acc, track);
  if (acc >= 0) return track ? (GBase*)new GImpl<TSigA, false, true, true>(rk, acc, track)
                             : (GBase*)new GImpl<SigA, false, true, false>(rk, acc, track);
  return track ? (GBase*)new GImpl<TSigI, false, false, true>(rk, acc, track)
               : (GBase*)new GImpl<SigI, false, false, false>(rk, acc, track);
}

// variable tables: index -> object; "used" remembers destroyed indices (never reused)
template <class T>
struct Table
{
  std::map<long, T> live;
  std::map<long, bool> used;
  bool fresh(long k) const { return used.find(k) == used.end(); }
  T* get(long k) { auto f = live.find(k); return f == live.end() ? nullptr : &f->second; }
  void put(long k, T v) { live[k] = v; used[k] = true; }
  void drop(long k) { live.erase(k); }
};
static thread_local Table<TrVar>* g_tr;
// a trackable the program can still name (plain: exists; shared: handle not released)
static TrVar* prog_tr(long k);
// a live trackable object (shared ones may outlive the program's handle)
static TrVar* live_tr(long k);
static thread_local Table<SlotVar>* g_sl;
static thread_local Table<GBase*>* g_sg;
// signal objects held through shared ownership (gshare / grel): the program's shared_ptr and a weak_ptr
struct SharedSig { std::shared_ptr<GBase> sp; std::weak_ptr<GBase> wp; bool released = false; };
static thread_local std::map<long, SharedSig>* g_sgsh;
// a signal object the program may still name: plain ones while in the table; a shared one while the object lives
static GBase** live_sg(long k)
{
  GBase** g = g_sg->get(k);
  if (!g) return nullptr;
  auto f = g_sgsh->find(k);
  if (f != g_sgsh->end() && f->second.wp.expired()) { g_sg->drop(k); return nullptr; }
  return g;
}
static thread_local Table<sigc::connection*>* g_cn;
static thread_local Table<sigc::scoped_connection*>* g_kn;
// connection objects held through shared ownership (cshare / crel): the one-shot idiom, a handler holding a
// shared_ptr to its own sigc::connection
struct SharedConn { std::shared_ptr<sigc::connection> sp; std::weak_ptr<sigc::connection> wp; bool released = false; };
static thread_local std::map<long, SharedConn>* g_cnsh;
static sigc::connection** live_cn(long k)
{
  sigc::connection** c = g_cn->get(k);
  if (!c) return nullptr;
  auto f = g_cnsh->find(k);
  if (f != g_cnsh->end() && f->second.wp.expired()) { g_cn->drop(k); return nullptr; }
  return c;
}

static TrVar* live_tr(long k)
{
  TrVar* t = g_tr->get(k);
  if (!t) return nullptr;
  if (t->shared && t->wp.expired()) return nullptr;
  return t;
}
static TrVar* prog_tr(long k)
{
  TrVar* t = live_tr(k);
  return (t && !t->released) ? t : nullptr;
}
static void collect_owned(long body, std::vector<std::shared_ptr<void>>& out)
{
  if (!g_prog) return;
  auto f = g_prog->owns.find(body);
  if (f == g_prog->owns.end()) return;
  for (long t : f->second)
  {
    if (t >= 4000)
    {
      auto e = g_cnsh->find(t - 4000);
      if (e != g_cnsh->end()) { auto sp = e->second.wp.lock(); if (sp) out.push_back(sp); }
      continue;
    }
    if (t >= 2000)
    {
      auto e = g_sgsh->find(t - 2000);
      if (e != g_sgsh->end()) { auto sp = e->second.wp.lock(); if (sp) out.push_back(sp); }
      continue;
    }
    TrVar* v = g_tr->get(t);
    if (v && v->shared) { auto sp = v->wp.lock(); if (sp) out.push_back(sp); }
  }
}

// ---- functor construction over 0..3 trackable references of either class -------------------
template <class F>
static void with_tr(TrVar& t, F&& f) { if (t.a) f(*t.a); else f(*t.b); }

// a slot<void(int)> needs a functor returning void: the int result is dropped by hide_return
template <class SlotT, class F>
static SlotT* mk(const F& f)
{
  if constexpr (std::is_same_v<SlotT, SlotV>) return new SlotV(sigc::hide_return(f));
  else return new SlotI(f);
}

template <class SlotT>
static SlotT* make_functor_slot(char shape, long body, const std::vector<long>& refs, bool& ok)
{
  ok = true;
  std::vector<TrVar*> ts;
  for (long r : refs) { TrVar* t = g_tr->get(r); if (!t) { ok = false; return nullptr; } ts.push_back(t); }
  SlotT* out = nullptr;
  if (shape == 'p' && ts.empty()) { out = mk<SlotT>(SC(body)); }
  else if (shape == 'm' && ts.size() == 1)
  {
    with_tr(*ts[0], [&](auto& o) {
      using C = std::remove_reference_t<decltype(o)>;
      out = mk<SlotT>(sigc::bind<0>(sigc::mem_fun(o, &C::run_sc), SC(body)));
    });
  }
  else if (shape == 'u' && ts.size() == 2)
  {
    with_tr(*ts[0], [&](auto& o0) { with_tr(*ts[1], [&](auto& o1) {
      using C = std::remove_reference_t<decltype(o0)>;
      out = mk<SlotT>(sigc::track_object(sigc::bind<0>(sigc::mem_fun(o0, &C::run_sc), SC(body)), o1)); }); });
  }
  else if (shape == 'v' && ts.empty()) { out = mk<SlotT>(SCT(body)); }
  else if (shape == 'n' && ts.size() == 1)
  {
    with_tr(*ts[0], [&](auto& o) {
      out = mk<SlotT>(sigc::bind<0>(sigc::mem_fun(o, &RunNB::run_nb), SC(body)));
    });
  }
  else if (shape == 'k' && ts.size() == 1)
  {
    with_tr(*ts[0], [&](auto& o) {
      out = mk<SlotT>(sigc::bind<0>(sigc::mem_fun(o, &RunNB::run_nb_c), SC(body)));
    });
  }
  else if (shape == 'b' && ts.size() == 1)
  {
    with_tr(*ts[0], [&](auto& o) { out = mk<SlotT>(sigc::bind(SC(body), std::ref(o))); });
  }
  else if (shape == 'b' && ts.size() == 2)
  {
    with_tr(*ts[0], [&](auto& o0) { with_tr(*ts[1], [&](auto& o1) {
      out = mk<SlotT>(sigc::bind(SC(body), std::ref(o0), std::ref(o1))); }); });
  }
  else if (shape == 'b' && ts.size() == 3)
  {
    with_tr(*ts[0], [&](auto& o0) { with_tr(*ts[1], [&](auto& o1) { with_tr(*ts[2], [&](auto& o2) {
      out = mk<SlotT>(sigc::bind(SC(body), std::ref(o0), std::ref(o1), std::ref(o2))); }); }); });
  }
  else if (shape == 't' && ts.size() == 1)
  {
    with_tr(*ts[0], [&](auto& o) { out = mk<SlotT>(sigc::track_object(SC(body), o)); });
  }
  else if (shape == 't' && ts.size() == 2)
  {
    with_tr(*ts[0], [&](auto& o0) { with_tr(*ts[1], [&](auto& o1) {
      out = mk<SlotT>(sigc::track_object(SC(body), o0, o1)); }); });
  }
  else if (shape == 't' && ts.size() == 3)
  {
    with_tr(*ts[0], [&](auto& o0) { with_tr(*ts[1], [&](auto& o1) { with_tr(*ts[2], [&](auto& o2) {
      out = mk<SlotT>(sigc::track_object(SC(body), o0, o1, o2)); }); }); });
  }
  else { fprintf(stderr, "BADPROG snew shape %c with %zu refs\n", shape, ts.size()); _exit(3); }
  return out;
}

// ---------------------------------------------------------------------------------------------
static void exec_op(const Op& o);

static int run_script(long body, int arg)
{
  ev("E%ld,%d", body, arg);
  int ret = 0;
  auto f = g_prog->scripts.find(body);
  if (f != g_prog->scripts.end())
  {
    // copy nothing from the functor: everything needed is in the program
    const Script& s = f->second;
    try
    {
      for (const auto& o : s.ops) exec_op(o);
    }
    catch (ScriptExn&)
    {
      ev("T%ld", body);
      throw;
    }
    ret = (s.rs == 'c') ? (int)s.v : arg + (int)s.v;
  }
  ev("L%ld,%d", body, ret);
  return ret;
}

static void conn_query(sigc::connection& c) { ev("cq%d%d", c.connected() ? 1 : 0, c.blocked() ? 1 : 0); }

static void exec_op(const Op& o)
{
  const std::string& m = o.m;
  auto A = [&](size_t i) { return o.a.at(i); };
  if (m == "tnew")
  {
    long t = A(0);
    if (g_tr->fresh(t) && t < 1000) { TrVar v; if (t % 2 == 0) v.a = new TrA; else v.b = new TrB; g_tr->put(t, v); }
    else ev("-");
  }
  else if (m == "tnewsh")
  {
    long t = A(0);
    if (g_tr->fresh(t) && t < 1000)
    {
      TrVar v; v.shared = true;
      if (t % 2 == 0) { auto p = std::make_shared<TrA>(); v.a = p.get(); v.sp = p; }
      else { auto p = std::make_shared<TrB>(); v.b = p.get(); v.sp = p; }
      v.wp = v.sp;
      g_tr->put(t, v);
    }
    else ev("-");
  }
  else if (m == "trel")
  {
    TrVar* t = live_tr(A(0));
    if (t && t->shared && !t->released) { t->released = true; auto sp = std::move(t->sp); t->sp.reset(); sp.reset(); }
    else ev("-");
  }
  else if (m == "tdel")
  {
    TrVar* t = live_tr(A(0));
    if (t && !t->shared) { TrVar c = *t; g_tr->drop(A(0)); c.destroy(); } else ev("-");
  }
  else if (m == "tasg" || m == "tmasg")
  {
    TrVar* d = prog_tr(A(0)); TrVar* s = prog_tr(A(1));
    if (d && s) { if (m == "tasg") d->base() = s->base(); else d->base() = std::move(s->base()); }
    else ev("-");
  }
  else if (m == "tnot")
  {
    TrVar* t = prog_tr(A(0));
    if (t) t->base().notify_callbacks(); else ev("-");
  }
  else if (m == "snew")
  {
    long s = A(0);
    bool refs_ok = true;
    for (long r : o.refs) if (!prog_tr(r)) refs_ok = false;
    {
      auto f = g_prog->owns.find(A(1));
      if (f != g_prog->owns.end())
        for (long t : f->second) if (t < 2000 && g_tr->fresh(t)) refs_ok = false;
    }
    if (g_sl->fresh(s) && refs_ok)
    {
      SlotVar v; bool ok;
      if (o.rk == 'v') v.v = make_functor_slot<SlotV>(o.shape, A(1), o.refs, ok);
      else v.i = make_functor_slot<SlotI>(o.shape, A(1), o.refs, ok);
      g_sl->put(s, v);
    }
    else ev("-");
  }
  else if (m == "sempty")
  {
    long s = A(0);
    if (g_sl->fresh(s)) { SlotVar v; if (o.rk == 'v') v.v = new SlotV; else v.i = new SlotI; g_sl->put(s, v); }
    else ev("-");
  }
  else if (m == "scopy" || m == "smove")
  {
    SlotVar* so = g_sl->get(A(1));
    if (so && g_sl->fresh(A(0)))
    {
      SlotVar v;
      if (m == "scopy") { if (so->i) v.i = new SlotI(*so->i); else v.v = new SlotV(*so->v); }
      else { if (so->i) v.i = new SlotI(std::move(*so->i)); else v.v = new SlotV(std::move(*so->v)); }
      g_sl->put(A(0), v);
    }
    else ev("-");
  }
  else if (m == "sasg" || m == "smasg")
  {
    SlotVar* d = g_sl->get(A(0)); SlotVar* s = g_sl->get(A(1));
    if (d && s && ((d->i != nullptr) == (s->i != nullptr)))
    {
      if (m == "sasg") { if (d->i) *d->i = *s->i; else *d->v = *s->v; }
      else { if (d->i) *d->i = std::move(*s->i); else *d->v = std::move(*s->v); }
    }
    else ev("-");
  }
  else if (m == "scall")
  {
    SlotVar* s = g_sl->get(A(0));
    if (s)
    {
      SlotI* si = s->i; SlotV* sv = s->v;   // the variable may be destroyed by the call
      try
      {
        int r = 0;
        if (si) r = (*si)((int)A(1)); else (*sv)((int)A(1));
        ev("cr%d", r);
      }
      catch (ScriptExn&) { if (A(2)) ev("X"); else throw; }
    }
    else ev("-");
  }
  else if (m == "sblock")
  {
    SlotVar* s = g_sl->get(A(0));
    if (s) ev("br%d", s->base().block(A(1) != 0) ? 1 : 0); else ev("-");
  }
  else if (m == "sdisc")
  {
    SlotVar* s = g_sl->get(A(0));
    if (s) s->base().disconnect(); else ev("-");
  }
  else if (m == "sdel")
  {
    SlotVar* s = g_sl->get(A(0));
    if (s) { SlotVar c = *s; g_sl->drop(A(0)); delete c.i; delete c.v; } else ev("-");
  }
  else if (m == "sq")
  {
    SlotVar* s = g_sl->get(A(0));
    if (s) ev("sq%d%d", s->base().empty() ? 1 : 0, s->base().blocked() ? 1 : 0); else ev("-");
  }
  else if (m == "gnew")
  {
    long g = A(0);
    bool track = A(2) != 0;
    if (g_sg->fresh(g)) g_sg->put(g, new_sig(o.rk, A(1), track)); else ev("-");
  }
  else if (m == "gcopy" || m == "gmove")
  {
    GBase** go = live_sg(A(1));
    if (go && g_sg->fresh(A(0)) && !(m == "gmove" && (*go)->acc >= 0))
      g_sg->put(A(0), m == "gcopy" ? (*go)->copy() : (*go)->move_from());
    else ev("-");
  }
  else if (m == "gasg" || m == "gmasg")
  {
    GBase** d = live_sg(A(0)); GBase** s = live_sg(A(1));
    if (d && s && (*d)->same_kind(**s) && !(m == "gmasg" && (*d)->acc >= 0))
    {
      if (m == "gasg") (*d)->assign(**s); else (*d)->move_assign(**s);
    }
    else ev("-");
  }
  else if (m == "gdel")
  {
    GBase** g = live_sg(A(0));
    if (g && g_sgsh->find(A(0)) == g_sgsh->end()) { GBase* p = *g; g_sg->drop(A(0)); delete p; } else ev("-");
  }
  else if (m == "gshare")
  {
    GBase** g = live_sg(A(0));
    if (g && A(0) < 1000 && g_sgsh->find(A(0)) == g_sgsh->end())
    {
      SharedSig e; e.sp = std::shared_ptr<GBase>(*g); e.wp = e.sp;
      (*g_sgsh)[A(0)] = e;
    }
    else ev("-");
  }
  else if (m == "grel")
  {
    GBase** g = live_sg(A(0));
    auto f = g_sgsh->find(A(0));
    if (g && f != g_sgsh->end() && !f->second.released)
    {
      f->second.released = true;
      auto sp = std::move(f->second.sp); f->second.sp.reset(); sp.reset();   // may destroy the signal object
    }
    else ev("-");
  }
  else if (m == "gconn")
  {
    GBase** g = live_sg(A(0)); SlotVar* s = g_sl->get(A(1));
    if (g && s && (((*g)->rk == 'v') == (s->v != nullptr)))
    {
      long c = A(2);
      sigc::connection r = (*g)->connect(*s, A(3) != 0, A(4) != 0);
      if (c >= 0)
      {
        if (g_cn->fresh(c)) g_cn->put(c, new sigc::connection(r));
        else { sigc::connection** cv = live_cn(c); if (cv) **cv = r; }
      }
    }
    else ev("-");
  }
  else if (m == "gemit")
  {
    GBase** g = live_sg(A(0));
    if (g)
    {
      GBase* p = *g;
      try { int r = p->emit((int)A(1)); ev("er%d", r); }
      catch (ScriptExn&) { if (A(2)) ev("X"); else throw; }
    }
    else ev("-");
  }
  else if (m == "gclear") { GBase** g = live_sg(A(0)); if (g) (*g)->base().clear(); else ev("-"); }
  else if (m == "gblock") { GBase** g = live_sg(A(0)); if (g) (*g)->base().block(A(1) != 0); else ev("-"); }
  else if (m == "gq")
  {
    GBase** g = live_sg(A(0));
    if (g) { auto& b = (*g)->base(); ev("gq%zu,%d%d", b.size(), b.empty() ? 1 : 0, b.blocked() ? 1 : 0); }
    else ev("-");
  }
  else if (m == "gmk")
  {
    GBase** g = live_sg(A(1));
    if (g && g_sl->fresh(A(0)) && (*g)->acc < 0) { SlotVar v; (*g)->make_slot(v); g_sl->put(A(0), v); }
    else ev("-");
  }
  else if (m == "cempty") { if (g_cn->fresh(A(0))) g_cn->put(A(0), new sigc::connection()); else ev("-"); }
  else if (m == "ccopy")
  {
    sigc::connection** co = live_cn(A(1));
    if (co && g_cn->fresh(A(0))) g_cn->put(A(0), new sigc::connection(**co)); else ev("-");
  }
  else if (m == "casg")
  {
    sigc::connection** d = live_cn(A(0)); sigc::connection** s = live_cn(A(1));
    if (d && s) **d = **s; else ev("-");
  }
  // moving a sigc::connection (it has no move operations of its own: the source stays a valid handle)
  else if (m == "cmove")
  {
    sigc::connection** co = live_cn(A(1));
    if (co && g_cn->fresh(A(0))) g_cn->put(A(0), new sigc::connection(std::move(**co))); else ev("-");
  }
  else if (m == "cmasg")
  {
    sigc::connection** d = live_cn(A(0)); sigc::connection** s = live_cn(A(1));
    if (d && s) **d = std::move(**s); else ev("-");
  }
  else if (m == "knewm")
  {
    sigc::connection** c = live_cn(A(1));
    if (c && g_kn->fresh(A(0))) g_kn->put(A(0), new sigc::scoped_connection(std::move(**c))); else ev("-");
  }
  else if (m == "kasgm")
  {
    sigc::scoped_connection** k = g_kn->get(A(0)); sigc::connection** c = live_cn(A(1));
    if (k && c) **k = std::move(**c); else ev("-");
  }
  else if (m == "cdisc") { sigc::connection** c = live_cn(A(0)); if (c) (*c)->disconnect(); else ev("-"); }
  else if (m == "cblock")
  {
    sigc::connection** c = live_cn(A(0));
    if (c) ev("br%d", (*c)->block(A(1) != 0) ? 1 : 0); else ev("-");
  }
  else if (m == "cdel")
  {
    sigc::connection** c = live_cn(A(0));
    if (c && g_cnsh->find(A(0)) == g_cnsh->end()) { auto p = *c; g_cn->drop(A(0)); delete p; } else ev("-");
  }
  else if (m == "cshare")
  {
    sigc::connection** c = live_cn(A(0));
    if (c && A(0) < 1000 && g_cnsh->find(A(0)) == g_cnsh->end())
    {
      SharedConn e; e.sp = std::shared_ptr<sigc::connection>(*c); e.wp = e.sp;
      (*g_cnsh)[A(0)] = e;
    }
    else ev("-");
  }
  else if (m == "crel")
  {
    sigc::connection** c = live_cn(A(0));
    auto f = g_cnsh->find(A(0));
    if (c && f != g_cnsh->end() && !f->second.released)
    {
      f->second.released = true;
      auto sp = std::move(f->second.sp); f->second.sp.reset(); sp.reset();   // may destroy the connection object
    }
    else ev("-");
  }
  else if (m == "cq") { sigc::connection** c = live_cn(A(0)); if (c) conn_query(**c); else ev("-"); }
  else if (m == "knew")
  {
    sigc::connection** c = live_cn(A(1));
    if (c && g_kn->fresh(A(0))) g_kn->put(A(0), new sigc::scoped_connection(**c)); else ev("-");
  }
  else if (m == "kempty") { if (g_kn->fresh(A(0))) g_kn->put(A(0), new sigc::scoped_connection()); else ev("-"); }
  else if (m == "kasg")
  {
    sigc::scoped_connection** k = g_kn->get(A(0)); sigc::connection** c = live_cn(A(1));
    if (k && c) **k = **c; else ev("-");
  }
  else if (m == "kmove")
  {
    sigc::scoped_connection** ko = g_kn->get(A(1));
    if (ko && g_kn->fresh(A(0))) g_kn->put(A(0), new sigc::scoped_connection(std::move(**ko))); else ev("-");
  }
  else if (m == "kmasg")
  {
    sigc::scoped_connection** d = g_kn->get(A(0)); sigc::scoped_connection** s = g_kn->get(A(1));
    if (d && s && A(0) != A(1)) **d = std::move(**s); else ev("-");
  }
  else if (m == "kswap")
  {
    sigc::scoped_connection** a = g_kn->get(A(0)); sigc::scoped_connection** b = g_kn->get(A(1));
    if (a && b && A(0) != A(1)) swap(**a, **b); else ev("-");
  }
  else if (m == "krel")
  {
    sigc::scoped_connection** k = g_kn->get(A(0));
    if (k && g_cn->fresh(A(1))) g_cn->put(A(1), new sigc::connection((*k)->release())); else ev("-");
  }
  else if (m == "kdisc") { sigc::scoped_connection** k = g_kn->get(A(0)); if (k) (*k)->disconnect(); else ev("-"); }
  else if (m == "kblock")
  {
    sigc::scoped_connection** k = g_kn->get(A(0));
    if (k) ev("br%d", (*k)->block(A(1) != 0) ? 1 : 0); else ev("-");
  }
  else if (m == "kdel")
  {
    sigc::scoped_connection** k = g_kn->get(A(0));
    if (k) { auto p = *k; g_kn->drop(A(0)); delete p; } else ev("-");
  }
  else if (m == "kq")
  {
    sigc::scoped_connection** k = g_kn->get(A(0));
    if (k) ev("cq%d%d", (*k)->connected() ? 1 : 0, (*k)->blocked() ? 1 : 0); else ev("-");
  }
  else if (m == "probe")
  {
    std::string f, r;
    for (long b = 0; b < 4096; ++b)
      for (long k = 0; k < g_sc_live[b]; ++k) { if (!f.empty()) f += ","; f += std::to_string(b); }
    std::vector<std::pair<long, size_t>> regs;
    for (auto& kv : g_tr->live) if (live_tr(kv.first)) regs.push_back({kv.first, probe_regs(kv.second.base())});
    { std::vector<long> keys; for (auto& kv : g_sg->live) keys.push_back(kv.first);
      for (long k : keys) { GBase** g = live_sg(k); if (g && (*g)->tr()) regs.push_back({1000 + k, probe_regs(*(*g)->tr())}); } }
    std::sort(regs.begin(), regs.end());
    for (auto& p : regs) { if (!r.empty()) r += ","; r += std::to_string(p.first) + "=" + (p.second == (size_t)-1 ? std::string("?") : std::to_string(p.second)); }
    ev("P[f:%s][r:%s][l:0]", f.c_str(), r.c_str());
  }
  else if (m == "throw") { throw ScriptExn(); }
  else { fprintf(stderr, "BADPROG op %s\n", m.c_str()); _exit(3); }
}

// ---------------------------------------------------------------------------------------------
// parsing
static bool is_section(const std::string& t) { return t == "S" || t == "A" || t == "M" || t == "O"; }

static const std::map<std::string, int>& arity()
{
  static const std::map<std::string, int> a = {
    {"tnew",1},{"tnewsh",1},{"trel",1},{"tdel",1},{"tasg",2},{"tmasg",2},{"tnot",1},
    {"scopy",2},{"smove",2},{"sasg",2},{"smasg",2},{"scall",3},{"sblock",2},{"sdisc",1},{"sdel",1},{"sq",1},
    {"gcopy",2},{"gmove",2},{"gasg",2},{"gmasg",2},{"gdel",1},{"gshare",1},{"grel",1},{"gconn",5},{"gemit",3},{"gclear",1},{"gblock",2},{"gq",1},{"gmk",2},
    {"cempty",1},{"ccopy",2},{"casg",2},{"cmove",2},{"cmasg",2},{"knewm",2},{"kasgm",2},{"cdisc",1},{"cblock",2},{"cdel",1},{"cshare",1},{"crel",1},{"cq",1},
    {"knew",2},{"kempty",1},{"kasg",2},{"kmove",2},{"kmasg",2},{"kswap",2},{"krel",2},{"kdisc",1},{"kblock",2},{"kdel",1},{"kq",1},
    {"probe",0},{"throw",0}};
  return a;
}

static bool parse_ops(const std::vector<std::string>& t, size_t& p, std::vector<Op>& out)
{
  while (p < t.size() && !is_section(t[p]))
  {
    Op o; o.m = t[p++];
    if (o.m == "snew")
    {
      o.a.push_back(atol(t.at(p++).c_str())); o.rk = t.at(p++)[0];
      o.a.push_back(atol(t.at(p++).c_str())); o.shape = t.at(p++)[0];
      long n = atol(t.at(p++).c_str());
      for (long i = 0; i < n; ++i) o.refs.push_back(atol(t.at(p++).c_str()));
    }
    else if (o.m == "sempty") { o.a.push_back(atol(t.at(p++).c_str())); o.rk = t.at(p++)[0]; }
    else if (o.m == "gnew")
    {
      o.a.push_back(atol(t.at(p++).c_str())); o.rk = t.at(p++)[0];
      o.a.push_back(atol(t.at(p++).c_str())); o.a.push_back(atol(t.at(p++).c_str()));
    }
    else
    {
      auto f = arity().find(o.m);
      if (f == arity().end()) return false;
      for (int i = 0; i < f->second; ++i) o.a.push_back(atol(t.at(p++).c_str()));
    }
    out.push_back(o);
  }
  return true;
}

static bool parse_program(const std::string& line, Program& pr)
{
  std::vector<std::string> t;
  { std::istringstream is(line); std::string w; while (is >> w) t.push_back(w); }
  size_t p = 0;
  try
  {
    while (p < t.size())
    {
      std::string sec = t[p++];
      if (sec == "S")
      {
        long id = atol(t.at(p++).c_str());
        Script s; s.rs = t.at(p++)[0]; s.v = atol(t.at(p++).c_str());
        if (!parse_ops(t, p, s.ops)) return false;
        pr.scripts[id] = s;
      }
      else if (sec == "A")
      {
        long id = atol(t.at(p++).c_str());
        std::vector<AccOp> ops;
        while (p < t.size() && !is_section(t[p]))
        {
          AccOp o; o.m = t[p++]; o.k = atol(t.at(p++).c_str());
          if (o.m == "acopy" || o.m == "awalkuntil") o.j = atol(t.at(p++).c_str());
          ops.push_back(o);
        }
        pr.accs[id] = ops;
      }
      else if (sec == "M") { if (!parse_ops(t, p, pr.main)) return false; }
      else if (sec == "O")
      {
        long b = atol(t.at(p++).c_str()); long n = atol(t.at(p++).c_str());
        std::vector<long> ts; for (long i = 0; i < n; ++i) ts.push_back(atol(t.at(p++).c_str()));
        pr.owns[b] = ts;
      }
      else return false;
    }
  }
  catch (std::out_of_range&) { return false; }
  return true;
}

// ---------------------------------------------------------------------------------------------
// trackable-only programs (property C16): K <key> <n> (r|a <key>)* ... M ops
struct TKey : sigc::notifiable { long t, k; };
static std::map<std::pair<long, long>, TKey*>* g_keys;
static std::map<long, std::vector<std::pair<char, long>>>* g_kscripts;
static std::map<long, sigc::trackable*>* g_plain;
// The trackable objects of a track-mode program come in three flavours (by id modulo 3): a plain
// sigc::trackable, a class derived from it with compiler-generated copy / move, and a
// sigc::trackable_signal (whose own copy / move constructors and assignments must hand the trackable
// base on correctly).  TrackModel does not distinguish them.
struct TDerived : public sigc::trackable { long pad = 0; };
struct TBox
{
  virtual ~TBox() {}
  virtual sigc::trackable& t() = 0;
  virtual TBox* copy() = 0;
  virtual TBox* move_out() = 0;
  virtual void assign(TBox& o) = 0;
  virtual void move_assign(TBox& o) = 0;
};
template <class T>
struct TBoxT : TBox
{
  T obj;
  TBoxT() {}
  explicit TBoxT(const T& o) : obj(o) {}
  explicit TBoxT(T&& o) : obj(std::move(o)) {}
  sigc::trackable& t() override { return obj; }
  TBox* copy() override { return new TBoxT<T>(obj); }
  TBox* move_out() override { return new TBoxT<T>(std::move(obj)); }
  // assignment goes through the class's own operator= except for trackable_signal, whose assignment
  // deliberately does not notify ("this signal is not destroyed"): there the trackable base is assigned
  static constexpr bool own_assign = !std::is_base_of_v<sigc::signal_base, T>;
  void assign(TBox& o) override
  {
    auto* same = dynamic_cast<TBoxT<T>*>(&o);
    if constexpr (own_assign) { if (same) { obj = same->obj; return; } }
    static_cast<sigc::trackable&>(obj) = o.t();
  }
  void move_assign(TBox& o) override
  {
    auto* same = dynamic_cast<TBoxT<T>*>(&o);
    if constexpr (own_assign) { if (same) { obj = std::move(same->obj); return; } }
    static_cast<sigc::trackable&>(obj) = std::move(o.t());
  }
};
static std::map<long, TBox*>* g_boxes;
static TBox* new_box(long v)
{
  switch (v % 3)
  {
    case 1: return new TBoxT<TDerived>();
    case 2: return new TBoxT<sigc::trackable_signal<void()>>();
    default: return new TBoxT<sigc::trackable>();
  }
}

static TKey* key_of(long t, long k)
{
  auto f = g_keys->find({t, k});
  if (f != g_keys->end()) return f->second;
  TKey* d = new TKey; d->t = t; d->k = k; (*g_keys)[{t, k}] = d; return d;
}
static void track_cb(sigc::notifiable* data)
{
  TKey* d = static_cast<TKey*>(data);
  long t = d->t, k = d->k;
  ev("d%ld.%ld", t, k);
  auto f = g_kscripts->find(k);
  if (f == g_kscripts->end()) return;
  sigc::trackable* tr = (*g_plain)[t];
  for (auto& act : f->second)
  {
    if (act.first == 'r') tr->remove_destroy_notify_callback(key_of(t, act.second));
    else tr->add_destroy_notify_callback(key_of(t, act.second), &track_cb);
  }
}

static std::string run_track(const std::string& line)
{
  std::vector<std::string> t;
  { std::istringstream is(line); std::string w; while (is >> w) t.push_back(w); }
  std::string trace; g_trace = &trace;
  g_keys = new std::map<std::pair<long, long>, TKey*>;
  g_kscripts = new std::map<long, std::vector<std::pair<char, long>>>;
  g_plain = new std::map<long, sigc::trackable*>;
  g_boxes = new std::map<long, TBox*>;
  auto& B = *g_boxes;
  std::vector<long> order;   // creation order of variables (the model lists them in this order)
  size_t p = 0;
  while (p < t.size() && t[p] == "K")
  {
    ++p; long k = atol(t.at(p++).c_str()); long n = atol(t.at(p++).c_str());
    std::vector<std::pair<char, long>> acts;
    for (long i = 0; i < n; ++i) { char a = t.at(p++)[0]; long k2 = atol(t.at(p++).c_str()); acts.push_back({a, k2}); }
    (*g_kscripts)[k] = acts;
  }
  if (p >= t.size() || t[p] != "M") return "PARSE-ERROR";
  ++p;
  auto& P = *g_plain;
  auto has = [&](long v) { return P.find(v) != P.end(); };
  while (p < t.size())
  {
    std::string m = t[p++];
    auto arg = [&]() { return atol(t.at(p++).c_str()); };
    if (m == "new") { long v = arg(); if (!has(v)) { B[v] = new_box(v); P[v] = &B[v]->t(); order.push_back(v); } }
    else if (m == "cc") { long n = arg(), o = arg(); if (!has(n) && has(o)) { B[n] = B[o]->copy(); P[n] = &B[n]->t(); order.push_back(n); } }
    else if (m == "mc") { long n = arg(), o = arg(); if (!has(n) && has(o)) { B[n] = B[o]->move_out(); P[n] = &B[n]->t(); order.push_back(n); } }
    else if (m == "as") { long d = arg(), s = arg(); if (has(d) && has(s)) B[d]->assign(*B[s]); }
    else if (m == "ma") { long d = arg(), s = arg(); if (has(d) && has(s)) B[d]->move_assign(*B[s]); }
    else if (m == "no") { long v = arg(); if (has(v)) P[v]->notify_callbacks(); }
    else if (m == "de")
    {
      long v = arg();
      if (has(v)) { TBox* o = B[v]; delete o; P.erase(v); B.erase(v); order.erase(std::find(order.begin(), order.end(), v)); }
    }
    else if (m == "add") { long v = arg(), k = arg(); if (has(v)) P[v]->add_destroy_notify_callback(key_of(v, k), &track_cb); }
    else if (m == "rm") { long v = arg(), k = arg(); if (has(v)) P[v]->remove_destroy_notify_callback(key_of(v, k)); }
    else return "PARSE-ERROR";
  }
  std::string out = trace + "|";
  for (long v : order)
  {
    out += " " + std::to_string(v) + ":";
    // callback_list_ allocated? entries?
    extern long probe_list(const sigc::trackable&);
    long n = probe_list(*P[v]);
    out += (n < 0) ? std::string("-") : std::to_string(n);
  }
  return out;
}

// ---------------------------------------------------------------------------------------------
static std::string run_sig(const std::string& line)
{
  Program pr;
  if (!parse_program(line, pr)) return "PARSE-ERROR";
  long base_blocks;
  std::string result;
  {
    g_prog = &pr;
    std::string trace; g_trace = &trace;
    base_blocks = g_live_blocks;
    long in_tables;
    {
      Table<TrVar> tr; Table<SlotVar> sl; Table<GBase*> sg; Table<sigc::connection*> cn; Table<sigc::scoped_connection*> kn;
      std::map<long, SharedSig> sgsh; std::map<long, SharedConn> cnsh;
      g_tr = &tr; g_sl = &sl; g_sg = &sg; g_cn = &cn; g_kn = &kn; g_sgsh = &sgsh; g_cnsh = &cnsh;
      for (const auto& o : pr.main)
      {
        try { exec_op(o); }
        catch (ScriptExn&) { ev("X"); }
      }
      // anything the program left alive is torn down here in a fixed order (generators
      // normally end every program with an explicit teardown, so this is a no-op)
      bool left = !kn.live.empty() || !cn.live.empty() || !sl.live.empty() || !sg.live.empty() || !tr.live.empty();
      for (auto& kv : kn.live) delete kv.second;
      for (auto& kv : cn.live)
      {
        auto f = cnsh.find(kv.first);
        if (f == cnsh.end()) delete kv.second;
        else if (f->second.sp) f->second.sp.reset();     // shared: the program's handle, if still held (functor owners are gone below)
      }
      for (auto& kv : sl.live) { delete kv.second.i; delete kv.second.v; }
      for (auto& kv : sg.live)
      {
        auto f = sgsh.find(kv.first);
        if (f == sgsh.end()) delete kv.second;          // plain signal object
        else f->second.sp.reset();                      // shared: the program's handle (if still held)
      }
      for (auto& kv : tr.live) { if (kv.second.shared) kv.second.sp.reset(); else kv.second.destroy(); }
      (void)left;
      in_tables = 0;
    }
    (void)in_tables;
    result = trace;
  }
  // everything the driver itself allocated since base_blocks is gone except `result`'s buffer
  long delta = g_live_blocks - base_blocks;
  std::string r2 = result;   // one more block, measured below
  (void)r2;
  // result (1 block if heap-allocated) : subtract by measuring an empty copy
  long own = (result.capacity() > 15) ? 1 : 0;
  delta -= own;
  bool lsan = false;
#ifdef VERIF_ASAN
  lsan = __lsan_do_recoverable_leak_check() != 0;
#endif
  char buf[64];
  snprintf(buf, sizeof buf, "| leaked=%d", (delta != 0 || lsan) ? 1 : 0);
  return result + buf;
}

// K threads, each running its own share of the programs on its own objects, started together
static int run_threads(int K)
{
  std::vector<std::string> lines;
  { char* lb = nullptr; size_t ln = 0; ssize_t got;
    while ((got = getline(&lb, &ln, stdin)) >= 0)
    { std::string l(lb, got); while (!l.empty() && (l.back() == '\n' || l.back() == '\r')) l.pop_back(); lines.push_back(l); }
    free(lb); }
  std::vector<std::string> out(lines.size());
  std::atomic<int> ready{0};
  std::vector<std::thread> ts;
  for (int k = 0; k < K; ++k)
    ts.emplace_back([&, k]() {
      ++ready;
      while (ready.load() < K) std::this_thread::yield();
      for (size_t i = k; i < lines.size(); i += K) out[i] = run_sig(lines[i]);
    });
  for (auto& t : ts) t.join();
  for (auto& o : out) printf("%s\n", o.c_str());
  return 0;
}

#include "nest.h"

int main(int argc, char** argv)
{
  std::string mode = argc > 1 ? argv[1] : "sig";
  if (mode == "threads") return run_threads(argc > 2 ? atoi(argv[2]) : 4);
  bool nofork = argc > 2 && std::string(argv[2]) == "nofork";
  std::string line;
  char* lb = nullptr; size_t ln = 0; ssize_t got;
  while ((got = getline(&lb, &ln, stdin)) >= 0)
  {
    line.assign(lb, got);
    while (!line.empty() && (line.back() == '\n' || line.back() == '\r')) line.pop_back();
    if (nofork)
    {
      std::string out = (mode == "track") ? run_track(line) : (mode == "nest") ? run_nest(line) : run_sig(line);
      printf("%s\n", out.c_str()); fflush(stdout);
      continue;
    }
    int fds[2], efd[2];
    if (pipe(fds) || pipe(efd)) { perror("pipe"); return 2; }
    fflush(stdout);
    pid_t pid = fork();
    if (pid == 0)
    {
      close(fds[0]); close(efd[0]);
      dup2(efd[1], 2);
      alarm(20);
      std::string out = (mode == "track") ? run_track(line) : (mode == "nest") ? run_nest(line) : run_sig(line);
      out.push_back('\n');
      (void)!write(fds[1], out.data(), out.size());
      _exit(0);
    }
    close(fds[1]); close(efd[1]);
    std::string out, err;
    char buf[4096]; ssize_t n;
    // read both pipes (stderr may be large under ASan: drain it after stdout closes; reports are < 64k pipe? drain interleaved)
    fd_set rs; int open_fds = 2; int f1 = fds[0], f2 = efd[0];
    while (open_fds > 0)
    {
      FD_ZERO(&rs); int mx = -1;
      if (f1 >= 0) { FD_SET(f1, &rs); mx = std::max(mx, f1); }
      if (f2 >= 0) { FD_SET(f2, &rs); mx = std::max(mx, f2); }
      if (select(mx + 1, &rs, nullptr, nullptr, nullptr) < 0) break;
      if (f1 >= 0 && FD_ISSET(f1, &rs)) { n = read(f1, buf, sizeof buf); if (n <= 0) { close(f1); f1 = -1; --open_fds; } else out.append(buf, n); }
      if (f2 >= 0 && FD_ISSET(f2, &rs)) { n = read(f2, buf, sizeof buf); if (n <= 0) { close(f2); f2 = -1; --open_fds; } else if (err.size() < 20000) err.append(buf, n); }
    }
    int status = 0; waitpid(pid, &status, 0);
    if (WIFEXITED(status) && WEXITSTATUS(status) == 0 && !out.empty())
    {
      fputs(out.c_str(), stdout);
    }
    else
    {
      // summarise the sanitizer report / crash on one line
      std::string summary;
      size_t s = err.find("SUMMARY:");
      if (s != std::string::npos) summary = err.substr(s, err.find('\n', s) - s);
      else
      {
        size_t e = err.find("ERROR:");
        if (e == std::string::npos) e = err.find("runtime error:");
        if (e != std::string::npos) summary = err.substr(e, err.find('\n', e) - e);
      }
      for (auto& c : summary) if (c == '\n') c = ' ';
      printf("CRASH status=%d %s\n", WIFSIGNALED(status) ? 128 + WTERMSIG(status) : WEXITSTATUS(status), summary.c_str());
    }
    fflush(stdout);
  }
  free(lb);
  return 0;
}
