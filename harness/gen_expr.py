"""Generator of well-typed sigc++ functor expressions (C09/C10/C11): terms, their text form for
the model driver, and the C++ source of the cases."""
import random

K = 4   # trackables per case


class ExprGen:
    def __init__(self, rng, max_depth):
        self.r = rng
        self.max_depth = max_depth
        self.next_leaf = 1

    # types: list of (ty, const) with ty in O (Obj), T (trackable ref), I (long)
    def gen_ref(self, types, depth):
        """an expression returning (by reference) the object it receives first: a LeafRef under
        adaptors that pass the result through (hide, bind, track_object)"""
        r = self.r
        n = len(types)
        opts = []
        if types and types[0][0] in "OT":
            opts += ["leafref", "leafref"]
        if depth < self.max_depth:
            opts += ["to", "bindn"]
            if n >= 2:
                opts += ["hiden"]
            if n >= 1:
                opts += ["bind0"]
        if not opts:
            return None
        k = r.choice(opts)
        if k == "leafref":
            i = self.next_leaf
            self.next_leaf += 1
            return ("leafref", i)
        if k == "to":
            f = self.gen_ref(types, depth + 1)
            return ("to", f, [r.randrange(K)]) if f else None
        if k == "bindn":
            f = self.gen_ref(types + [("O", False)], depth + 1)
            return ("bind", -1, f, [("v", r.randint(10, 99))]) if f else None
        if k == "hiden":
            f = self.gen_ref(types[:-1], depth + 1)
            return ("hide", -1, f) if f else None
        if k == "bind0":
            t = r.randrange(K)
            f = self.gen_ref([("T", False)] + types, depth + 1)
            return ("bind", 0, f, [("r", t)]) if f else None
        return None

    def gen(self, types, depth, need_value, allow_throw=True):
        """returns (term, returns_value)"""
        r = self.r
        n = len(types)
        opts = ["leaf"]
        if depth < self.max_depth:
            opts += ["bind", "bind", "bindn", "to", "slot", "br", "rr", "retype", "c1", "c2", "ec"]
            if n >= 1:
                opts += ["hide", "hiden"]
            if not need_value:
                opts += ["hr"]
        if all(t == "O" for t, _ in types) and n <= 2:
            opts += ["mem", "mem"]
        if any(t == "X" for t, _ in types):
            # an argument of functor / slot / trackable-value type: only targets that accept anything
            opts = [o for o in opts if o not in ("slot", "retype", "mem", "c1", "c2")]
        k = r.choice(opts) if depth > 0 or r.random() < 0.9 else "leaf"
        if depth == 0 and k == "leaf" and self.max_depth > 0 and r.random() < 0.8:
            k = r.choice([o for o in opts if o != "leaf"] or ["leaf"])
        if k == "leaf":
            i = self.next_leaf
            self.next_leaf += 1
            return ("leaf", i, 1 if (allow_throw and r.random() < 0.08) else 0), True
        if k == "mem":
            kinds = [r.choice("vc") if c else r.choice("vrc") for _, c in types]
            return ("mem", r.randrange(K), kinds, 1 if r.random() < 0.35 else 0, 1 if r.random() < 0.3 else 0), True
        if k in ("bind", "bindn"):
            nb = r.choice([1, 1, 2, 2, 3, 4, 5, 6])
            bounds, btypes = [], []
            for _ in range(nb):
                ch = r.random()
                if ch < 0.4:
                    bounds.append(("v", r.randint(10, 99)))
                    btypes.append(("O", False))
                elif ch < 0.7:
                    bounds.append(("r", r.randrange(K)))
                    btypes.append(("T", False))
                elif ch < 0.85:
                    bounds.append(("c", r.randrange(K)))
                    btypes.append(("T", True))
                else:
                    # a functor, a slot or a trackable-derived object bound BY VALUE (visited through bound_argument<T>)
                    kind = r.choice("fst")
                    bounds.append((kind, r.randrange(K) if kind != "t" else 0))
                    btypes.append(("X", False))
            if k == "bind":
                i = r.randint(0, n)
                f, rv = self.gen(types[:i] + btypes + types[i:], depth + 1, need_value, allow_throw)
                return ("bind", i, f, bounds), rv
            f, rv = self.gen(types + btypes, depth + 1, need_value, allow_throw)
            return ("bind", -1, f, bounds), rv
        if k == "hide":
            i = r.randrange(n)
            f, rv = self.gen(types[:i] + types[i + 1:], depth + 1, need_value, allow_throw)
            return ("hide", i, f), rv
        if k == "hiden":
            f, rv = self.gen(types[:-1], depth + 1, need_value, allow_throw)
            return ("hide", -1, f), rv
        if k == "retype":
            f, rv = self.gen(types, depth + 1, need_value, allow_throw)
            return ("retype", f, list(types), rv), rv
        if k == "slot":
            f, rv = self.gen(types, depth + 1, need_value, allow_throw)
            return ("slot", f, list(types), rv), rv
        if k == "rr":
            f, _ = self.gen(types, depth + 1, True, allow_throw)
            return ("rr", f), True
        if k == "hr":
            f, _ = self.gen(types, depth + 1, False, allow_throw)
            return ("hr", f), False
        if k == "br":
            f, _ = self.gen(types, depth + 1, False, allow_throw)
            return ("br", f, r.randint(100, 999)), True
        if k == "c1":
            g = self.gen_ref(types, depth + 1) if r.random() < 0.35 else None
            if g is not None:
                s, rv = self.gen([self.ref_type(g, types)], depth + 1, need_value, allow_throw)
                return ("c1", s, g), rv
            g, _ = self.gen(types, depth + 1, True, allow_throw)
            s, rv = self.gen([("I", False)], depth + 1, need_value, allow_throw)
            return ("c1", s, g), rv
        if k == "c2":
            g1 = self.gen_ref(types, depth + 1) if r.random() < 0.35 else None
            g2 = self.gen_ref(types, depth + 1) if r.random() < 0.35 else None
            t1 = self.ref_type(g1, types) if g1 is not None else ("I", False)
            t2 = self.ref_type(g2, types) if g2 is not None else ("I", False)
            if g1 is None:
                g1, _ = self.gen(types, depth + 1, True, False)   # evaluation order of the two getters is unspecified:
            if g2 is None:
                g2, _ = self.gen(types, depth + 1, True, False)   # a throwing getter would make the log ambiguous
            s, rv = self.gen([t1, t2], depth + 1, need_value, allow_throw)
            return ("c2", s, g1, g2), rv
        if k == "ec":
            f, _ = self.gen(types, depth + 1, True, allow_throw)
            # catchers numbered from 5000 rethrow what they are handed (only where a throw may escape)
            c = r.randint(5000, 5999) if (allow_throw and r.random() < 0.3) else r.randint(1000, 1999)
            return ("ec", f, c), True
        if k == "to":
            ts = [r.randrange(K) for _ in range(r.choice([1, 1, 2, 3, 4, 5, 6]))]
            f, rv = self.gen(types, depth + 1, need_value, allow_throw)
            return ("to", f, ts), rv
        raise AssertionError(k)


def _ref_type(g, types):
    """type (O or T) of the object a gen_ref expression returns when called with `types`"""
    k = g[0]
    if k == "leafref":
        return types[0]
    if k == "to":
        return _ref_type(g[1], types)
    if k == "hide":
        return _ref_type(g[2], types[:-1])
    if k == "bind" and g[1] < 0:
        return _ref_type(g[2], types + [("O", False)])
    if k == "bind":
        return _ref_type(g[2], [("T", False)] + types)
    raise AssertionError(k)


ExprGen.ref_type = staticmethod(_ref_type)


def sig_of(types):
    out = []
    for t, c in types:
        if t == "O":
            out.append("const Obj&" if c else "Obj&")
        elif t == "T":
            out.append("const Tr&" if c else "Tr&")
        else:
            out.append("long")
    return ", ".join(out)


def to_text(t):
    k = t[0]
    if k == "leaf":
        return "leaf %d %d" % (t[1], t[2])
    if k == "leafref":
        return "leafref %d" % t[1]
    if k == "leafv":            # by-value leaf: the model's leaf (values are what is compared for these cases)
        return "leaf %d 0" % t[1]
    if k == "mem":
        return "mem %d %d %d %s" % (t[1], 500 + t[1], len(t[2]), " ".join(t[2]))
    if k == "bind":
        return "bind %d %d %s %s" % (t[1], len(t[3]), " ".join("%s%d" % b for b in t[3]), to_text(t[2]))
    if k == "hide":
        return "hide %d %s" % (t[1], to_text(t[2]))
    if k == "retype":
        return "retype slot %s" % to_text(t[1])
    if k == "slot":
        return "slot %s" % to_text(t[1])
    if k == "rr":
        return "rr %s" % to_text(t[1])
    if k == "hr":
        return "hr %s" % to_text(t[1])
    if k == "br":
        return "br v%d %s" % (t[2], to_text(t[1]))
    if k == "c1":
        return "c1 %s %s" % (to_text(t[1]), to_text(t[2]))
    if k == "c2":
        return "c2 %s %s %s" % (to_text(t[1]), to_text(t[2]), to_text(t[3]))
    if k == "ec":
        return "ec %d %s" % (t[2], to_text(t[1]))
    if k == "to":
        return "to %d %s %s" % (len(t[2]), " ".join(map(str, t[2])), to_text(t[1]))
    raise AssertionError(k)


def to_cpp(t):
    k = t[0]
    if k == "leaf":
        return "Leaf{%d, %s}" % (t[1], "true" if t[2] else "false")
    if k == "leafref":
        return "LeafRef{%d}" % t[1]
    if k == "leafv":
        return "LeafV{%d}" % t[1]
    if k == "mem":
        cst = "c" if (len(t) > 4 and t[4]) else ""      # a const member function (other mem_fun overload)
        if len(t) > 3 and t[3]:      # a method inherited from the non-trackable base NB
            return "sigc::mem_fun(*g_tr[%d], &NB::%sn%d%s)" % (t[1], cst, len(t[2]), "".join(t[2]))
        return "sigc::mem_fun(*g_tr[%d], &Tr::%sm%d%s)" % (t[1], cst, len(t[2]), "".join(t[2]))
    if k == "bind":
        bs = []
        for kind, v in t[3]:
            bs.append({"v": "Obj(%d)", "r": "std::ref(*g_tr[%d])", "c": "std::cref(*g_tr[%d])",
                       "f": "sigc::mem_fun(*g_tr[%d], &Tr::m0)", "s": "sigc::slot<long()>(sigc::mem_fun(*g_tr[%d], &Tr::m0))",
                       "t": "TrVal(%d)"}[kind] % v)
        if t[1] < 0:
            return "sigc::bind(%s, %s)" % (to_cpp(t[2]), ", ".join(bs))
        return "sigc::bind<%d>(%s, %s)" % (t[1], to_cpp(t[2]), ", ".join(bs))
    if k == "hide":
        return ("sigc::hide(%s)" % to_cpp(t[2])) if t[1] < 0 else ("sigc::hide<%d>(%s)" % (t[1], to_cpp(t[2])))
    if k == "retype":
        return "sigc::retype(sigc::slot<%s(%s)>(%s))" % ("long" if t[3] else "void", sig_of(t[2]), to_cpp(t[1]))
    if k == "slot":
        return "sigc::slot<%s(%s)>(%s)" % ("long" if t[3] else "void", sig_of(t[2]), to_cpp(t[1]))
    if k == "rr":
        return "sigc::retype_return<long>(%s)" % to_cpp(t[1])
    if k == "hr":
        return "sigc::hide_return(%s)" % to_cpp(t[1])
    if k == "br":
        return "sigc::bind_return(%s, (long)%d)" % (to_cpp(t[1]), t[2])
    if k == "c1":
        return "sigc::compose(%s, %s)" % (to_cpp(t[1]), to_cpp(t[2]))
    if k == "c2":
        return "sigc::compose(%s, %s, %s)" % (to_cpp(t[1]), to_cpp(t[2]), to_cpp(t[3]))
    if k == "ec":
        return "sigc::exception_catch(%s, %s{%d})" % (to_cpp(t[1]), "CatcherRe" if t[2] >= 5000 else "Catcher", t[2])
    if k == "to":
        return "sigc::track_object(%s, %s)" % (to_cpp(t[1]), ", ".join("*g_tr[%d]" % x for x in t[2]))
    raise AssertionError(k)


def has_compose2(t):
    if t[0] == "c2":
        return True
    return any(has_compose2(x) for x in t[1:] if isinstance(x, tuple))


def rvalue_ok(t):
    """can the expression be called with temporaries? (no non-const lvalue reference parameter on the path)"""
    if t[0] == "mem" and "r" in t[2]:
        return False
    if t[0] == "leafref":
        return False
    if t[0] in ("slot", "retype") and any(ty == "O" and not c for ty, c in t[2]):
        return False
    return all(rvalue_ok(x) for x in t[1:] if isinstance(x, tuple))


def has_leafv(t):
    if t[0] == "leafv":
        return True
    return any(has_leafv(x) for x in t[1:] if isinstance(x, tuple))


def depth_of(t):
    subs = [depth_of(x) for x in t[1:] if isinstance(x, tuple)]
    return 1 + (max(subs) if subs else 0)


def adaptors_of(t, acc=None):
    acc = acc if acc is not None else set()
    acc.add(t[0] if t[0] != "bind" else ("bind" if t[1] >= 0 else "bindn"))
    for x in t[1:]:
        if isinstance(x, tuple):
            adaptors_of(x, acc)
    return acc


class Case:
    def __init__(self, idx, term, rv, kinds, vals):
        self.idx, self.term, self.rv, self.kinds, self.vals = idx, term, rv, kinds, vals

    def model_line(self):
        return "%d %d %s | %s" % (K, len(self.vals), " ".join(map(str, self.vals)), to_text(self.term))

    def top_sig(self):
        return ", ".join({"v": "Obj", "r": "Obj&", "c": "const Obj&"}[k] for k in self.kinds)

    def cpp(self):
        n = len(self.vals)
        R = "long" if self.rv else "void"
        expr = to_cpp(self.term)
        args = ", ".join("o%d" % i for i in range(n))
        decl = " ".join("Obj o%d(%d);" % (i, v) for i, v in enumerate(self.vals))
        orig = "g_orig = {%s};" % ", ".join("&o%d" % i for i in range(n))

        def call(obj):
            if self.rv:
                return "try { long r = %s(%s); printf(\"%%s;%%ld\", g_log.c_str(), r); } catch (LeafThrow&) { printf(\"%%s;throw\", g_log.c_str()); }" % (obj, args)
            return "try { %s(%s); printf(\"%%s;void\", g_log.c_str()); } catch (LeafThrow&) { printf(\"%%s;throw\", g_log.c_str()); }" % (obj, args)
        L = []
        L.append("static void case_%d()\n{" % self.idx)
        L.append("  begin_case(%d);" % self.idx)
        L.append("  { std::string inval, regs, after;")
        L.append("    for (int victim = 0; victim < %d; ++victim) {" % K)
        L.append("      g_tr.assign(%d, nullptr); for (int k = 0; k < %d; ++k) g_tr[k] = new Tr(k);" % (K, K))
        if self.idx % 2:
            # a trackable that has already delivered a round of notifications once is as good as a fresh one
            L.append("      for (int k = 0; k < %d; ++k) first_life(*g_tr[k]);" % K)
        L.append("      { sigc::slot<%s(%s)> s = %s;" % (R, self.top_sig(), expr))
        L.append("        if (victim == 0) for (int k = 0; k < %d; ++k) regs += (k ? \",\" : \"\") + std::to_string(k) + \"=\" + std::to_string(probe_regs(*g_tr[k]));" % K)
        L.append("        delete g_tr[victim]; g_tr[victim] = nullptr;")
        L.append("        if (s.empty()) inval += (inval.empty() ? \"\" : \",\") + std::to_string(victim); }")
        L.append("      for (auto t : g_tr) delete t; }")
        L.append("    g_tr.assign(%d, nullptr); for (int k = 0; k < %d; ++k) g_tr[k] = new Tr(k);" % (K, K))
        L.append("    { sigc::slot<%s(%s)> s = %s; sigc::slot<%s(%s)> s2 = s; }" % (R, self.top_sig(), expr, R, self.top_sig()))
        L.append("    for (int k = 0; k < %d; ++k) after += (k ? \",\" : \"\") + std::to_string(k) + \"=\" + std::to_string(probe_regs(*g_tr[k]));" % K)
        L.append("    printf(\" regs=[%s] inval=[%s] after=[%s]\", regs.c_str(), inval.c_str(), after.c_str()); }")
        L.append("  { %s %s" % (decl, orig))
        L.append("    { auto f = %s; g_log.clear(); printf(\" direct=\"); %s }" % (expr, call("f")))
        L.append("    { sigc::slot<%s(%s)> s = %s; g_log.clear(); printf(\" slot=\"); %s }" % (R, self.top_sig(), expr, call("s")))
        L.append("    { sigc::signal<%s(%s)> sg; sg.connect(%s); g_log.clear(); printf(\" signal=\"); %s }" % (R, self.top_sig(), expr, call("sg.emit")))
        if n and rvalue_ok(self.term):
            targs = ", ".join("Obj(%d)" % v for v in self.vals)
            L.append("    { auto f = %s; g_log.clear(); printf(\" rvalue=\"); %s }" % (expr, call("f").replace("(%s)" % args, "(%s)" % targs)))
        L.append("    long c0 = Obj::copies; { sigc::slot<%s(%s)> s = %s; c0 = Obj::copies; g_log.clear(); try { s(%s); } catch (LeafThrow&) {} }" % (R, self.top_sig(), expr, args))
        L.append("    printf(\" copies=%ld\", Obj::copies - c0); }")
        L.append("  for (auto t : g_tr) delete t; g_tr.clear(); g_orig.clear();")
        L.append("  end_case();\n}")
        return "\n".join(L)


def generate(seed, count, max_depth=3):
    rng = random.Random("expr-%s" % seed)
    cases = []
    for i in range(count):
        eg = ExprGen(rng, rng.randint(1, max_depth))
        n = rng.choice([0, 1, 1, 2, 2, 3, 3, 4])
        kinds = [rng.choice("vrc") for _ in range(n)]
        types = [("O", k != "r") for k in kinds]
        term, rv = eg.gen(types, 0, rng.random() < 0.7)
        vals = [rng.randint(1, 9) + 10 * (j + 1) for j in range(n)]
        cases.append(Case(i, term, rv, kinds, vals))
    return cases


def translation_unit(cases):
    parts = ['#include "expr_prelude.h"']
    for c in cases:
        parts.append(c.cpp())
    parts.append("int main()\n{")
    parts.append("  fixed_slot_by_reference();")
    parts.append("  fixed_signal_connect();")
    for c in cases:
        parts.append("  case_%d();" % c.idx)
    parts.append("  return 0;\n}")
    return "\n".join(parts) + "\n"
