"""Generator of trackable-only histories (property C16)."""
import random


def program(r, size):
    nkeys = r.randint(1, 5)
    keys = list(range(nkeys))
    parts = []
    for k in keys:
        if r.random() < 0.6:
            acts = []
            for _ in range(r.randint(1, 3)):
                acts.append(("r" if r.random() < 0.8 else "a", r.choice(keys)))
            parts.append("K %d %d %s" % (k, len(acts), " ".join("%s %d" % a for a in acts)))
    live, used = [], set()
    ops = []

    def fresh():
        i = 0
        while i in used:
            i += 1
        used.add(i)
        return i

    def anyvar():
        if live and r.random() < 0.95:
            return r.choice(live)
        return r.randint(0, 6)
    for _ in range(size):
        ch = r.random()
        if ch < 0.12 or not live:
            t = fresh(); live.append(t); ops.append("new %d" % t)
        elif ch < 0.5:
            ops.append("add %d %d" % (anyvar(), r.choice(keys)))
        elif ch < 0.62:
            ops.append("rm %d %d" % (anyvar(), r.choice(keys)))
        elif ch < 0.68:
            t = fresh(); live.append(t); ops.append("cc %d %d" % (t, anyvar()))
        elif ch < 0.74:
            t = fresh(); live.append(t); ops.append("mc %d %d" % (t, anyvar()))
        elif ch < 0.81:
            a = anyvar(); b = a if r.random() < 0.2 else anyvar(); ops.append("as %d %d" % (a, b))
        elif ch < 0.87:
            a = anyvar(); b = a if r.random() < 0.2 else anyvar(); ops.append("ma %d %d" % (a, b))
        elif ch < 0.93:
            ops.append("no %d" % anyvar())
        else:
            t = anyvar()
            if t in live:
                live.remove(t)
            ops.append("de %d" % t)
    rest = list(live)
    r.shuffle(rest)
    for t in rest:
        if r.random() < 0.8:
            ops.append("de %d" % t)
    return " ".join(parts + ["M"] + ops)


def generate(seed, count, size=25):
    r = random.Random("track-%s" % seed)
    return [program(r, r.randint(4, size)) for _ in range(count)]
