// nest.h -- driver mode "nest": slots whose functor holds other slots by value or refers to slot
// variables by std::ref (visitor<slot>, set_parent/unset_parent, clone, destroy), against NestModel.v.
// Program: ops separated by ';'.  After every op the state of every slot variable and the number of
// callback entries of every trackable are printed (the probe), so that model and library are compared
// at every operation boundary.
#include <set>
int probe_slot(const sigc::slot_base& s);

struct NTr : public sigc::trackable { int id; explicit NTr(int i) : id(i) {} };
static thread_local long g_nest_live = 0;      // live NestF objects (functor copies)

struct NestF
{
  std::vector<NTr*> ts;
  std::vector<sigc::slot<void()>*> srefs;
  std::vector<sigc::slot<void()>> svals;
  NestF() { ++g_nest_live; }
  NestF(const NestF& o) : ts(o.ts), srefs(o.srefs), svals(o.svals) { ++g_nest_live; }
  NestF& operator=(const NestF&) = delete;
  ~NestF() { --g_nest_live; }
  void operator()() const {}
};

namespace sigc
{
template<>
struct visitor<NestF>
{
  template<typename T_action>
  static void do_visit_each(const T_action& action, const NestF& f)
  {
    for (auto* t : f.ts) sigc::visit_each(action, *t);
    for (auto* s : f.srefs) sigc::visit_each(action, *s);
    for (auto& s : f.svals) sigc::visit_each(action, s);
  }
};
}

static std::string run_nest(const std::string& line)
{
  std::map<long, NTr*> tr;                               // nullptr: destroyed
  std::map<long, sigc::slot<void()>*> sv;                // nullptr: destroyed
  std::string out;
  auto live_t = [&](long k) { auto i = tr.find(k); return i != tr.end() && i->second; };
  auto live_s = [&](long k) { auto i = sv.find(k); return i != sv.end() && i->second; };
  auto probe = [&]() {
    out += "{";
    for (auto& kv : sv)
    {
      out += "s" + std::to_string(kv.first) + ":";
      if (!kv.second) out += "x";
      else { int c = probe_slot(*kv.second); out += (c & 3) == 0 ? "n" : (c & 3) == 1 ? "i" : "v"; if (c >= 0 && (c & 4)) out += "+"; }
      out += " ";
    }
    out += "|";
    for (auto& kv : tr)
    {
      out += "t" + std::to_string(kv.first) + ":";
      out += kv.second ? std::to_string((long)probe_regs(*kv.second)) : std::string("x");
      out += " ";
    }
    out += "} ";
  };
  std::istringstream all(line);
  std::string opline;
  while (std::getline(all, opline, ';'))
  {
    std::istringstream in(opline);
    std::string m; in >> m;
    if (m.empty()) continue;
    long a = -1, b = -1;
    if (m == "tnew") { in >> a; if (tr.find(a) == tr.end()) tr[a] = new NTr((int)a); else out += "- "; }
    else if (m == "tdel") { in >> a; if (live_t(a)) { delete tr[a]; tr[a] = nullptr; } else out += "- "; }
    else if (m == "sempty") { in >> a; if (sv.find(a) == sv.end()) sv[a] = new sigc::slot<void()>(); else out += "- "; }
    else if (m == "snew")
    {
      int n = 0; in >> a >> n;
      std::vector<std::pair<char, long>> items;
      bool ok = sv.find(a) == sv.end();
      for (int i = 0; i < n; ++i) { std::string k; long id; in >> k >> id; items.push_back({k[0], id}); ok = ok && (k[0] == 't' ? live_t(id) : live_s(id)); }
      if (!ok) out += "- ";
      else
      {
        NestF f;
        f.svals.reserve(items.size());
        for (auto& it : items)
        {
          if (it.first == 't') f.ts.push_back(tr[it.second]);
          else if (it.first == 'r') f.srefs.push_back(sv[it.second]);
          else f.svals.push_back(*sv[it.second]);
        }
        sv[a] = new sigc::slot<void()>(f);
      }
    }
    else if (m == "scopy") { in >> a >> b; if (live_s(b) && sv.find(a) == sv.end()) sv[a] = new sigc::slot<void()>(*sv[b]); else out += "- "; }
    else if (m == "smove") { in >> a >> b; if (live_s(b) && sv.find(a) == sv.end() && a != b) sv[a] = new sigc::slot<void()>(std::move(*sv[b])); else out += "- "; }
    else if (m == "sasg") { in >> a >> b; if (live_s(a) && live_s(b)) *sv[a] = *sv[b]; else out += "- "; }
    else if (m == "smasg") { in >> a >> b; if (live_s(a) && live_s(b)) *sv[a] = std::move(*sv[b]); else out += "- "; }
    else if (m == "sdisc") { in >> a; if (live_s(a)) sv[a]->disconnect(); else out += "- "; }
    else if (m == "sdel") { in >> a; if (live_s(a)) { delete sv[a]; sv[a] = nullptr; } else out += "- "; }
    else if (m == "sq") { in >> a; if (live_s(a)) { out += "q"; out += (*sv[a]) ? "1" : "0"; out += sv[a]->empty() ? "1" : "0"; out += " "; } else out += "- "; }
    else { out += "?" + m + " "; }
    probe();
  }
  // generated programs end with an explicit teardown; anything left is released here, functors first
  // (while every slot variable they may refer to is still alive)
  { sigc::slot<void()> e; for (auto& kv : sv) if (kv.second) *kv.second = e; }
  for (auto& kv : sv) delete kv.second;
  for (auto& kv : tr) delete kv.second;
  sv.clear(); tr.clear();
  bool lsan = false;
#ifdef VERIF_ASAN
  lsan = __lsan_do_recoverable_leak_check() != 0;
#endif
  out += "live=" + std::to_string(g_nest_live) + " leak=" + (lsan ? "1" : "0");
  return out;
}
