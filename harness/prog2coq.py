"""Signal program text -> Gallina term (SigCore.program), model trace text -> Gallina event list.
Used for the in-Coq cross-check of the extracted model (cases evaluated by vm_compute inside coqc)
and for the non-vacuity examples."""
import re
import corr


def N(x):
    return "%d%%N" % int(x)


def B(x):
    return "true" if str(x) == "1" else "false"


def rk(x):
    return "RV" if x == "v" else "RI"


def optN(x):
    return "None" if int(x) < 0 else "(Some %s)" % N(x)


def nlist(xs):
    return "[" + "; ".join(N(x) for x in xs) + "]"


def op_term(o):
    m, a = o[0], o[1:]
    if m == "snew":
        n = int(a[4])
        return "OSNew %s %s %s %s" % (N(a[0]), rk(a[1]), N(a[2]), nlist(a[5:5 + n]))
    if m == "sempty":
        return "OSEmpty %s %s" % (N(a[0]), rk(a[1]))
    if m == "gnew":
        return "OGNew %s (mkGK %s %s %s)" % (N(a[0]), rk(a[1]), optN(a[2]), B(a[3]))
    if m == "gconn":
        return "OGConnect %s %s %s %s %s" % (N(a[0]), N(a[1]), optN(a[2]), B(a[3]), B(a[4]))
    simple = {
        "tnew": ("OTNew", "N"), "tdel": ("OTDel", "N"), "tasg": ("OTAssign", "NN"), "tmasg": ("OTMoveAssign", "NN"), "tnot": ("OTNotify", "N"),
        "tnewsh": ("OTNewShared", "N"), "trel": ("OTRelease", "N"),
        "scopy": ("OSCopy", "NN"), "smove": ("OSMove", "NN"), "sasg": ("OSAssign", "NN"), "smasg": ("OSMoveAssign", "NN"),
        "scall": ("OSCall", "NNB"), "sblock": ("OSBlock", "NB"), "sdisc": ("OSDisc", "N"), "sdel": ("OSDel", "N"), "sq": ("OSQuery", "N"),
        "gcopy": ("OGCopy", "NN"), "gmove": ("OGMove", "NN"), "gasg": ("OGAssign", "NN"), "gmasg": ("OGMoveAssign", "NN"), "gdel": ("OGDel", "N"), "gshare": ("OGShare", "N"), "grel": ("OGRelease", "N"),
        "gemit": ("OGEmit", "NNB"), "gclear": ("OGClear", "N"), "gblock": ("OGBlock", "NB"), "gq": ("OGQuery", "N"), "gmk": ("OGMakeSlot", "NN"),
        "cempty": ("OCEmpty", "N"), "ccopy": ("OCCopy", "NN"), "casg": ("OCAssign", "NN"), "cmove": ("OCCopy", "NN"), "cmasg": ("OCAssign", "NN"), "knewm": ("OKNew", "NN"), "kasgm": ("OKAssign", "NN"), "cdisc": ("OCDisc", "N"), "cshare": ("OCShare", "N"), "crel": ("OCRelease", "N"), "cblock": ("OCBlock", "NB"),
        "cdel": ("OCDel", "N"), "cq": ("OCQuery", "N"),
        "knew": ("OKNew", "NN"), "kempty": ("OKEmpty", "N"), "kasg": ("OKAssign", "NN"), "kmove": ("OKMove", "NN"), "kmasg": ("OKMoveAssign", "NN"),
        "kswap": ("OKSwap", "NN"), "krel": ("OKRelease", "NN"), "kdisc": ("OKDisc", "N"), "kblock": ("OKBlock", "NB"), "kdel": ("OKDel", "N"), "kq": ("OKQuery", "N"),
        "probe": ("OProbe", ""), "throw": ("OThrow", ""),
    }
    c, sig = simple[m]
    return " ".join([c] + [(N(x) if t == "N" else B(x)) for x, t in zip(a, sig)])


def accop_term(o):
    m, a = o[0], o[1:]
    m = {"aincp": "ainc", "adecp": "adec", "awalkp": "awalk", "awalkrevp": "awalkrev"}.get(m, m)
    c = {"acopy": "ACopy", "ainc": "AInc", "adec": "ADec", "aderef": "ADeref", "awalk": "AWalk", "awalkrev": "AWalkRev", "awalkuntil": "AWalkUntil"}[m]
    return " ".join([c] + [N(x) for x in a])


def program_term(line):
    scripts, accs, owns, main = [], [], [], []
    for hdr, ops in corr.split_program(line):
        if hdr[0] == "S":
            rs = ("RConst %s" % N(hdr[3])) if hdr[2] == "c" else ("RArgPlus %s" % N(hdr[3]))
            scripts.append("(%s, ([%s], %s))" % (N(hdr[1]), "; ".join(op_term(o) for o in ops), rs))
        elif hdr[0] == "A":
            accs.append("(%s, [%s])" % (N(hdr[1]), "; ".join(accop_term(o) for o in ops)))
        elif hdr[0] == "O":
            owns.append("(%s, %s)" % (N(hdr[1]), nlist(hdr[3:])))
        else:
            main = [op_term(o) for o in ops]
    return "(mkProg [%s] [%s] [%s] [%s])" % ("; ".join(scripts), "; ".join(accs), "; ".join(owns), "; ".join(main))


def trace_term(trace):
    """model trace text (chronological) -> Gallina `list event` (chronological)"""
    body = trace.split("|")[0]
    evs = []
    for t in body.split():
        if t[0] == "E":
            b, a = t[1:].split(",")
            evs.append("EEnter %s %s" % (N(b), N(a)))
        elif t[0] == "L":
            b, r = t[1:].split(",")
            evs.append("ELeave %s %s" % (N(b), N(r)))
        elif t[0] == "T":
            evs.append("EThrowOut %s" % N(t[1:]))
        elif t.startswith("cr"):
            evs.append("ECallRet %s" % N(t[2:]))
        elif t.startswith("er"):
            evs.append("EEmitRet %s" % N(t[2:]))
        elif t == "X":
            evs.append("EExn")
        elif t.startswith("sq"):
            evs.append("ESlotQ %s %s" % (B(t[2]), B(t[3])))
        elif t.startswith("gq"):
            n, fl = t[2:].split(",")
            evs.append("ESigQ %s %s %s" % (N(n), B(fl[0]), B(fl[1])))
        elif t.startswith("cq"):
            evs.append("EConnQ %s %s" % (B(t[2]), B(t[3])))
        elif t.startswith("br"):
            evs.append("EBlockRet %s" % B(t[2]))
        elif t == "-":
            evs.append("ESkip")
        elif t.startswith("P["):
            return None      # probes carry sorted lists: not compared in Coq
        else:
            return None
    return "[" + "; ".join(evs) + "]"
