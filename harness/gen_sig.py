"""Generator of signal/slot/trackable/connection histories (text format of ocaml/driver.ml and
harness/driver.cc).  Every random choice derives from one random.Random(seed)."""
import random

PROFILES = {
    # weights of operation groups per profile
    "basic":     dict(sig=3, slot=2, conn=2, block=3, emit=4, clear=1, track=0, handle=0, slotval=0, scoped=0, chain=0, reent=0, throw=0, acc=2),
    "reentrant": dict(sig=2, slot=2, conn=1, block=1, emit=4, clear=1, track=2, handle=1, slotval=0, scoped=0, chain=0, reent=5, throw=0, acc=1),
    "throwing":  dict(sig=2, slot=2, conn=1, block=1, emit=4, clear=1, track=1, handle=0, slotval=0, scoped=0, chain=0, reent=4, throw=4, acc=1),
    "lifetime":  dict(sig=2, slot=3, conn=3, block=1, emit=2, clear=1, track=4, handle=2, slotval=2, scoped=2, chain=1, reent=1, throw=0, acc=1),
    "handles":   dict(sig=4, slot=2, conn=2, block=1, emit=3, clear=1, track=1, handle=6, slotval=0, scoped=0, chain=0, reent=1, throw=0, acc=1),
    "slots":     dict(sig=1, slot=4, conn=1, block=2, emit=1, clear=0, track=3, handle=0, slotval=7, scoped=0, chain=0, reent=0, throw=0, acc=0),
    "scoped":    dict(sig=2, slot=2, conn=3, block=1, emit=2, clear=1, track=1, handle=0, slotval=0, scoped=7, chain=0, reent=0, throw=0, acc=0),
    "chain":     dict(sig=3, slot=2, conn=1, block=1, emit=4, clear=0, track=1, handle=3, slotval=0, scoped=0, chain=6, reent=1, throw=0, acc=0),
    "accum":     dict(sig=3, slot=3, conn=2, block=3, emit=5, clear=1, track=1, handle=0, slotval=0, scoped=0, chain=0, reent=1, throw=0, acc=8),
}

SHAPES_BY_NREFS = {0: ["p", "p", "p", "v"], 1: ["m", "n", "k", "b", "t"], 2: ["b", "t", "u"], 3: ["b", "t"]}


class Gen:
    def __init__(self, rng, profile, size=20, nbodies=4, script_len=3):
        self.r = rng
        self.w = PROFILES[profile]
        self.profile = profile
        self.size = size
        self.nbodies = nbodies
        self.script_len = script_len
        # symbolic bookkeeping (approximate: existence only)
        self.tr = []        # live trackable ids
        self.sl = {}        # slot id -> rk
        self.sg = {}        # sig id -> (rk, acc, track)
        self.cn = []
        self.kn = []
        self.used = dict(t=set(), s=set(), g=set(), c=set(), k=set())
        self.nacc = 0
        self.accs = {}
        self.ops = []
        self.owns = {}      # body -> shared trackables co-owned by every functor copy with that body
        self.shared_held = []

    # -- id management
    def fresh(self, kind, lo=0):
        i = lo
        while i in self.used[kind]:
            i += 1
        self.used[kind].add(i)
        return i

    def pick(self, seq):
        seq = list(seq)
        return self.r.choice(seq) if seq else None

    def maybe_stale(self, kind, live):
        """mostly a live id, sometimes a dead / never created one"""
        if live and self.r.random() < 0.93:
            return self.pick(live)
        pool = list(self.used[kind]) or [0]
        return self.pick(pool + [max(pool) + 1])

    # -- op builders (return list of op strings, update bookkeeping)
    def new_track(self):
        t = self.fresh("t")
        self.tr.append(t)
        return ["tnew %d" % t]

    def new_slot(self, rk=None, allow_refs=True):
        s = self.fresh("s")
        rk = rk or self.r.choice("iv")
        body = self.r.randint(1, self.nbodies)
        nrefs = 0
        if allow_refs and self.tr and self.r.random() < (0.6 if self.w["track"] else 0.15):
            nrefs = self.r.choice([1, 1, 1, 2, 2, 3])
        refs = [self.pick(self.tr) for _ in range(nrefs)]
        shape = self.r.choice(SHAPES_BY_NREFS[nrefs])
        self.sl[s] = rk
        return ["snew %d %s %d %s %d%s" % (s, rk, body, shape, nrefs, "".join(" %d" % t for t in refs))]

    def new_sig(self):
        g = self.fresh("g")
        rk = self.r.choice("iiv")
        acc = -1
        if self.r.random() < (self.w["acc"] / 10.0 if rk == "i" else self.w["acc"] / 25.0):
            acc = self.new_acc(void=(rk == "v"))
        track = 1 if self.r.random() < (0.5 if self.w["chain"] else 0.25) else 0
        self.sg[g] = (rk, acc, track)
        return ["gnew %d %s %d %d" % (g, rk, acc, track)]

    def new_acc(self, void=False):
        a = self.nacc
        self.nacc += 1
        r = self.r
        kinds = ["walk", "until", "twice", "rev", "never", "copy", "mixed", "walkrevwalk"]
        k = r.choice(kinds)
        if k == "walk":
            ops = ["awalk 2"]
        elif k == "until":
            ops = ["awalkuntil 2 %d" % r.randint(0, 30)]
        elif k == "twice":
            ops = ["aderef 2", "aderef 2", "ainc 2", "aderef 2", "aderef 2", "ainc 2", "aderef 2"]
        elif k == "rev":
            ops = ["awalkrev 2"]
        elif k == "never":
            ops = ["ainc 2", "ainc 2"]
        elif k == "copy":
            ops = ["aderef 2", "acopy 3 2", "aderef 3", "ainc 3", "aderef 3", "adec 3", "aderef 3", "aderef 2"]
        elif k == "walkrevwalk":
            ops = ["awalk 2", "awalkrev 3", "awalk 3"]
        else:
            ops = []
            for _ in range(r.randint(1, 8)):
                c = r.choice([2, 2, 3])
                ops.append(r.choice(["aderef %d" % c, "ainc %d" % c, "adec %d" % c, "acopy %d %d" % (c, r.choice([0, 1, 2, 3])),
                                     "awalk %d" % c, "awalkuntil %d %d" % (c, r.randint(0, 30)), "awalkrev %d" % c, "aderef %d" % c]))
        # half of the scripts use the postfix operators of the iterator (same meaning)
        if r.random() < 0.5:
            ops = [o.replace("ainc ", "aincp ").replace("adec ", "adecp ").replace("awalk ", "awalkp ").replace("awalkrev ", "awalkrevp ") for o in ops]
        if void:
            # dereferencing yields nothing on a void signal: no value to stop on
            ops = [("awalk %s" % o.split()[1]) if o.startswith("awalkuntil") else o for o in ops]
        self.accs[a] = ops
        return a

    def connect(self, g=None, s=None):
        g = g if g is not None else self.maybe_stale("g", self.sg)
        out = []
        if s is None:
            # prefer a slot of the matching kind
            rk = self.sg.get(g, ("i",))[0]
            cands = [x for x, k in self.sl.items() if k == rk]
            # with shared ownership in play only freshly made (hence non-empty) slots are connected: a
            # connected *empty* slot is dropped by whichever sweep comes next, and the model performs
            # ownership cascades at the end of the operation rather than inside the library call
            if not cands or self.r.random() < 0.35 or self.owns:
                out += self.new_slot(rk=rk)
                s = max(self.sl)
            else:
                s = self.pick(cands)
                if self.r.random() < 0.05:
                    s = self.maybe_stale("s", list(self.sl))
        c = -1
        if self.r.random() < 0.7:
            if self.cn and self.r.random() < 0.15:
                c = self.pick(self.cn)       # assign over a live connection variable
            else:
                c = self.fresh("c")
                self.cn.append(c)
        front = 1 if self.r.random() < 0.3 else 0
        mv = 1 if (self.r.random() < 0.2 and not self.owns) else 0
        out.append("gconn %d %d %d %d %d" % (g, s, c, front, mv))
        return out

    def emit(self, catch=1):
        g = self.maybe_stale("g", self.sg)
        return ["gemit %d %d %d" % (g, self.r.randint(0, 9), catch)]

    def one(self, in_script=False):
        """one random operation group"""
        r = self.r
        w = self.w
        groups = []
        for k in ("sig", "slot", "conn", "block", "emit", "clear", "track", "handle", "slotval", "scoped", "chain"):
            groups += [k] * w[k]
        k = r.choice(groups)
        if k == "sig":
            if not self.sg or r.random() < 0.25:
                return self.new_sig()
            return self.connect()
        if k == "slot":
            if r.random() < 0.5 or not self.sl:
                return self.new_slot()
            if r.random() < 0.3:
                s = self.fresh("s")
                rk = r.choice("iv")
                self.sl[s] = rk
                return ["sempty %d %s" % (s, rk)]
            s = self.maybe_stale("s", list(self.sl))
            return [r.choice(["sq %d" % s, "scall %d %d 1" % (s, r.randint(0, 9)), "sdisc %d" % s])]
        if k == "conn":
            if not self.cn:
                return self.connect() if self.sg else self.new_sig()
            c = self.maybe_stale("c", self.cn)
            ch = r.random()
            if ch < 0.3:
                return ["cq %d" % c]
            if ch < 0.5:
                return ["cdisc %d" % c]
            if ch < 0.65:
                n = self.fresh("c")
                self.cn.append(n)
                return ["%s %d %d" % (self.r.choice(["ccopy", "ccopy", "cmove"]), n, c)]
            if ch < 0.75:
                return ["%s %d %d" % (self.r.choice(["casg", "casg", "cmasg"]), c, self.maybe_stale("c", self.cn))]
            if ch < 0.85:
                if c in self.cn:
                    self.cn.remove(c)
                return ["cdel %d" % c]
            if ch < 0.9:
                n = self.fresh("c")
                self.cn.append(n)
                return ["cempty %d" % n]
            return ["cblock %d %d" % (c, r.randint(0, 1))]
        if k == "block":
            ch = r.random()
            if ch < 0.35 and self.cn:
                return ["cblock %d %d" % (self.maybe_stale("c", self.cn), r.randint(0, 1))]
            if ch < 0.6 and self.sl:
                return ["sblock %d %d" % (self.maybe_stale("s", list(self.sl)), r.randint(0, 1))]
            if ch < 0.8 and self.sg:
                return ["gblock %d %d" % (self.maybe_stale("g", self.sg), r.randint(0, 1))]
            if self.sg:
                return ["gq %d" % self.maybe_stale("g", self.sg)]
            return self.new_sig()
        if k == "emit":
            if not self.sg:
                return self.new_sig()
            if r.random() < 0.25:
                return ["gq %d" % self.maybe_stale("g", self.sg)]
            return self.emit()
        if k == "clear":
            if not self.sg:
                return self.new_sig()
            return ["gclear %d" % self.maybe_stale("g", self.sg)]
        if k == "track":
            ch = r.random()
            if ch < 0.45 or not self.tr:
                return self.new_track()
            t = self.maybe_stale("t", self.tr)
            if ch < 0.8:
                if t in self.tr:
                    self.tr.remove(t)
                return ["tdel %d" % t]
            if ch < 0.87:
                return ["tasg %d %d" % (t, self.maybe_stale("t", self.tr))]
            if ch < 0.93:
                return ["tmasg %d %d" % (t, self.maybe_stale("t", self.tr))]
            return ["tnot %d" % t]
        if k == "handle":
            if not self.sg:
                return self.new_sig()
            g = self.maybe_stale("g", self.sg)
            ch = r.random()
            if ch < 0.25:
                n = self.fresh("g")
                if g in self.sg:
                    self.sg[n] = self.sg[g]
                return ["gcopy %d %d" % (n, g)]
            if ch < 0.4:
                n = self.fresh("g")
                if g in self.sg and self.sg[g][1] < 0:
                    self.sg[n] = self.sg[g]
                return ["gmove %d %d" % (n, g)]
            same = [x for x in self.sg if g in self.sg and self.sg[x] == self.sg[g]] or list(self.sg)
            if ch < 0.6:
                return ["gasg %d %d" % (g, self.pick(same))]
            if ch < 0.72:
                return ["gmasg %d %d" % (g, self.pick(same))]
            if ch < 0.9:
                if g in self.sg:
                    del self.sg[g]
                return ["gdel %d" % g]
            return ["gq %d" % g]
        if k == "slotval":
            if not self.sl:
                return self.new_slot()
            s = self.maybe_stale("s", list(self.sl))
            ch = r.random()
            if ch < 0.2:
                n = self.fresh("s")
                if s in self.sl:
                    self.sl[n] = self.sl[s]
                return ["scopy %d %d" % (n, s)]
            if ch < 0.35:
                n = self.fresh("s")
                if s in self.sl:
                    self.sl[n] = self.sl[s]
                return ["smove %d %d" % (n, s)]
            same = [x for x in self.sl if s in self.sl and self.sl[x] == self.sl[s]] or list(self.sl)
            if ch < 0.5:
                return ["sasg %d %d" % (s, self.pick(same))]
            if ch < 0.62:
                return ["smasg %d %d" % (s, self.pick(same))]
            if ch < 0.72:
                return ["scall %d %d 1" % (s, r.randint(0, 9))]
            if ch < 0.8:
                return ["sblock %d %d" % (s, r.randint(0, 1))]
            if ch < 0.86:
                return ["sdisc %d" % s]
            if ch < 0.93:
                if s in self.sl:
                    del self.sl[s]
                return ["sdel %d" % s]
            return ["sq %d" % s]
        if k == "scoped":
            ch = r.random()
            if (ch < 0.3 or not self.kn) and self.cn:
                n = self.fresh("k")
                self.kn.append(n)
                return ["%s %d %d" % (self.r.choice(["knew", "knew", "knewm"]), n, self.maybe_stale("c", self.cn))]
            if not self.kn:
                return self.connect() if self.sg else self.new_sig()
            kk = self.maybe_stale("k", self.kn)
            if ch < 0.38:
                n = self.fresh("k")
                self.kn.append(n)
                return ["kempty %d" % n]
            if ch < 0.48 and self.cn:
                return ["kasg %d %d" % (kk, self.maybe_stale("c", self.cn))]
            if ch < 0.58:
                n = self.fresh("k")
                self.kn.append(n)
                return ["kmove %d %d" % (n, kk)]
            if ch < 0.66:
                return ["kmasg %d %d" % (kk, self.maybe_stale("k", self.kn))]
            if ch < 0.72:
                return ["kswap %d %d" % (kk, self.maybe_stale("k", self.kn))]
            if ch < 0.8:
                n = self.fresh("c")
                self.cn.append(n)
                return ["krel %d %d" % (kk, n)]
            if ch < 0.85:
                return ["kdisc %d" % kk]
            if ch < 0.88:
                return ["kblock %d %d" % (kk, r.randint(0, 1))]
            if ch < 0.95:
                if kk in self.kn:
                    self.kn.remove(kk)
                return ["kdel %d" % kk]
            return ["kq %d" % kk]
        if k == "chain":
            if len(self.sg) < 2:
                return self.new_sig()
            # forward: pick target a (no accumulator), source b of the same result kind
            targets = [g for g, (rk, acc, tr) in self.sg.items() if acc < 0]
            if not targets:
                return self.new_sig()
            a = self.pick(targets)
            rk = self.sg[a][0]
            bs = [g for g, (rk2, acc, tr) in self.sg.items() if rk2 == rk and (g != a or r.random() < 0.05)]
            if not bs:
                return self.new_sig()
            b = self.pick(bs)
            s = self.fresh("s")
            self.sl[s] = rk
            return ["gmk %d %d" % (s, a)] + self.connect(g=b, s=s)
        return []

    # -- scripts: actions a running slot may perform
    def script_ops(self, depth_ok=True):
        r = self.r
        n = r.randint(0, self.script_len)
        ops = []
        emits = 0
        for _ in range(n):
            ch = r.random()
            if ch < 0.16 and self.used["c"]:
                ops.append("cdisc %d" % r.choice(sorted(self.used["c"])))
            elif ch < 0.26 and self.used["s"] and self.used["g"]:
                # connect an existing or new slot to a signal
                g = r.choice(sorted(self.used["g"]))
                rk = r.choice("iv")
                s = self.fresh("s", 100)
                c = self.fresh("c", 100)
                ops.append("snew %d %s %d p 0" % (s, rk, r.randint(1, self.nbodies)))
                ops.append("gconn %d %d %d %d %d" % (g, s, c, 1 if r.random() < 0.3 else 0, 1 if (r.random() < 0.3 and not self.owns) else 0))
                if not self.owns:
                    ops.append("gconn %d %d -1 0 0" % (g, r.choice(sorted(self.used["s"]))))
            elif ch < 0.33 and self.used["g"]:
                ops.append("gclear %d" % r.choice(sorted(self.used["g"])))
            elif ch < 0.41 and self.used["c"]:
                ops.append("cblock %d %d" % (r.choice(sorted(self.used["c"])), r.randint(0, 1)))
            elif ch < 0.51 and self.used["t"]:
                ops.append("tdel %d" % r.choice(sorted(self.used["t"])))
            elif ch < 0.57 and self.used["g"]:
                ops.append("gdel %d" % r.choice(sorted(self.used["g"])))
            elif ch < 0.72 and self.used["g"] and emits < 1 and depth_ok:
                emits += 1
                ops.append("gemit %d %d %d" % (r.choice(sorted(self.used["g"])), r.randint(0, 9), 1 if r.random() < 0.6 else 0))
            elif ch < 0.77 and self.used["s"]:
                ops.append("sdel %d" % r.choice(sorted(self.used["s"])))
            elif ch < 0.81 and self.used["s"] and emits < 1 and depth_ok:
                emits += 1
                ops.append("scall %d %d %d" % (r.choice(sorted(self.used["s"])), r.randint(0, 9), 1 if r.random() < 0.6 else 0))
            elif ch < 0.86 and self.used["g"]:
                ops.append("gq %d" % r.choice(sorted(self.used["g"])))
            elif ch < 0.91 and self.used["c"]:
                ops.append("cq %d" % r.choice(sorted(self.used["c"])))
            elif ch < 0.94 and self.used["g"]:
                ops.append("gblock %d %d" % (r.choice(sorted(self.used["g"])), r.randint(0, 1)))
            elif ch < 0.97 and self.used["k"]:
                ops.append("kdel %d" % r.choice(sorted(self.used["k"])))
            elif self.used["c"]:
                ops.append("cdel %d" % r.choice(sorted(self.used["c"])))
        if self.w["throw"] and r.random() < self.w["throw"] / 12.0:
            ops.append("throw")
        return ops

    def teardown(self):
        items = [("k", i) for i in self.used["k"]] + [("c", i) for i in self.used["c"]] + \
                [("s", i) for i in self.used["s"]] + [("g", i) for i in self.used["g"]] + [("t", i) for i in self.used["t"]]
        self.r.shuffle(items)
        return ["%sdel %d" % (k, i) for k, i in items]

    def program(self):
        r = self.r
        main = []
        # a small prelude so that most programs have something to work with
        if self.w["track"]:
            for _ in range(r.randint(0, 3)):
                main += self.new_track()
            # shared ownership: a trackable kept alive by functor copies (std::shared_ptr captured by the functor)
            if r.random() < 0.4:
                for _ in range(r.choice([1, 1, 2])):
                    t = self.fresh("t")
                    self.tr.append(t)
                    self.shared_held.append(t)
                    main.append("tnewsh %d" % t)
                    b = r.randint(1, self.nbodies)
                    self.owns.setdefault(b, []).append(t)
        for _ in range(r.randint(1, 2)):
            main += self.new_sig()
        for _ in range(r.randint(1, 4)):
            main += self.connect()
        while len(main) < self.size:
            main += self.one()
            if r.random() < 0.08:
                main.append("probe")
            if self.shared_held and r.random() < 0.12:
                t = self.shared_held.pop()
                if t in self.tr:
                    self.tr.remove(t)
                main.append("trel %d" % t)
        if self.sg and r.random() < 0.8:
            main += self.emit()
        if self.w["reent"] or self.w["throw"]:
            scripts = {b: (self.script_ops() if r.random() < (self.w["reent"] + self.w["throw"]) / 8.0 else []) for b in range(1, self.nbodies + 1)}
        else:
            scripts = {b: [] for b in range(1, self.nbodies + 1)}
        # after the scripts have possibly reserved ids >= 100 for their own variables
        if self.sg and (self.w["reent"] or self.w["throw"]):
            for _ in range(r.randint(1, 3)):
                main += self.emit()
                main += ["gq %d" % g for g in list(self.sg)[:2]]
        main.append("probe")
        for t in self.shared_held:
            main.append("trel %d" % t)
        main += self.teardown()
        main.append("probe")
        parts = []
        for b, ops in scripts.items():
            rs = "c %d" % r.randint(0, 30) if r.random() < 0.5 else "a %d" % r.randint(0, 30)
            parts.append("S %d %s %s" % (b, rs, " ".join(ops)))
        for a, ops in self.accs.items():
            parts.append("A %d %s" % (a, " ".join(ops)))
        for b, ts in self.owns.items():
            parts.append("O %d %d %s" % (b, len(ts), " ".join(map(str, ts))))
        parts.append("M " + " ".join(main))
        return " ".join(" ".join(parts).split())


def generate(seed, profile, count, size=20):
    rng = random.Random("%s-%s" % (seed, profile))
    out = []
    for _ in range(count):
        g = Gen(rng, profile, size=rng.randint(max(6, size // 2), size))
        out.append(g.program())
    return out


if __name__ == "__main__":
    import sys
    for p in generate(int(sys.argv[1]), sys.argv[2], int(sys.argv[3])):
        print(p)


# ---------------------------------------------------------------------------------------------
# scenario skeletons aimed at the case splits of the proofs (position x action x lifetime)

def scenario_owner_sweep(r):
    """a functor co-owning a shared trackable is disconnected during an emission; the sweep that
    erases it destroys the trackable, which invalidates another slot of the same signal (before or
    after it) while the sweep is running"""
    rk = r.choice("iv")
    T, g = 0, 0
    bo, ba, bx = 1, 2, 3                      # owner body, bound-to-T body, bystander body
    main = ["tnewsh %d" % T, "gnew %d %s -1 %d" % (g, rk, r.randint(0, 1))]
    slots = []                                # (slot id, conn id, kind)
    order = ["A", "B"] + ["X"] * r.randint(0, 2)
    r.shuffle(order)
    sid = 0
    for k in order:
        if k == "A":
            shape = r.choice("mnkbt")
            main.append("snew %d %s %d %s 1 %d" % (sid, rk, ba, shape, T))
        elif k == "B":
            main.append("snew %d %s %d p 0" % (sid, rk, bo))
        else:
            main.append("snew %d %s %d p 0" % (sid, rk, bx))
        main.append("gconn %d %d %d %d 0" % (g, sid, sid, 1 if r.random() < 0.3 else 0))
        slots.append((sid, k))
        sid += 1
    for s, k in slots:
        if k != "X" or r.random() < 0.5:
            main.append("sdel %d" % s)
    main.append("trel %d" % T)
    main.append("probe")
    cB = [s for s, k in slots if k == "B"][0]
    how = r.choice(["self", "other", "clear"])
    scripts = {bo: [], ba: [], bx: []}
    if how == "self":
        scripts[bo] = ["cdisc %d" % cB]
    elif how == "other" and any(k == "X" for _, k in slots):
        scripts[bx] = ["cdisc %d" % cB]
    else:
        scripts[bo] = ["cdisc %d" % cB, "gq %d" % g]
    main += ["gemit %d %d 1" % (g, r.randint(0, 9)), "gq %d" % g, "probe", "gemit %d %d 1" % (g, r.randint(0, 9)), "gq %d" % g]
    for s, _ in slots:
        main.append("cq %d" % s)
    main += ["gdel %d" % g] + ["cdel %d" % s for s, _ in slots] + ["sdel %d" % s for s, _ in slots] + ["probe"]
    parts = ["S %d a %d %s" % (b, b, " ".join(ops)) for b, ops in scripts.items()]
    parts.append("O %d 1 %d" % (bo, T))
    parts.append("M " + " ".join(main))
    return " ".join(" ".join(parts).split())


def scenario_deep_recursion(r):
    """N slots on one signal, each disconnecting itself and re-emitting: recursion depth N on the same
    signal (the execution counter must count that far), with a deferred sweep at the very end"""
    n = r.choice([40, 130, 300])
    rk = r.choice("iv")
    main = ["gnew 0 %s -1 0" % rk]
    parts = []
    for i in range(1, n + 1):
        parts.append("S %d a 1 cdisc %d gemit 0 %d 1" % (i, i, i % 10))
        main.append("snew %d %s %d p 0" % (i, rk, i))
        main.append("gconn 0 %d %d 0 0" % (i, i))
    main += ["gemit 0 1 1", "gq 0", "gemit 0 2 1", "gq 0", "gdel 0"]
    main += ["sdel %d" % i for i in range(1, n + 1)] + ["cdel %d" % i for i in range(1, n + 1)]
    return " ".join(parts) + " M " + " ".join(main)


def scenario_last_handle(r):
    """a running slot destroys the last handle of the emitting signal (every emitter flavour): the
    emission must keep the list alive until it returns, then everything is disconnected"""
    rk = r.choice("iiv")
    accs = ""
    acc = -1
    if r.random() < 0.5:
        acc = 0
        accs = "A 0 %s " % r.choice(["awalk 2", "awalkp 2", "awalkrev 2", "aderef 2 ainc 2 aderef 2 ainc 2 aderef 2", "awalk 2 awalkrev 3"])
    track = r.randint(0, 1)
    k = r.randint(2, 4)
    killer = r.randint(1, k)
    main = ["gnew 0 %s %d %d" % (rk, acc, track)]
    if r.random() < 0.4:
        main += ["gcopy 1 0", "gdel 1"]
    for i in range(1, k + 1):
        main += ["snew %d %s %d p 0" % (i, rk, i), "gconn 0 %d %d %d 0" % (i, i, 1 if r.random() < 0.3 else 0)]
    parts = []
    for i in range(1, k + 1):
        ops = []
        if i == killer:
            ops = ["gdel 0"] + (["cq %d" % r.randint(1, k)] if r.random() < 0.5 else [])
        elif r.random() < 0.3:
            ops = ["cq %d" % r.randint(1, k)]
        parts.append("S %d a %d %s" % (i, i, " ".join(ops)))
    main += ["gemit 0 %d 1" % r.randint(0, 9)] + ["cq %d" % i for i in range(1, k + 1)] + ["gq 0", "probe"]
    main += ["sdel %d" % i for i in range(1, k + 1)] + ["cdel %d" % i for i in range(1, k + 1)] + ["probe"]
    return " ".join((accs + " ".join(parts) + " M " + " ".join(main)).split())


def scenario_blocked_transfers(r):
    """a blocked (or unblocked) slot taken through every way of copying / moving / assigning / connecting:
    the blocking state travels with the slot (and leaves a moved-from source), then call, query and emit"""
    rk = r.choice("iiv")
    b = 1 if r.random() < 0.8 else 0
    main = ["snew 1 %s 1 p 0" % rk, "sblock 1 %d" % b]
    how = r.choice(["scopy", "smove", "sasg-empty", "smasg-empty", "sasg-full", "smasg-full", "chain"])
    d = 2
    if how == "scopy":
        main += ["scopy 2 1"]
    elif how == "smove":
        main += ["smove 2 1"]
    elif how in ("sasg-empty", "smasg-empty"):
        main += ["sempty 2 %s" % rk, "%s 2 1" % how.split("-")[0]]
    elif how in ("sasg-full", "smasg-full"):
        main += ["snew 2 %s 2 p 0" % rk] + (["sblock 2 %d" % (1 - b)] if r.random() < 0.5 else []) + ["%s 2 1" % how.split("-")[0]]
    else:
        main += ["smove 2 1", "sempty 3 %s" % rk, "smasg 3 2", "scopy 4 3"]
        d = 4
    main += ["sq %d" % d, "sq 1", "scall %d 5 1" % d, "scall 1 6 1"]
    main += ["gnew 0 %s -1 0" % rk, "gconn 0 %d 1 %d %d" % (d, r.randint(0, 1), r.randint(0, 1)), "gemit 0 3 1", "cq 1", "gq 0"]
    if r.random() < 0.5:
        main += ["cblock 1 0", "gemit 0 4 1"]
    else:
        # the same through a scoped_connection: block(true), block(false) and unblock() each return the old state and set the new one
        main += ["knew 1 1", "kblock 1 1", "kq 1", "gemit 0 4 1", "kblock 1 0", "kq 1", "gemit 0 5 1", "kblock 1 %d" % r.randint(0, 1), "cq 1", "krel 1 9", "cdel 9", "kdel 1"]
    main += ["sq %d" % d, "gdel 0", "cdel 1"]
    main += ["sdel %d" % k for k in range(1, d + 1)]
    return " ".join(("S 1 a 1 S 2 a 2 M " + " ".join(main)).split())


def scenario_slot_owns_signal(r):
    """a functor copy co-owns (shared_ptr) the signal object it is connected to, or another signal's; the
    program releases its own handles, so the last owner of a list is a slot stored in a list: the object
    dies inside the library call that destroys that functor (erase on disconnect, sweep after an emission,
    clear, invalidation by a dying trackable, destruction of another signal)"""
    rk = r.choice("iiv")
    acc = 0 if r.random() < 0.25 else -1
    accs = "A 0 %s " % r.choice(["awalk 2", "awalkrev 2", "aderef 2 ainc 2 aderef 2"]) if acc == 0 else ""
    two = r.random() < 0.5                       # the owner sits in signal 1 and owns signal 0, or sits in signal 0 itself
    host = 1 if two else 0
    main = ["gnew 0 %s %d %d" % (rk, acc, r.randint(0, 1)), "gshare 0"]
    if two:
        main += ["gnew 1 %s -1 0" % rk]
    T = 0
    use_t = r.random() < 0.5
    if use_t:
        main += ["tnew %d" % T]
    # bystanders in signal 0 (some bound to the trackable), then the owner (body 5) in the host signal
    nby = r.randint(0, 2)
    sid = 0
    for _ in range(nby):
        if use_t and r.random() < 0.6:
            main += ["snew %d %s 2 %s 1 %d" % (sid, rk, r.choice("mnkb"), T)]
        else:
            main += ["snew %d %s 3 p 0" % (sid, rk)]
        main += ["gconn 0 %d %d 0 0" % (sid, sid), "sdel %d" % sid]
        sid += 1
    owner = sid
    if use_t and r.random() < 0.5:
        main += ["snew %d %s 5 %s 1 %d" % (owner, rk, r.choice("mnkb"), T)]
        owner_tracked = True
    else:
        main += ["snew %d %s 5 p 0" % (owner, rk)]
        owner_tracked = False
    main += ["gconn %d %d %d %d 0" % (host, owner, owner, r.randint(0, 1)), "sdel %d" % owner, "grel 0", "probe"]
    how = r.choice(["cdisc", "self", "tdel", "clear", "hostdel"] if two else ["cdisc", "self", "tdel"])
    scripts = {2: [], 3: [], 5: []}
    if how == "cdisc":
        main += ["cdisc %d" % owner]
    elif how == "self":
        scripts[5] = ["cdisc %d" % owner] + (["cq %d" % owner] if r.random() < 0.5 else [])
        main += ["gemit %d %d 1" % (host, r.randint(0, 9))]
    elif how == "tdel" and owner_tracked:
        main += ["tdel %d" % T]
    elif how == "clear" and two:
        main += ["gclear 1"]
    elif how == "hostdel" and two:
        main += ["gdel 1"]
    else:
        main += ["cdisc %d" % owner]
    main += ["probe"] + ["cq %d" % k for k in range(0, owner + 1)]
    if two and how != "hostdel":
        main += ["gq 1", "gemit 1 2 1", "gdel 1"]
    if use_t:
        main += ["tdel %d" % T]
    # the owner sitting in the list of the object it owns is a reference cycle: break it before the handles go
    main += ["cdisc %d" % owner] + ["cdel %d" % k for k in range(0, owner + 1)] + ["probe"]
    parts = ["S %d a %d %s" % (b, b, " ".join(ops)) for b, ops in scripts.items()]
    return " ".join((accs + " ".join(parts) + " O 5 1 2000 M " + " ".join(main)).split())


def scenario_one_shot(r):
    """the one-shot idiom: a handler co-owns (shared_ptr) the sigc::connection of its own slot and disconnects
    through it; once the program has dropped its handle, the connection object dies inside the library call that
    destroys the functor (sweep after the emission, erase on an outside disconnect, clear, signal destruction,
    invalidation by a dying trackable) - that is, while its own slot_rep is being destroyed"""
    rk = r.choice("iiv")
    acc = 0 if r.random() < 0.2 else -1
    accs = "A 0 %s " % r.choice(["awalk 2", "awalkrev 2"]) if acc == 0 else ""
    use_t = r.random() < 0.4
    main = ["gnew 0 %s %d %d" % (rk, acc, r.randint(0, 1)), "cempty 1", "cshare 1"]
    if use_t:
        main += ["tnew 0"]
    nby = r.randint(0, 2)
    for k in range(nby):
        main += ["snew %d %s 3 p 0" % (10 + k, rk), "gconn 0 %d %d %d 0" % (10 + k, 10 + k, r.randint(0, 1)), "sdel %d" % (10 + k)]
    if use_t and r.random() < 0.6:
        main += ["snew 0 %s 5 %s 1 0" % (rk, r.choice("mnkb"))]
        tracked = True
    else:
        main += ["snew 0 %s 5 p 0" % rk]
        tracked = False
    main += ["gconn 0 0 2 %d 0" % r.randint(0, 1), "casg 1 2"]
    keep2 = r.random() < 0.5
    if not keep2:
        main += ["cdel 2"]
    main += ["sdel 0", "crel 1", "probe"]
    how = r.choice(["self", "self", "outside", "clear", "gdel", "tdel", "kasg", "kasg"])
    script5 = []
    if how == "kasg" and keep2:
        # a scoped_connection holding the slot is assigned the connection object that the slot's own functor owns:
        # the assignment disconnects the slot (destroying that functor, and with it the connection object) before
        # it takes the new value, so the value has to have been copied first
        main += ["knew 7 2", "kasg%s 7 1" % r.choice(["", "m"]), "kq 7", "probe", "kdel 7"]
        how = "done"
    if how == "self":
        script5 = ["cdisc 1"] + (["cq 1"] if r.random() < 0.5 else [])
        main += ["gemit 0 %d 1" % r.randint(0, 9), "gq 0", "gemit 0 %d 1" % r.randint(0, 9)]
    elif how == "outside" and keep2:
        main += ["cdisc 2"]
    elif how == "clear":
        main += ["gclear 0"]
    elif how == "tdel" and tracked:
        main += ["tdel 0"]
    elif how != "done":
        main += ["gdel 0"]
        how = "gdel"
    main += ["probe"] + (["cq 2", "cdel 2"] if keep2 else [])
    if how != "gdel":
        main += ["gq 0", "gdel 0"]
    main += ["cdel %d" % (10 + k) for k in range(nby)]
    if use_t:
        main += ["tdel 0"]
    main += ["probe"]
    return " ".join((accs + "S 3 a 3 S 5 a 5 %s O 5 1 4001 M " % " ".join(script5) + " ".join(main)).split())


def scenario_scoped_empty_slot(r):
    """a scoped_connection (or a plain connection) whose slot was connected while empty - or invalidated before
    connect() - gives up ownership in every possible way: the entry leaves the list all the same"""
    rk = r.choice("iiv")
    main = ["gnew 0 %s -1 %d" % (rk, r.randint(0, 1))]
    if r.random() < 0.5:
        main += ["sempty 1 %s" % rk]
    else:
        main += ["tnew 0", "snew 1 %s 2 %s 1 0" % (rk, r.choice("mnkb")), "tdel 0"]
    main += ["snew 2 %s 3 p 0" % rk, "gconn 0 2 2 0 0", "gconn 0 1 1 %d %d" % (r.randint(0, 1), r.randint(0, 1)), "gq 0", "knew 1 1"]
    how = r.choice(["kdel", "kmasg", "kmasg-empty", "kasg", "kdisc", "kmove-kdel", "kswap"])
    if how == "kdel":
        main += ["kdel 1"]
    elif how == "kmasg":
        main += ["knew 2 2", "kmasg 1 2", "kq 1", "kq 2", "gq 0", "kdel 2"]
    elif how == "kmasg-empty":
        main += ["kempty 2", "kmasg 1 2", "kq 1", "gq 0", "kdel 2"]
    elif how == "kasg":
        main += ["kasg%s 1 2" % r.choice(["", "m"]), "kq 1", "gq 0"]
    elif how == "kdisc":
        main += ["kdisc 1"]
    elif how == "kmove-kdel":
        main += ["kmove 3 1", "gq 0", "kdel 3"]
    else:
        main += ["kempty 2", "kswap 1 2", "gq 0", "kdel 2"]
    main += ["gq 0", "cq 1", "cq 2", "gemit 0 3 1"]
    main += ["kdel 1"] if how != "kdel" else []
    main += ["gq 0", "gdel 0", "cdel 1", "cdel 2", "sdel 1", "sdel 2", "probe"]
    return " ".join(("S 2 a 2 S 3 a 3 M " + " ".join(main)).split())


SCENARIOS = [scenario_owner_sweep] * 6 + [scenario_scoped_empty_slot] * 3 + [scenario_slot_owns_signal] * 5 + [scenario_one_shot] * 5 + [scenario_last_handle] * 3 + [scenario_blocked_transfers] * 3 + [scenario_deep_recursion]


def scenarios(seed, count):
    r = random.Random("scen-%s" % seed)
    return [r.choice(SCENARIOS)(r) for _ in range(count)]
