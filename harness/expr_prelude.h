// expr_prelude.h -- support code for the generated functor-expression cases (C09, C10, C11).
#pragma once
#include <cstdio>
#include <string>
#include <vector>
#include <functional>
#include <sigc++/sigc++.h>

size_t probe_regs(const sigc::trackable& t);   // probe.cc

// instrumented argument: identity (address) and value are observable, copies are counted
struct Obj
{
  long v;
  static long copies;
  explicit Obj(long x) : v(x) {}
  Obj(const Obj& o) : v(o.v) { ++copies; }
  Obj(Obj&& o) : v(o.v) { o.v = -7; ++copies; }   // moved-from objects are recognisable
  Obj& operator=(const Obj& o) { v = o.v; ++copies; return *this; }
};
long Obj::copies = 0;

struct Tr;
static std::vector<const void*> g_orig;      // addresses of the caller's argument objects
static std::vector<Tr*> g_tr;                // the trackables of the current case (index = id)
static std::string g_log;

struct Weighted
{
  long sum = 0; long i = 1;
  void add(long v) { sum += i * v; ++i; }
};

static void log_ident(const void* p)
{
  for (size_t k = 0; k < g_orig.size(); ++k)
    if (g_orig[k] == p) { g_log += "o" + std::to_string(k); return; }
  g_log += "c";
}

template <class A> void log_one(Weighted& w, A&& a);

struct LeafThrow {};

// methods inherited from a base class that is NOT a sigc::trackable (the object's own class is)
struct NB
{
  long nb_idx = 0;
  template <class... A> long nbody(A&&... a) const;
  long n0() { return nbody(); }
  long n1v(Obj a) { return nbody(a); }
  long n1r(Obj& a) { return nbody(a); }
  long n1c(const Obj& a) { return nbody(a); }
  long n2vv(Obj a, Obj b) { return nbody(a, b); }
  long n2vr(Obj a, Obj& b) { return nbody(a, b); }
  long n2vc(Obj a, const Obj& b) { return nbody(a, b); }
  long n2rv(Obj& a, Obj b) { return nbody(a, b); }
  long n2rr(Obj& a, Obj& b) { return nbody(a, b); }
  long n2rc(Obj& a, const Obj& b) { return nbody(a, b); }
  long n2cv(const Obj& a, Obj b) { return nbody(a, b); }
  long n2cr(const Obj& a, Obj& b) { return nbody(a, b); }
  long n2cc(const Obj& a, const Obj& b) { return nbody(a, b); }
  // const methods
  long cn0() const { return nbody(); }
  long cn1v(Obj a) const { return nbody(a); }
  long cn1r(Obj& a) const { return nbody(a); }
  long cn1c(const Obj& a) const { return nbody(a); }
  long cn2vv(Obj a, Obj b) const { return nbody(a, b); }
  long cn2vr(Obj a, Obj& b) const { return nbody(a, b); }
  long cn2vc(Obj a, const Obj& b) const { return nbody(a, b); }
  long cn2rv(Obj& a, Obj b) const { return nbody(a, b); }
  long cn2rr(Obj& a, Obj& b) const { return nbody(a, b); }
  long cn2rc(Obj& a, const Obj& b) const { return nbody(a, b); }
  long cn2cv(const Obj& a, Obj b) const { return nbody(a, b); }
  long cn2cr(const Obj& a, Obj& b) const { return nbody(a, b); }
  long cn2cc(const Obj& a, const Obj& b) const { return nbody(a, b); }
};

struct Tr : public NB, public sigc::trackable
{
  long idx;
  explicit Tr(long i) : idx(i) { nb_idx = i; }
  // member functions used as mem_fun leaves: one per combination of parameter kinds (<= 2 params)
  template <class... A> long body(A&&... a) const;
  long m0() { return body(); }
  long m1v(Obj a) { return body(a); }
  long m1r(Obj& a) { return body(a); }
  long m1c(const Obj& a) { return body(a); }
  long m2vv(Obj a, Obj b) { return body(a, b); }
  long m2vr(Obj a, Obj& b) { return body(a, b); }
  long m2vc(Obj a, const Obj& b) { return body(a, b); }
  long m2rv(Obj& a, Obj b) { return body(a, b); }
  long m2rr(Obj& a, Obj& b) { return body(a, b); }
  long m2rc(Obj& a, const Obj& b) { return body(a, b); }
  long m2cv(const Obj& a, Obj b) { return body(a, b); }
  long m2cr(const Obj& a, Obj& b) { return body(a, b); }
  long m2cc(const Obj& a, const Obj& b) { return body(a, b); }
  // const methods
  long cm0() const { return body(); }
  long cm1v(Obj a) const { return body(a); }
  long cm1r(Obj& a) const { return body(a); }
  long cm1c(const Obj& a) const { return body(a); }
  long cm2vv(Obj a, Obj b) const { return body(a, b); }
  long cm2vr(Obj a, Obj& b) const { return body(a, b); }
  long cm2vc(Obj a, const Obj& b) const { return body(a, b); }
  long cm2rv(Obj& a, Obj b) const { return body(a, b); }
  long cm2rr(Obj& a, Obj& b) const { return body(a, b); }
  long cm2rc(Obj& a, const Obj& b) const { return body(a, b); }
  long cm2cv(const Obj& a, Obj b) const { return body(a, b); }
  long cm2cr(const Obj& a, Obj& b) const { return body(a, b); }
  long cm2cc(const Obj& a, const Obj& b) const { return body(a, b); }
};
// a trackable-derived object that is bound by value (the copy stored in the functor is what gets tracked)
struct TrVal : public sigc::trackable { long pad; explicit TrVal(long p = 0) : pad(p) {} };
// a trackable reached through a virtual base (limit_reference must visit the right sub-object)
struct TrVirtBase : virtual public sigc::trackable { long pad = 7; };

template <class A>
void log_one(Weighted& w, A&& a)
{
  using D = std::decay_t<A>;
  if constexpr (std::is_same_v<D, Obj>)
  {
    g_log += std::to_string(a.v) + ":";
    log_ident(&a);
    w.add(a.v);
  }
  else if constexpr (std::is_base_of_v<sigc::trackable, D>)
  {
    g_log += "0:";
    bool found = false;
    for (size_t k = 0; k < g_tr.size(); ++k)
      if (g_tr[k] && static_cast<const void*>(g_tr[k]) == static_cast<const void*>(&a)) { g_log += "b" + std::to_string(k); found = true; break; }
    if (!found) g_log += "c";
    w.add(0);
  }
  else if constexpr (std::is_convertible_v<D, long>)
  {
    g_log += std::to_string((long)a) + ":c";
    w.add((long)a);
  }
  else
  {
    // a functor or a slot handed over as a bound value: the target does not call it
    g_log += "0:c";
    w.add(0);
  }
}

template <class... A>
long log_call(long id, A&&... a)
{
  g_log += std::to_string(id) + "(";
  Weighted w;
  bool first = true;
  ((g_log += (first ? "" : ","), first = false, log_one(w, std::forward<A>(a))), ...);
  g_log += ")";
  return id * 1000 + w.sum;
}

template <class... A> long Tr::body(A&&... a) const { return log_call(500 + idx, std::forward<A>(a)...); }
template <class... A> long NB::nbody(A&&... a) const { return log_call(500 + nb_idx, std::forward<A>(a)...); }

struct Leaf
{
  long id; bool throws;
  template <class... A>
  long operator()(A&&... a) const
  {
    long r = log_call(id, std::forward<A>(a)...);
    if (throws) throw LeafThrow();
    return r;
  }
};
// takes every argument by value (a temporary is moved into the parameter, an lvalue copied)
struct LeafV
{
  long id;
  template <class... A>
  long operator()(A... a) const { return log_call(id, a...); }
};
// returns (by reference) the object it receives first
struct LeafRef
{
  long id;
  template <class A0, class... A>
  A0& operator()(A0& a0, A&&... a) const
  {
    log_call(id, a0, std::forward<A>(a)...);
    return a0;
  }
};
// one registration delivered by notify_callbacks(): the trackable starts its "second life"
static void first_life(sigc::trackable& t)
{
  static sigc::notifiable d;
  t.add_destroy_notify_callback(&d, [](sigc::notifiable*) {});
  t.notify_callbacks();
}
struct Catcher
{
  long c;
  long operator()() const { return c; }
};
// a catcher that handles nothing: it rethrows the exception in flight
struct CatcherRe
{
  long c;
  long operator()() const { throw; }
};

// Fixed scenario (not generated): a slot object referred to *by reference* from the functor of another
// slot.  visitor<slot> parents the inner slot's rep to the outer rep when the outer slot binds and must
// unparent it when the outer slot dies; afterwards invalidating the inner slot must not reach the dead
// outer rep (order A), and invalidating the inner slot while the outer one lives must empty the outer (order B).
struct CallSlot
{
  long operator()(sigc::slot<long()>& s) const { return s ? s() : -1; }
};
static void fixed_slot_by_reference()
{
  std::string out;
  { // A: outer dies first, then the inner slot's target
    g_tr.assign(1, nullptr); g_tr[0] = new Tr(0);
    sigc::slot<long()> inner = sigc::mem_fun(*g_tr[0], &Tr::m0);
    auto* outer = new sigc::slot<long()>(sigc::bind(CallSlot(), std::ref(inner)));
    out += "A:outer_nonempty=" + std::to_string(!outer->empty());
    delete outer;
    delete g_tr[0]; g_tr[0] = nullptr;
    out += ",inner_empty=" + std::to_string(inner.empty());
  }
  { // B: the inner slot's target dies while the outer slot lives
    g_tr.assign(1, nullptr); g_tr[0] = new Tr(0);
    sigc::slot<long()> inner = sigc::mem_fun(*g_tr[0], &Tr::m0);
    auto* outer = new sigc::slot<long()>(sigc::bind(CallSlot(), std::ref(inner)));
    sigc::slot<long()> copy = *outer;
    delete g_tr[0]; g_tr[0] = nullptr;
    out += " B:inner_empty=" + std::to_string(inner.empty()) + ",outer_empty=" + std::to_string(outer->empty());
    delete outer;
    out += ",copy_empty=" + std::to_string(copy.empty());
  }
  { // C: a copy of the outer slot dies first; the original stays the inner slot's parent
    g_tr.assign(1, nullptr); g_tr[0] = new Tr(0);
    sigc::slot<long()> inner = sigc::mem_fun(*g_tr[0], &Tr::m0);
    auto* outer = new sigc::slot<long()>(sigc::bind(CallSlot(), std::ref(inner)));
    { sigc::slot<long()> copy = *outer; }
    { sigc::slot<long()> copy2 = *outer; copy2 = sigc::slot<long()>(); }
    { sigc::signal<long()> sig; sig.connect(*outer); sig.clear(); }
    delete g_tr[0]; g_tr[0] = nullptr;
    out += " C:inner_empty=" + std::to_string(inner.empty()) + ",outer_empty=" + std::to_string(outer->empty());
    delete outer;
  }
  { // D: the parent dies, a later outer slot adopts the inner slot
    g_tr.assign(1, nullptr); g_tr[0] = new Tr(0);
    sigc::slot<long()> inner = sigc::mem_fun(*g_tr[0], &Tr::m0);
    auto* outer1 = new sigc::slot<long()>(sigc::bind(CallSlot(), std::ref(inner)));
    delete outer1;
    auto* outer2 = new sigc::slot<long()>(sigc::bind(CallSlot(), std::ref(inner)));
    delete g_tr[0]; g_tr[0] = nullptr;
    out += " D:outer2_empty=" + std::to_string(outer2->empty());
    delete outer2;
  }
  g_tr.clear(); g_log.clear();
  printf("fixed slotref %s\n", out.c_str());
  fflush(stdout);
}

// Fixed scenario: sigc::signal_connect() behaves as signal.connect(mem_fun(obj, fun)) / connect(ptr_fun(fun)):
// references stay references, the result comes back, and the slot dies with the object.
struct SCTr : public sigc::trackable
{
  long seen = 0;
  long m(long& x, long y) { x += 20; seen += y; return x + y; }
  long cm(long& x, long y) const { x += 30; return x - y; }
};
static long sc_fp(long& x, std::string& s) { x += 40; s += "77"; return x; }
static long& sc_ref(long& x) { return x; }
static long& sc_ref2(long& x, long) { return x; }
// a user type that is not derived from sigc::trackable but holds one as a member and says so with its own
// visitor<> specialisation: mem_fun / std::ref on it are tracked through limit_reference -> visit_each
struct MemberTracked { sigc::trackable tr; long calls = 0; long f() { return ++calls; } long g(long x) { return x + 1; } };
namespace sigc
{
template <>
struct visitor<MemberTracked>
{
  template <typename T_action>
  static void do_visit_each(const T_action& action, const MemberTracked& target) { sigc::visit_each(action, target.tr); }
};
}
// a functor whose copy constructor can be made to throw
struct CopyThrows
{
  long v; static inline bool armed = false;
  explicit CopyThrows(long x) : v(x) {}
  CopyThrows(const CopyThrows& o) : v(o.v) { if (armed) throw LeafThrow(); }
  long operator()() const { return v; }
};
struct Verdict { long n = 0; };
static Verdict g_verdict;
struct RefAcc
{
  using result_type = Verdict&;
  template <class It> Verdict& operator()(It first, It last) const { long k = 0; for (; first != last; ++first) k += *first; g_verdict.n = k; return g_verdict; }
};
struct CallMT { long operator()(MemberTracked& m) const { return m.f(); } };
static void fixed_signal_connect()
{
  std::string out;
  {
    sigc::signal<long(long&, long)> g;
    auto* t = new SCTr;
    sigc::connection c = sigc::signal_connect(g, *t, &SCTr::m);
    long x = 2; long r = g.emit(x, 5);
    out += "M:x=" + std::to_string(x) + ",r=" + std::to_string(r) + ",seen=" + std::to_string(t->seen);
    delete t;
    out += ",size=" + std::to_string(g.size()) + ",conn=" + std::to_string(c.connected());
    x = 1; r = g.emit(x, 5);
    out += ",after=" + std::to_string(x) + "/" + std::to_string(r);
  }
  {
    sigc::signal<long(long&, long)> g;
    auto* t = new SCTr;
    const SCTr& ct = *t;
    sigc::connection c = sigc::signal_connect(g, ct, &SCTr::cm);
    long x = 2; long r = g.emit(x, 5);
    out += " C:x=" + std::to_string(x) + ",r=" + std::to_string(r);
    delete t;
    out += ",size=" + std::to_string(g.size()) + ",conn=" + std::to_string(c.connected());
  }
  {
    sigc::signal<long(long&, std::string&)> g;
    sigc::connection c = sigc::signal_connect(g, &sc_fp);
    long x = 2; std::string s = "n="; long r = g.emit(x, s);
    out += " F:x=" + std::to_string(x) + ",s=" + s + ",r=" + std::to_string(r);
    c.disconnect();
    out += ",size=" + std::to_string(g.size());
  }
  {
    // bind_return with std::ref / std::cref returns the very object, not a copy
    Obj o(5); const Obj co(6);
    auto f1 = sigc::bind_return(Catcher{1}, std::ref(o));
    auto f2 = sigc::bind_return(Catcher{1}, std::cref(co));
    auto h1 = sigc::hide(sigc::bind_return(Catcher{1}, std::ref(o)));
    auto h2 = sigc::hide(sigc::bind_return(Catcher{1}, std::cref(co)));
    auto addr = [](auto&& x) -> const void* { return static_cast<const void*>(&x); };   // also accepts a copy (prvalue)
    out += " R:ref=" + std::to_string(addr(f1()) == &o) + ",cref=" + std::to_string(addr(f2()) == &co)
         + ",hideref=" + std::to_string(addr(h1(7)) == &o) + ",hidecref=" + std::to_string(addr(h2(7)) == &co);
  }
  {
    // a raw pointer to member function used as a functor (functor_trait -> mem_functor): the object is
    // the first argument, reference parameters stay references
    SCTr t;
    sigc::slot<long(SCTr&, long&, long)> s = &SCTr::m;
    long x = 2; long r = s(t, x, 5);
    out += " P:x=" + std::to_string(x) + ",r=" + std::to_string(r) + ",seen=" + std::to_string(t.seen);
    auto b = sigc::bind(&SCTr::m, 7L);
    x = 1; r = b(t, x);
    out += ",bx=" + std::to_string(x) + ",br=" + std::to_string(r) + ",bseen=" + std::to_string(t.seen);
    sigc::slot<long(const SCTr&, long&, long)> cs = &SCTr::cm;
    x = 2; r = cs(t, x, 5);
    out += ",cx=" + std::to_string(x) + ",cr=" + std::to_string(r);
  }
  {
    // ptr_fun of a function returning a reference returns that reference, alone and under adaptors
    long x = 3;
    auto addr = [](auto&& v) -> const void* { return static_cast<const void*>(&v); };
    auto pf = sigc::ptr_fun(&sc_ref);
    out += " Q:pf=" + std::to_string(addr(pf(x)) == &x) + ",hide=" + std::to_string(addr(sigc::hide(pf)(x, 1)) == &x)
         + ",bind=" + std::to_string(addr(sigc::bind(sigc::ptr_fun(&sc_ref2), 4L)(x)) == &x);
  }
  {
    // methods of every cv-flavour inherited from a base that is not a trackable, bound to a trackable
    // object: the slot is tracked all the same
    struct VB { long v() volatile { return 1; } long cv() const volatile { return 2; } long c() const { return 3; } long n() { return 4; } };
    struct VT : public VB, public sigc::trackable {};
    std::string r;
    { auto* t = new VT; sigc::slot<long()> s = sigc::mem_fun(*t, &VB::v); long a = s(); delete t; r += std::to_string(a) + (s.empty() ? "e" : "L"); }
    { auto* t = new VT; sigc::slot<long()> s = sigc::mem_fun(*t, &VB::cv); long a = s(); delete t; r += std::to_string(a) + (s.empty() ? "e" : "L"); }
    { auto* t = new VT; sigc::slot<long()> s = sigc::mem_fun(*t, &VB::c); long a = s(); delete t; r += std::to_string(a) + (s.empty() ? "e" : "L"); }
    { auto* t = new VT; sigc::slot<long()> s = sigc::mem_fun(*t, &VB::n); long a = s(); delete t; r += std::to_string(a) + (s.empty() ? "e" : "L"); }
    { auto* t = new VT; sigc::slot<long(long)> s = sigc::hide(sigc::mem_fun(*t, &VB::v)); delete t; r += (s.empty() ? "e" : "L"); }
    out += " V:" + r;
  }
  {
    // results narrower than the slot's result type come back converted, through the type-erased call
    sigc::slot<long()> s1 = []() { return (short)-7; };
    sigc::slot<long()> s2 = []() { return true; };
    sigc::slot<long()> s3 = []() { return (signed char)-3; };
    sigc::slot<int()> s4 = []() { return (unsigned char)200; };
    sigc::slot<double()> s5 = []() { return 2.5f; };
    sigc::signal<long()> g; g.connect([]() { return (short)-9; });
    out += " N:" + std::to_string(s1()) + "," + std::to_string(s2()) + "," + std::to_string(s3()) + "," + std::to_string(s4())
         + "," + std::to_string((int)(s5() * 10)) + "," + std::to_string(g.emit());
  }
  {
    // an accumulator whose verdict is a reference: emit(), operator() and make_slot() hand that very object back
    sigc::signal<long(long)>::accumulated<RefAcc> g;
    g.connect([](long x) { return x + 1; }); g.connect([](long x) { return x + 2; });
    auto addr = [](auto&& v) -> const void* { return static_cast<const void*>(&v); };
    bool a1 = addr(g.emit(10)) == &g_verdict;
    bool a2 = addr(g(10)) == &g_verdict;
    long vn = g_verdict.n;
    out += " A:emit=" + std::to_string(a1) + ",call=" + std::to_string(a2) + ",n=" + std::to_string(vn);
  }
  {
    // an exception thrown by a method called through a raw method pointer / an unbound mem_functor reaches the caller
    struct TH { long boom(long x) { if (x > 0) throw LeafThrow(); return x; } };
    TH t; std::string r;
    sigc::slot<long(TH&, long)> s1 = &TH::boom;
    sigc::slot<long(TH&, long)> s2 = sigc::mem_fun(&TH::boom);
    sigc::signal<long(TH&, long)> g; g.connect(&TH::boom);
    try { s1(t, 1); r += "n"; } catch (LeafThrow&) { r += "c"; }
    try { s2(t, 1); r += "n"; } catch (LeafThrow&) { r += "c"; }
    try { g.emit(t, 1); r += "n"; } catch (LeafThrow&) { r += "c"; }
    r += std::to_string(s1(t, 0));
    out += " T:" + r;
  }
  {
    std::string r;
    { auto* h = new MemberTracked; sigc::slot<long()> s = sigc::mem_fun(*h, &MemberTracked::f); long a = s(); delete h; r += std::to_string(a) + (s.empty() ? "e" : "L"); }
    { auto* h = new MemberTracked; sigc::slot<long(long)> s = sigc::hide(sigc::mem_fun(*h, &MemberTracked::f)); delete h; r += (s.empty() ? "e" : "L"); }
    { auto* h = new MemberTracked; sigc::signal<long(long)> g; g.connect(sigc::mem_fun(*h, &MemberTracked::g)); long a = g.emit(4); delete h; r += std::to_string(a) + std::to_string(g.size()); }
    { auto* h = new MemberTracked; sigc::slot<long()> s = sigc::bind(CallMT(), std::ref(*h)); delete h; r += (s.empty() ? "e" : "L"); }
    out += " U:" + r;
  }
  {
    // a functor copy that throws during slot copy-assignment: the assignment fails as a whole, the destination keeps
    // its functor and its blocking state
    sigc::slot<long()> dst = CopyThrows(7);
    sigc::slot<long()> src = CopyThrows(9);
    src.block();
    std::string r;
    CopyThrows::armed = true;
    try { dst = src; r += "n"; } catch (LeafThrow&) { r += "c"; }
    CopyThrows::armed = false;
    r += std::to_string(dst.blocked()) + std::to_string(dst()) + std::to_string(src.blocked());
    sigc::slot<long()> cp = src;
    r += std::to_string(cp.blocked()) + std::to_string(cp());
    out += " X:" + r;
  }
  printf("fixed sigconn %s\n", out.c_str());
  fflush(stdout);
}

static void begin_case(int n) { printf("case %d", n); }
static void end_case() { printf("\n"); fflush(stdout); }
