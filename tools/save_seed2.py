#!/usr/bin/env python3
"""save_seed2.py <name> <property> <worktree> <i> <caught_by> <needs> [note] : store a round-2 seeded change (already confirmed by eval_mut2.sh)"""
import json, os, shutil, sys
name, pid, wt, i, caught, needs = sys.argv[1:7]
note = sys.argv[7] if len(sys.argv) > 7 else ""
d = os.path.join("/verif/seeded", name)
os.makedirs(d, exist_ok=True)
shutil.copy(os.path.join(wt, "OUT", "patch%s.diff" % i), os.path.join(d, "patch.diff"))
shutil.copy(os.path.join(wt, "OUT", "demo%s.cc" % i), os.path.join(d, "demo.cc"))
json.dump({"property": pid, "needs_to_manifest": needs, "origin": "independent sub-agent, round 2 (three changes in three different files, obvious candidates excluded), given only the property text and a scratch worktree",
           "confirmed": "tools/confirm_seed.sh in the sub-agent's worktree: patch applies, cmake --build, ctest 42/42 passed, demo (ASan+UBSan build) fails with the patch and exits 0 without",
           "ran": ["tools/eval_mut2.sh (VERIF_REPO=<worktree with the patch>) quick checks"], "caught_by": caught.split(",") if caught else [], "note": note},
          open(os.path.join(d, "meta.json"), "w"), indent=1)
print("saved", name)
