#!/bin/bash
# eval_mut.sh <PID> <checks...> : confirm both patches of /tmp/mut/<PID> and run the given checks on each
P=$1; shift
export VERIF_DEV_SKIP_PROOF=1
for i in 1 2; do
  echo "== $P p$i: $(/verif/tools/confirm_seed.sh /tmp/mut/$P /tmp/mut/$P/OUT/patch$i.diff /tmp/mut/$P/OUT/demo$i.cc 2>&1 | tail -1)"
  /verif/tools/run_seed.sh $1 /tmp/mut/$P/OUT/patch$i.diff "${@:2}" | cut -c1-150
done
