#!/usr/bin/env python3
"""save_batch.py <round> <logdir> <worktree-root> : store the seeded changes of a mutation round from the
evaluation logs (tools/eval_mut2.sh / eval_mut3.sh output) using the slug/needs table below."""
import json, os, re, shutil, sys
rnd, logdir, root = sys.argv[1:4]
TABLE = json.load(open(os.path.join(os.path.dirname(__file__), "seed_table_%s.json" % rnd)))
for pid, entries in TABLE.items():
    log = os.path.join(logdir, "eval_%s.log" % pid)
    text = open(log).read() if os.path.exists(log) else ""
    blocks = re.split(r"^== ", text, flags=re.M)[1:]
    for b in blocks:
        m = re.match(r"(\w+) p(\d+): (.*)", b)
        if not m:
            continue
        i = m.group(2)
        ent = entries.get(i)
        if not ent:
            continue
        caught = re.findall(r"\[(C\d\d) rc=1\]", b)
        missed = re.findall(r"\[(C\d\d) rc=0\]", b)
        caught = sorted(set(caught + ent.get("now_caught_by", [])))
        if "caught_override" in ent:
            caught = ent["caught_override"]
        name = "%s-%s-%s" % (rnd, ent.get("property", pid), ent["slug"])
        d = os.path.join("/verif/seeded", name)
        os.makedirs(d, exist_ok=True)
        out = os.path.join(root, pid, "OUT")
        if not os.path.exists(os.path.join(out, "patch%s.diff" % i)):
            continue                      # worktree already removed: saved earlier
        shutil.copy(os.path.join(out, "patch%s.diff" % i), os.path.join(d, "patch.diff"))
        for ext in ("cc", "sh", "expect"):
            f = os.path.join(out, "demo%s.%s" % (i, ext))
            if os.path.exists(f):
                shutil.copy(f, os.path.join(d, "demo.%s" % ext))
        json.dump({"property": ent.get("property", pid), "needs_to_manifest": ent["needs"],
                   "origin": ("independent sub-agent, round 5 (one change per property for four properties, told that the obvious places had been examined and to look for feature interactions, boundary values, rarely used overloads), given the texts of its four properties and a scratch worktree" if rnd in ("r5", "r6", "r7", "r8", "r9") else "independent sub-agent, round 4 (four changes confined to library files no earlier change had touched), given the texts of the twenty properties and a scratch worktree" if rnd == "r4" else "independent sub-agent, round %s (three changes per property, obvious candidates excluded%s), given only the property text and a scratch worktree" % (rnd[1:], "; at least one made of two cooperating edits" if rnd == "r3" else "")),
                   "confirmed": "tools/confirm_seed.sh in the sub-agent's worktree: " + m.group(3).strip(),
                   "ran": ["tools/eval_mut%s.sh (VERIF_REPO=<worktree with the patch>) quick checks" % ("3" if rnd == "r3" else "2")],
                   "caught_by": caught, "not_reported_by": sorted(set(missed) - set(caught)),
                   "missed_by_first_version": ent.get("missed_first", False), "note": ent.get("note", "")},
                  open(os.path.join(d, "meta.json"), "w"), indent=1)
        print("saved", name, caught)
