#!/bin/bash
# confirm_seed.sh <worktree> <patch> <demo.cc> : confirm in a scratch worktree that a seeded change
# (a) applies, (b) builds and passes the 42 tests, (c) makes the demo fail, (d) the demo passes without it.
set -u
WT=$1; PATCH=$2; DEMO=$3
cd "$WT" || exit 2
git checkout -q -- sigc++ || exit 2
[ -d _build ] || cmake -G Ninja -B _build -DCMAKE_BUILD_TYPE=Release >/dev/null
# demo kinds: x.cc (ASan/UBSan build, default), x.cc + x.expect (compile-only: the exit status is that of the compiler),
# x.sh (a script that builds and runs by itself), DEMO_SAN=thread (TSan build with -pthread)
SAN=${DEMO_SAN:-address,undefined}
EXPECT="${DEMO%.cc}.expect"
if [ "${DEMO##*.}" = "sh" ]; then
  build_demo() { printf '#!/bin/bash\ncd "%s" && bash "%s"\n' "$WT" "$DEMO" > /tmp/demo_$$; chmod +x /tmp/demo_$$; }
elif [ -f "$EXPECT" ]; then
  build_demo() { printf '#!/bin/bash\ng++ -std=c++17 -fsyntax-only -I"%s" -I"%s/_build" "%s"\n' "$WT" "$WT" "$DEMO" > /tmp/demo_$$; chmod +x /tmp/demo_$$; }
else
  build_demo() { g++ -std=c++17 -g -pthread -fsanitize=$SAN -fno-sanitize-recover=all -I"$WT" -I"$WT/_build" "$DEMO" sigc++/*.cc sigc++/functors/*.cc -o /tmp/demo_$$ 2>/tmp/demo_$$.err; }
fi
build_demo || { echo "demo does not build on clean tree"; tail -5 /tmp/demo_$$.err; exit 2; }
/tmp/demo_$$ >/dev/null 2>&1; CLEAN=$?
git apply "$PATCH" || { echo "patch does not apply"; exit 2; }
cmake --build _build >/tmp/build_$$.log 2>&1 || { echo "BUILD FAILS with patch"; tail -5 /tmp/build_$$.log; git checkout -q -- sigc++; exit 2; }
TESTS=$(ctest --test-dir _build -j8 --timeout 900 2>&1 | grep "tests passed" )
build_demo; DB=$?
if [ $DB -ne 0 ]; then PATCHED="build-fail"; else /tmp/demo_$$ >/dev/null 2>&1; PATCHED=$?; fi
git checkout -q -- sigc++
cmake --build _build >/dev/null 2>&1
rm -f /tmp/demo_$$ /tmp/demo_$$.err /tmp/build_$$.log
echo "tests: $TESTS | demo clean exit=$CLEAN | demo patched exit=$PATCHED"
