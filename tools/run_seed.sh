#!/bin/bash
# run_seed.sh <pid> <patch> [more pids...] : apply a seeded change to /repo, run the quick check(s), undo it.
PATCH=$2; P1=$1; shift; shift
cd /verif
git -C /repo apply "$PATCH" || { echo "patch does not apply"; exit 2; }
for pid in $P1 "$@"; do
  out=$(./check $pid 2>/dev/null); rc=$?
  echo "[$pid rc=$rc] $(echo "$out" | grep -c VIOLATION) violation line(s); first: $(echo "$out" | grep VIOLATION | head -1)"
done
git -C /repo checkout -- .
