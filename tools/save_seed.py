#!/usr/bin/env python3
"""save_seed.py <name> <property> <worktree> <i> <needs> <caught_by> <note> : store a confirmed seeded change"""
import json, os, shutil, subprocess, sys
name, pid, wt, i, needs, caught, note = sys.argv[1:8]
d = os.path.join("/verif/seeded", name)
os.makedirs(d, exist_ok=True)
shutil.copy(os.path.join(wt, "OUT", "patch%s.diff" % i), os.path.join(d, "patch.diff"))
shutil.copy(os.path.join(wt, "OUT", "demo%s.cc" % i), os.path.join(d, "demo.cc"))
conf = subprocess.run(["/verif/tools/confirm_seed.sh", wt, os.path.join(d, "patch.diff"), os.path.join(d, "demo.cc")], capture_output=True, text=True).stdout.strip()
meta = {"property": pid, "needs_to_manifest": needs, "origin": "independent sub-agent given only the property text and a scratch worktree",
        "confirmed": conf, "ran": ["tools/confirm_seed.sh (apply, cmake --build, ctest 42/42, demo with/without)", "tools/run_seed.sh %s patch.diff" % caught.split(",")[0]],
        "caught_by": caught.split(",") if caught else [], "note": note}
json.dump(meta, open(os.path.join(d, "meta.json"), "w"), indent=1)
print(name, conf)
