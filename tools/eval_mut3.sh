#!/bin/bash
# eval_mut3.sh <verif-copy> <worktree> <PID> <n> <checks...> : run checks from a private copy of /verif (so several
# evaluations can run side by side) against a scratch worktree (VERIF_REPO); /repo and /verif are not touched
V=$1; W=$2; P=$3; N=$4; shift; shift; shift; shift
export VERIF_DEV_SKIP_PROOF=${VERIF_DEV_SKIP_PROOF-1}
[ -z "$VERIF_DEV_SKIP_PROOF" ] && unset VERIF_DEV_SKIP_PROOF
for i in $(seq 1 $N); do
  d=$W/OUT/demo$i.cc; [ -f $W/OUT/demo$i.sh ] && d=$W/OUT/demo$i.sh
  echo "== $P p$i: $($V/tools/confirm_seed.sh $W $W/OUT/patch$i.diff $d 2>&1 | tail -1 | cut -c1-200)"
  (cd $W && git checkout -q -- sigc++ && git apply OUT/patch$i.diff) || { echo "apply failed"; continue; }
  for c in "$@"; do
    out=$(cd $V && VERIF_REPO=$W ./check $c 2>/dev/null); rc=$?
    echo "  [$c rc=$rc] $(echo "$out" | grep -c VIOLATION) violation(s) $(echo "$out" | grep VIOLATION | head -1 | cut -c1-110)"
  done
  (cd $W && git checkout -q -- sigc++)
done
echo "EVAL-DONE $P"
