#!/bin/bash
# eval_harmless.sh <worktree> <n> [checks...] : apply each OUT/patch<i>.diff of a scratch worktree (behaviour-preserving
# refactorings) and run the registered quick checks, proofs included, against it (VERIF_REPO); every check must stay quiet.
W=$1; N=$2; shift; shift
CHECKS=${@:-C01 C02 C03 C04 C05 C06 C07 C08 C09 C10 C11 C12 C13 C14 C15 C16 C17 C18 C19 C20}
for i in $(seq 1 $N); do
  (cd $W && git checkout -q -- sigc++ && git apply OUT/patch$i.diff) || { echo "== patch$i: apply failed"; continue; }
  echo "== patch$i: $(cd $W && git diff --stat -- sigc++ | tail -1)"
  for c in $CHECKS; do
    out=$(cd ${VCOPY:-/verif} && VERIF_REPO=$W ./check $c 2>&1); rc=$?
    [ $rc -ne 0 ] && echo "  [$c rc=$rc] $(echo "$out" | grep -E 'VIOLATION|rror' | head -2 | cut -c1-220)"
  done
  (cd $W && git checkout -q -- sigc++)
done
echo HARMLESS-DONE
