#!/usr/bin/env python3
"""Regenerates /verif/MANIFEST.json from the table below (kept in one place so that the manifest
stays valid and in step with what is registered)."""
import json, os

VERIF = os.path.dirname(os.path.dirname(os.path.abspath(__file__)))

COMMON_NOTE = ("Trusted: Coq 8.16.1 kernel (vm_compute used for finite sweeps and non-vacuity examples; no native_compute); no axioms "
               "(Print Assumptions of every property theorem is parsed on each run and must be 'Closed under the global context'); "
               "extraction with ExtrOcamlBasic only; the hand-written Gallina model (tied to the code by differential testing whose strength is bounded by "
               "its generators, coverage reported in the evidence); harness/*.cc, probe.cc (-Dprivate=public), g++ 12 / clang++ 14 and sanitizer runtimes.")

CHECKS = {
    "C05": dict(
        technique="Coq proof over TypeModel (finite type universe, unbounded arity) + obligations over hop-mode/call-signature tables regenerated from the source by the translator + exhaustive static_assert validation of the conversion rules against g++ and clang++ + compile-status correspondence on generated translation units",
        text="TypeModel.v: binds/converts (reference binding and implicit conversions over 9 base types x 4 parameter forms), take (type_trait_take_t), callable (C05's criterion) and lib_call (what the library's call path requires hop by hop, driven by the parameter-passing modes regenerated from the source). Properties_C05.v proves lib_accepts = direct_ok for every arity/signature/functor shape (free function, function object, const/non-const member function on const/non-const object, under bind/hide/hide_return) given the regenerated mode table has no by-value deduced hop, the five named rejection classes, acceptance of implicit conversions, and that the erased call type equals call_it's type. The hand-written conversion rules are validated exhaustively (729 static_asserts, both compilers); the library itself is exercised with generated pairings (positives batched, each negative its own -fsyntax-only TU): compile status must equal the model.",
        note=COMMON_NOTE + " Finite universe; C++ conversion rules are a hand-written fragment validated against the compilers; rvalue-reference signature parameters are outside the universe (DESIGN.md section 8).",
        ref="DESIGN.md 5 (C05), 2.1, 3"),
    "C09": dict(
        technique="Coq proof by structural induction over a deep embedding of functor expressions (AdaptorModel) + obligations over the visitor/member tables regenerated from the clang AST + correspondence on generated C++ expressions under ASan",
        text="AdaptorModel.v embeds every functor/adaptor of the grammar (mem_fun, bind<I>/bind, hide, retype, retype_return, hide_return, bind_return, compose 1/2, exception_catch, track_object, slot-in-slot) at any depth. Properties_C09.v proves, for every expression, that what visit_each_trackable reaches (driven by the visitor table regenerated from the source on every run) is a permutation of the trackables the expression refers to by reference, given the obligation table_ok (every do_visit_each visits every data member exactly once, closed by vm_compute on the regenerated table) and fields_ok (the classes declare exactly the members the model knows); unbinding mirrors binding. Generated well-typed C++ expressions are compiled against /repo's working tree and, for each trackable as victim, slot emptiness, registration counts and their return to zero are compared with the model.",
        note=COMMON_NOTE + " translate/cxx2coq.py (clang 14 JSON AST table extractor, fail-closed on unrecognised constructs).",
        ref="DESIGN.md 5 (C09), 2.1, 3"),
    "C10": dict(
        technique="Coq proof by induction over AdaptorModel expressions (call path = documented transformation) + obligation over the slicing arithmetic regenerated from bind.h/hide.h + correspondence on generated C++ expressions (direct, slot, signal, rvalue routes)",
        text="Properties_C10.v proves for every expression, arity, position and nesting that the hop-by-hop call (tuple_start/tuple_end slicing taken from the regenerated arithmetic, parameter passing from the regenerated mode table) delivers to the leaves the values, and to the caller the result, of the documented meaning (bind inserts at I / appends, hide removes I / last, retype/retype_return convert, hide_return drops, bind_return returns the bound value, compose feeds getters into the setter, exception_catch returns the catcher's value exactly when the functor throws, track_object is transparent), and that the slot route equals the direct route. Generated expressions are compiled and run: leaf (position,value) logs and results are compared for the direct, slot, signal and temporary-argument routes.",
        note=COMMON_NOTE + " translate/cxx2coq.py; the order of compose's two getters is unspecified in C++ and compared as a multiset.",
        ref="DESIGN.md 5 (C10)"),
    "C11": dict(
        technique="Coq proof over AdaptorModel with object identities (reference_identity under the regenerated hop-mode table) + correspondence on generated C++ expressions with an instrumented argument class (address identity, copy counting)",
        text="Arguments carry an identity (caller's k-th object / bound std::ref object / copy). Properties_C11.v proves that when every hop passes references through (obligation modes_ok over the table regenerated from the operator() signatures of all adaptors) the leaves observe exactly the caller's objects and the bound objects, never a copy, through any chain and nesting, including results returned by reference through compose; a by-value deduced hop is shown to lose the identity (refuted example = the pre-fix code). Generated C++ expressions are run with instrumented arguments; identities seen by every leaf are compared for three routes. The value-emitter result clause (not replaced by a default) is decided with C13 over SigCore.",
        note=COMMON_NOTE + " translate/cxx2coq.py. Mutation of a by-value argument by an earlier slot is not modelled (arguments reach slots as const references; checked by the harness only through identity).",
        ref="DESIGN.md 5 (C11)"),
    "C16": dict(
        technique="machine-checked proof in Coq (invariant by induction over operation histories of TrackModel) + correspondence of the extracted model with sigc::trackable under ASan/UBSan",
        text="TrackModel.v is a hand-written executable model of trackable.cc (callback list, lazy allocation, clearing flag, remove-during-round nulling). Properties_C16.v proves for every history: no registration is delivered twice, a registration removed first is never delivered, trichotomy pending/delivered/removed, every trigger named by the statement delivers all pending registrations in that step and nothing else delivers, copy construction transfers nothing, self-assignment is silent. The model is tied to the code by running the extracted model and the real library (built from /repo's working tree under ASan/UBSan) on the same generated histories and comparing delivery order and list state.",
        note=COMMON_NOTE,
        ref="DESIGN.md 5 (C16), 2.1"),
}

SIG_TECH = 'Coq proof over SigCore (executable LL model of signal_impl/slot_base/slot_rep/trackable/connection with re-entrant user code): invariant WF + rely/guarantee by induction over operations and fuel (SigInv/SigSafe), property lemmas in Sig{Snapshot,Quiesce,Conn,Values}.v + correspondence of the extracted model with the library on generated histories under ASan/UBSan/LSan'
SIG_NOTE = COMMON_NOTE + " SigCore is hand-written (ownership structural, raw pointers as ids with failing searches = use-after-free); functor destructors with library side effects are modelled only as shared ownership of trackables (performed at the end of the operation); slot-in-slot is covered by AdaptorModel (C09) rather than SigCore; exec_count_ is unbounded in the model (short in C++)."
CHECKS.update({
    "C01": dict(technique=SIG_TECH, text="Properties_C01.v: for every program, fuel and well-formed state the emitters' pointer-chasing loop equals the snapshot loop (visits exactly the elements present when the emission started, in order, each looked up at its turn); with slots that do not touch the library exactly the connected, valid, unblocked slots run once each in list order with the emitted argument and nothing else changes; connect appends / connect_first prepends one connected element; size/empty/blocked report the list; at every quiescent point of every history the lists hold only still-connected elements. Correspondence: histories mixing connect, connect_first, disconnect, block/unblock, clear over signals of all emitter flavours (void, value, accumulated, trackable_signal) with emissions at random points; invocation order, arguments, results and size/empty at depth 0 are compared.", note=SIG_NOTE, ref='DESIGN.md 5 (C01), 2.2'),
    "C02": dict(technique=SIG_TECH, text="Properties_C02.v: after a trackable is destroyed no functor refers to it, every slot that did (variable, list element, copy) is invalid and without functor, and outside an emission its list element is gone; an invalid slot is skipped by every emission and call; the model never binds to or unbinds from a destroyed trackable (that would be ErrUAF, excluded for every program by ll_safe). Reaching through adaptors is C09's theorem. Correspondence: trackables new-ed and delete-d at every point (also inside emissions), functor shapes mem_fun / bind(std::ref) / track_object with 1-3 references incl. duplicates and a virtual-base trackable, shared ownership of a trackable by functor copies; registration counts per trackable are probed.", note=SIG_NOTE, ref='DESIGN.md 5 (C02)'),
    "C03": dict(technique=SIG_TECH, text='Properties_C03.v: ll_safe -- for every program (slot bodies are arbitrary scripts of the API: connect, connect_first, disconnect self/others, clear, block, destroy trackables incl. their own, drop the last handle, emit recursively, throw) and every nesting depth the model never follows a dangling iterator, erases twice, touches freed objects or loops; emit = snapshot loop for any user code satisfying the proved rely/guarantee discipline (hence: gone-before-turn not invoked, connected-during-emission not invoked now but in every later snapshot, the rest still invoked); after every top-level operation the bookkeeping is back to quiescent and the lists hold exactly the still-connected slots. Correspondence: re-entrant scenario generators (acting slot position x action x depth) under ASan.', note=SIG_NOTE, ref='DESIGN.md 5 (C03), 2.2.1'),
    "C04": dict(technique=SIG_TECH, text="Properties_C04.v: connected() is true exactly when the handle's element exists and is valid; disconnect at a quiescent point removes exactly that element, leaves every other list and slot alone and nulls every handle to it; disconnect on a handle whose slot is gone changes nothing; a non-null handle always has its element (never dangles) and node ids are never reused; all connection operations are covered by ll_safe. Correspondence: every way a slot disappears x inside/outside emission x later use of every copy.", note=SIG_NOTE, ref='DESIGN.md 5 (C04)'),
    "C06": dict(technique=SIG_TECH, text='Properties_C06.v: ll_safe over programs that destroy every kind of object (signals and copies, slots, connections, scoped connections, trackables, shared-ownership trackables) at every point and in every order; WF_top after every operation; when every variable is destroyed no signal_impl, no rep and no leaked record remains. Correspondence: random object graphs torn down in random permutations with operations in between, ASan/LSan, allocation balance, registration probes.', note=SIG_NOTE, ref='DESIGN.md 5 (C06)'),
    "C07": dict(technique=SIG_TECH, text='Properties_C07.v: at every quiescent point of every history a functor copy is held only by a live slot variable or by a connected element of a live list; leaked = 0 (no self_and_iter record is ever dropped while attached -- false before fix 9047103); teardown leaves nothing. Correspondence: live functor instances per identity, registration-list lengths and list sizes at probes, final allocation balance and LSan.', note=SIG_NOTE, ref='DESIGN.md 5 (C07)'),
    "C08": dict(technique=SIG_TECH, text='Properties_C08.v: an exception at any snapshot position ends the loop there (later slots not invoked) and reaches the caller; the frame is left exactly as on the normal path (placeholder erased, counter restored, deferred sweep run); WF_top holds after an operation that ended with an exception, so every continuation behaves as after a normal end. Correspondence: throws injected in slot bodies at all depths with re-entrant disconnects before them; later emissions, sizes and connection states compared.', note=SIG_NOTE, ref='DESIGN.md 5 (C08)'),
    "C12": dict(technique=SIG_TECH, text='Properties_C12.v: block()/unblock() on a slot or connection return the previous state and change only that flag; a blocked slot called directly returns the default without invoking; signal block sets the flag of exactly the current elements and keeps the list; blocked() = all flags (true for none); an element blocked when its turn comes is skipped and stays connected (snapshot theorem). Correspondence: block/unblock through slots, connections, scoped connections and signals incl. from inside emissions.', note=SIG_NOTE, ref='DESIGN.md 5 (C12)'),
    "C13": dict(technique=SIG_TECH, text='Properties_C13.v: without accumulator the result is that of the last slot actually invoked, else the default; accumulator cursors: a dereferenced cursor does not invoke again, a blocked/empty position is never invoked, moving re-arms, scripts that never dereference never invoke. Correspondence: generated accumulator scripts (walk all, stop at threshold, double dereference, reverse, never dereference, cursor copies; prefix and postfix iterator operators) x blocking/validity patterns.', note=SIG_NOTE, ref='DESIGN.md 5 (C13)'),
    "C14": dict(technique=SIG_TECH, text='Properties_C14.v: copy construction and assignment make both handles refer to one signal_impl (incl. two fresh signals: false before fix aefb40b); move transfers and leaves the source without list; destroying the last handle removes the list and nulls every connection to its elements; destroying a non-last handle keeps the list (for a trackable_signal: keeps the impl; its own forwarders are invalidated). Correspondence: 2-5 handles per family with all handle operations interleaved with connects, emissions, disconnects.', note=SIG_NOTE, ref='DESIGN.md 5 (C14)'),
    "C15": dict(technique=SIG_TECH, text='Properties_C15.v: a default slot is empty and calling it yields the default; a copy is a new rep with its own id/functor copy/flag and leaves the source untouched (copy of empty or invalid is empty); move empties the source and keeps rep, flag and functor; disconnect empties that slot; slot operations on one variable leave every other variable unchanged. Correspondence: slot-only histories covering each assignment branch, functor instance counts.', note=SIG_NOTE, ref='DESIGN.md 5 (C15)'),
    "C17": dict(technique=SIG_TECH, text='Properties_C17.v: move construction, release() and swap transfer/exchange the held pointer and change no list and no validity; destruction and assignment from a connection disconnect the held element first (it leaves its list at a quiescent point); the plain connection never dangles. Correspondence: several scoped connections and plain copies over overlapping slots.', note=SIG_NOTE, ref='DESIGN.md 5 (C17)'),
    "C18": dict(technique=SIG_TECH, text="Properties_C18.v: invoking a make_slot() forwarder is emitting the target with the same argument (result passed through); the forwarder of a trackable_signal refers exactly to that signal object's trackable base, so destroying the signal leaves no functor referring to it (C02), while a copy is a distinct trackable. Correspondence: chains of 2-4 signals, plain and trackable, copies/moves/destructions in any order relative to upstream emissions.", note=SIG_NOTE, ref='DESIGN.md 5 (C18)'),
})

PENDING_REASON = "check under construction in this round (runner planned in DESIGN.md section 5; not yet registered)"
NA = {}


def main():
    ids = ["C%02d" % i for i in range(1, 21)]
    checks = []
    for pid in ids:
        if pid in CHECKS:
            c = CHECKS[pid]
            checks.append({
                "property_id": pid, "quick_cmd": "./check %s --tier quick" % pid, "thorough_cmd": "./check %s --tier thorough" % pid,
                "evidence_file": "/verif/evidence/%s.json" % pid, "replay_cmd_template": "./check %s --replay {path}" % pid,
                "engine": "coq+correspondence", "technique": c["technique"],
                "level_claimed": {"category": "proof", "text": c["text"], "design_ref": c["ref"]},
                "level_note": c["note"]})
    m = {
        "version": 1,
        "setup_cmd": "make -C /verif setup",
        "hooks": {"guard": "SIGCXX_VERIF_HOOKS",
                  "enable": "none needed: the harness compiles /repo/sigc++ sources directly with -DSIGCXX_VERIF_HOOKS (no guarded code exists in /repo)",
                  "baseline_off_cmd": "cmake --build /repo/_build && ctest --test-dir /repo/_build -j8 --timeout 900",
                  "source_commits": [], "add_only": True},
        "engines": [{"name": "coq+correspondence", "path": "/verif/check", "serves_properties": sorted(CHECKS),
                     "kind_free_text": "Coq 8.16 proofs over executable models (hand-written, with table-like parts regenerated from the C++ source by translate/cxx2coq.py) + differential testing of the extracted models against the library built from /repo's working tree"}],
        "checks": checks,
        "not_applicable": [{"property_id": pid, "reason": NA.get(pid, PENDING_REASON)} for pid in ids if pid not in CHECKS],
        "notes": "Genuine defects found and repaired by fix: commits in /repo are listed in /verif/known_findings.txt (fixed: entries); see DESIGN.md section 6.",
    }
    json.dump(m, open(os.path.join(VERIF, "MANIFEST.json"), "w"), indent=1)
    print("checks:", [c["property_id"] for c in checks])


if __name__ == "__main__":
    main()
