#!/usr/bin/env python3
"""Regenerates /verif/MANIFEST.json from the table below (kept in one place so that the manifest
stays valid and in step with what is registered)."""
import json, os

VERIF = os.path.dirname(os.path.dirname(os.path.abspath(__file__)))

COMMON_NOTE = ("Trusted: Coq 8.16.1 kernel (vm_compute used for finite sweeps and non-vacuity examples; no native_compute); no axioms "
               "(Print Assumptions of every property theorem is parsed on each run and must be 'Closed under the global context'); "
               "extraction with ExtrOcamlBasic only; the hand-written Gallina model (tied to the code by differential testing whose strength is bounded by "
               "its generators, coverage reported in the evidence); harness/*.cc, probe.cc (-Dprivate=public), g++ 12 / clang++ 14 and sanitizer runtimes.")

CHECKS = {
    "C05": dict(
        technique="Coq proof over TypeModel (finite type universe, unbounded arity) + obligations over hop-mode/call-signature tables regenerated from the source by the translator + exhaustive static_assert validation of the conversion rules against g++ and clang++ + compile-status correspondence on generated translation units",
        text="TypeModel.v: binds/converts (reference binding and implicit conversions over 9 base types x 4 parameter forms), take (type_trait_take_t), callable (C05's criterion) and lib_call (what the library's call path requires hop by hop, driven by the parameter-passing modes regenerated from the source). Properties_C05.v proves lib_accepts = direct_ok for every arity/signature/functor shape (free function, function object, const/non-const member function on const/non-const object, under bind/hide/hide_return) given the regenerated mode table has no by-value deduced hop, the five named rejection classes, acceptance of implicit conversions, and that the erased call type equals call_it's type. The hand-written conversion rules are validated exhaustively (729 static_asserts, both compilers); the library itself is exercised with generated pairings (positives batched, each negative its own -fsyntax-only TU): compile status must equal the model.",
        note=COMMON_NOTE + " Finite universe; C++ conversion rules are a hand-written fragment validated against the compilers; rvalue-reference signature parameters are outside the universe (DESIGN.md section 8).",
        ref="DESIGN.md 5 (C05), 2.1, 3"),
    "C09": dict(
        technique="Coq proof by structural induction over a deep embedding of functor expressions (AdaptorModel) + obligations over the visitor/member tables regenerated from the clang AST + correspondence on generated C++ expressions under ASan",
        text="AdaptorModel.v embeds every functor/adaptor of the grammar (mem_fun, bind<I>/bind, hide, retype, retype_return, hide_return, bind_return, compose 1/2, exception_catch, track_object, slot-in-slot) at any depth. Properties_C09.v proves, for every expression, that what visit_each_trackable reaches (driven by the visitor table regenerated from the source on every run) is a permutation of the trackables the expression refers to by reference, given the obligation table_ok (every do_visit_each visits every data member exactly once, closed by vm_compute on the regenerated table) and fields_ok (the classes declare exactly the members the model knows); unbinding mirrors binding. Generated well-typed C++ expressions are compiled against /repo's working tree and, for each trackable as victim, slot emptiness, registration counts and their return to zero are compared with the model.",
        note=COMMON_NOTE + " translate/cxx2coq.py (clang 14 JSON AST table extractor, fail-closed on unrecognised constructs).",
        ref="DESIGN.md 5 (C09), 2.1, 3"),
    "C10": dict(
        technique="Coq proof by induction over AdaptorModel expressions (call path = documented transformation) + obligation over the slicing arithmetic regenerated from bind.h/hide.h + correspondence on generated C++ expressions (direct, slot, signal, rvalue routes)",
        text="Properties_C10.v proves for every expression, arity, position and nesting that the hop-by-hop call (tuple_start/tuple_end slicing taken from the regenerated arithmetic, parameter passing from the regenerated mode table) delivers to the leaves the values, and to the caller the result, of the documented meaning (bind inserts at I / appends, hide removes I / last, retype/retype_return convert, hide_return drops, bind_return returns the bound value, compose feeds getters into the setter, exception_catch returns the catcher's value exactly when the functor throws, track_object is transparent), and that the slot route equals the direct route. Generated expressions are compiled and run: leaf (position,value) logs and results are compared for the direct, slot, signal and temporary-argument routes.",
        note=COMMON_NOTE + " translate/cxx2coq.py; the order of compose's two getters is unspecified in C++ and compared as a multiset.",
        ref="DESIGN.md 5 (C10)"),
    "C11": dict(
        technique="Coq proof over AdaptorModel with object identities (reference_identity under the regenerated hop-mode table) + correspondence on generated C++ expressions with an instrumented argument class (address identity, copy counting)",
        text="Arguments carry an identity (caller's k-th object / bound std::ref object / copy). Properties_C11.v proves that when every hop passes references through (obligation modes_ok over the table regenerated from the operator() signatures of all adaptors) the leaves observe exactly the caller's objects and the bound objects, never a copy, through any chain and nesting, including results returned by reference through compose; a by-value deduced hop is shown to lose the identity (refuted example = the pre-fix code). Generated C++ expressions are run with instrumented arguments; identities seen by every leaf are compared for three routes. The value-emitter result clause (not replaced by a default) is decided with C13 over SigCore.",
        note=COMMON_NOTE + " translate/cxx2coq.py. Mutation of a by-value argument by an earlier slot is not modelled (arguments reach slots as const references; checked by the harness only through identity).",
        ref="DESIGN.md 5 (C11)"),
    "C16": dict(
        technique="machine-checked proof in Coq (invariant by induction over operation histories of TrackModel) + correspondence of the extracted model with sigc::trackable under ASan/UBSan",
        text="TrackModel.v is a hand-written executable model of trackable.cc (callback list, lazy allocation, clearing flag, remove-during-round nulling). Properties_C16.v proves for every history: no registration is delivered twice, a registration removed first is never delivered, trichotomy pending/delivered/removed, every trigger named by the statement delivers all pending registrations in that step and nothing else delivers, copy construction transfers nothing, self-assignment is silent. The model is tied to the code by running the extracted model and the real library (built from /repo's working tree under ASan/UBSan) on the same generated histories and comparing delivery order and list state.",
        note=COMMON_NOTE,
        ref="DESIGN.md 5 (C16), 2.1"),
}

PENDING_REASON = "check under construction in this round: model and harness exist (SigCore LL model + correspondence), theorems not yet registered"
NA = {}


def main():
    ids = ["C%02d" % i for i in range(1, 21)]
    checks = []
    for pid in ids:
        if pid in CHECKS:
            c = CHECKS[pid]
            checks.append({
                "property_id": pid, "quick_cmd": "./check %s --tier quick" % pid, "thorough_cmd": "./check %s --tier thorough" % pid,
                "evidence_file": "/verif/evidence/%s.json" % pid, "replay_cmd_template": "./check %s --replay {path}" % pid,
                "engine": "coq+correspondence", "technique": c["technique"],
                "level_claimed": {"category": "proof", "text": c["text"], "design_ref": c["ref"]},
                "level_note": c["note"]})
    m = {
        "version": 1,
        "setup_cmd": "make -C /verif setup",
        "hooks": {"guard": "SIGCXX_VERIF_HOOKS",
                  "enable": "none needed: the harness compiles /repo/sigc++ sources directly with -DSIGCXX_VERIF_HOOKS (no guarded code exists in /repo)",
                  "baseline_off_cmd": "cmake --build /repo/_build && ctest --test-dir /repo/_build -j8 --timeout 900",
                  "source_commits": [], "add_only": True},
        "engines": [{"name": "coq+correspondence", "path": "/verif/check", "serves_properties": sorted(CHECKS),
                     "kind_free_text": "Coq 8.16 proofs over executable models (hand-written, with table-like parts regenerated from the C++ source by translate/cxx2coq.py) + differential testing of the extracted models against the library built from /repo's working tree"}],
        "checks": checks,
        "not_applicable": [{"property_id": pid, "reason": NA.get(pid, PENDING_REASON)} for pid in ids if pid not in CHECKS],
        "notes": "Genuine defects found and repaired by fix: commits in /repo are listed in /verif/known_findings.txt (fixed: entries); see DESIGN.md section 6.",
    }
    json.dump(m, open(os.path.join(VERIF, "MANIFEST.json"), "w"), indent=1)
    print("checks:", [c["property_id"] for c in checks])


if __name__ == "__main__":
    main()
