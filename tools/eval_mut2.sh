#!/bin/bash
# eval_mut2.sh <PID> <n> <checks...> : like eval_mut.sh but runs the checks against the scratch worktree
# itself (VERIF_REPO), so /repo is not touched
P=$1; N=$2; shift; shift
export VERIF_DEV_SKIP_PROOF=1
for i in $(seq 1 $N); do
  echo "== $P p$i: $(/verif/tools/confirm_seed.sh /tmp/mut/$P /tmp/mut/$P/OUT/patch$i.diff /tmp/mut/$P/OUT/demo$i.cc 2>&1 | tail -1)"
  (cd /tmp/mut/$P && git apply OUT/patch$i.diff) || { echo "apply failed"; continue; }
  for c in "$@"; do
    out=$(cd /verif && VERIF_REPO=/tmp/mut/$P ./check $c 2>/dev/null); rc=$?
    echo "  [$c rc=$rc] $(echo "$out" | grep -c VIOLATION) violation(s) $(echo "$out" | grep VIOLATION | head -1 | cut -c1-100)"
  done
  (cd /tmp/mut/$P && git checkout -q -- sigc++)
done
