(* Properties_C08.v -- An exception thrown by a slot propagates and leaves the signal consistent.
   Statements only: each Prop is defined in SigSpec.v (or spelled out here) and closed by a lemma of
   SigSafe.v, SigSnapshot.v; Print Assumptions follows each. *)
From Coq Require Import List NArith Bool.
Import ListNotations.
Require Import Util SigCore SigLemmas SigInv SigSafe SigSpec SigSnapshot.
Local Open Scope N_scope.

(* slots after the thrower are not invoked; the exception reaches the caller of emit() *)
Theorem C08_exception_ends_the_loop_there : S_exception_stops_loop.
Proof. exact exception_stops_loop. Qed.
Print Assumptions C08_exception_ends_the_loop_there.

(* spec_emit runs frame_leave on the Thrown path exactly as on the normal path (with_frame) *)
Theorem C08_emission_with_exceptions_is_snapshot : S_emit_is_snapshot.
Proof. exact emit_is_snapshot. Qed.
Print Assumptions C08_emission_with_exceptions_is_snapshot.

(* WF_top also after an operation that ended with an exception: later operations behave as after a normal end *)
Theorem C08_consistent_after_unwinding : forall p fuel ops st, WF_top st -> match run_top p fuel ops st with Ok st' => WF_top st' | Err e => safe_err e end.
Proof. exact run_top_safe. Qed.
Print Assumptions C08_consistent_after_unwinding.
