(* Util.v -- association lists keyed by N, small list helpers. Definitions only. *)
From Coq Require Import List NArith Bool.
Import ListNotations.
Local Open Scope N_scope.

Section AList.
  Context {A : Type}.

  Fixpoint aget (k : N) (l : list (N * A)) : option A :=
    match l with
    | [] => None
    | (k', v) :: r => if N.eqb k k' then Some v else aget k r
    end.

  (* update in place when the key exists, append otherwise *)
  Fixpoint aset (k : N) (v : A) (l : list (N * A)) : list (N * A) :=
    match l with
    | [] => [(k, v)]
    | (k', v') :: r => if N.eqb k k' then (k', v) :: r else (k', v') :: aset k v r
    end.

  Fixpoint adel (k : N) (l : list (N * A)) : list (N * A) :=
    match l with
    | [] => []
    | (k', v') :: r => if N.eqb k k' then r else (k', v') :: adel k r
    end.

  Definition akeys (l : list (N * A)) : list N := map fst l.
End AList.

Fixpoint remove_first {A} (p : A -> bool) (l : list A) : list A :=
  match l with
  | [] => []
  | x :: r => if p x then r else x :: remove_first p r
  end.

Fixpoint find_index {A} (p : A -> bool) (l : list A) : option nat :=
  match l with
  | [] => None
  | x :: r => if p x then Some O else option_map S (find_index p r)
  end.

Definition count_if {A} (p : A -> bool) (l : list A) : N :=
  N.of_nat (length (filter p l)).
