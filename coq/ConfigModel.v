(* ConfigModel.v -- build configurations (property C20).  The executable model takes no
   configuration parameter at all; what ties it to "every supported build" are obligations over
   tables regenerated from the source: the only preprocessor switches are documentation / MSVC
   allocation / deprecated-API ones, the deprecated switch removes nothing but track_obj(), and the
   type-erased call goes through one function type.  Compilers and optimisers are not modelled:
   the binaries of the matrix are compared in the correspondence run. *)
From Coq Require Import List String Bool.
Import ListNotations.
Require Import SigCore.
Local Open Scope string_scope.

Inductive compiler := Gxx | Clangxx.
Inductive optlevel := O0 | O2 | O3.
Record config := mkCfg { cfg_compiler : compiler; cfg_opt : optlevel; cfg_deprecated_disabled : bool }.

(* the modelled API (SigCore.op, AdaptorModel.fexpr) contains no deprecated entry point:
   track_obj() is the only one, and track_object() builds the same functor *)
Definition run_cfg (c : config) (fuel : nat) (p : program) : res state := run_program fuel p.

Definition allowed_switches : list string :=
  ["DOXYGEN_SHOULD_SKIP_THIS"; "SIGC_NEW_DELETE_IN_LIBRARY_ONLY"; "SIGCXX_DISABLE_DEPRECATED"].

Definition switches_ok (conds : list (string * string)) : bool :=
  forallb (fun '(_, m) => existsb (String.eqb m) allowed_switches) conds.

(* identifiers declared or called inside text guarded by SIGCXX_DISABLE_DEPRECATED: the deprecated
   factory track_obj() and the functor it constructs, nothing else (in particular no visit_each) *)
Definition deprecated_ok (names : list string) : bool :=
  forallb (fun n => String.eqb n "track_obj" || String.eqb n "track_obj_functor") names
  && existsb (String.eqb "track_obj") names.
