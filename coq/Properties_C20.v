(* Properties_C20.v -- behaviour is independent of compiler, optimisation level and API switches.
   PARTIAL: proved are the source-level discipline (obligations over regenerated tables) and that the
   model has no configuration-dependent rule; the binaries of the supported matrix are compared with
   the model and with each other in the correspondence run (all 12 configurations in the thorough
   tier, plus clang -fsanitize=undefined,function and valgrind for uninitialised reads). *)
From Coq Require Import List String Bool.
Import ListNotations.
Require Import SigCore SigInv SigSafe ConfigModel GenTypes gen.Tables.
Local Open Scope string_scope.

(* no conditional compilation on optimisation / assertion / compiler macros *)
Theorem C20_gen_no_config_conditionals : switches_ok gen_pp_conditionals = true.
Proof. vm_compute. reflexivity. Qed.
Print Assumptions C20_gen_no_config_conditionals.

(* disabling deprecated API removes track_obj() and nothing else *)
Theorem C20_gen_deprecated_switch_only_removes_track_obj : deprecated_ok gen_deprecated_only = true.
Proof. vm_compute. reflexivity. Qed.
Print Assumptions C20_gen_deprecated_switch_only_removes_track_obj.

(* the type-erased call path: the function type every call site casts to is the type of the stored
   function (slot_call::call_it), so the round trip through hook = void*(*)(void*) is the defined one *)
Theorem C20_gen_erased_call_well_typed :
  gen_callsig_call_type = gen_callsig_call_it /\
  forallb (fun c => String.eqb c "call_type" || String.eqb c "hook") gen_callsig_casts = true /\
  gen_callsig_cstyle_casts = 0.
Proof. vm_compute. repeat split; reflexivity. Qed.
Print Assumptions C20_gen_erased_call_well_typed.

(* the model's trace does not depend on the configuration *)
Theorem C20_config_irrelevant :
  forall c1 c2 fuel p, run_cfg c1 fuel p = run_cfg c2 fuel p.
Proof. reflexivity. Qed.
Print Assumptions C20_config_irrelevant.

(* ... and contains no memory error an optimiser could exploit *)
Theorem C20_no_memory_error_in_any_configuration :
  forall c fuel p, match run_cfg c fuel p with Ok _ => True | Err e => safe_err e end.
Proof. intros c fuel p. exact (ll_safe fuel p). Qed.
Print Assumptions C20_no_memory_error_in_any_configuration.

Example C20_ndebug_conditional_refuted :
  switches_ok (("sigc++/signal_base.cc:70", "NDEBUG") :: gen_pp_conditionals) = false.
Proof. vm_compute. reflexivity. Qed.
