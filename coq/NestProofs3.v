(* NestProofs3.v -- effect of map_in_rep / map_rep on the flat list of reps *)
From Coq Require Import List NArith Bool Arith Lia Permutation.
Import ListNotations.
Require Import Util NestModel NestSpec NestProofs1 NestProofs2.
Local Open Scope N_scope.

Definition pres_id (f : rep -> rep) := forall x, r_id (f x) = r_id x.
Definition pres_fn (f : rep -> rep) := forall x, r_fn (f x) = r_fn x.

Lemma kids_map_items : forall id f l, kids (map_items id f l) = map (map_in_rep id f) (kids l).
Proof.
  induction l as [|it tl IH]; [reflexivity|].
  destruct it as [t|s|[r'|]]; cbn [map_items kids map]; rewrite ?IH; reflexivity.
Qed.

Lemma in_track_map_items : forall id f l t, In (ITrack t) (map_items id f l) <-> In (ITrack t) l.
Proof.
  induction l as [|it tl IH]; intros t; [reflexivity|].
  destruct it as [t'|s|[r'|]]; cbn [map_items In]; rewrite IH; split; intros [H|H]; try (left; exact H); try (right; exact H); discriminate.
Qed.

Lemma in_ref_map_items : forall id f l s, In (IRef s) (map_items id f l) <-> In (IRef s) l.
Proof.
  induction l as [|it tl IH]; intros t; [reflexivity|].
  destruct it as [t'|s|[r'|]]; cbn [map_items In]; rewrite IH; split; intros [H|H]; try (left; exact H); try (right; exact H); discriminate.
Qed.

Definition is_track (t : N) (it : item) : bool := match it with ITrack t' => N.eqb t t' | _ => false end.

Lemma direct_refs_eq : forall t r, direct_refs t r = length (filter (is_track t) (items_of r)).
Proof. reflexivity. Qed.

Lemma filter_track_map_items : forall id f t l, filter (is_track t) (map_items id f l) = filter (is_track t) l.
Proof.
  induction l as [|it tl IH]; [reflexivity|].
  destruct it as [t'|s|[r'|]]; cbn [map_items filter is_track]; rewrite IH; reflexivity.
Qed.

Lemma map_in_rep_id : forall id f, pres_id f -> forall r, r_id (map_in_rep id f r) = r_id r.
Proof.
  intros id f Hf r. rewrite map_in_rep_eq. destruct (N.eqb (r_id r) id); [apply Hf | reflexivity].
Qed.

(* shallow structure of the image of a rep that is not the target *)
Lemma map_in_rep_other : forall id f r, r_id r <> id ->
  r_valid (map_in_rep id f r) = r_valid r /\ r_parent (map_in_rep id f r) = r_parent r /\
  items_of (map_in_rep id f r) = map_items id f (items_of r) /\
  (r_fn (map_in_rep id f r) = None <-> r_fn r = None).
Proof.
  intros id f r Hne. rewrite map_in_rep_eq. apply N.eqb_neq in Hne. rewrite Hne.
  destruct r as [i v [l|] p]; cbn; repeat split; intros; try reflexivity; try discriminate.
Qed.

Lemma map_in_rep_hit : forall id f r, r_id r = id -> map_in_rep id f r = f r.
Proof. intros id f r H. rewrite map_in_rep_eq. apply N.eqb_eq in H. rewrite H. reflexivity. Qed.

(* not below: identity *)
Lemma map_in_rep_absent : forall id f r, ~ In id (ids (reps_of r)) -> map_in_rep id f r = r.
Proof.
  intros id f. apply (rep_kids_ind (fun r => ~ In id (ids (reps_of r)) -> map_in_rep id f r = r)).
  intros r IH Hn. rewrite map_in_rep_eq.
  rewrite reps_of_eq in Hn. cbn [ids map] in Hn.
  destruct (N.eqb (r_id r) id) eqn:E; [apply N.eqb_eq in E; exfalso; apply Hn; left; exact E|].
  assert (Hl : forall l, (forall c, In c (kids l) -> ~ In id (ids (reps_of c)) -> map_in_rep id f c = c) ->
               ~ In id (ids (reps_items l)) -> map_items id f l = l).
  { induction l as [|it tl IHl]; intros Hk Hni; [reflexivity|].
    destruct it as [t|s|[r'|]]; cbn [map_items kids reps_items] in *; try (rewrite IHl; [reflexivity | exact Hk | exact Hni]).
    rewrite ids_app in Hni.
    rewrite Hk; [| left; reflexivity | intros H; apply Hni; apply in_or_app; left; exact H].
    rewrite IHl; [reflexivity | intros c Hc; apply Hk; right; exact Hc | intros H; apply Hni; apply in_or_app; right; exact H]. }
  destruct r as [i v [l|] p]; cbn [r_id r_valid r_fn r_parent option_map]; [|reflexivity].
  rewrite Hl; [reflexivity | exact IH | intros H; apply Hn; right; exact H].
Qed.

Lemma map_absent_list : forall id f L, ~ In id (ids L) -> (forall u, In u L -> incl (reps_of u) L) ->
  map (map_in_rep id f) L = L.
Proof.
  intros id f L Hn Hcl. rewrite <- (map_id L) at 2. apply map_ext_in. intros u Hu.
  apply map_in_rep_absent. intros Hin. apply Hn. unfold ids in *. apply in_map_iff in Hin. destruct Hin as (x & Hx & Hin).
  apply in_map_iff. exists x. split; [exact Hx | apply (Hcl u Hu); exact Hin].
Qed.

Lemma map_absent_reps_of : forall id f r, ~ In id (ids (reps_of r)) -> map (map_in_rep id f) (reps_of r) = reps_of r.
Proof. intros. apply map_absent_list; [assumption|]. intros u Hu. apply reps_of_trans. exact Hu. Qed.

Lemma map_absent_RL : forall id f F, ~ In id (ids (RL F)) -> map (map_in_rep id f) (RL F) = RL F.
Proof. intros. apply map_absent_list; [assumption|]. intros u Hu. apply RL_sub_closed. exact Hu. Qed.

Lemma map_absent_roots : forall id f F, ~ In id (ids (RL F)) -> map (map_in_rep id f) F = F.
Proof.
  intros id f F Hn. rewrite <- (map_id F) at 2. apply map_ext_in. intros u Hu. apply map_in_rep_absent.
  intros Hin. apply Hn. unfold ids in *. apply in_map_iff in Hin. destruct Hin as (x & Hx & Hin).
  apply in_map_iff. exists x. split; [exact Hx|]. apply RL_in. exists u. split; assumption.
Qed.

(* ---- the split lemma: the subtree of the target is contiguous in the preorder list ---- *)
Section Split.
  Variable id : N.
  Variable f : rep -> rep.
  Hypothesis Hf : pres_id f.
  Let g := map_in_rep id f.

  Lemma split_forest_aux : forall F,
    (forall c, In c F -> NoDup (ids (reps_of c)) -> forall ro, lk id (reps_of c) = Some ro ->
        exists l1 l2, reps_of c = l1 ++ reps_of ro ++ l2 /\ reps_of (g c) = map g l1 ++ reps_of (f ro) ++ l2 /\ (forall u, In u l2 -> g u = u)) ->
    NoDup (ids (RL F)) -> forall ro, lk id (RL F) = Some ro ->
    exists l1 l2, RL F = l1 ++ reps_of ro ++ l2 /\ RL (map g F) = map g l1 ++ reps_of (f ro) ++ l2 /\ (forall u, In u l2 -> g u = u).
  Proof.
    induction F as [|c tl IH]; intros Hc Hnd ro Hlk; [discriminate|].
    cbn [RL flat_map map] in *. fold (RL tl) in *. fold (RL (map g tl)).
    rewrite ids_app in Hnd. rewrite lk_app in Hlk.
    destruct (lk id (reps_of c)) as [x|] eqn:E.
    - injection Hlk as ->.
      destruct (Hc c (or_introl eq_refl) (NoDup_app_l _ _ _ Hnd) ro E) as (l1 & l2 & E1 & E2 & E5).
      exists l1, (l2 ++ RL tl). rewrite E1, E2. rewrite <- !app_assoc. split; [reflexivity|].
      assert (Hn : ~ In id (ids (RL tl))).
      { intros Hin. apply lk_some in E. destruct E as [E3 E4]. apply (NoDup_app_disj _ _ _ id Hnd); [|exact Hin].
        rewrite <- E4. apply in_ids. exact E3. }
      pose proof (map_absent_roots id f tl Hn) as Hm. fold g in Hm. rewrite Hm. split; [reflexivity|].
      intros u Hu. apply in_app_or in Hu. destruct Hu as [Hu|Hu]; [apply E5, Hu|].
      unfold g. apply map_in_rep_absent. intros Hin. apply Hn. unfold ids in *. apply in_map_iff in Hin.
      destruct Hin as (x & Hx & Hin). apply in_map_iff. exists x. split; [exact Hx|]. apply (RL_sub_closed tl u Hu). exact Hin.
    - destruct (IH (fun c' H' => Hc c' (or_intror H')) (NoDup_app_r _ _ _ Hnd) ro Hlk) as (l1 & l2 & E1 & E2 & E5).
      exists (reps_of c ++ l1), l2. rewrite E1, E2. rewrite <- !app_assoc. split; [reflexivity|]. split; [|exact E5].
      rewrite map_app. rewrite <- !app_assoc.
      pose proof (lk_none _ _ E) as Hn. unfold g at 1. rewrite (map_in_rep_absent id f c Hn).
      unfold g. rewrite (map_absent_reps_of id f c Hn). reflexivity.
  Qed.

  Lemma split_rep : forall c, NoDup (ids (reps_of c)) -> forall ro, lk id (reps_of c) = Some ro ->
    exists l1 l2, reps_of c = l1 ++ reps_of ro ++ l2 /\ reps_of (g c) = map g l1 ++ reps_of (f ro) ++ l2 /\ (forall u, In u l2 -> g u = u).
  Proof.
    apply (rep_kids_ind (fun c => NoDup (ids (reps_of c)) -> forall ro, lk id (reps_of c) = Some ro ->
      exists l1 l2, reps_of c = l1 ++ reps_of ro ++ l2 /\ reps_of (g c) = map g l1 ++ reps_of (f ro) ++ l2 /\ (forall u, In u l2 -> g u = u))).
    intros c IH Hnd ro Hlk.
    destruct (N.eq_dec (r_id c) id) as [E|E].
    - exists [], []. rewrite !app_nil_r. cbn [app map].
      assert (ro = c). { rewrite reps_of_eq in Hlk. unfold lk in Hlk. cbn [find] in Hlk. apply N.eqb_eq in E. rewrite E in Hlk. congruence. }
      subst ro. split; [reflexivity|]. split; [|intros u []]. unfold g. rewrite map_in_rep_hit by exact E. reflexivity.
    - pose proof (map_in_rep_other id f c E) as (_ & _ & Hit & _).
      rewrite (reps_of_eq (g c)). unfold g at 2. rewrite Hit.
      rewrite reps_of_eq in Hlk, Hnd. unfold lk in Hlk. cbn [find] in Hlk. apply N.eqb_neq in E. rewrite E in Hlk.
      fold (lk id (reps_items (items_of c))) in Hlk.
      cbn [ids map] in Hnd. inversion Hnd as [|x l Hx Hnd']; subst.
      rewrite !reps_items_kids in *. rewrite kids_map_items.
      destruct (split_forest_aux (kids (items_of c)) IH Hnd' ro Hlk) as (l1 & l2 & E1 & E2 & E5).
      exists (c :: l1), l2. rewrite reps_of_eq. rewrite reps_items_kids. fold (RL (kids (items_of c))). rewrite E1.
      split; [reflexivity|]. split; [|exact E5]. cbn [map app]. f_equal. fold (RL (map g (kids (items_of c)))). exact E2.
  Qed.

  Lemma split_forest : forall F, NoDup (ids (RL F)) -> forall ro, lk id (RL F) = Some ro ->
    exists l1 l2, RL F = l1 ++ reps_of ro ++ l2 /\ RL (map g F) = map g l1 ++ reps_of (f ro) ++ l2 /\ (forall u, In u l2 -> g u = u).
  Proof. intros F. apply split_forest_aux. intros c _. apply split_rep. Qed.
End Split.

(* ---- state level ---- *)
Lemma tops_map_rep : forall id f l,
  tops (map (fun kv : N * option (option rep) => match kv with
                     | (k, Some (Some r)) => (k, Some (Some (map_in_rep id f r)))
                     | x => x
                     end) l) = map (map_in_rep id f) (tops l).
Proof.
  induction l as [|[k [[r|]|]] tl IH]; cbn [map tops]; rewrite ?IH; reflexivity.
Qed.

Lemma all_reps_map_rep : forall id f st, all_reps (map_rep id f st) = RL (map (map_in_rep id f) (tops (vars st))).
Proof. intros. rewrite all_reps_tops. unfold map_rep. cbn [vars with_vars]. rewrite tops_map_rep. reflexivity. Qed.

Lemma live_var_map_rep : forall id f s st,
  live_var s (map_rep id f st) = option_map (option_map (map_in_rep id f)) (live_var s st).
Proof.
  intros id f s st. unfold live_var, map_rep. cbn [vars with_vars].
  induction (vars st) as [|[k [[r|]|]] tl IH]; cbn [map aget]; [reflexivity| | |];
    destruct (N.eqb s k); try reflexivity; exact IH.
Qed.

Lemma live_tr_map_rep : forall id f t st, live_tr t (map_rep id f st) = live_tr t st.
Proof. reflexivity. Qed.

Lemma map_rep_destroy_split : forall id f st ro, pres_id f -> NoDup (ids (all_reps st)) -> lk id (all_reps st) = Some ro ->
  exists l1 l2, all_reps st = l1 ++ reps_of ro ++ l2 /\
     all_reps (map_rep id f st) = map (map_in_rep id f) l1 ++ reps_of (f ro) ++ l2 /\
     (forall u, In u l2 -> map_in_rep id f u = u).
Proof.
  intros id f st ro Hf Hnd Hlk. rewrite all_reps_map_rep. rewrite all_reps_tops in *.
  apply split_forest; assumption.
Qed.

Lemma lk_map : forall g id U, (forall x, r_id (g x) = r_id x) -> lk id (map g U) = option_map g (lk id U).
Proof.
  intros g id U Hg. unfold lk. induction U as [|u tl IH]; [reflexivity|]. cbn [map find]. rewrite Hg.
  destruct (N.eqb (r_id u) id); [reflexivity | exact IH].
Qed.

(* ---- field updates: the list is mapped pointwise ---- *)
Lemma strict_closed : forall r u, In u (reps_items (items_of r)) -> incl (reps_of u) (reps_items (items_of r)).
Proof.
  intros r u Hu. rewrite reps_items_kids in *. apply in_flat_map in Hu. destruct Hu as (c & Hc & Hu).
  intros x Hx. apply in_flat_map. exists c. split; [exact Hc|]. apply (reps_of_trans c u Hu). exact Hx.
Qed.

Section Field.
  Variable id : N.
  Variable f : rep -> rep.
  Hypothesis Hf : pres_id f.
  Hypothesis Hfn : pres_fn f.
  Let g := map_in_rep id f.

  Lemma field_forest_aux : forall F,
    (forall c, In c F -> NoDup (ids (reps_of c)) -> reps_of (g c) = map g (reps_of c)) ->
    NoDup (ids (RL F)) -> RL (map g F) = map g (RL F).
  Proof.
    induction F as [|c tl IH]; intros Hc Hnd; [reflexivity|].
    cbn [RL flat_map map] in *. fold (RL tl) in *. fold (RL (map g tl)). rewrite ids_app in Hnd.
    rewrite map_app. rewrite (Hc c (or_introl eq_refl) (NoDup_app_l _ _ _ Hnd)).
    rewrite (IH (fun c' H' => Hc c' (or_intror H')) (NoDup_app_r _ _ _ Hnd)). reflexivity.
  Qed.

  Lemma items_of_pres : forall x, items_of (f x) = items_of x.
  Proof. intros x. unfold items_of. rewrite Hfn. reflexivity. Qed.

  Lemma field_rep : forall c, NoDup (ids (reps_of c)) -> reps_of (g c) = map g (reps_of c).
  Proof.
    apply (rep_kids_ind (fun c => NoDup (ids (reps_of c)) -> reps_of (g c) = map g (reps_of c))).
    intros c IH Hnd. destruct (N.eq_dec (r_id c) id) as [E|E].
    - unfold g at 1. rewrite map_in_rep_hit by exact E. rewrite (reps_of_eq (f c)), items_of_pres.
      rewrite (reps_of_eq c). cbn [map]. unfold g at 1. rewrite map_in_rep_hit by exact E. f_equal.
      symmetry. apply map_absent_list.
      + rewrite reps_of_eq in Hnd. cbn [ids map] in Hnd. apply NoDup_cons_iff in Hnd. destruct Hnd as [Hx _]. rewrite <- E. exact Hx.
      + intros u Hu. apply strict_closed. exact Hu.
    - pose proof (map_in_rep_other id f c E) as (_ & _ & Hit & _).
      rewrite (reps_of_eq (g c)). unfold g at 2. rewrite Hit. rewrite (reps_of_eq c). cbn [map]. f_equal.
      rewrite !reps_items_kids, kids_map_items. fold (RL (kids (items_of c))). fold g. fold (RL (map g (kids (items_of c)))).
      apply field_forest_aux; [exact IH|].
      rewrite reps_of_eq in Hnd. cbn [ids map] in Hnd. apply NoDup_cons_iff in Hnd. destruct Hnd as [_ Hnd]. rewrite reps_items_kids in Hnd. exact Hnd.
  Qed.

  Lemma field_forest : forall F, NoDup (ids (RL F)) -> RL (map g F) = map g (RL F).
  Proof. intros F. apply field_forest_aux. intros c _. apply field_rep. Qed.

  Lemma all_reps_map_field : forall st, NoDup (ids (all_reps st)) -> all_reps (map_rep id f st) = map g (all_reps st).
  Proof. intros st Hnd. rewrite all_reps_map_rep. rewrite all_reps_tops in *. apply field_forest. exact Hnd. Qed.

  (* kids of the image *)
  Lemma field_kids : forall q, NoDup (ids (reps_of q)) -> kids (items_of (g q)) = map g (kids (items_of q)).
  Proof.
    intros q Hnd. destruct (N.eq_dec (r_id q) id) as [E|E].
    - unfold g at 1. rewrite map_in_rep_hit by exact E. rewrite items_of_pres.
      rewrite <- (map_id (kids (items_of q))) at 1. apply map_ext_in. intros c Hc. symmetry. apply map_in_rep_absent.
      rewrite reps_of_eq in Hnd. cbn [ids map] in Hnd. apply NoDup_cons_iff in Hnd. destruct Hnd as [Hx0 _]. intros Hin. apply Hx0. rewrite E.
      unfold ids in *. apply in_map_iff in Hin. destruct Hin as (x & Hx & Hin). apply in_map_iff. exists x. split; [exact Hx|].
      rewrite reps_items_kids. apply in_flat_map. exists c. split; assumption.
    - pose proof (map_in_rep_other id f q E) as (_ & _ & Hit & _). unfold g at 1. rewrite Hit. apply kids_map_items.
  Qed.

  Lemma field_in_track : forall q t, In (ITrack t) (items_of (g q)) <-> In (ITrack t) (items_of q).
  Proof.
    intros q t. destruct (N.eq_dec (r_id q) id) as [E|E].
    - unfold g. rewrite map_in_rep_hit by exact E. rewrite items_of_pres. reflexivity.
    - pose proof (map_in_rep_other id f q E) as (_ & _ & Hit & _). unfold g. rewrite Hit. apply in_track_map_items.
  Qed.

  Lemma field_in_ref : forall q s, In (IRef s) (items_of (g q)) <-> In (IRef s) (items_of q).
  Proof.
    intros q t. destruct (N.eq_dec (r_id q) id) as [E|E].
    - unfold g. rewrite map_in_rep_hit by exact E. rewrite items_of_pres. reflexivity.
    - pose proof (map_in_rep_other id f q E) as (_ & _ & Hit & _). unfold g. rewrite Hit. apply in_ref_map_items.
  Qed.

  Lemma field_direct_refs : forall q t, direct_refs t (g q) = direct_refs t q.
  Proof.
    intros q t. rewrite !direct_refs_eq. destruct (N.eq_dec (r_id q) id) as [E|E].
    - unfold g. rewrite map_in_rep_hit by exact E. rewrite items_of_pres. reflexivity.
    - pose proof (map_in_rep_other id f q E) as (_ & _ & Hit & _). unfold g. rewrite Hit. rewrite filter_track_map_items. reflexivity.
  Qed.

  Lemma field_fn_none : forall q, r_fn (g q) = None <-> r_fn q = None.
  Proof.
    intros q. destruct (N.eq_dec (r_id q) id) as [E|E].
    - unfold g. rewrite map_in_rep_hit by exact E. rewrite Hfn. reflexivity.
    - pose proof (map_in_rep_other id f q E) as (_ & _ & _ & H). exact H.
  Qed.
End Field.
