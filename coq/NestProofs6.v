(* NestProofs6.v -- ghost bindings of reps, drop_rep as a flat unbind loop, destroy in place *)
From Coq Require Import List NArith Bool Arith Lia Permutation.
Import ListNotations.
Require Import Util NestModel NestSpec NestProofs1 NestProofs2 NestProofs3 NestProofs4 NestProofs5.
Local Open Scope N_scope.

Definition binds_of (u : rep) : list (N * item) := map (pair (r_id u)) (items_of u).
Definition bindings (L : list rep) : list (N * item) := flat_map binds_of L.

Fixpoint unbind_list (B : list (N * item)) (st : nstate) : nres nstate :=
  match B with
  | [] => NOk st
  | (me, it) :: tl => st1 <-- unbind_item me it st ;;; unbind_list tl st1
  end.

Lemma unbind_items_list : forall me l st, unbind_items me l st = unbind_list (map (pair me) l) st.
Proof.
  induction l as [|it tl IH]; intros st; [reflexivity|]. cbn [unbind_items map unbind_list].
  destruct (unbind_item me it st); cbn [nbind]; [apply IH | reflexivity].
Qed.

Lemma unbind_list_app : forall B1 B2 st, unbind_list (B1 ++ B2) st = (st1 <-- unbind_list B1 st ;;; unbind_list B2 st1).
Proof.
  induction B1 as [|[me it] tl IH]; intros B2 st; [reflexivity|]. cbn [app unbind_list].
  destruct (unbind_item me it st); cbn [nbind]; [apply IH | reflexivity].
Qed.

Fixpoint drop_reps (F : list rep) (st : nstate) : nres nstate :=
  match F with
  | [] => NOk st
  | c :: tl => st2 <-- drop_rep c st ;;; drop_reps tl st2
  end.

Lemma drop_items_kids : forall l st, drop_items l st = drop_reps (kids l) st.
Proof.
  induction l as [|it tl IH]; intros st; [reflexivity|].
  destruct it as [t|s|[r'|]]; cbn [drop_items kids drop_reps]; try apply IH.
  destruct (drop_rep r' st); cbn [nbind]; [apply IH | reflexivity].
Qed.

Lemma bindings_app : forall L1 L2, bindings (L1 ++ L2) = bindings L1 ++ bindings L2.
Proof. intros. unfold bindings. apply flat_map_app. Qed.

Lemma drop_reps_unbind_aux : forall F, (forall c, In c F -> forall st, drop_rep c st = unbind_list (bindings (reps_of c)) st) ->
  forall st, drop_reps F st = unbind_list (bindings (RL F)) st.
Proof.
  induction F as [|c tl IH]; intros H st; [reflexivity|].
  cbn [drop_reps RL flat_map]. fold (RL tl). rewrite bindings_app, unbind_list_app.
  rewrite (H c (or_introl eq_refl)). destruct (unbind_list (bindings (reps_of c)) st); cbn [nbind]; [|reflexivity].
  apply IH. intros c' Hc'. apply H. right. exact Hc'.
Qed.

Lemma drop_rep_unbind : forall r st, drop_rep r st = unbind_list (bindings (reps_of r)) st.
Proof.
  apply (rep_kids_ind (fun r => forall st, drop_rep r st = unbind_list (bindings (reps_of r)) st)).
  intros r IH st. rewrite drop_rep_eq, reps_of_eq. cbn [bindings flat_map]. fold (bindings (reps_items (items_of r))).
  rewrite unbind_list_app. unfold binds_of.
  destruct r as [i v [l|] p]; cbn [r_fn r_id items_of]; [|reflexivity].
  rewrite unbind_items_list. destruct (unbind_list (map (pair i) l) st); cbn [nbind]; [|reflexivity].
  rewrite drop_items_kids, reps_items_kids. fold (RL (kids l)). apply drop_reps_unbind_aux. exact IH.
Qed.

Lemma unbind_list_ok : forall T P B1 B st, GInv T P (B1 ++ B) st ->
  exists st', unbind_list B1 st = NOk st' /\ GInv T P B st'.
Proof.
  induction B1 as [|[me it] tl IH]; intros B st HG.
  - exists st. split; [reflexivity | exact HG].
  - cbn [app] in HG. destruct (unbind_item_ok T P (tl ++ B) st me it HG) as (st1 & E1 & HG1).
    cbn [unbind_list]. rewrite E1. cbn [nbind]. apply IH. exact HG1.
Qed.

Lemma drop_rep_ok : forall T P B st r, GInv T P (bindings (reps_of r) ++ B) st ->
  exists st', drop_rep r st = NOk st' /\ GInv T P B st'.
Proof. intros. rewrite drop_rep_unbind. apply unbind_list_ok. assumption. Qed.

(* ---- bindings: membership and counting ---- *)
Lemma in_bindings : forall L i it, In (i, it) (bindings L) <-> exists d, In d L /\ r_id d = i /\ In it (items_of d).
Proof.
  intros L i it. unfold bindings. rewrite in_flat_map. split.
  - intros (d & Hd & Hin). unfold binds_of in Hin. apply in_map_iff in Hin. destruct Hin as (x & E & Hx).
    injection E as <- <-. exists d. repeat split; assumption.
  - intros (d & Hd & <- & Hin). exists d. split; [exact Hd|]. unfold binds_of. apply in_map_iff. exists it. split; [reflexivity | exact Hin].
Qed.

Lemma bcount_binds_of : forall t i d, bcount t i (binds_of d) = if N.eqb (r_id d) i then direct_refs t d else O.
Proof.
  intros t i d. unfold bcount, binds_of. rewrite direct_refs_eq.
  induction (items_of d) as [|it tl IH]; cbn [map filter fst snd].
  - destruct (N.eqb (r_id d) i); reflexivity.
  - destruct (N.eqb (r_id d) i) eqn:E; cbn [andb].
    + destruct (is_track t it); cbn [length]; rewrite IH; reflexivity.
    + exact IH.
Qed.

Lemma drefs_cons : forall t i d L, drefs t i (d :: L) = if N.eqb (r_id d) i then direct_refs t d else drefs t i L.
Proof. intros. unfold drefs, lk. cbn [find]. destruct (N.eqb (r_id d) i); reflexivity. Qed.

Lemma drefs_absent : forall t i L, ~ In i (ids L) -> drefs t i L = O.
Proof. intros t i L H. unfold drefs. apply lk_none_iff in H. rewrite H. reflexivity. Qed.

Lemma bcount_bindings : forall t i L, NoDup (ids L) -> bcount t i (bindings L) = drefs t i L.
Proof.
  intros t i L. induction L as [|d tl IH]; intros Hnd; [reflexivity|].
  cbn [bindings flat_map]. fold (bindings tl). rewrite bcount_app, bcount_binds_of, drefs_cons.
  cbn [ids map] in Hnd. apply NoDup_cons_iff in Hnd. destruct Hnd as [Hx Hnd]. rewrite (IH Hnd).
  destruct (N.eqb (r_id d) i) eqn:E; [|reflexivity].
  apply N.eqb_eq in E. subst i. rewrite drefs_absent by exact Hx. lia.
Qed.

(* ---- removing a contiguous segment from a duplicate-free list ---- *)
Lemma NoDup_remove_mid : forall (A : Type) (a d c : list A), NoDup (a ++ d ++ c) -> NoDup (a ++ c).
Proof.
  intros A a d c H. apply NoDup_app_intro.
  - eapply NoDup_app_l; eassumption.
  - apply NoDup_app_r in H. eapply NoDup_app_r; eassumption.
  - intros x H1 H2. apply (NoDup_app_disj _ _ _ x H H1). apply in_or_app. right. exact H2.
Qed.

Lemma NoDup_mid : forall (A : Type) (a d c : list A), NoDup (a ++ d ++ c) -> NoDup d.
Proof. intros A a d c H. apply NoDup_app_r in H. eapply NoDup_app_l; eassumption. Qed.

Lemma mid_disj : forall (A : Type) (a d c : list A) x, NoDup (a ++ d ++ c) -> In x (a ++ c) -> In x d -> False.
Proof.
  intros A a d c x H H1 H2. apply in_app_or in H1. destruct H1 as [H1|H1].
  - apply (NoDup_app_disj _ _ _ x H H1). apply in_or_app. left. exact H2.
  - apply NoDup_app_r in H. exact (NoDup_app_disj _ _ _ x H H2 H1).
Qed.

Lemma lk_mid : forall i a d c, NoDup (ids (a ++ d ++ c)) ->
  match lk i (a ++ d ++ c) with
  | Some q => (In q d /\ lk i d = Some q /\ lk i (a ++ c) = None) \/ (In q (a ++ c) /\ lk i (a ++ c) = Some q /\ lk i d = None)
  | None => lk i d = None /\ lk i (a ++ c) = None
  end.
Proof.
  intros i a d c Hnd. pose proof Hnd as Hnd0. rewrite !ids_app in Hnd.
  assert (Hac : NoDup (ids (a ++ c))) by (rewrite ids_app; eapply NoDup_remove_mid; eassumption).
  assert (Hd : NoDup (ids d)) by (eapply NoDup_mid; eassumption).
  destruct (lk i (a ++ d ++ c)) as [q|] eqn:E.
  - destruct (lk_some _ _ _ E) as [Hq Hqi]. subst i.
    assert (Hq' : In q d \/ In q (a ++ c)).
    { apply in_app_or in Hq. destruct Hq as [Hq|Hq]; [right; apply in_or_app; left; exact Hq|].
      apply in_app_or in Hq. destruct Hq as [Hq|Hq]; [left; exact Hq | right; apply in_or_app; right; exact Hq]. }
    destruct Hq' as [Hq'|Hq'].
    + left. split; [exact Hq'|]. split; [apply lk_in; assumption|]. apply lk_none_iff. intros Hin.
      rewrite ids_app in Hin. apply (mid_disj _ _ _ _ (r_id q) Hnd Hin). apply in_ids. exact Hq'.
    + right. split; [exact Hq'|]. split; [apply lk_in; assumption|]. apply lk_none_iff. intros Hin.
      apply (mid_disj _ _ _ _ (r_id q) Hnd); [rewrite <- ids_app; apply in_ids; exact Hq' | exact Hin].
  - pose proof (lk_none _ _ E) as Hn. rewrite !ids_app in Hn. split; apply lk_none_iff; intros Hin; apply Hn.
    + apply in_or_app. right. apply in_or_app. left. exact Hin.
    + rewrite ids_app in Hin. apply in_app_or in Hin. destruct Hin as [Hin|Hin]; apply in_or_app; [left; exact Hin | right; apply in_or_app; right; exact Hin].
Qed.

Lemma drefs_mid : forall t i a d c, NoDup (ids (a ++ d ++ c)) ->
  drefs t i (a ++ d ++ c) = (drefs t i (a ++ c) + drefs t i d)%nat.
Proof.
  intros t i a d c Hnd. pose proof (lk_mid i a d c Hnd) as H. unfold drefs.
  destruct (lk i (a ++ d ++ c)) as [q|].
  - destruct H as [(_ & -> & ->)|(_ & -> & ->)]; lia.
  - destruct H as [-> ->]. reflexivity.
Qed.

Lemma NoDup_ids_remove_mid : forall a d c, NoDup (ids (a ++ d ++ c)) -> NoDup (ids (a ++ c)).
Proof. intros a d c H. rewrite !ids_app in H. rewrite ids_app. eapply NoDup_remove_mid; eassumption. Qed.

Lemma ids_mid_disj : forall a d c u u', NoDup (ids (a ++ d ++ c)) -> In u (a ++ c) -> In u' d -> r_id u = r_id u' -> False.
Proof.
  intros a d c u u' H Hu Hu' E. rewrite !ids_app in H. apply (mid_disj _ _ _ _ (r_id u) H).
  - rewrite <- ids_app. apply in_ids. exact Hu.
  - rewrite E. apply in_ids. exact Hu'.
Qed.

(* a strict descendant has a holder *)
Lemma strict_holder : forall r u, In u (reps_items (items_of r)) -> exists q, In q (reps_of r) /\ In u (kids (items_of q)).
Proof.
  apply (rep_kids_ind (fun r => forall u, In u (reps_items (items_of r)) -> exists q, In q (reps_of r) /\ In u (kids (items_of q)))).
  intros r IH u Hu. rewrite reps_items_kids in Hu. apply in_flat_map in Hu. destruct Hu as (c & Hc & Hu).
  rewrite reps_of_eq in Hu. destruct Hu as [<-|Hu].
  - exists r. split; [apply reps_of_self | exact Hc].
  - destruct (IH c Hc u Hu) as (q & Hq & Hk). exists q. split; [|exact Hk].
    apply (reps_of_kid r c Hc). exact Hq.
Qed.

(* ---- destroy in place ---- *)
Definition fdestroy (x : rep) : rep := set_fn None (set_valid false x).

Lemma pres_id_fdestroy : pres_id fdestroy.
Proof. intros x. reflexivity. Qed.

Lemma ginv_destroy : forall T P B st id ro,
  GInv T P B st -> lk id (all_reps st) = Some ro -> r_parent ro = None ->
  GInv T P (bindings (reps_of ro) ++ B) (map_rep id fdestroy st).
Proof.
  intros T P B st id ro HG Hlk Hpro.
  pose proof (gi_nodup _ _ _ _ HG) as Hnd.
  destruct (map_rep_destroy_split id fdestroy st ro pres_id_fdestroy Hnd Hlk) as (l1 & l2 & EU & EU' & Hl2).
  set (g := map_in_rep id fdestroy) in *.
  set (st' := map_rep id fdestroy st) in *.
  destruct (lk_some _ _ _ Hlk) as [Hro_in Hro_id].
  assert (Hgid : forall x, r_id (g x) = r_id x) by (intros x; apply map_in_rep_id; exact pres_id_fdestroy).
  assert (Hgro : g ro = fdestroy ro) by (apply map_in_rep_hit; exact Hro_id).
  set (D := reps_items (items_of ro)).
  set (A := l1 ++ [ro]).
  set (S := A ++ l2).
  assert (EU2 : all_reps st = A ++ D ++ l2).
  { rewrite EU, reps_of_eq. unfold A, D. rewrite <- !app_assoc. reflexivity. }
  assert (EU2' : all_reps st' = map g S).
  { rewrite EU'. unfold S, A. rewrite !map_app. cbn [map]. rewrite Hgro.
    rewrite (reps_of_eq (fdestroy ro)). cbn [fdestroy items_of set_fn r_fn reps_items].
    rewrite <- !app_assoc. cbn [app]. f_equal. f_equal.
    rewrite <- (map_id l2) at 1. apply map_ext_in. intros u Hu. symmetry. apply Hl2. exact Hu. }
  assert (HndU : NoDup (ids (A ++ D ++ l2))) by (rewrite <- EU2; exact Hnd).
  assert (HndS : NoDup (ids S)) by (unfold S; eapply NoDup_ids_remove_mid; exact HndU).
  assert (HSU : forall u, In u S -> In u (all_reps st)).
  { intros u Hu. rewrite EU2. unfold S in Hu. apply in_app_or in Hu. apply in_or_app.
    destruct Hu as [Hu|Hu]; [left; exact Hu | right; apply in_or_app; right; exact Hu]. }
  assert (HroS : In ro S) by (unfold S, A; apply in_or_app; left; apply in_or_app; right; left; reflexivity).
  assert (HDU : forall u, In u D -> In u (all_reps st)).
  { intros u Hu. rewrite EU2. apply in_or_app. right. apply in_or_app. left. exact Hu. }
  assert (HSD : forall u u', In u S -> In u' D -> r_id u = r_id u' -> False).
  { intros u u' Hu Hu'. exact (ids_mid_disj A D l2 u u' HndU Hu Hu'). }
  assert (Hne : forall u, In u S -> r_id u = id -> u = ro).
  { intros u Hu E. apply (same_id_same_rep S); try assumption. congruence. }
  assert (Hpar : forall u, r_parent (g u) = r_parent u).
  { intros u. destruct (N.eq_dec (r_id u) id) as [E|E].
    - unfold g. rewrite map_in_rep_hit by exact E. reflexivity.
    - exact (proj1 (proj2 (map_in_rep_other id fdestroy u E))). }
  assert (Hother : forall u, r_id u <> id ->
     r_valid (g u) = r_valid u /\ r_parent (g u) = r_parent u /\
     items_of (g u) = map_items id fdestroy (items_of u) /\ (r_fn (g u) = None <-> r_fn u = None)).
  { intros u E. exact (map_in_rep_other id fdestroy u E). }
  assert (Hitems_ro : items_of (g ro) = []) by (rewrite Hgro; reflexivity).
  assert (Hin' : forall u', In u' (all_reps st') -> exists u, In u S /\ u' = g u).
  { intros u' Hu'. rewrite EU2' in Hu'. apply in_map_iff in Hu'. destruct Hu' as (u & E & Hu). exists u. split; [exact Hu | symmetry; exact E]. }
  assert (Hlk' : forall i, lk i (all_reps st') = option_map g (lk i S)).
  { intros i. rewrite EU2'. apply lk_map. exact Hgid. }
  assert (HlkS : forall i q, lk i S = Some q -> lk i (all_reps st) = Some q).
  { intros i q Hq. destruct (lk_some _ _ _ Hq) as [Hq1 Hq2]. subst i. apply lk_in; [exact Hnd | apply HSU; exact Hq1]. }
  assert (Hlive : forall s, live_var s st' = option_map (option_map g) (live_var s st)) by (intros s; apply live_var_map_rep).
  assert (Hlive_none : forall s, live_var s st' <> None <-> live_var s st <> None).
  { intros s. rewrite Hlive. destruct (live_var s st); cbn; split; intros H; congruence. }
  assert (HinB : forall i it, In (i, it) (bindings (reps_of ro)) -> exists d, In d (all_reps st) /\ r_id d = i /\ In it (items_of d)).
  { intros i it Hi. apply in_bindings in Hi. destruct Hi as (d & Hd & E & Hit). exists d. split; [|split; assumption].
    apply (all_reps_sub_closed st ro Hro_in). exact Hd. }
  constructor.
  - rewrite EU2'. unfold ids. rewrite map_map. erewrite map_ext; [exact HndS|]. intros x. apply Hgid.
  - exact (gi_next _ _ _ _ HG).
  - intros u' Hu'. destruct (Hin' u' Hu') as (u & Hu & ->). rewrite Hgid. exact (gi_idpos _ _ _ _ HG u (HSU u Hu)).
  - intros u' t Hu' Ht. destruct (Hin' u' Hu') as (u & Hu & ->).
    destruct (N.eq_dec (r_id u) id) as [E|E].
    + rewrite (Hne u Hu E), Hitems_ro in Ht. destruct Ht.
    + rewrite (proj1 (proj2 (proj2 (Hother u E)))) in Ht. apply in_track_map_items in Ht.
      exact (gi_track_live _ _ _ _ HG u t (HSU u Hu) Ht).
  - intros u' s Hu' Hs. destruct (Hin' u' Hu') as (u & Hu & ->). apply Hlive_none.
    destruct (N.eq_dec (r_id u) id) as [E|E].
    + rewrite (Hne u Hu E), Hitems_ro in Hs. destruct Hs.
    + rewrite (proj1 (proj2 (proj2 (Hother u E)))) in Hs. apply in_ref_map_items in Hs.
      exact (gi_ref_live _ _ _ _ HG u s (HSU u Hu) Hs).
  - intros i t Hi. apply in_app_or in Hi. destruct Hi as [Hi|Hi].
    + destruct (HinB i _ Hi) as (d & Hd & _ & Hit). exact (gi_track_live _ _ _ _ HG d t Hd Hit).
    + exact (gi_btrack_live _ _ _ _ HG i t Hi).
  - intros i s Hi. apply Hlive_none. apply in_app_or in Hi. destruct Hi as [Hi|Hi].
    + destruct (HinB i _ Hi) as (d & Hd & _ & Hit). exact (gi_ref_live _ _ _ _ HG d s Hd Hit).
    + exact (gi_bref_live _ _ _ _ HG i s Hi).
  - intros [i it] Hb. apply in_app_or in Hb. destruct Hb as [Hb|Hb].
    + destruct (HinB i it Hb) as (d & Hd & <- & _). exact (proj1 (gi_idpos _ _ _ _ HG d Hd)).
    + exact (gi_bpos _ _ _ _ HG _ Hb).
  - exact (gi_clearing _ _ _ _ HG).
  - exact (gi_armed _ _ _ _ HG).
  - intros t x i Hx. rewrite (gi_regs _ _ _ _ HG t x i Hx). rewrite bcount_app.
    assert (Hndro : NoDup (ids (reps_of ro))) by (eapply NoDup_sub_st; eassumption).
    rewrite (bcount_bindings t i (reps_of ro) Hndro).
    rewrite EU2. rewrite (drefs_mid t i A D l2 HndU). fold S.
    rewrite reps_of_eq, drefs_cons. fold D.
    assert (E1 : drefs t i (all_reps st') = if N.eqb (r_id ro) i then O else drefs t i S).
    { unfold drefs. rewrite Hlk'. destruct (N.eqb (r_id ro) i) eqn:E.
      - apply N.eqb_eq in E. rewrite <- E. rewrite (lk_in S ro HndS HroS).
        cbn [option_map]. rewrite Hgro. reflexivity.
      - destruct (lk i S) as [q|] eqn:Eq; cbn [option_map]; [|reflexivity].
        destruct (lk_some _ _ _ Eq) as [Hq1 Hq2].
        assert (Hq3 : r_id q <> id). { intros E3. rewrite (Hne q Hq1 E3) in Hq2. rewrite Hq2, N.eqb_refl in E. discriminate. }
        rewrite !direct_refs_eq. rewrite (proj1 (proj2 (proj2 (Hother q Hq3)))).
        rewrite filter_track_map_items. reflexivity. }
    rewrite E1. destruct (N.eqb (r_id ro) i) eqn:E.
    + apply N.eqb_eq in E. subst i.
      assert (E2 : drefs t (r_id ro) S = direct_refs t ro) by (unfold drefs; rewrite (lk_in S ro HndS HroS); reflexivity).
      assert (E3 : drefs t (r_id ro) D = O).
      { apply drefs_absent. intros Hin. unfold ids in Hin. apply in_map_iff in Hin. destruct Hin as (d & Ed & Hd).
        exact (HSD ro d HroS Hd (eq_sym Ed)). }
      rewrite E2, E3. lia.
    + lia.
  - intros u' p Hu' Hp. destruct (Hin' u' Hu') as (u & Hu & ->). rewrite Hpar in Hp.
    destruct (gi_parent _ _ _ _ HG u p (HSU u Hu) Hp) as [(q & Hq & Hw)|(s & Hs & Hw)].
    + destruct (lk_some _ _ _ Hq) as [Hq_in Hq_id].
      pose proof (lk_mid p A D l2 HndU) as Hmid. rewrite <- EU2, Hq in Hmid. fold S in Hmid.
      assert (Hcase : (In q S /\ lk p S = Some q /\ r_id q <> id) \/ In q (reps_of ro)).
      { destruct Hmid as [(HqD & _ & _)|(HqS & HlkS' & _)].
        - right. rewrite reps_of_eq. right. exact HqD.
        - destruct (N.eq_dec (r_id q) id) as [E|E].
          + right. rewrite (Hne q HqS E). apply reps_of_self.
          + left. repeat split; assumption. }
      destruct Hcase as [(HqS & HlkS' & Hqne)|Hqro].
      * left. exists (g q). rewrite Hlk', HlkS'. split; [reflexivity|].
        pose proof (Hother q Hqne) as (_ & _ & Hit & _). rewrite Hit.
        destruct Hw as [Hw|(s & Hs & Hw)].
        -- left. rewrite kids_map_items. apply in_map. exact Hw.
        -- right. exists s. split; [apply in_ref_map_items; exact Hs|]. rewrite Hlive, Hw. reflexivity.
      * destruct Hw as [Hw|(s & Hs & Hw)].
        -- exfalso. assert (HuD : In u D).
           { apply (strict_trans ro q Hqro). rewrite reps_items_kids. apply in_flat_map. exists u. split; [exact Hw | apply reps_of_self]. }
           exact (HSD u u Hu HuD eq_refl).
        -- right. exists s. split; [|rewrite Hlive, Hw; reflexivity].
           apply in_or_app. left. apply in_bindings. exists q. repeat split; assumption.
    + right. exists s. split; [apply in_or_app; right; exact Hs | rewrite Hlive, Hw; reflexivity].
  - intros q' c' Hq' Hc'. destruct (Hin' q' Hq') as (q & Hq & ->).
    destruct (N.eq_dec (r_id q) id) as [E|E].
    + rewrite (Hne q Hq E), Hitems_ro in Hc'. destruct Hc'.
    + pose proof (Hother q E) as (_ & _ & Hit & _). rewrite Hit, kids_map_items in Hc'.
      apply in_map_iff in Hc'. destruct Hc' as (c & <- & Hc). fold g. rewrite Hpar, !Hgid.
      exact (gi_vcp _ _ _ _ HG q c (HSU q Hq) Hc).
  - intros i po r' Hi Hr'. rewrite Hlk' in Hr'. destruct (lk i S) as [r|] eqn:Er; [|discriminate].
    cbn [option_map] in Hr'. injection Hr' as <-. rewrite Hpar.
    destruct (gi_pending _ _ _ _ HG i po r Hi (HlkS i r Er)) as [Hv Hp]. split; [|exact Hp].
    destruct (N.eq_dec (r_id r) id) as [E|E].
    + unfold g. rewrite map_in_rep_hit by exact E. reflexivity.
    + rewrite (proj1 (Hother r E)). exact Hv.
  - intros u' Hu' Hfn'. destruct (Hin' u' Hu') as (u & Hu & ->).
    destruct (N.eq_dec (r_id u) id) as [E|E].
    + unfold g. rewrite map_in_rep_hit by exact E. reflexivity.
    + pose proof (Hother u E) as (Hv & _ & _ & Hfn). rewrite Hv.
      apply (gi_fnvalid _ _ _ _ HG u (HSU u Hu)). apply Hfn. exact Hfn'.
  - intros q' c' Hq' Hc' Hfn'. destruct (Hin' q' Hq') as (q & Hq & ->).
    destruct (N.eq_dec (r_id q) id) as [E|E].
    + rewrite (Hne q Hq E), Hitems_ro in Hc'. destruct Hc'.
    + pose proof (Hother q E) as (_ & _ & Hit & _). rewrite Hit, kids_map_items in Hc'.
      apply in_map_iff in Hc'. destruct Hc' as (c & <- & Hc). fold g. rewrite !Hgid. fold g in Hfn'.
      destruct (N.eq_dec (r_id c) id) as [Ec|Ec].
      * assert (c = ro).
        { apply (same_id_same_rep (all_reps st)); try assumption; [|congruence].
          eapply all_reps_kid_closed; [apply HSU; exact Hq | exact Hc]. }
        subst c. destruct (gi_vcp _ _ _ _ HG q ro (HSU q Hq) Hc) as [H|[_ H]]; [congruence | exact H].
      * apply (gi_kidfn _ _ _ _ HG q c (HSU q Hq) Hc). apply (proj2 (proj2 (proj2 (Hother c Ec)))). exact Hfn'.
Qed.
