(* Properties_C10.v -- adaptors transform arguments and results exactly as documented. *)
From Coq Require Import List String ZArith NArith Bool.
Import ListNotations.
Require Import GenTypes AdaptorModel AdaptorProofs gen.Tables.
Local Open Scope string_scope.
Local Open Scope list_scope.

(* obligation over the regenerated slicing arithmetic of bind_functor / hide_functor *)
Theorem C10_gen_slices_ok : slices_ok gen_slices = true.
Proof. vm_compute. reflexivity. Qed.
Print Assumptions C10_gen_slices_ok.

(* for every expression, arity, position, nesting, and whichever way the pack is passed along: the
   leaves observe the values, and the caller the result, that the documentation promises *)
Theorem C10_call_eq_doc :
  forall M S, slices_ok S = true ->
  forall e d args, wt e (List.length args) = true -> wf_values e = true ->
    exists l r, call M S e d args = COk l r /\ result_val r = result_val (snd (call_doc e args)) /\
                log_values l = log_values (fst (call_doc e args)).
Proof. exact call_eq_doc. Qed.
Print Assumptions C10_call_eq_doc.

Corollary C10_library_call_eq_doc :
  forall e d args, wt e (List.length args) = true -> wf_values e = true ->
    exists l r, call gen_hop_modes gen_slices e d args = COk l r /\ result_val r = result_val (snd (call_doc e args)) /\
                log_values l = log_values (fst (call_doc e args)).
Proof. exact (call_eq_doc gen_hop_modes gen_slices C10_gen_slices_ok). Qed.
Print Assumptions C10_library_call_eq_doc.

(* direct call, call through a slot (and hence through a signal, whose emitters call the slot's
   call_ with the emitted arguments: SigCore.invoke_at): same leaf values, same result *)
Theorem C10_route_independent :
  forall M S, slices_ok S = true ->
  forall e args, wt e (List.length args) = true -> wf_values e = true ->
    exists l1 l2 r1 r2, call M S e true args = COk l1 r1 /\ call M S (FSlot e) true args = COk l2 r2 /\
                        result_val r1 = result_val r2 /\ log_values l1 = log_values l2.
Proof. exact route_independent. Qed.
Print Assumptions C10_route_independent.

(* the documented meaning of each adaptor, spelled out *)
Theorem C10_bind_inserts_at :
  forall i f bs args, call_doc (FBind (Some i) f bs) args = call_doc f (firstn i args ++ map bound_arg bs ++ skipn i args).
Proof. reflexivity. Qed.
Theorem C10_bind_appends :
  forall f bs args, call_doc (FBind None f bs) args = call_doc f (args ++ map bound_arg bs).
Proof. reflexivity. Qed.
Theorem C10_hide_removes :
  forall i f args, call_doc (FHide (Some i) f) args = call_doc f (firstn i args ++ skipn (S i) args).
Proof. reflexivity. Qed.
Theorem C10_hide_last :
  forall f args, call_doc (FHide None f) args = call_doc f (removelast args).
Proof. reflexivity. Qed.
Theorem C10_exception_catch_exact :
  forall f c args, snd (call_doc (FExcCatch f c) args) =
    match snd (call_doc f args) with RThrow => catcher_result c | r => r end.
Proof. exact exception_catch_exact. Qed.
(* a catcher that does not handle the exception lets it reach the caller (C08: the exception propagates) *)
Theorem C10_exception_catch_rethrow_propagates :
  forall f c args, (5000 <= c)%N -> snd (call_doc f args) = RThrow -> snd (call_doc (FExcCatch f c) args) = RThrow.
Proof. exact exception_catch_rethrow. Qed.
Theorem C10_bind_return_returns_bound :
  forall f b args, snd (call_doc f args) <> RThrow -> snd (call_doc (FBindReturn f b) args) = RInt (bound_result b).
Proof. exact bind_return_returns_bound. Qed.
Theorem C10_track_object_transparent :
  forall f ts args, call_doc (FTrackObj f ts) args = call_doc f args.
Proof. reflexivity. Qed.

(* an off-by-one in the slicing arithmetic is caught by the obligation, and is a real difference *)
Example C10_bad_slices_refuted :
  let S := [("bind_functor", [("tuple_start", ALoc); ("tuple_end", ASub (ASub ASize ALoc) (AConst 1))])] ++ gen_slices in
  slices_ok S = false /\
  exists l r, call gen_hop_modes S (FBind (Some 1) (FLeaf 1 false) [BVal 9]) true [mkArg 1 (IOrig 0); mkArg 2 (IOrig 1); mkArg 3 (IOrig 2)] = COk l r /\
              log_values l <> log_values (fst (call_doc (FBind (Some 1) (FLeaf 1 false) [BVal 9]) [mkArg 1 (IOrig 0); mkArg 2 (IOrig 1); mkArg 3 (IOrig 2)])).
Proof. vm_compute. split; [reflexivity|]. eexists; eexists; split; [reflexivity|]. discriminate. Qed.

Example C10_example :
  call_doc (FHide None (FBind (Some 1) (FLeaf 1 false) [BVal 50; BVal 60])) [mkArg 1 (IOrig 0); mkArg 2 (IOrig 1); mkArg 3 (IOrig 2)]
  = ([(1%N, [mkArg 1 (IOrig 0); mkArg 50 ICopy; mkArg 60 ICopy; mkArg 2 (IOrig 1)])], RInt 1289).
Proof. vm_compute. reflexivity. Qed.
