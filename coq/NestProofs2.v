(* NestProofs2.v -- the forest as a flat list: find = lookup in the preorder list, effect of
   map_rep on the list, structure lemmas. *)
From Coq Require Import List NArith Bool Arith Lia Permutation.
Import ListNotations.
Require Import Util NestModel NestSpec NestProofs1.
Local Open Scope N_scope.

Definition ids (l : list rep) : list N := map r_id l.
Definition lk (id : N) (U : list rep) : option rep := find (fun u => N.eqb (r_id u) id) U.
Definition RL (F : list rep) : list rep := flat_map reps_of F.

Fixpoint tops (l : list (N * option (option rep))) : list rep :=
  match l with
  | [] => []
  | (_, Some (Some r)) :: tl => r :: tops tl
  | _ :: tl => tops tl
  end.

Lemma tops_app : forall l1 l2, tops (l1 ++ l2) = tops l1 ++ tops l2.
Proof.
  induction l1 as [|[k [[r|]|]] tl IH]; intros l2; cbn [app tops]; rewrite ?IH; reflexivity.
Qed.

Lemma RL_app : forall F1 F2, RL (F1 ++ F2) = RL F1 ++ RL F2.
Proof. intros. unfold RL. apply flat_map_app. Qed.

Lemma all_reps_tops : forall st, all_reps st = RL (tops (vars st)).
Proof.
  intros st. unfold all_reps, RL. induction (vars st) as [|[k [[r|]|]] tl IH]; cbn [flat_map tops app]; rewrite ?IH; reflexivity.
Qed.

(* ---- lk ---- *)
Lemma lk_some : forall id U r, lk id U = Some r -> In r U /\ r_id r = id.
Proof.
  intros id U r H. unfold lk in H. apply find_some in H. destruct H as [H1 H2].
  apply N.eqb_eq in H2. split; assumption.
Qed.

Lemma lk_none : forall id U, lk id U = None -> ~ In id (ids U).
Proof.
  intros id U H Hin. unfold ids in Hin. apply in_map_iff in Hin. destruct Hin as (u & Hu & Hin).
  unfold lk in H. pose proof (find_none _ _ H u Hin) as H1. cbn in H1. rewrite Hu, N.eqb_refl in H1. discriminate.
Qed.

Lemma lk_none_iff : forall id U, lk id U = None <-> ~ In id (ids U).
Proof.
  intros id U. split; [apply lk_none|].
  intros H. destruct (lk id U) eqn:E; [|reflexivity].
  apply lk_some in E. destruct E as [E1 E2]. exfalso. apply H. unfold ids. apply in_map_iff. exists r. split; assumption.
Qed.

Lemma lk_app : forall id U1 U2, lk id (U1 ++ U2) = match lk id U1 with Some r => Some r | None => lk id U2 end.
Proof.
  intros id U1 U2. unfold lk. induction U1 as [|u tl IH]; cbn [app find]; [reflexivity|].
  destruct (N.eqb (r_id u) id); [reflexivity | exact IH].
Qed.

Lemma lk_in : forall U r, NoDup (ids U) -> In r U -> lk (r_id r) U = Some r.
Proof.
  induction U as [|u tl IH]; intros r Hnd Hin; [destruct Hin|].
  cbn [ids map] in Hnd. inversion Hnd as [|x l Hx Hnd']; subst.
  unfold lk. cbn [find]. destruct Hin as [->|Hin].
  - rewrite N.eqb_refl. reflexivity.
  - destruct (N.eqb (r_id u) (r_id r)) eqn:E.
    + apply N.eqb_eq in E. exfalso. apply Hx. rewrite E. apply in_map. exact Hin.
    + apply IH; assumption.
Qed.

Lemma lk_in_iff : forall U r, NoDup (ids U) -> (lk (r_id r) U = Some r <-> In r U).
Proof.
  intros U r Hnd. split; [intros H; apply lk_some in H; tauto | apply lk_in; exact Hnd].
Qed.

Lemma same_id_same_rep : forall U a b, NoDup (ids U) -> In a U -> In b U -> r_id a = r_id b -> a = b.
Proof.
  intros U a b Hnd Ha Hb E. pose proof (lk_in U a Hnd Ha) as H1. pose proof (lk_in U b Hnd Hb) as H2.
  rewrite E in H1. congruence.
Qed.

(* ---- find = lk on the preorder list ---- *)
Lemma find_reps_lk_aux : forall id F, (forall c, In c F -> find_in_rep id c = lk id (reps_of c)) ->
  find_reps id F = lk id (RL F).
Proof.
  induction F as [|c tl IH]; intros H; [reflexivity|].
  cbn [find_reps RL flat_map]. rewrite lk_app. rewrite H by (left; reflexivity).
  destruct (lk id (reps_of c)); [reflexivity|]. apply IH. intros c' Hc'. apply H. right. exact Hc'.
Qed.

Lemma find_in_rep_lk : forall id r, find_in_rep id r = lk id (reps_of r).
Proof.
  intros id. apply rep_kids_ind. intros r IH.
  rewrite find_in_rep_eq, reps_of_eq. unfold lk at 1. cbn [find].
  destruct (N.eqb (r_id r) id); [reflexivity|].
  rewrite find_items_kids, reps_items_kids. apply find_reps_lk_aux. exact IH.
Qed.

Lemma find_reps_lk : forall id F, find_reps id F = lk id (RL F).
Proof. intros. apply find_reps_lk_aux. intros. apply find_in_rep_lk. Qed.

Lemma find_in_vars_tops : forall id l, find_in_vars id l = find_reps id (tops l).
Proof.
  induction l as [|[k [[r|]|]] tl IH]; cbn [find_in_vars tops find_reps]; rewrite ?IH; reflexivity.
Qed.

Lemma find_rep_lk : forall id st, find_rep id st = lk id (all_reps st).
Proof. intros. unfold find_rep. rewrite find_in_vars_tops, find_reps_lk, all_reps_tops. reflexivity. Qed.

(* ---- closure of reps_of ---- *)
Lemma reps_of_self : forall r, In r (reps_of r).
Proof. intros. rewrite reps_of_eq. left. reflexivity. Qed.

Lemma reps_of_kid : forall r c, In c (kids (items_of r)) -> incl (reps_of c) (reps_of r).
Proof.
  intros r c Hc x Hx. rewrite reps_of_eq. right. rewrite reps_items_kids. apply in_flat_map. exists c. split; assumption.
Qed.

Lemma reps_of_trans : forall r q, In q (reps_of r) -> incl (reps_of q) (reps_of r).
Proof.
  apply (rep_kids_ind (fun r => forall q, In q (reps_of r) -> incl (reps_of q) (reps_of r))).
  intros r IH q Hq. rewrite reps_of_eq in Hq. destruct Hq as [<-|Hq]; [apply incl_refl|].
  rewrite reps_items_kids in Hq. apply in_flat_map in Hq. destruct Hq as (c & Hc & Hq).
  eapply incl_tran; [apply IH; eassumption | apply reps_of_kid; exact Hc].
Qed.

Lemma strict_trans : forall r q, In q (reps_of r) -> incl (reps_items (items_of q)) (reps_items (items_of r)).
Proof.
  intros r q Hq x Hx. rewrite reps_of_eq in Hq. destruct Hq as [<-|Hq]; [exact Hx|].
  rewrite reps_items_kids in Hq. apply in_flat_map in Hq. destruct Hq as (c & Hc & Hq).
  rewrite reps_items_kids. apply in_flat_map. exists c. split; [exact Hc|].
  apply (reps_of_trans c q Hq). rewrite reps_of_eq. right. exact Hx.
Qed.

Lemma RL_in : forall F x, In x (RL F) <-> exists r, In r F /\ In x (reps_of r).
Proof. intros. unfold RL. apply in_flat_map. Qed.

Lemma RL_kid_closed : forall F q c, In q (RL F) -> In c (kids (items_of q)) -> In c (RL F).
Proof.
  intros F q c Hq Hc. apply RL_in in Hq. destruct Hq as (r & Hr & Hq). apply RL_in. exists r. split; [exact Hr|].
  apply (reps_of_trans r q Hq). apply (reps_of_kid q c Hc). apply reps_of_self.
Qed.

Lemma RL_sub_closed : forall F q, In q (RL F) -> incl (reps_of q) (RL F).
Proof.
  intros F q Hq x Hx. apply RL_in in Hq. destruct Hq as (r & Hr & Hq). apply RL_in. exists r. split; [exact Hr|].
  apply (reps_of_trans r q Hq). exact Hx.
Qed.

(* NoDup helpers *)
Lemma NoDup_app_l : forall (A : Type) (l1 l2 : list A), NoDup (l1 ++ l2) -> NoDup l1.
Proof. intros A l1 l2 H. induction l1 as [|a tl IH]; [constructor|]. cbn in H. inversion H; subst. constructor; [intros Hin; apply H2; apply in_or_app; left; exact Hin | apply IH; assumption]. Qed.
Lemma NoDup_app_r : forall (A : Type) (l1 l2 : list A), NoDup (l1 ++ l2) -> NoDup l2.
Proof. intros A l1 l2 H. induction l1 as [|a tl IH]; [exact H|]. cbn in H. inversion H; subst. apply IH; assumption. Qed.
Lemma NoDup_app_disj : forall (A : Type) (l1 l2 : list A) x, NoDup (l1 ++ l2) -> In x l1 -> In x l2 -> False.
Proof.
  intros A l1 l2 x H H1 H2. induction l1 as [|a tl IH]; [destruct H1|]. cbn in H. inversion H; subst.
  destruct H1 as [->|H1]; [apply H4; apply in_or_app; right; exact H2 | apply IH; assumption].
Qed.
Lemma NoDup_app_intro : forall (A : Type) (l1 l2 : list A), NoDup l1 -> NoDup l2 -> (forall x, In x l1 -> In x l2 -> False) -> NoDup (l1 ++ l2).
Proof.
  intros A l1 l2 H1 H2 Hd. induction l1 as [|a tl IH]; [exact H2|]. cbn. inversion H1; subst. constructor.
  - intros Hin. apply in_app_or in Hin. destruct Hin as [Hin|Hin]; [contradiction | apply (Hd a); [left; reflexivity | exact Hin]].
  - apply IH; [assumption|]. intros x Hx1 Hx2. apply (Hd x); [right; exact Hx1 | exact Hx2].
Qed.

Lemma ids_app : forall l1 l2, ids (l1 ++ l2) = ids l1 ++ ids l2.
Proof. intros. unfold ids. apply map_app. Qed.

Lemma in_ids : forall x l, In x l -> In (r_id x) (ids l).
Proof. intros. unfold ids. apply in_map. assumption. Qed.

(* a root is not a by-value child of anything in the forest *)
Lemma root_not_kid : forall F r q c, NoDup (ids (RL F)) -> In r F -> In q (RL F) -> In c (kids (items_of q)) ->
  r_id c <> r_id r.
Proof.
  intros F r q c Hnd Hr Hq Hc.
  assert (Hstrict : exists r', In r' F /\ In c (reps_items (items_of r'))).
  { apply RL_in in Hq. destruct Hq as (r' & Hr' & Hq). exists r'. split; [exact Hr'|].
    apply (strict_trans r' q Hq). rewrite reps_items_kids. apply in_flat_map. exists c. split; [exact Hc | apply reps_of_self]. }
  destruct Hstrict as (r' & Hr' & Hcs). clear q Hq Hc.
  induction F as [|a tl IH]; [destruct Hr|].
  cbn [RL flat_map] in Hnd. fold (RL tl) in Hnd. rewrite ids_app in Hnd.
  intros E.
  destruct Hr as [->|Hr]; destruct Hr' as [->|Hr'].
  - apply NoDup_app_l in Hnd. rewrite reps_of_eq in Hnd. cbn [ids map] in Hnd. inversion Hnd; subst.
    apply H1. rewrite <- E. apply in_ids. exact Hcs.
  - apply (NoDup_app_disj _ _ _ (r_id r) Hnd).
    + apply in_ids. apply reps_of_self.
    + rewrite <- E. apply in_ids. apply RL_in. exists r'. split; [exact Hr'|]. rewrite reps_of_eq. right. exact Hcs.
  - apply (NoDup_app_disj _ _ _ (r_id r) Hnd).
    + rewrite <- E. apply in_ids. rewrite reps_of_eq. right. exact Hcs.
    + apply in_ids. apply RL_in. exists r. split; [exact Hr | apply reps_of_self].
  - apply NoDup_app_r in Hnd. exact (IH Hnd Hr Hr' E).
Qed.
