(* NestProofs9.v -- clone_rep: the copy is a well-formed fresh tree, bound to everything it refers to *)
From Coq Require Import List NArith Bool Arith Lia Permutation.
Import ListNotations.
Require Import Util NestModel NestSpec NestProofs1 NestProofs2 NestProofs3 NestProofs4 NestProofs5 NestProofs6 NestProofs7 NestProofs8.
Local Open Scope N_scope.

Definition cl_ok (st : nstate) (r : rep) : Prop :=
  forall x, In x (reps_of r) ->
    (r_valid x = true -> r_fn x <> None) /\
    (forall t, In (ITrack t) (items_of x) -> live_tr t st <> None) /\
    (forall s, In (IRef s) (items_of x) -> live_var s st <> None).

Lemma cl_ok_frame : forall st st' r, VFrame st st' -> cl_ok st r -> cl_ok st' r.
Proof.
  intros st st' r F H x Hx. destruct (H x Hx) as (H1 & H2 & H3). split; [exact H1|]. split.
  - intros t Ht. apply (VFrame_live_tr st st' t F). exact (H2 t Ht).
  - intros s Hs. apply (VFrame_live_var st st' s F). exact (H3 s Hs).
Qed.

Lemma cl_ok_kid : forall st r c, cl_ok st r -> In c (kids (items_of r)) -> cl_ok st c.
Proof. intros st r c H Hc x Hx. apply H. apply (reps_of_kid r c Hc). exact Hx. Qed.

Definition NewF (lo hi : N) (F : list rep) : Prop :=
  NoDup (ids (RL F)) /\ (forall x, In x (RL F) -> lo <= r_id x /\ r_id x < hi) /\
  (forall q k, In q (RL F) -> In k (kids (items_of q)) -> r_parent k = Some (r_id q)) /\
  (forall x, In x (RL F) -> r_valid x = true /\ r_fn x <> None).

Lemma NewF_nil : forall lo hi, NewF lo hi [].
Proof. intros. repeat split; try (intros; contradiction). constructor. Qed.

Lemma NewF_weaken : forall lo hi lo' hi' F, NewF lo hi F -> lo' <= lo -> hi <= hi' -> NewF lo' hi' F.
Proof.
  intros lo hi lo' hi' F (H1 & H2 & H3 & H4) Hl Hh. split; [exact H1|]. split; [|split; assumption].
  intros x Hx. destruct (H2 x Hx). split; lia.
Qed.

Lemma NewF_cons : forall a b d c F, NewF a b [c] -> NewF b d F -> b <= d -> NewF a d (c :: F).
Proof.
  intros a b d c F (A1 & A2 & A3 & A4) (B1 & B2 & B3 & B4) Hbd. unfold NewF.
  cbn [RL flat_map] in *. rewrite app_nil_r in *. fold (RL F).
  assert (Hin : forall x, In x (reps_of c ++ RL F) -> In x (reps_of c) \/ In x (RL F)) by (intros x Hx; apply in_app_or; exact Hx).
  assert (Hab : a <= b) by (destruct (A2 c (reps_of_self c)); lia).
  split; [|split; [|split]].
  - rewrite ids_app. apply NoDup_app_intro; [exact A1 | exact B1|].
    intros i H1 H2. unfold ids in H1, H2. apply in_map_iff in H1. apply in_map_iff in H2.
    destruct H1 as (x & <- & Hx). destruct H2 as (y & E & Hy). destruct (A2 x Hx). destruct (B2 y Hy). lia.
  - intros x Hx. destruct (Hin x Hx) as [H|H]; [destruct (A2 x H) | destruct (B2 x H)]; split; lia.
  - intros q k Hq Hk. destruct (Hin q Hq) as [H|H]; [exact (A3 q k H Hk) | exact (B3 q k H Hk)].
  - intros x Hx. destruct (Hin x Hx) as [H|H]; [exact (A4 x H) | exact (B4 x H)].
Qed.

(* ---- adopt_kids ---- *)
Lemma kids_adopt : forall me l, (forall k, In k (kids l) -> r_parent k = None) ->
  kids (adopt_kids me l) = map (set_parent (Some me)) (kids l).
Proof.
  intros me l. unfold adopt_kids. induction l as [|it tl IH]; intros H; [reflexivity|].
  destruct it as [t|s|[r'|]]; cbn [map kids] in *; try (apply IH; exact H).
  rewrite (H r' (or_introl eq_refl)). cbn [kids map]. f_equal. apply IH. intros k Hk. apply H. right. exact Hk.
Qed.

Lemma in_adopt_nonval : forall me l it, In it (adopt_kids me l) -> (forall v, it <> IVal v) -> In it l.
Proof.
  intros me l it. unfold adopt_kids. induction l as [|a tl IH]; intros Hin Hnv; [destruct Hin|].
  cbn [map] in Hin. destruct Hin as [E|Hin]; [|right; apply IH; assumption].
  left. destruct a as [t|s|[r'|]]; try exact E.
  destruct (r_parent r'); [exact E|]. exfalso. apply (Hnv (Some (set_parent (Some me) r'))). symmetry. exact E.
Qed.

Lemma reps_of_spk : forall p k, reps_of (set_parent p k) = set_parent p k :: reps_items (items_of k).
Proof. intros p k. rewrite reps_of_eq. reflexivity. Qed.

Lemma ids_RL_spk : forall p F, ids (RL (map (set_parent p) F)) = ids (RL F).
Proof.
  intros p F. induction F as [|k tl IH]; [reflexivity|].
  cbn [map RL flat_map]. fold (RL tl). fold (RL (map (set_parent p) tl)). rewrite !ids_app, IH.
  rewrite reps_of_spk, (reps_of_eq k). reflexivity.
Qed.

Lemma bindings_RL_spk : forall p F, bindings (RL (map (set_parent p) F)) = bindings (RL F).
Proof.
  intros p F. induction F as [|k tl IH]; [reflexivity|].
  cbn [map RL flat_map]. fold (RL tl). fold (RL (map (set_parent p) tl)). rewrite !bindings_app, IH.
  rewrite reps_of_spk, (reps_of_eq k). reflexivity.
Qed.

Lemma in_RL_spk : forall p F x, In x (RL (map (set_parent p) F)) ->
  exists y, In y (RL F) /\ r_id x = r_id y /\ items_of x = items_of y /\ r_valid x = r_valid y /\ r_fn x = r_fn y.
Proof.
  intros p F x Hx. apply RL_in in Hx. destruct Hx as (r & Hr & Hx). apply in_map_iff in Hr. destruct Hr as (k & <- & Hk).
  rewrite reps_of_spk in Hx. destruct Hx as [<-|Hx].
  - exists k. split; [apply RL_in; exists k; split; [exact Hk | apply reps_of_self]|]. repeat split; reflexivity.
  - exists x. split; [apply RL_in; exists k; split; [exact Hk | rewrite reps_of_eq; right; exact Hx]|]. repeat split; reflexivity.
Qed.

(* ---- what a copy does to the existing reps: nothing, except adopting referenced slot variables ---- *)
Definition shape (l : list item) : list N :=
  map (fun it => match it with IVal _ => 0 | ITrack t => 1 + t | IRef x => 1000 + x end) l.

Definition CRel (n : N) (st st' : nstate) : Prop :=
  forall r, In r (all_reps st) ->
    exists r', In r' (all_reps st') /\ r_id r' = r_id r /\ r_valid r' = r_valid r /\
               shape (items_of r') = shape (items_of r) /\
               (r_parent r' = r_parent r \/ (r_parent r = None /\ exists p, r_parent r' = Some p /\ n <= p)).

Lemma CRel_same : forall n st st', all_reps st' = all_reps st -> CRel n st st'.
Proof. intros n st st' E r Hr. exists r. rewrite E. split; [exact Hr|]. repeat split; try reflexivity. left. reflexivity. Qed.

Lemma CRel_refl : forall n st, CRel n st st.
Proof. intros. apply CRel_same. reflexivity. Qed.

Lemma CRel_weaken : forall n n' st st', n <= n' -> CRel n' st st' -> CRel n st st'.
Proof.
  intros n n' st st' Hn H r Hr. destruct (H r Hr) as (r' & H1 & H2 & H3 & H4 & H5). exists r'. repeat split; try assumption.
  destruct H5 as [H5|(H5 & p & H6 & H7)]; [left; exact H5 | right; split; [exact H5|]; exists p; split; [exact H6 | lia]].
Qed.

Lemma CRel_trans : forall n a b c, CRel n a b -> CRel n b c -> CRel n a c.
Proof.
  intros n a b c H1 H2 r Hr. destruct (H1 r Hr) as (r' & A1 & A2 & A3 & A4 & A5). destruct (H2 r' A1) as (r'' & B1 & B2 & B3 & B4 & B5).
  exists r''. split; [exact B1|]. split; [congruence|]. split; [congruence|]. split; [congruence|].
  destruct A5 as [A5|(A5 & p & A6 & A7)].
  - destruct B5 as [B5|(B5 & p & B6 & B7)]; [left; congruence | right; split; [congruence|]; exists p; split; assumption].
  - destruct B5 as [B5|(B5 & p' & B6 & B7)]; [right; split; [exact A5|]; exists p; split; [congruence | exact A7] | congruence].
Qed.

Lemma shape_map_items : forall id f l, shape (map_items id f l) = shape l.
Proof.
  intros id f l. induction l as [|it tl IH]; [reflexivity|].
  destruct it as [t|s|[r'|]]; cbn [map_items shape map]; fold (shape tl); fold (shape (map_items id f tl)); rewrite IH; reflexivity.
Qed.

Lemma crel_adopt : forall n me st ro, NoDup (ids (all_reps st)) -> In ro (all_reps st) -> r_parent ro = None -> n <= me ->
  CRel n st (map_rep (r_id ro) (set_parent (Some me)) st).
Proof.
  intros n me st ro Hnd Hro Hp Hn r Hr.
  rewrite (all_reps_map_field (r_id ro) (set_parent (Some me)) (pres_fn_set_parent _) st Hnd).
  exists (map_in_rep (r_id ro) (set_parent (Some me)) r). split; [apply in_map; exact Hr|].
  destruct (N.eq_dec (r_id r) (r_id ro)) as [E|E].
  - assert (r = ro) by (eapply same_id_same_rep; eassumption). subst r.
    rewrite map_in_rep_hit by reflexivity. repeat split; try reflexivity.
    right. split; [exact Hp|]. exists me. split; [reflexivity | exact Hn].
  - pose proof (map_in_rep_other (r_id ro) (set_parent (Some me)) r E) as (H1 & H2 & H3 & _).
    rewrite map_in_rep_id by apply pres_id_set_parent. rewrite H1, H2, H3, shape_map_items. repeat split; try reflexivity. left. reflexivity.
Qed.

Lemma crel_bind_item : forall n me it st st', NoDup (ids (all_reps st)) -> n <= me -> (forall v, it <> IVal v) ->
  bind_item me it st = NOk st' -> CRel n st st'.
Proof.
  intros n me [t|s|v] st st' Hnd Hn Hnv H; cbn [bind_item] in H.
  - unfold track_add in H. destruct (live_tr t st); [|discriminate]. injection H as <-. apply CRel_same. reflexivity.
  - destruct (live_var s st) as [[r|]|] eqn:Hs; [| |discriminate].
    + destruct (r_parent r) as [p|] eqn:Hp; injection H as <-; [apply CRel_refl|].
      apply crel_adopt; try assumption. eapply live_var_in. exact Hs.
    + injection H as <-. apply CRel_refl.
  - exfalso. exact (Hnv v eq_refl).
Qed.

(* ---- binding the non-value items ---- *)
Lemma bind_nonval_ok : forall me l T B st, GInv T [] B st -> 0 < me ->
  (forall t, In (ITrack t) l -> live_tr t st <> None) ->
  (forall s, In (IRef s) l -> live_var s st <> None) ->
  exists st', bind_nonval me l st = NOk st' /\ GInv T [] (rev (map (pair me) l) ++ B) st' /\ VFrame st st' /\ CRel me st st'.
Proof.
  intros me l. induction l as [|it tl IH]; intros T B st HG Hme Ht Hs.
  - exists st. split; [reflexivity|]. split; [exact HG|]. split; [apply VFrame_refl | apply CRel_refl].
  - assert (Hstep : exists st1, (forall tl', bind_nonval me (it :: tl') st = bind_nonval me tl' st1) /\
                       GInv T [] ((me, it) :: B) st1 /\ VFrame st st1 /\ CRel me st st1).
    { destruct it as [t|s|v].
      - destruct (bind_track_ok T [] B st me t HG Hme (Ht t (or_introl eq_refl))) as (st1 & E & H1). exists st1.
        split; [intros tl'; cbn [bind_nonval]; rewrite E; reflexivity|]. split; [exact H1|]. split; [eapply VFrame_bind_item; exact E|].
        eapply crel_bind_item; [exact (gi_nodup _ _ _ _ HG) | apply N.le_refl | | exact E]; intros v; discriminate.
      - destruct (bind_ref_ok T B st me s HG Hme (Hs s (or_introl eq_refl))) as (st1 & E & H1). exists st1.
        split; [intros tl'; cbn [bind_nonval]; rewrite E; reflexivity|]. split; [exact H1|]. split; [eapply VFrame_bind_item; exact E|].
        eapply crel_bind_item; [exact (gi_nodup _ _ _ _ HG) | apply N.le_refl | | exact E]; intros v; discriminate.
      - exists st. split; [intros tl'; reflexivity|]. split; [apply ginv_add_val; assumption|]. split; [apply VFrame_refl | apply CRel_refl]. }
    destruct Hstep as (st1 & E1 & HG1 & F1 & C1).
    destruct (IH T ((me, it) :: B) st1 HG1 Hme) as (st' & E2 & HG2 & F2 & C2).
    + intros t Hin. apply (VFrame_live_tr st st1 t F1). apply Ht. right. exact Hin.
    + intros s Hin. apply (VFrame_live_var st st1 s F1). apply Hs. right. exact Hin.
    + exists st'. split; [rewrite E1; exact E2|]. split; [|split; [eapply VFrame_trans; eassumption | eapply CRel_trans; eassumption]].
      cbn [map rev]. rewrite <- app_assoc. exact HG2.
Qed.

(* ---- the clone ---- *)
Definition clone_spec (r : rep) : Prop :=
  forall T B st, GInv T [] B st -> r_valid r = true -> cl_ok st r ->
  exists c st', clone_rep r st = NOk (c, st') /\ GInv T [] (bindings (reps_of c) ++ B) st' /\ VFrame st st' /\
     NewF (next_id st) (next_id st') [c] /\ r_id c = next_id st /\ r_parent c = None /\ CRel (next_id st) st st'.

Lemma RL_cons : forall c F, RL (c :: F) = reps_of c ++ RL F.
Proof. reflexivity. Qed.

Lemma clone_items_ok : forall l, (forall c, In c (kids l) -> clone_spec c) ->
  forall T B st, GInv T [] B st -> (forall c, In c (kids l) -> cl_ok st c) ->
  exists l' st', clone_items l st = NOk (l', st') /\ GInv T [] (bindings (RL (kids l')) ++ B) st' /\ VFrame st st' /\
    NewF (next_id st) (next_id st') (kids l') /\ (forall k, In k (kids l') -> r_parent k = None) /\
    (forall it, In it l' -> (forall v, it <> IVal v) -> In it l) /\ CRel (next_id st) st st'.
Proof.
  induction l as [|it tl IH]; intros Hspec T B st HG Hok.
  - exists [], st. split; [reflexivity|]. split; [exact HG|]. split; [apply VFrame_refl|]. split; [apply NewF_nil|].
    split; [intros k Hk; destruct Hk|]. split; [intros it Hin; destruct Hin | apply CRel_refl].
  - assert (Hskip : forall x, kids (x :: tl) = kids tl -> clone_items (x :: tl) st = (rest <-- clone_items tl st ;;; NOk (x :: fst rest, snd rest)) ->
        (forall c, In c (kids tl) -> clone_spec c) -> (forall c, In c (kids tl) -> cl_ok st c) ->
        exists l' st', clone_items (x :: tl) st = NOk (l', st') /\ GInv T [] (bindings (RL (kids l')) ++ B) st' /\ VFrame st st' /\
          NewF (next_id st) (next_id st') (kids l') /\ (forall k, In k (kids l') -> r_parent k = None) /\
          (forall it, In it l' -> (forall v, it <> IVal v) -> In it (x :: tl)) /\ CRel (next_id st) st st').
    { intros x Hk Heq Hspec' Hok'. destruct (IH Hspec' T B st HG Hok') as (l'' & st' & E & HG' & F' & N' & Hp' & Hin' & C').
      exists (x :: l''), st'. rewrite Heq, E. cbn [nbind fst snd]. split; [reflexivity|].
      assert (Hk' : kids (x :: l'') = kids l'').
      { destruct x as [t|s|[r'|]]; try reflexivity. cbn [kids] in Hk. exfalso.
        assert (Hlen : length (r' :: kids tl) = length (kids tl)) by (rewrite Hk; reflexivity). cbn in Hlen. lia. }
      rewrite Hk'. split; [exact HG'|]. split; [exact F'|]. split; [exact N'|]. split; [exact Hp'|]. split; [|exact C'].
      intros it' [<-|Hin] Hnv; [left; reflexivity | right; apply Hin'; assumption]. }
    destruct it as [t|s|[r'|]].
    + apply (Hskip (ITrack t)); try reflexivity; assumption.
    + apply (Hskip (IRef s)); try reflexivity; assumption.
    + cbn [kids] in Hspec, Hok. cbn [clone_items].
      destruct (r_valid r') eqn:Hv.
      * destruct (Hspec r' (or_introl eq_refl) T B st HG Hv (Hok r' (or_introl eq_refl))) as (c1 & st1 & E1 & HG1 & F1 & N1 & Hid1 & Hp1 & C1).
        rewrite E1. cbn [nbind fst snd].
        destruct (IH (fun c Hc => Hspec c (or_intror Hc)) T (bindings (reps_of c1) ++ B) st1 HG1) as (l'' & st' & E & HG' & F' & N' & Hp' & Hin' & C').
        { intros c Hc. apply (cl_ok_frame st st1 c F1). apply Hok. right. exact Hc. }
        rewrite E. cbn [nbind fst snd]. exists (IVal (Some c1) :: l''), st'. split; [reflexivity|].
        cbn [kids]. split; [|split; [eapply VFrame_trans; eassumption|split; [|split; [|split]]]].
        -- rewrite RL_cons, bindings_app, <- app_assoc.
           eapply ginv_perm; [|exact HG']. rewrite !app_assoc. apply Permutation_app_tail. apply Permutation_app_comm.
        -- eapply NewF_cons; [exact N1 | exact N' | exact (vf_next _ _ F')].
        -- intros k [<-|Hk]; [exact Hp1 | apply Hp'; exact Hk].
        -- intros it' [<-|Hin] Hnv; [exfalso; exact (Hnv _ eq_refl) | right; apply Hin'; assumption].
        -- eapply CRel_trans; [exact C1|]. eapply CRel_weaken; [exact (vf_next _ _ F1) | exact C'].
      * cbn [nbind fst snd].
        destruct (IH (fun c Hc => Hspec c (or_intror Hc)) T B st HG (fun c Hc => Hok c (or_intror Hc))) as (l'' & st' & E & HG' & F' & N' & Hp' & Hin' & C').
        rewrite E. cbn [nbind fst snd]. exists (IVal None :: l''), st'. split; [reflexivity|]. cbn [kids].
        split; [exact HG'|]. split; [exact F'|]. split; [exact N'|]. split; [exact Hp'|]. split; [|exact C'].
        intros it' [<-|Hin] Hnv; [exfalso; exact (Hnv _ eq_refl) | right; apply Hin'; assumption].
    + apply (Hskip (IVal None)); try reflexivity; assumption.
Qed.

Lemma clone_rep_ok : forall r, clone_spec r.
Proof.
  apply rep_kids_ind. intros r IH T B st HG Hv Hok.
  destruct (Hok r (reps_of_self r)) as (Hfn & Htl & Hrl). specialize (Hfn Hv).
  rewrite clone_rep_eq. cbv zeta.
  destruct (r_fn r) as [l|] eqn:Efn; [|contradiction].
  assert (El : items_of r = l) by (unfold items_of; rewrite Efn; reflexivity).
  set (me := next_id st).
  assert (Hme : 0 < me) by exact (gi_next _ _ _ _ HG).
  assert (Hle : next_id st <= me + 1) by (unfold me; lia).
  pose proof (ginv_with_next T [] B st (me + 1) Hle HG) as HG0.
  pose proof (VFrame_with_next (me + 1) st Hle) as F0.
  destruct (clone_items_ok l (fun c Hc => IH c (eq_ind_r (fun x => In c (kids x)) Hc El)) T B (with_next (me + 1) st) HG0)
    as (l' & stA & EA & HGA & FA & NA & HpA & HinA & CA).
  { intros c Hc. apply (cl_ok_frame st _ c F0). apply (cl_ok_kid st r c Hok). rewrite El. exact Hc. }
  rewrite EA. cbn [nbind fst snd].
  set (items := adopt_kids me l').
  pose proof (VFrame_trans _ _ _ F0 FA) as F0A.
  destruct (bind_nonval_ok me items T (bindings (RL (kids l')) ++ B) stA HGA Hme) as (st2 & E2 & HG2 & F2 & C2).
  { intros t Hin. apply (VFrame_live_tr st stA t F0A). apply Htl. rewrite El. apply HinA; [|intros v; discriminate].
    apply (in_adopt_nonval me l' _ Hin). intros v; discriminate. }
  { intros s Hin. apply (VFrame_live_var st stA s F0A). apply Hrl. rewrite El. apply HinA; [|intros v; discriminate].
    apply (in_adopt_nonval me l' _ Hin). intros v; discriminate. }
  rewrite E2. cbn [nbind]. set (c := mkRep me true (Some items) None).
  exists c, st2. split; [reflexivity|].
  assert (Hkids : kids items = map (set_parent (Some me)) (kids l')) by (apply kids_adopt; exact HpA).
  assert (Hreps : reps_of c = c :: RL (map (set_parent (Some me)) (kids l'))).
  { rewrite reps_of_eq. cbn [items_of c r_fn]. rewrite reps_items_kids, Hkids. reflexivity. }
  assert (Hnext : next_id (with_next (me + 1) st) = me + 1) by reflexivity.
  pose proof (vf_next _ _ FA) as HnA. rewrite Hnext in HnA. pose proof (vf_next _ _ F2) as Hn2.
  split; [|split; [eapply VFrame_trans; eassumption | split; [|split; [reflexivity|split; [reflexivity|]]]]].
  3: { fold me. eapply CRel_trans; [apply CRel_same; reflexivity|]. eapply CRel_trans; [|exact C2].
       eapply CRel_weaken; [|exact CA]. rewrite Hnext. lia. }
  - rewrite Hreps. cbn [bindings flat_map]. fold (bindings (RL (map (set_parent (Some me)) (kids l')))).
    rewrite bindings_RL_spk. unfold binds_of. cbn [r_id c items_of r_fn].
    eapply ginv_perm; [|exact HG2]. rewrite <- app_assoc. apply Permutation_app_tail. apply Permutation_sym, Permutation_rev.
  - destruct NA as (A1 & A2 & A3 & A4). rewrite Hnext in A2. unfold NewF. rewrite RL_cons. cbn [RL flat_map]. rewrite app_nil_r. rewrite Hreps.
    fold me. split; [|split; [|split]].
    + cbn [ids map]. fold (ids (RL (map (set_parent (Some me)) (kids l')))). rewrite ids_RL_spk. constructor; [|exact A1].
      intros Hin. unfold ids in Hin. apply in_map_iff in Hin. destruct Hin as (y & Ey & Hy). destruct (A2 y Hy). cbn [r_id c] in Ey. lia.
    + intros x [<-|Hx]; [cbn [r_id c]; lia|]. destruct (in_RL_spk _ _ _ Hx) as (y & Hy & Ei & _). rewrite Ei. destruct (A2 y Hy). lia.
    + intros q k [<-|Hq] Hk.
      * cbn [items_of c r_fn] in Hk. rewrite Hkids in Hk. apply in_map_iff in Hk. destruct Hk as (k0 & <- & _). reflexivity.
      * destruct (in_RL_spk _ _ _ Hq) as (y & Hy & Ei & Eit & _). rewrite Eit in Hk. rewrite Ei. exact (A3 y k Hy Hk).
    + intros x [<-|Hx]; [split; [reflexivity | discriminate]|].
      destruct (in_RL_spk _ _ _ Hx) as (y & Hy & _ & _ & Ev & Ef). rewrite Ev, Ef. exact (A4 y Hy).
Qed.
