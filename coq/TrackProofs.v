(* TrackProofs.v -- proofs of the C16 statements of Properties_C16.v over TrackModel. *)
From Coq Require Import List NArith Bool Lia.
Import ListNotations.
Require Import TrackModel TrackSpec.
Local Open Scope N_scope.
From Coq Require Import Permutation.

(* ------------------------------------------------------------------ *)
(* Generic list helpers                                                *)
(* ------------------------------------------------------------------ *)

Lemma NoDup_app_iff {A} (a b : list A) :
  NoDup (a ++ b) <-> NoDup a /\ NoDup b /\ (forall x, In x a -> ~ In x b).
Proof.
  induction a as [|x a IH]; cbn [app].
  - split.
    + intros H. split; [constructor|]. split; [exact H|]. intros y [].
    + intros (_ & H & _). exact H.
  - split.
    + intros H. inversion H as [|? ? Hx Hn]; subst.
      apply IH in Hn. destruct Hn as (Ha & Hb & Hd).
      split.
      * constructor; auto. intro Hi. apply Hx. apply in_or_app. left; exact Hi.
      * split; auto. intros y [<-|Hy].
        -- intro Hi. apply Hx. apply in_or_app. right; exact Hi.
        -- apply Hd; exact Hy.
    + intros (Ha & Hb & Hd). inversion Ha as [|? ? Hx Hn]; subst. constructor.
      * intro H. apply in_app_or in H. destruct H as [H|H]; [auto|].
        apply (Hd x); [left; reflexivity|exact H].
      * apply IH. split; auto. split; auto. intros y Hy. apply Hd. right; exact Hy.
Qed.

Lemma in_mid {A} (x y : A) a b : In x (a ++ y :: b) <-> x = y \/ In x (a ++ b).
Proof. rewrite !in_app_iff. cbn [In]. intuition auto. Qed.

Lemma NoDup_map_mid {A B} (f : A -> B) a e b e' :
  NoDup (map f (a ++ e :: b)) -> In e' (a ++ b) -> f e' <> f e.
Proof.
  intros H Hi E. rewrite map_app in H. cbn [map] in H. apply NoDup_remove_2 in H.
  apply H. rewrite <- map_app, <- E. apply in_map. exact Hi.
Qed.

Lemma existsb_eqb r dl : existsb (N.eqb r) dl = true <-> In r dl.
Proof.
  rewrite existsb_exists. split.
  - intros (x & Hx & E). apply N.eqb_eq in E. subst. exact Hx.
  - intros H. exists r. split; [exact H|apply N.eqb_refl].
Qed.

Lemma skipn_nth {A} i : forall (l : list A) x,
  nth_error l i = Some x -> skipn i l = x :: skipn (S i) l.
Proof.
  induction i as [|i IH]; intros [|y l] x H; cbn [nth_error] in H; try discriminate.
  - inversion H. reflexivity.
  - cbn [skipn]. exact (IH _ _ H).
Qed.

Lemma firstn_nth {A} i : forall (l : list A) x,
  nth_error l i = Some x -> firstn (S i) l = firstn i l ++ [x].
Proof.
  induction i as [|i IH]; intros [|y l] x H; cbn [nth_error] in H; try discriminate.
  - inversion H. reflexivity.
  - change (firstn (S (S i)) (y :: l)) with (y :: firstn (S i) l).
    rewrite (IH _ _ H). reflexivity.
Qed.

(* selection of the positions marked by [keep] *)
Definition sel (ids : list N) (keep : list bool) : list N :=
  map fst (filter snd (combine ids keep)).

Lemma sel_incl ids keep r : In r (sel ids keep) -> In r ids.
Proof.
  unfold sel. intros H. apply in_map_iff in H. destruct H as ([a b] & E & H).
  cbn [fst] in E. subst a. apply filter_In in H. destruct H as [H _].
  apply in_combine_l in H. exact H.
Qed.

Lemma sel_false ids : forall n, sel ids (repeat false n) = [].
Proof.
  induction ids as [|x ids IH]; intros [|n]; try reflexivity.
  unfold sel. cbn. apply IH.
Qed.

Lemma sel_map (l : list reg) : forall keep,
  map rid (map fst (filter snd (combine l keep))) = sel (map rid l) keep.
Proof.
  induction l as [|e l IH]; intros [|[|] keep]; try reflexivity.
  - unfold sel. cbn. f_equal. apply IH.
  - unfold sel. cbn. apply IH.
Qed.

(* ------------------------------------------------------------------ *)
(* null_first / erase_first / run_script                               *)
(* ------------------------------------------------------------------ *)

Definition unset (e : reg) : reg := mkReg (rkey e) (rid e) false (rscript e).

Lemma null_first_spec k l :
  null_first k l = (l, None) \/
  exists a e b, l = a ++ e :: b /\ rset e = true /\
                null_first k l = (a ++ unset e :: b, Some (rid e)).
Proof.
  induction l as [|r rest IH]; cbn [null_first].
  - left; reflexivity.
  - destruct (N.eqb (rkey r) k && rset r) eqn:C.
    + right. exists [], r, rest. apply andb_prop in C. destruct C as [_ C].
      split; [reflexivity|]. split; [exact C|reflexivity].
    + destruct IH as [IH | (a & e & b & El & He & IH)]; rewrite IH.
      * left; reflexivity.
      * right. exists (r :: a), e, b. subst rest. split; [reflexivity|]. split; [exact He|reflexivity].
Qed.

Lemma erase_first_spec k l :
  erase_first k l = (l, None) \/
  exists a e b, l = a ++ e :: b /\ erase_first k l = (a ++ b, Some (rid e)).
Proof.
  induction l as [|r rest IH]; cbn [erase_first].
  - left; reflexivity.
  - destruct (N.eqb (rkey r) k && rset r) eqn:C.
    + right. exists [], r, rest. split; reflexivity.
    + destruct IH as [IH | (a & e & b & El & IH)]; rewrite IH.
      * left; reflexivity.
      * right. exists (r :: a), e, b. subst rest. split; reflexivity.
Qed.

Lemma map_rid_unset a e b : map rid (a ++ unset e :: b) = map rid (a ++ e :: b).
Proof. rewrite !map_app. reflexivity. Qed.

Lemma run_script_frame sc : forall l dl rp l' rp',
  run_script sc l dl rp = (l', rp') ->
  map rid l' = map rid l /\ exists nr, rp' = rp ++ nr /\ incl nr (map rid l).
Proof.
  induction sc as [|[k|k] sc IH]; intros l dl rp l' rp' H; cbn [run_script] in H.
  - inversion H; subst. split; [reflexivity|]. exists []. rewrite app_nil_r.
    split; [reflexivity|]. intros x [].
  - destruct (null_first_spec k l) as [E | (a & e & b & El & He & E)]; rewrite E in H.
    + exact (IH _ _ _ _ _ H).
    + apply IH in H. destruct H as (Hm & nr & Hrp & Hi).
      rewrite map_rid_unset in Hm, Hi. subst l. split; [exact Hm|].
      destruct (existsb (N.eqb (rid e)) dl).
      * exists nr. split; assumption.
      * exists (rid e :: nr). split.
        -- rewrite Hrp, <- app_assoc. reflexivity.
        -- intros x [<-|Hx]; [|apply Hi; exact Hx].
           apply in_map. apply in_mid. left; reflexivity.
  - exact (IH _ _ _ _ _ H).
Qed.

Lemma run_script_keeps_rids :
  forall sc l dl rp, map rid (fst (run_script sc l dl rp)) = map rid l.
Proof.
  intros sc l dl rp. destruct (run_script sc l dl rp) as [l' rp'] eqn:E.
  apply run_script_frame in E. exact (proj1 E).
Qed.

(* ------------------------------------------------------------------ *)
(* The round: frame and order                                          *)
(* ------------------------------------------------------------------ *)

Lemma round_frame n : forall i l dl rp l' dl' rp',
  round n i l dl rp = (l', dl', rp') ->
  map rid l' = map rid l /\
  (exists keep, length keep = length (skipn i (map rid l)) /\
                dl' = dl ++ sel (skipn i (map rid l)) keep) /\
  (exists nr, rp' = rp ++ nr /\ incl nr (map rid l)).
Proof.
  assert (Base : forall i (l : list reg) (dl rp : list N),
    map rid l = map rid l /\
    (exists keep, length keep = length (skipn i (map rid l)) /\
                  dl = dl ++ sel (skipn i (map rid l)) keep) /\
    (exists nr, rp = rp ++ nr /\ incl nr (map rid l))).
  { intros i l dl rp. split; [reflexivity|]. split.
    - exists (repeat false (length (skipn i (map rid l)))). split.
      + apply repeat_length.
      + rewrite sel_false, app_nil_r. reflexivity.
    - exists []. rewrite app_nil_r. split; [reflexivity|]. intros x []. }
  induction n as [|n IH]; intros i l dl rp l' dl' rp' H; cbn [round] in H.
  - inversion H; subst. apply Base.
  - destruct (nth_error l i) as [r|] eqn:En.
    2:{ inversion H; subst. apply Base. }
    pose proof (skipn_nth _ _ _ (map_nth_error rid _ _ En)) as Hs.
    destruct (rset r) eqn:Er.
    + destruct (run_script (rscript r) l (dl ++ [rid r]) rp) as [l1 rp1] eqn:Es.
      apply run_script_frame in Es. destruct Es as (Hm1 & nr1 & Hrp1 & Hi1).
      apply IH in H. destruct H as (Hm & (keep & Hk & Hd) & (nr & Hrp & Hi)).
      rewrite Hm1 in Hm, Hk, Hd, Hi. split; [exact Hm|]. split.
      * exists (true :: keep). rewrite Hs. split.
        -- cbn [length]. rewrite Hk. reflexivity.
        -- rewrite Hd, <- app_assoc. reflexivity.
      * exists (nr1 ++ nr). split.
        -- rewrite Hrp, Hrp1, app_assoc. reflexivity.
        -- apply incl_app; assumption.
    + apply IH in H. destruct H as (Hm & (keep & Hk & Hd) & Hrp).
      split; [exact Hm|]. split; [|exact Hrp].
      exists (false :: keep). rewrite Hs. split.
      * cbn [length]. rewrite Hk. reflexivity.
      * exact Hd.
Qed.

Lemma round_in_list_order :
  forall l dl rp, let '(_, dl', _) := round (length l) 0 l dl rp in
    exists new, dl' = dl ++ new /\
      exists keep : list bool, length keep = length l /\
        new = map rid (map fst (filter snd (combine l keep))).
Proof.
  intros l dl rp. destruct (round (length l) 0 l dl rp) as [[l' dl'] rp'] eqn:E.
  apply round_frame in E. destruct E as (_ & (keep & Hk & Hd) & _).
  cbn [skipn] in Hk, Hd. rewrite map_length in Hk.
  exists (sel (map rid l) keep). split; [exact Hd|].
  exists keep. split; [exact Hk|]. symmetry. apply sel_map.
Qed.

(* ------------------------------------------------------------------ *)
(* The round: invariant of the walk                                    *)
(* ------------------------------------------------------------------ *)

Definition Good (i : nat) (l : list reg) (dl rp : list N) : Prop :=
  NoDup (map rid l) /\ NoDup dl /\ NoDup rp /\ (forall r, In r dl -> ~ In r rp) /\
  (forall e, In e l -> rset e = true -> ~ In (rid e) rp) /\
  (forall e, In e l -> rset e = false -> In (rid e) dl \/ In (rid e) rp) /\
  (forall r, In r (firstn i (map rid l)) -> In r dl \/ In r rp) /\
  (forall r, In r (skipn i (map rid l)) -> ~ In r dl).

Lemma Good_null j a e b dl rp :
  Good j (a ++ e :: b) dl rp -> rset e = true ->
  Good j (a ++ unset e :: b) dl (if existsb (N.eqb (rid e)) dl then rp else rp ++ [rid e]).
Proof.
  intros (G1 & G2 & G3 & G4 & G5 & G6 & G7 & G8) He.
  assert (Hin : forall x, In x (a ++ b) -> In x (a ++ e :: b)).
  { intros x Hx. apply in_mid. right; exact Hx. }
  assert (Hee : In e (a ++ e :: b)) by (apply in_mid; left; reflexivity).
  unfold Good. rewrite map_rid_unset.
  destruct (existsb (N.eqb (rid e)) dl) eqn:Ex.
  - apply existsb_eqb in Ex.
    split; [exact G1|]. split; [exact G2|]. split; [exact G3|]. split; [exact G4|].
    split; [|split; [|split; assumption]].
    + intros x Hx Hs. apply in_mid in Hx. destruct Hx as [->|Hx]; [discriminate Hs|].
      apply G5; auto.
    + intros x Hx Hs. apply in_mid in Hx. destruct Hx as [->|Hx].
      * left. exact Ex.
      * apply G6; auto.
  - assert (Hnd : ~ In (rid e) dl).
    { intro Hi. apply existsb_eqb in Hi. congruence. }
    assert (Hnr : ~ In (rid e) rp) by (apply G5; auto).
    split; [exact G1|]. split; [exact G2|]. split.
    { apply NoDup_app_iff. split; [exact G3|]. split; [constructor; [intros []|constructor]|].
      intros x Hx [<-|[]]. exact (Hnr Hx). }
    split.
    { intros x Hx Hi. apply in_app_or in Hi. destruct Hi as [Hi|[<-|[]]].
      - exact (G4 x Hx Hi).
      - exact (Hnd Hx). }
    split.
    { intros x Hx Hs Hi. apply in_mid in Hx. destruct Hx as [->|Hx]; [discriminate Hs|].
      apply in_app_or in Hi. destruct Hi as [Hi|[E|[]]].
      - exact (G5 x (Hin x Hx) Hs Hi).
      - exact (NoDup_map_mid rid a e b x G1 Hx (eq_sym E)). }
    split.
    { intros x Hx Hs. apply in_mid in Hx. destruct Hx as [->|Hx].
      - right. apply in_or_app. right. left. reflexivity.
      - destruct (G6 x (Hin x Hx) Hs) as [H|H]; [left; exact H|right].
        apply in_or_app. left; exact H. }
    split; [|exact G8].
    intros x Hx. destruct (G7 x Hx) as [H|H]; [left; exact H|right].
    apply in_or_app. left; exact H.
Qed.

Lemma run_script_good sc : forall j l dl rp l' rp',
  Good j l dl rp -> run_script sc l dl rp = (l', rp') -> Good j l' dl rp'.
Proof.
  induction sc as [|[k|k] sc IH]; intros j l dl rp l' rp' G H; cbn [run_script] in H.
  - inversion H; subst. exact G.
  - destruct (null_first_spec k l) as [E | (a & e & b & El & He & E)]; rewrite E in H.
    + exact (IH _ _ _ _ _ _ G H).
    + subst l. refine (IH _ _ _ _ _ _ _ H). apply Good_null; assumption.
  - exact (IH _ _ _ _ _ _ G H).
Qed.

Lemma Good_deliver i l dl rp r :
  Good i l dl rp -> nth_error l i = Some r -> rset r = true ->
  Good (S i) l (dl ++ [rid r]) rp.
Proof.
  intros (G1 & G2 & G3 & G4 & G5 & G6 & G7 & G8) En Er.
  pose proof (map_nth_error rid _ _ En) as En'.
  pose proof (skipn_nth _ _ _ En') as Hs.
  pose proof (firstn_nth _ _ _ En') as Hf.
  assert (Hl : In r l) by (eapply nth_error_In; exact En).
  assert (Hnd : ~ In (rid r) dl) by (apply G8; rewrite Hs; left; reflexivity).
  assert (Hnr : ~ In (rid r) rp) by (apply G5; assumption).
  assert (Hns : ~ In (rid r) (skipn (S i) (map rid l))).
  { pose proof G1 as G1'. rewrite <- (firstn_skipn i (map rid l)) in G1'.
    rewrite Hs in G1'. apply NoDup_app_iff in G1'. destruct G1' as (_ & G1' & _).
    inversion G1'; assumption. }
  split; [exact G1|]. split.
  { apply NoDup_app_iff. split; [exact G2|]. split; [constructor; [intros []|constructor]|].
    intros x Hx [<-|[]]. exact (Hnd Hx). }
  split; [exact G3|]. split.
  { intros x Hx Hi. apply in_app_or in Hx. destruct Hx as [Hx|[<-|[]]].
    - exact (G4 x Hx Hi).
    - exact (Hnr Hi). }
  split; [exact G5|]. split.
  { intros e He Hse. destruct (G6 e He Hse) as [H|H]; [left|right; exact H].
    apply in_or_app. left; exact H. }
  split.
  { intros x Hx. rewrite Hf in Hx. apply in_app_or in Hx. destruct Hx as [Hx|[<-|[]]].
    - destruct (G7 x Hx) as [H|H]; [left|right; exact H]. apply in_or_app. left; exact H.
    - left. apply in_or_app. right. left. reflexivity. }
  intros x Hx Hi. apply in_app_or in Hi. destruct Hi as [Hi|[<-|[]]].
  - apply (G8 x); [rewrite Hs; right; exact Hx|exact Hi].
  - exact (Hns Hx).
Qed.

Lemma Good_skip i l dl rp r :
  Good i l dl rp -> nth_error l i = Some r -> rset r = false -> Good (S i) l dl rp.
Proof.
  intros (G1 & G2 & G3 & G4 & G5 & G6 & G7 & G8) En Er.
  pose proof (map_nth_error rid _ _ En) as En'.
  pose proof (skipn_nth _ _ _ En') as Hs.
  pose proof (firstn_nth _ _ _ En') as Hf.
  assert (Hl : In r l) by (eapply nth_error_In; exact En).
  split; [exact G1|]. split; [exact G2|]. split; [exact G3|]. split; [exact G4|].
  split; [exact G5|]. split; [exact G6|]. split.
  - intros x Hx. rewrite Hf in Hx. apply in_app_or in Hx. destruct Hx as [Hx|[<-|[]]].
    + exact (G7 x Hx).
    + exact (G6 r Hl Er).
  - intros x Hx. apply G8. rewrite Hs. right; exact Hx.
Qed.

Lemma round_good n : forall i l dl rp l' dl' rp',
  Good i l dl rp -> (length l <= n + i)%nat -> round n i l dl rp = (l', dl', rp') ->
  NoDup dl' /\ NoDup rp' /\ (forall r, In r dl' -> ~ In r rp') /\
  (forall r, In r (map rid l) -> In r dl' \/ In r rp').
Proof.
  assert (Base : forall i l dl rp, Good i l dl rp -> (length l <= i)%nat ->
    NoDup dl /\ NoDup rp /\ (forall r, In r dl -> ~ In r rp) /\
    (forall r, In r (map rid l) -> In r dl \/ In r rp)).
  { intros i l dl rp (G1 & G2 & G3 & G4 & G5 & G6 & G7 & G8) Hl.
    split; [exact G2|]. split; [exact G3|]. split; [exact G4|].
    intros r Hr. apply G7. rewrite firstn_all2; [exact Hr|]. rewrite map_length. exact Hl. }
  induction n as [|n IH]; intros i l dl rp l' dl' rp' G Hl H; cbn [round] in H.
  - inversion H; subst. apply (Base i); [exact G|lia].
  - destruct (nth_error l i) as [r|] eqn:En.
    2:{ inversion H; subst. apply (Base i); [exact G|]. apply nth_error_None. exact En. }
    destruct (rset r) eqn:Er.
    + destruct (run_script (rscript r) l (dl ++ [rid r]) rp) as [l1 rp1] eqn:Es.
      pose proof (Good_deliver _ _ _ _ _ G En Er) as G'.
      pose proof (run_script_good _ _ _ _ _ _ _ G' Es) as G''.
      apply run_script_frame in Es. destruct Es as (Hm & _).
      assert (Hlen : length l1 = length l).
      { apply (f_equal (@length N)) in Hm. rewrite !map_length in Hm. exact Hm. }
      rewrite <- Hm. eapply (IH (S i) l1); [exact G''|lia|exact H].
    + eapply (IH (S i) l); [exact (Good_skip _ _ _ _ _ G En Er)|lia|exact H].
Qed.

(* ------------------------------------------------------------------ *)
(* Global invariant on (registrations, next id, delivered, removed)     *)
(* ------------------------------------------------------------------ *)

Definition Inv4 (rs : list reg) (nx : N) (dl rp : list N) : Prop :=
  (forall e, In e rs -> rid e < nx) /\ (forall r, In r dl -> r < nx) /\
  (forall r, In r rp -> r < nx) /\
  NoDup (map rid rs) /\ NoDup dl /\ NoDup rp /\ (forall r, In r dl -> ~ In r rp) /\
  (forall e, In e rs -> rset e = true /\ ~ In (rid e) dl /\ ~ In (rid e) rp) /\
  (forall r, r < nx -> In r (map rid rs) \/ In r dl \/ In r rp).

Lemma Inv4_perm rs rs' nx dl rp : Permutation rs rs' -> Inv4 rs nx dl rp -> Inv4 rs' nx dl rp.
Proof.
  intros P (I1 & I2 & I3 & I4 & I5 & I6 & I7 & I8 & I9).
  assert (Hin : forall e, In e rs' -> In e rs).
  { intros e He. apply (Permutation_in e (Permutation_sym P)). exact He. }
  split; [intros e He; apply I1; auto|]. split; [exact I2|]. split; [exact I3|].
  split; [apply (Permutation_NoDup (Permutation_map rid P)); exact I4|].
  split; [exact I5|]. split; [exact I6|]. split; [exact I7|].
  split; [intros e He; apply I8; auto|].
  intros r Hr. destruct (I9 r Hr) as [H|H]; [left|right; exact H].
  apply (Permutation_in r (Permutation_map rid P)). exact H.
Qed.

Lemma Inv4_cons rs nx dl rp k sc :
  Inv4 rs nx dl rp -> Inv4 (mkReg k nx true sc :: rs) (N.succ nx) dl rp.
Proof.
  intros (I1 & I2 & I3 & I4 & I5 & I6 & I7 & I8 & I9).
  split.
  { intros e [<-|He]; [cbn [rid]; lia|]. specialize (I1 e He). lia. }
  split; [intros r Hr; specialize (I2 r Hr); lia|].
  split; [intros r Hr; specialize (I3 r Hr); lia|].
  split.
  { cbn [map rid]. constructor; [|exact I4]. intro Hi. apply in_map_iff in Hi.
    destruct Hi as (e & E & He). specialize (I1 e He). lia. }
  split; [exact I5|]. split; [exact I6|]. split; [exact I7|]. split.
  { intros e [<-|He]; [|apply I8; exact He]. cbn [rset rid].
    split; [reflexivity|]. split; intro Hi.
    - specialize (I2 _ Hi). lia.
    - specialize (I3 _ Hi). lia. }
  intros r Hr. destruct (N.eq_dec r nx) as [->|Hne].
  - left. left. reflexivity.
  - destruct (I9 r) as [H|H]; [lia|left; right; exact H|right; exact H].
Qed.

Lemma Inv4_remove e rs nx dl rp : Inv4 (e :: rs) nx dl rp -> Inv4 rs nx dl (rp ++ [rid e]).
Proof.
  intros (I1 & I2 & I3 & I4 & I5 & I6 & I7 & I8 & I9).
  destruct (I8 e (or_introl eq_refl)) as (_ & Hnd & Hnr).
  cbn [map] in I4. inversion I4 as [|? ? Hni Hnd']; subst.
  split; [intros x Hx; apply I1; right; exact Hx|]. split; [exact I2|].
  split.
  { intros r Hr. apply in_app_or in Hr. destruct Hr as [Hr|[<-|[]]]; [exact (I3 r Hr)|].
    apply I1. left; reflexivity. }
  split; [exact Hnd'|]. split; [exact I5|]. split.
  { apply NoDup_app_iff. split; [exact I6|]. split; [constructor; [intros []|constructor]|].
    intros x Hx [<-|[]]. exact (Hnr Hx). }
  split.
  { intros r Hr Hi. apply in_app_or in Hi. destruct Hi as [Hi|[<-|[]]].
    - exact (I7 r Hr Hi).
    - exact (Hnd Hr). }
  split.
  { intros x Hx. destruct (I8 x (or_intror Hx)) as (H1 & H2 & H3).
    split; [exact H1|]. split; [exact H2|]. intro Hi. apply in_app_or in Hi.
    destruct Hi as [Hi|[E|[]]]; [exact (H3 Hi)|].
    apply Hni. rewrite E. apply in_map. exact Hx. }
  intros r Hr. destruct (I9 r Hr) as [[<-|H]|[H|H]].
  - right. right. apply in_or_app. right. left. reflexivity.
  - left. exact H.
  - right. left. exact H.
  - right. right. apply in_or_app. left. exact H.
Qed.

Lemma Inv4_round L R nx dl rp L' dl' rp' :
  Inv4 (L ++ R) nx dl rp -> round (length L) 0 L dl rp = (L', dl', rp') ->
  Inv4 R nx dl' rp' /\
  (forall e, In e L -> In (rid e) dl' \/ In (rid e) rp').
Proof.
  intros (I1 & I2 & I3 & I4 & I5 & I6 & I7 & I8 & I9) Hr.
  rewrite map_app in I4. apply NoDup_app_iff in I4. destruct I4 as (NL & NR & ND).
  assert (G : Good 0 L dl rp).
  { split; [exact NL|]. split; [exact I5|]. split; [exact I6|]. split; [exact I7|].
    split.
    { intros e He _. apply I8. apply in_or_app. left; exact He. }
    split.
    { intros e He Hf. destruct (I8 e) as (Ht & _); [apply in_or_app; left; exact He|congruence]. }
    split; [intros r []|].
    cbn [skipn]. intros r Hi. apply in_map_iff in Hi. destruct Hi as (e & <- & He).
    apply I8. apply in_or_app. left; exact He. }
  assert (Hlen : (length L <= length L + 0)%nat) by lia.
  destruct (round_good _ _ _ _ _ _ _ _ G Hlen Hr) as (N1 & N2 & N3 & N4).
  destruct (round_frame _ _ _ _ _ _ _ _ Hr) as (_ & (keep & _ & Hd) & (nr & Hrp & Hnr)).
  cbn [skipn] in Hd.
  assert (HdL : forall r, In r dl' -> In r dl \/ In r (map rid L)).
  { intros r Hi. rewrite Hd in Hi. apply in_app_or in Hi. destruct Hi as [Hi|Hi]; [left; exact Hi|].
    right. eapply sel_incl. exact Hi. }
  assert (HrL : forall r, In r rp' -> In r rp \/ In r (map rid L)).
  { intros r Hi. rewrite Hrp in Hi. apply in_app_or in Hi. destruct Hi as [Hi|Hi]; [left; exact Hi|].
    right. apply Hnr. exact Hi. }
  assert (HL : forall r, In r (map rid L) -> r < nx).
  { intros r Hi. apply in_map_iff in Hi. destruct Hi as (e & <- & He). apply I1.
    apply in_or_app. left; exact He. }
  split; [|intros e He; apply N4; apply in_map; exact He].
  split; [intros e He; apply I1; apply in_or_app; right; exact He|].
  split; [intros r Hi; destruct (HdL r Hi) as [H|H]; [exact (I2 r H)|exact (HL r H)]|].
  split; [intros r Hi; destruct (HrL r Hi) as [H|H]; [exact (I3 r H)|exact (HL r H)]|].
  split; [exact NR|]. split; [exact N1|]. split; [exact N2|]. split; [exact N3|].
  split.
  { intros e He. destruct (I8 e) as (H1 & H2 & H3); [apply in_or_app; right; exact He|].
    assert (HnL : ~ In (rid e) (map rid L)).
    { intro Hi. apply (ND _ Hi). apply in_map. exact He. }
    split; [exact H1|]. split; intro Hi.
    - destruct (HdL _ Hi) as [H|H]; [exact (H2 H)|exact (HnL H)].
    - destruct (HrL _ Hi) as [H|H]; [exact (H3 H)|exact (HnL H)]. }
  intros r Hlt. destruct (I9 r Hlt) as [H|[H|H]].
  - rewrite map_app in H. apply in_app_or in H. destruct H as [H|H]; [right; apply N4; exact H|left; exact H].
  - right. left. rewrite Hd. apply in_or_app. left; exact H.
  - right. right. rewrite Hrp. apply in_or_app. left; exact H.
Qed.

(* ------------------------------------------------------------------ *)
(* Association lists                                                   *)
(* ------------------------------------------------------------------ *)

Lemma lookup_app {A} k (a b : list (N * A)) :
  lookup k (a ++ b) = match lookup k a with Some v => Some v | None => lookup k b end.
Proof.
  induction a as [|[k' v] a IH]; cbn [app lookup]; [reflexivity|].
  destruct (N.eqb k k'); [reflexivity|exact IH].
Qed.

Lemma lookup_None_iff {A} k (l : list (N * A)) : lookup k l = None <-> ~ In k (map fst l).
Proof.
  induction l as [|[k' v] l IH]; cbn [lookup map fst In].
  - split; [intros _ []|reflexivity].
  - destruct (N.eqb_spec k k') as [->|Hn].
    + split; [discriminate|]. intros H. exfalso. apply H. left; reflexivity.
    + rewrite IH. split.
      * intros H [E|Hi]; [congruence|exact (H Hi)].
      * intros H Hi. apply H. right; exact Hi.
Qed.

Lemma lookup_update {A} k' k (v : A) l :
  lookup k' (update k v l) =
  if N.eqb k' k then match lookup k l with Some _ => Some v | None => None end
  else lookup k' l.
Proof.
  induction l as [|[k0 v0] l IH]; cbn [update lookup].
  - destruct (N.eqb k' k); reflexivity.
  - destruct (N.eqb_spec k k0) as [->|Hn]; cbn [lookup].
    + destruct (N.eqb_spec k' k0); reflexivity.
    + destruct (N.eqb_spec k' k0) as [->|Hn'].
      * destruct (N.eqb_spec k0 k); [congruence|reflexivity].
      * exact IH.
Qed.

Lemma update_keys {A} k (v : A) l : map fst (update k v l) = map fst l.
Proof.
  induction l as [|[k0 v0] l IH]; cbn [update]; [reflexivity|].
  destruct (N.eqb k k0); cbn [map fst]; [reflexivity|]. rewrite IH. reflexivity.
Qed.

Lemma delete_keys {A} k (l : list (N * A)) x : In x (map fst (delete k l)) -> In x (map fst l).
Proof.
  induction l as [|[k0 v0] l IH]; cbn [delete]; [auto|].
  destruct (N.eqb k k0); cbn [map fst In].
  - intros H; right; exact H.
  - intros [H|H]; [left; exact H|right; exact (IH H)].
Qed.

Lemma delete_NoDup {A} k (l : list (N * A)) : NoDup (map fst l) -> NoDup (map fst (delete k l)).
Proof.
  induction l as [|[k0 v0] l IH]; cbn [delete]; [auto|].
  cbn [map fst]. intros H. inversion H as [|? ? Hn Hd]; subst.
  destruct (N.eqb k k0); [exact Hd|]. cbn [map fst]. constructor.
  - intro Hi. apply Hn. exact (delete_keys _ _ _ Hi).
  - exact (IH Hd).
Qed.

Lemma lookup_delete_same {A} k (l : list (N * A)) :
  NoDup (map fst l) -> lookup k (delete k l) = None.
Proof.
  induction l as [|[k0 v0] l IH]; cbn [delete]; [reflexivity|].
  cbn [map fst]. intros H. inversion H as [|? ? Hn Hd]; subst.
  destruct (N.eqb_spec k k0) as [->|Hne].
  - apply lookup_None_iff. exact Hn.
  - cbn [lookup]. destruct (N.eqb_spec k k0); [congruence|]. exact (IH Hd).
Qed.

(* ------------------------------------------------------------------ *)
(* All registrations of a trackable map                                *)
(* ------------------------------------------------------------------ *)

Definition cl (c : cbl) : list reg := match c with Some l => l | None => [] end.
Definition regsf (ts : list (N * cbl)) : list reg :=
  flat_map (fun '(_, c) => match c with Some l => l | None => [] end) ts.

Lemma regsf_cons k c r : regsf ((k, c) :: r) = cl c ++ regsf r.
Proof. reflexivity. Qed.

Lemma regsf_app a b : regsf (a ++ b) = regsf a ++ regsf b.
Proof. apply flat_map_app. Qed.

Lemma regsf_lookup t ts c :
  lookup t ts = Some c -> Permutation (regsf ts) (cl c ++ regsf (delete t ts)).
Proof.
  induction ts as [|[k c'] r IH]; cbn [lookup delete]; [discriminate|].
  destruct (N.eqb t k).
  - intros H; inversion H; subst. rewrite regsf_cons. apply Permutation_refl.
  - intros H. rewrite !regsf_cons.
    eapply Permutation_trans; [apply Permutation_app_head; exact (IH H)|].
    apply Permutation_app_swap_app.
Qed.

Lemma regsf_update t ts c v :
  lookup t ts = Some c -> Permutation (regsf (update t v ts)) (cl v ++ regsf (delete t ts)).
Proof.
  induction ts as [|[k c'] r IH]; cbn [lookup delete update]; [discriminate|].
  destruct (N.eqb t k).
  - intros _. rewrite regsf_cons. apply Permutation_refl.
  - intros H. rewrite !regsf_cons.
    eapply Permutation_trans; [apply Permutation_app_head; exact (IH H)|].
    apply Permutation_app_swap_app.
Qed.

(* ------------------------------------------------------------------ *)
(* World invariant                                                     *)
(* ------------------------------------------------------------------ *)

Definition Inv (w : world) : Prop :=
  Inv4 (regsf (trs w)) (next_rid w) (delivered w) (removed_pending w) /\
  NoDup (map fst (trs w)).

Lemma Inv_w0 : Inv w0.
Proof.
  split; [|constructor]. cbn.
  split; [intros e []|]. split; [intros r []|]. split; [intros r []|].
  split; [constructor|]. split; [constructor|]. split; [constructor|].
  split; [intros r []|]. split; [intros e []|]. intros r Hr. lia.
Qed.

Lemma notify_cases t w :
  (exists l l' dl' rp', lookup t (trs w) = Some (Some l) /\
     round (length l) 0 l (delivered w) (removed_pending w) = (l', dl', rp') /\
     notify t w = mkWorld (update t None (trs w)) (next_rid w) dl' rp') \/
  ((lookup t (trs w) = None \/ lookup t (trs w) = Some None) /\ notify t w = w).
Proof.
  unfold notify. destruct (lookup t (trs w)) as [[l|]|] eqn:E.
  - left. destruct (round (length l) 0 l (delivered w) (removed_pending w)) as [[l' dl'] rp'] eqn:R.
    exists l, l', dl', rp'. split; [reflexivity|]. split; [exact R|reflexivity].
  - right. split; [right|]; reflexivity.
  - right. split; [left|]; reflexivity.
Qed.

Lemma notify_lookup t t' w :
  lookup t' (trs (notify t w)) =
  if N.eqb t' t then match lookup t (trs w) with Some _ => Some None | None => None end
  else lookup t' (trs w).
Proof.
  destruct (notify_cases t w) as [(l & l' & dl' & rp' & E & _ & Hn) | (E & Hn)]; rewrite Hn.
  - cbn [trs]. apply lookup_update.
  - destruct (N.eqb_spec t' t) as [->|]; [|reflexivity].
    destruct E as [E|E]; rewrite E; reflexivity.
Qed.

Lemma present_notify t t' w : present t' (notify t w) = present t' w.
Proof.
  unfold present. rewrite notify_lookup. destruct (N.eqb_spec t' t) as [->|]; [|reflexivity].
  destruct (lookup t (trs w)); reflexivity.
Qed.

Lemma regs_of_notify_same t w : regs_of (notify t w) t = [].
Proof.
  unfold regs_of. rewrite notify_lookup, N.eqb_refl. destruct (lookup t (trs w)); reflexivity.
Qed.

Lemma regs_of_notify_other t t' w : t' <> t -> regs_of (notify t w) t' = regs_of w t'.
Proof.
  intros Hn. unfold regs_of. rewrite notify_lookup.
  destruct (N.eqb_spec t' t); [congruence|reflexivity].
Qed.

Lemma notify_next t w : next_rid (notify t w) = next_rid w.
Proof.
  destruct (notify_cases t w) as [(l & l' & dl' & rp' & _ & _ & Hn) | (_ & Hn)]; rewrite Hn; reflexivity.
Qed.

Lemma notify_delivered t w :
  exists new, delivered (notify t w) = delivered w ++ new /\
    forall r, In r new -> exists e, In e (regs_of w t) /\ rid e = r.
Proof.
  destruct (notify_cases t w) as [(l & l' & dl' & rp' & E & R & Hn) | (_ & Hn)]; rewrite Hn.
  - cbn [delivered]. apply round_frame in R. destruct R as (_ & (keep & _ & Hd) & _).
    cbn [skipn] in Hd. exists (sel (map rid l) keep). split; [exact Hd|].
    intros r Hr. apply sel_incl in Hr. apply in_map_iff in Hr. destruct Hr as (e & He & Hi).
    exists e. unfold regs_of. rewrite E. split; assumption.
  - exists []. rewrite app_nil_r. split; [reflexivity|]. intros r [].
Qed.

Lemma notify_removed t w :
  exists nr, removed_pending (notify t w) = removed_pending w ++ nr.
Proof.
  destruct (notify_cases t w) as [(l & l' & dl' & rp' & E & R & Hn) | (_ & Hn)]; rewrite Hn.
  - cbn [removed_pending]. apply round_frame in R. destruct R as (_ & _ & (nr & Hrp & _)).
    exists nr. exact Hrp.
  - exists []. rewrite app_nil_r. reflexivity.
Qed.

Lemma notify_Inv_all t w : Inv w ->
  Inv (notify t w) /\
  forall e, In e (regs_of w t) ->
    In (rid e) (delivered (notify t w)) \/ In (rid e) (removed_pending (notify t w)).
Proof.
  intros [I K].
  destruct (notify_cases t w) as [(l & l' & dl' & rp' & E & R & Hn) | (E & Hn)]; rewrite Hn.
  - apply (Inv4_perm _ _ _ _ _ (regsf_lookup _ _ _ E)) in I. cbn [cl] in I.
    destruct (Inv4_round _ _ _ _ _ _ _ _ I R) as [I' Hall].
    split.
    + split; cbn [trs next_rid delivered removed_pending].
      * apply (Inv4_perm _ _ _ _ _ (Permutation_sym (regsf_update _ _ _ None E))). exact I'.
      * rewrite update_keys. exact K.
    + unfold regs_of. rewrite E. cbn [delivered removed_pending]. exact Hall.
  - split; [split; assumption|]. unfold regs_of.
    destruct E as [E|E]; rewrite E; intros e [].
Qed.

Lemma Inv_new t w : Inv w -> present t w = false ->
  Inv (mkWorld (trs w ++ [(t, None)]) (next_rid w) (delivered w) (removed_pending w)).
Proof.
  intros [I K] P. split; cbn [trs next_rid delivered removed_pending].
  - rewrite regsf_app. cbn. rewrite app_nil_r. exact I.
  - rewrite map_app. apply NoDup_app_iff. split; [exact K|]. split.
    + cbn. constructor; [intros []|constructor].
    + intros x Hx [<-|[]]. cbn [fst] in Hx. revert Hx. apply lookup_None_iff.
      unfold present in P. destruct (lookup t (trs w)); [discriminate|reflexivity].
Qed.

Lemma Inv_delete t w : Inv w -> lookup t (trs w) = Some None ->
  Inv (mkWorld (delete t (trs w)) (next_rid w) (delivered w) (removed_pending w)).
Proof.
  intros [I K] E. split; cbn [trs next_rid delivered removed_pending].
  - apply (Inv4_perm _ _ _ _ _ (regsf_lookup _ _ _ E)) in I. exact I.
  - apply delete_NoDup. exact K.
Qed.

Lemma present_lookup t w : present t w = true -> exists c, lookup t (trs w) = Some c.
Proof.
  unfold present. destruct (lookup t (trs w)) as [c|]; [exists c; reflexivity|discriminate].
Qed.

Lemma notify_lookup_present t w : present t w = true -> lookup t (trs (notify t w)) = Some None.
Proof.
  intros P. rewrite notify_lookup, N.eqb_refl. destruct (present_lookup _ _ P) as [c ->]. reflexivity.
Qed.

Lemma step_Inv w o : Inv w -> Inv (step w o).
Proof.
  intros HI. destruct o as [t|tn to|tn to|td ts|td ts|t|t|t key sc|t key]; cbn [step].
  - destruct (present t w) eqn:P; [exact HI|apply Inv_new; assumption].
  - destruct (present tn w) eqn:P; cbn [orb]; [exact HI|].
    destruct (negb (present to w)); [exact HI|apply Inv_new; assumption].
  - destruct (present tn w) eqn:P; cbn [orb]; [exact HI|].
    destruct (negb (present to w)); [exact HI|].
    apply (Inv_new tn (notify to w)).
    + apply notify_Inv_all. exact HI.
    + rewrite present_notify. exact P.
  - destruct (negb (present td w) || negb (present ts w)); [exact HI|].
    destruct (N.eqb td ts); [exact HI|]. apply notify_Inv_all. exact HI.
  - destruct (negb (present td w) || negb (present ts w)); [exact HI|].
    destruct (N.eqb td ts); [exact HI|]. apply notify_Inv_all. apply notify_Inv_all. exact HI.
  - apply notify_Inv_all. exact HI.
  - destruct (present t w) eqn:P; [|exact HI].
    apply (Inv_delete t (notify t w)).
    + apply notify_Inv_all. exact HI.
    + apply notify_lookup_present. exact P.
  - destruct (lookup t (trs w)) as [c|] eqn:E; [|exact HI].
    destruct HI as [I K]. split; cbn [trs next_rid delivered removed_pending].
    + change (match c with Some l => l | None => [] end) with (cl c).
      apply (Inv4_perm _ _ _ _ _ (regsf_lookup _ _ _ E)) in I.
      apply (Inv4_perm _ _ _ _ _ (Permutation_sym (regsf_update _ _ _ _ E))). cbn [cl].
      apply (Inv4_cons _ _ _ _ key sc) in I.
      refine (Inv4_perm _ _ _ _ _ _ I).
      apply (Permutation_app_tail (regsf (delete t (trs w)))
               (Permutation_cons_append (cl c) (mkReg key (next_rid w) true sc))).
    + rewrite update_keys. exact K.
  - destruct (lookup t (trs w)) as [c|] eqn:E; [|exact HI].
    change (match c with Some l => l | None => [] end) with (cl c).
    destruct HI as [I K].
    apply (Inv4_perm _ _ _ _ _ (regsf_lookup _ _ _ E)) in I.
    destruct (erase_first_spec key (cl c)) as [Ee | (a & e & b & El & Ee)]; rewrite Ee;
      (split; cbn [trs next_rid delivered removed_pending]; [|rewrite update_keys; exact K]);
      apply (Inv4_perm _ _ _ _ _ (Permutation_sym (regsf_update _ _ _ _ E))); cbn [cl].
    + exact I.
    + rewrite El in I. apply Inv4_remove.
      refine (Inv4_perm _ _ _ _ _ _ I).
      apply (Permutation_app_tail (regsf (delete t (trs w)))
               (Permutation_sym (Permutation_middle a b e))).
Qed.

Lemma run_Inv ops : Inv (run ops).
Proof.
  unfold run. generalize Inv_w0. generalize w0.
  induction ops as [|o ops IH]; intros w HI; cbn [fold_left]; [exact HI|].
  apply IH. apply step_Inv. exact HI.
Qed.

(* ------------------------------------------------------------------ *)
(* The statements of Properties_C16.v                                  *)
(* ------------------------------------------------------------------ *)

Lemma delivered_nodup : forall ops, NoDup (delivered (run ops)).
Proof.
  intros ops. destruct (run_Inv ops) as [(_ & _ & _ & _ & H & _) _]. exact H.
Qed.

Lemma removed_never_delivered :
  forall ops r, was_removed_first (run ops) r -> ~ was_delivered (run ops) r.
Proof.
  intros ops r Hr Hd. destruct (run_Inv ops) as [(_ & _ & _ & _ & _ & _ & H & _) _].
  exact (H r Hd Hr).
Qed.

Lemma trichotomy_Inv w r : Inv w -> r < next_rid w ->
       (pending w r /\ ~ was_delivered w r /\ ~ was_removed_first w r)
    \/ (was_delivered w r /\ ~ pending w r /\ ~ was_removed_first w r)
    \/ (was_removed_first w r /\ ~ pending w r /\ ~ was_delivered w r).
Proof.
  intros [(I1 & I2 & I3 & I4 & I5 & I6 & I7 & I8 & I9) _] Hr.
  unfold was_delivered, was_removed_first.
  assert (Hp : pending w r -> ~ In r (delivered w) /\ ~ In r (removed_pending w)).
  { intros (e & He & <- & _). destruct (I8 e He) as (_ & A & B). split; assumption. }
  destruct (I9 r Hr) as [H|[H|H]].
  - left. apply in_map_iff in H. destruct H as (e & <- & He).
    destruct (I8 e He) as (A & B & C).
    split; [|split; assumption]. exists e. split; [exact He|]. split; [reflexivity|exact A].
  - right. left. split; [exact H|]. split.
    + intro P. apply Hp in P. destruct P as [P _]. exact (P H).
    + exact (I7 r H).
  - right. right. split; [exact H|]. split.
    + intro P. apply Hp in P. destruct P as [_ P]. exact (P H).
    + intro Hd. exact (I7 r Hd H).
Qed.

Lemma trichotomy :
  forall ops r, r < next_rid (run ops) ->
    let w := run ops in
       (pending w r /\ ~ was_delivered w r /\ ~ was_removed_first w r)
    \/ (was_delivered w r /\ ~ pending w r /\ ~ was_removed_first w r)
    \/ (was_removed_first w r /\ ~ pending w r /\ ~ was_delivered w r).
Proof.
  intros ops r Hr w. apply trichotomy_Inv; [apply run_Inv|exact Hr].
Qed.

Lemma trigger_Inv w o t : Inv w -> triggers o t = true -> effective w o = true ->
  regs_of (step w o) t = [] /\
  forall e, In e (regs_of w t) ->
    In (rid e) (delivered (step w o)) \/ In (rid e) (removed_pending (step w o)).
Proof.
  intros HI Ht He.
  destruct o as [t0|tn to|tn to|td ts|td ts|t0|t0|t0 key sc|t0 key];
    cbn [triggers] in Ht; try discriminate; cbn [effective] in He; cbn [step].
  - apply N.eqb_eq in Ht. subst t. apply andb_prop in He. destruct He as [P1 P2].
    apply negb_true_iff in P1. rewrite P1, P2. cbn [orb negb].
    destruct (notify_Inv_all to w HI) as [HI1 Hall]. split.
    + unfold regs_of. cbn [trs]. rewrite lookup_app, (notify_lookup_present _ _ P2). reflexivity.
    + cbn [delivered removed_pending]. exact Hall.
  - apply andb_prop in Ht. destruct Ht as [Ht Hne]. apply N.eqb_eq in Ht. subst t.
    apply andb_prop in He. destruct He as [P1 P2]. rewrite P1, P2. cbn [negb orb].
    apply negb_true_iff in Hne. rewrite Hne.
    split; [apply regs_of_notify_same|apply notify_Inv_all; exact HI].
  - apply andb_prop in Ht. destruct Ht as [Ht Hne].
    apply andb_prop in He. destruct He as [P1 P2]. rewrite P1, P2. cbn [negb orb].
    apply negb_true_iff in Hne. rewrite Hne. apply N.eqb_neq in Hne.
    destruct (notify_Inv_all td w HI) as [HI1 Hall1].
    apply orb_prop in Ht. destruct Ht as [Ht|Ht]; apply N.eqb_eq in Ht; subst t.
    + split.
      * rewrite regs_of_notify_other; [apply regs_of_notify_same|exact Hne].
      * intros e Hi.
        destruct (notify_delivered ts (notify td w)) as (new & -> & _).
        destruct (notify_removed ts (notify td w)) as (nr & ->).
        destruct (Hall1 e Hi) as [H|H]; [left|right]; apply in_or_app; left; exact H.
    + split; [apply regs_of_notify_same|].
      intros e Hi. apply (notify_Inv_all ts _ HI1).
      rewrite regs_of_notify_other; [exact Hi|]. intro E. apply Hne. symmetry. exact E.
  - apply N.eqb_eq in Ht. subst t.
    split; [apply regs_of_notify_same|apply notify_Inv_all; exact HI].
  - apply N.eqb_eq in Ht. subst t. rewrite He.
    destruct (notify_Inv_all t0 w HI) as [HI1 Hall]. split.
    + unfold regs_of. cbn [trs]. rewrite lookup_delete_same; [reflexivity|exact (proj2 HI1)].
    + cbn [delivered removed_pending]. exact Hall.
Qed.

Lemma trigger_delivers_all :
  forall ops o t, triggers o t = true -> effective (run ops) o = true ->
    let w := run ops in let w' := step w o in
    regs_of w' t = [] /\
    forall e, In e (regs_of w t) -> was_delivered w' (rid e) \/ was_removed_first w' (rid e).
Proof.
  intros ops o t Ht He w w'. apply trigger_Inv; [apply run_Inv|exact Ht|exact He].
Qed.

Ltac nochange := exists []; rewrite app_nil_r; split; [reflexivity|intros ? []].

Lemma only_triggers_w w o :
  exists new, delivered (step w o) = delivered w ++ new /\
    forall r, In r new -> exists t e, triggers o t = true /\ In e (regs_of w t) /\ rid e = r.
Proof.
  destruct o as [t0|tn to|tn to|td ts|td ts|t0|t0|t0 key sc|t0 key]; cbn [step].
  - destruct (present t0 w); nochange.
  - destruct (present tn w || negb (present to w)); nochange.
  - destruct (present tn w || negb (present to w)); [nochange|]. cbn [delivered].
    destruct (notify_delivered to w) as (new & Hd & Hn). exists new. split; [exact Hd|].
    intros r Hr. destruct (Hn r Hr) as (e & He & Hrid). exists to, e.
    cbn [triggers]. rewrite N.eqb_refl. split; [reflexivity|]. split; assumption.
  - destruct (negb (present td w) || negb (present ts w)); [nochange|].
    destruct (N.eqb_spec td ts) as [|Hne]; [nochange|].
    destruct (notify_delivered td w) as (new & Hd & Hn). exists new. split; [exact Hd|].
    intros r Hr. destruct (Hn r Hr) as (e & He & Hrid). exists td, e.
    cbn [triggers]. apply N.eqb_neq in Hne. rewrite N.eqb_refl, Hne.
    split; [reflexivity|]. split; assumption.
  - destruct (negb (present td w) || negb (present ts w)); [nochange|].
    destruct (N.eqb_spec td ts) as [|Hne]; [nochange|].
    destruct (notify_delivered td w) as (n1 & H1 & Hn1).
    destruct (notify_delivered ts (notify td w)) as (n2 & H2 & Hn2).
    exists (n1 ++ n2). split; [rewrite H2, H1, app_assoc; reflexivity|].
    pose proof Hne as Hne'. apply N.eqb_neq in Hne'.
    intros r Hr. apply in_app_or in Hr. destruct Hr as [Hr|Hr].
    + destruct (Hn1 r Hr) as (e & He & Hrid). exists td, e.
      cbn [triggers]. rewrite N.eqb_refl, Hne'. split; [reflexivity|]. split; assumption.
    + destruct (Hn2 r Hr) as (e & He & Hrid). exists ts, e.
      rewrite regs_of_notify_other in He; [|intro E; apply Hne; symmetry; exact E].
      cbn [triggers]. rewrite N.eqb_refl, Hne', orb_true_r. split; [reflexivity|]. split; assumption.
  - destruct (notify_delivered t0 w) as (new & Hd & Hn). exists new. split; [exact Hd|].
    intros r Hr. destruct (Hn r Hr) as (e & He & Hrid). exists t0, e.
    cbn [triggers]. rewrite N.eqb_refl. split; [reflexivity|]. split; assumption.
  - destruct (present t0 w); [|nochange]. cbn [delivered].
    destruct (notify_delivered t0 w) as (new & Hd & Hn). exists new. split; [exact Hd|].
    intros r Hr. destruct (Hn r Hr) as (e & He & Hrid). exists t0, e.
    cbn [triggers]. rewrite N.eqb_refl. split; [reflexivity|]. split; assumption.
  - destruct (lookup t0 (trs w)); nochange.
  - destruct (lookup t0 (trs w)) as [c|]; [|nochange].
    destruct (erase_first key match c with Some l => l | None => [] end) as [l' o]. nochange.
Qed.

Lemma only_triggers_deliver :
  forall ops o, let w := run ops in let w' := step w o in
    exists new, delivered w' = delivered w ++ new /\
      forall r, In r new -> exists t e, triggers o t = true /\ In e (regs_of w t) /\ rid e = r.
Proof. intros ops o w w'. apply only_triggers_w. Qed.

Lemma copy_ctor_transfers_nothing :
  forall w tn to, let w' := step w (TCopyCtor tn to) in
    delivered w' = delivered w /\ removed_pending w' = removed_pending w /\
    (forall t, t <> tn -> regs_of w' t = regs_of w t) /\
    (present tn w = false -> regs_of w' tn = []).
Proof.
  intros w tn to w'. subst w'. cbn [step].
  destruct (present tn w || negb (present to w)) eqn:G.
  - split; [reflexivity|]. split; [reflexivity|]. split; [reflexivity|].
    intros P. unfold regs_of. unfold present in P.
    destruct (lookup tn (trs w)); [discriminate|reflexivity].
  - apply orb_false_elim in G. destruct G as [P _].
    split; [reflexivity|]. split; [reflexivity|]. split.
    + intros t Hne. unfold regs_of. cbn [trs]. rewrite lookup_app. cbn [lookup].
      destruct (N.eqb_spec t tn); [congruence|].
      destruct (lookup t (trs w)) as [[l|]|]; reflexivity.
    + intros _. unfold regs_of. cbn [trs]. rewrite lookup_app. unfold present in P.
      destruct (lookup tn (trs w)); [discriminate|]. cbn [lookup]. rewrite N.eqb_refl. reflexivity.
Qed.

Lemma self_assign_silent :
  forall w t, step w (TAssign t t) = w /\ step w (TMoveAssign t t) = w.
Proof.
  intros w t. cbn [step]. rewrite N.eqb_refl.
  destruct (negb (present t w) || negb (present t w)); split; reflexivity.
Qed.
