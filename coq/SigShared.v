From Coq Require Import List NArith Bool Lia Arith. Import ListNotations.
Require Import Util SigCore SigLemmas SigInv SigSafe SigSpec SigExtra.
Local Open Scope N_scope.

(* SigShared.v -- the table of shared trackables along histories: its keys stay distinct (it is
   written only by OTNewShared / OTRelease, through [aset]); with that, the lifetime statement of
   shared trackables holds along every history without side condition, and no released object
   survives an operation without an owner. *)

(* ------------------------------------------------------------------ *)
(* 1. everything below [step] leaves [shared] alone                     *)
(* Lemmas have the shape  f .. s = Ok (.., s') -> shared s = l -> shared s' = l  so that a chain of
   intermediate states is walked backwards by [eauto]. *)

Create HintDb shdb.

Ltac sh_setter := intros H; exact H.

Lemma sh_with_slots v s l : shared s = l -> shared (with_slots v s) = l. Proof. sh_setter. Qed.
Lemma sh_with_skind v s l : shared s = l -> shared (with_skind v s) = l. Proof. sh_setter. Qed.
Lemma sh_with_sigs v s l : shared s = l -> shared (with_sigs v s) = l. Proof. sh_setter. Qed.
Lemma sh_with_impls v s l : shared s = l -> shared (with_impls v s) = l. Proof. sh_setter. Qed.
Lemma sh_with_tracks v s l : shared s = l -> shared (with_tracks v s) = l. Proof. sh_setter. Qed.
Lemma sh_with_conns v s l : shared s = l -> shared (with_conns v s) = l. Proof. sh_setter. Qed.
Lemma sh_with_sconns v s l : shared s = l -> shared (with_sconns v s) = l. Proof. sh_setter. Qed.
Lemma sh_with_next_rid v s l : shared s = l -> shared (with_next_rid v s) = l. Proof. sh_setter. Qed.
Lemma sh_with_next_nid v s l : shared s = l -> shared (with_next_nid v s) = l. Proof. sh_setter. Qed.
Lemma sh_with_next_iid v s l : shared s = l -> shared (with_next_iid v s) = l. Proof. sh_setter. Qed.
Lemma sh_with_next_ph v s l : shared s = l -> shared (with_next_ph v s) = l. Proof. sh_setter. Qed.
Lemma sh_with_leaked v s l : shared s = l -> shared (with_leaked v s) = l. Proof. sh_setter. Qed.
Lemma sh_with_trace v s l : shared s = l -> shared (with_trace v s) = l. Proof. sh_setter. Qed.
Lemma sh_emit_ev e s l : shared s = l -> shared (emit_ev e s) = l. Proof. sh_setter. Qed.
Lemma sh_set_impl i im s l : shared s = l -> shared (set_impl i im s) = l. Proof. sh_setter. Qed.
Lemma sh_set_track t tr s l : shared s = l -> shared (set_track t tr s) = l. Proof. sh_setter. Qed.
Lemma sh_new_slot_var x rk sb s l : shared s = l -> shared (new_slot_var x rk sb s) = l. Proof. sh_setter. Qed.
Lemma sh_set_sb lc sb s l : shared s = l -> shared (set_sb lc sb s) = l.
Proof. intros <-. apply set_sb_shared. Qed.
Lemma sh_set_rep lc r s l : shared s = l -> shared (set_rep lc r s) = l.
Proof. intros <-. unfold set_rep. destruct (get_sb lc s); [apply set_sb_shared|reflexivity]. Qed.
Lemma sh_set_connptr w p s l : shared s = l -> shared (set_connptr w p s) = l.
Proof. intros <-. destruct w; reflexivity. Qed.
Lemma sh_null_watchers ws s l : shared s = l -> shared (null_watchers ws s) = l.
Proof. intros <-. apply null_watchers_shared. Qed.
Lemma sh_if (b : bool) s1 s2 l : shared s1 = l -> shared s2 = l -> shared (if b then s1 else s2) = l.
Proof. destruct b; auto. Qed.

#[export] Hint Resolve sh_with_slots sh_with_skind sh_with_sigs sh_with_impls sh_with_tracks sh_with_conns
  sh_with_sconns sh_with_next_rid sh_with_next_nid sh_with_next_iid sh_with_next_ph sh_with_leaked
  sh_with_trace sh_emit_ev sh_set_impl sh_set_track sh_new_slot_var sh_set_sb sh_set_rep sh_set_connptr
  sh_null_watchers sh_if : shdb.

Lemma Ok_inj {A} (a b : A) : Ok a = Ok b -> a = b.
Proof. intro H; injection H; auto. Qed.
Lemma pair_inj {A B} (a a' : A) (b b' : B) : (a, b) = (a', b') -> a = a' /\ b = b'.
Proof. intro H; injection H; auto. Qed.

Ltac inv_ok :=
  repeat match goal with
  | H : Ok _ = Ok _ |- _ => apply Ok_inj in H
  | H : Err _ = Ok _ |- _ => discriminate H
  | H : (_, _) = (_, _) |- _ => apply pair_inj in H; destruct H
  | H : ?x = ?y |- _ => is_var x; subst x
  | H : ?y = ?x |- _ => is_var x; subst x
  end.

Ltac kill_err :=
  try match goal with
      | H : Err _ = Ok _ |- _ => discriminate H
      | H : Fail _ = Done _ _ |- _ => discriminate H
      | H : Fail _ = Thrown _ |- _ => discriminate H
      end.

Ltac split_match H :=
  repeat match goal with
  | X : context [match ?x with _ => _ end] |- _ => destruct x eqn:?; kill_err
  end.

(* H : <unfolded body> = Ok ..;  goal : shared s' = shared s *)
Ltac sh_crush H :=
  unfold rbind in H; cbv beta zeta in H; split_match H; inv_ok; eauto 30 with shdb.

Lemma sh_track_add t rid s s' l : track_add t rid s = Ok s' -> shared s = l -> shared s' = l.
Proof. intros H <-. unfold track_add in H. sh_crush H. Qed.
#[export] Hint Resolve sh_track_add : shdb.

Lemma sh_track_remove t rid s s' l : track_remove t rid s = Ok s' -> shared s = l -> shared s' = l.
Proof. intros H <-. unfold track_remove in H. sh_crush H. Qed.
#[export] Hint Resolve sh_track_remove : shdb.

Lemma sh_bind_all rid refs : forall s s' l, bind_all rid refs s = Ok s' -> shared s = l -> shared s' = l.
Proof. induction refs as [|t r IH]; intros s s' l H <-; cbn [bind_all] in H; sh_crush H. Qed.
#[export] Hint Resolve sh_bind_all : shdb.

Lemma sh_unbind_all rid refs : forall s s' l, unbind_all rid refs s = Ok s' -> shared s = l -> shared s' = l.
Proof. induction refs as [|t r IH]; intros s s' l H <-; cbn [unbind_all] in H; sh_crush H. Qed.
#[export] Hint Resolve sh_unbind_all : shdb.

Lemma sh_watch_add p w s s' l : watch_add p w s = Ok s' -> shared s = l -> shared s' = l.
Proof. intros H <-. unfold watch_add in H. sh_crush H. Qed.
#[export] Hint Resolve sh_watch_add : shdb.

Lemma sh_watch_remove p w s s' l : watch_remove p w s = Ok s' -> shared s = l -> shared s' = l.
Proof. intros H <-. unfold watch_remove in H. sh_crush H. Qed.
#[export] Hint Resolve sh_watch_remove : shdb.

Lemma sh_rep_delete r s s' l : rep_delete r s = Ok s' -> shared s = l -> shared s' = l.
Proof. intros H <-. unfold rep_delete in H. sh_crush H. Qed.
#[export] Hint Resolve sh_rep_delete : shdb.

Lemma sh_sb_delete sb s s' l : sb_delete sb s = Ok s' -> shared s = l -> shared s' = l.
Proof. intros H <-. unfold sb_delete in H. sh_crush H. Qed.
#[export] Hint Resolve sh_sb_delete : shdb.

Lemma sh_rep_destroy lc s s' l : rep_destroy lc s = Ok s' -> shared s = l -> shared s' = l.
Proof. intros H <-. unfold rep_destroy in H. sh_crush H. Qed.
#[export] Hint Resolve sh_rep_destroy : shdb.

Lemma sh_erase_node i n s s' l : erase_node i n s = Ok s' -> shared s = l -> shared s' = l.
Proof. intros H <-. unfold erase_node in H. sh_crush H. Qed.
#[export] Hint Resolve sh_erase_node : shdb.

Lemma sh_parent_cleanup i n s s' l : parent_cleanup i n s = Ok s' -> shared s = l -> shared s' = l.
Proof. intros H <-. unfold parent_cleanup in H. sh_crush H. Qed.
#[export] Hint Resolve sh_parent_cleanup : shdb.

Lemma sh_rep_disconnect lc s s' l : rep_disconnect lc s = Ok s' -> shared s = l -> shared s' = l.
Proof. intros H <-. unfold rep_disconnect in H. sh_crush H. Qed.
#[export] Hint Resolve sh_rep_disconnect : shdb.

Lemma sh_rep_invalidated rid s s' l : rep_invalidated rid s = Ok s' -> shared s = l -> shared s' = l.
Proof. intros H <-. unfold rep_invalidated in H. sh_crush H. Qed.
#[export] Hint Resolve sh_rep_invalidated : shdb.

Lemma sh_track_round fuel : forall k t s s' l, track_round fuel k t s = Ok s' -> shared s = l -> shared s' = l.
Proof. induction fuel as [|fuel IH]; intros k t s s' l H <-; cbn [track_round] in H; sh_crush H. Qed.
#[export] Hint Resolve sh_track_round : shdb.

Lemma sh_track_notify t s s' l : track_notify t s = Ok s' -> shared s = l -> shared s' = l.
Proof. intros H <-. unfold track_notify in H. sh_crush H. Qed.
#[export] Hint Resolve sh_track_notify : shdb.

Lemma sh_rep_clone r s r' s' l : rep_clone r s = Ok (r', s') -> shared s = l -> shared s' = l.
Proof. intros H <-. unfold rep_clone in H. sh_crush H. Qed.
#[export] Hint Resolve sh_rep_clone : shdb.

Lemma sh_sb_copy src s sb s' l : sb_copy src s = Ok (sb, s') -> shared s = l -> shared s' = l.
Proof. intros H <-. unfold sb_copy in H. sh_crush H. Qed.
#[export] Hint Resolve sh_sb_copy : shdb.

Lemma sh_sb_move src s sb src' s' l : sb_move src s = Ok (sb, src', s') -> shared s = l -> shared s' = l.
Proof. intros H <-. unfold sb_move in H. sh_crush H. Qed.
#[export] Hint Resolve sh_sb_move : shdb.

Lemma sh_delete_rep_with_check lc s s' l : delete_rep_with_check lc s = Ok s' -> shared s = l -> shared s' = l.
Proof. intros H <-. unfold delete_rep_with_check in H. sh_crush H. Qed.
#[export] Hint Resolve sh_delete_rep_with_check : shdb.

Lemma sh_sb_assign d x s s' l : sb_assign d x s = Ok s' -> shared s = l -> shared s' = l.
Proof. intros H <-. unfold sb_assign in H. sh_crush H. Qed.
#[export] Hint Resolve sh_sb_assign : shdb.

Lemma sh_sb_move_assign d x s s' l : sb_move_assign d x s = Ok s' -> shared s = l -> shared s' = l.
Proof. intros H <-. unfold sb_move_assign in H. sh_crush H. Qed.
#[export] Hint Resolve sh_sb_move_assign : shdb.

Lemma sh_disconnect_nodes i ids : forall s s' l, disconnect_nodes i ids s = Ok s' -> shared s = l -> shared s' = l.
Proof. induction ids as [|n r IH]; intros s s' l H <-; cbn [disconnect_nodes] in H; sh_crush H. Qed.
#[export] Hint Resolve sh_disconnect_nodes : shdb.

Lemma sh_delete_sbs ns : forall s s' l, delete_sbs ns s = Ok s' -> shared s = l -> shared s' = l.
Proof. induction ns as [|n r IH]; intros s s' l H <-; cbn [delete_sbs] in H; sh_crush H. Qed.
#[export] Hint Resolve sh_delete_sbs : shdb.

Lemma sh_sweep_nodes i ids : forall s s' l, sweep_nodes i ids s = Ok s' -> shared s = l -> shared s' = l.
Proof. induction ids as [|n r IH]; intros s s' l H <-; cbn [sweep_nodes] in H; sh_crush H. Qed.
#[export] Hint Resolve sh_sweep_nodes : shdb.

Lemma sh_upd_impl i f s s' l : upd_impl i f s = Ok s' -> shared s = l -> shared s' = l.
Proof. intros H <-. unfold upd_impl in H. sh_crush H. Qed.
#[export] Hint Resolve sh_upd_impl : shdb.

Lemma sh_upd_impl_opt i f s s' l : upd_impl_opt i f s = Ok s' -> shared s = l -> shared s' = l.
Proof. intros H <-. unfold upd_impl_opt in H. sh_crush H. Qed.
#[export] Hint Resolve sh_upd_impl_opt : shdb.

Lemma sh_destroy_impl i s s' l : destroy_impl i s = Ok s' -> shared s = l -> shared s' = l.
Proof. intros H <-. unfold destroy_impl in H. sh_crush H. Qed.
#[export] Hint Resolve sh_destroy_impl : shdb.

Lemma sh_release_check i s s' l : release_check i s = Ok s' -> shared s = l -> shared s' = l.
Proof. intros H <-. unfold release_check in H. sh_crush H. Qed.
#[export] Hint Resolve sh_release_check : shdb.

Lemma sh_sweep_pass i s s' l : sweep_pass i s = Ok s' -> shared s = l -> shared s' = l.
Proof. intros H <-. unfold sweep_pass in H. sh_crush H. Qed.
#[export] Hint Resolve sh_sweep_pass : shdb.

Lemma sh_sweep i s s' l : sweep i s = Ok s' -> shared s = l -> shared s' = l.
Proof. intros H <-. unfold sweep in H. sh_crush H. Qed.
#[export] Hint Resolve sh_sweep : shdb.

Lemma sh_unreference_exec i s s' l : unreference_exec i s = Ok s' -> shared s = l -> shared s' = l.
Proof. intros H <-. unfold unreference_exec in H. sh_crush H. Qed.
#[export] Hint Resolve sh_unreference_exec : shdb.

Lemma sh_impl_clear i s s' l : impl_clear i s = Ok s' -> shared s = l -> shared s' = l.
Proof. intros H <-. unfold impl_clear in H. sh_crush H. Qed.
#[export] Hint Resolve sh_impl_clear : shdb.

Lemma sh_ensure_impl g go s i s' l : ensure_impl g go s = (i, s') -> shared s = l -> shared s' = l.
Proof. intros H <-. unfold ensure_impl in H. cbv beta zeta in H. split_match H; inv_ok; eauto 30 with shdb. Qed.
#[export] Hint Resolve sh_ensure_impl : shdb.

Lemma sh_impl_insert i front sb s n s' l : impl_insert i front sb s = Ok (n, s') -> shared s = l -> shared s' = l.
Proof. intros H <-. unfold impl_insert in H. sh_crush H. Qed.
#[export] Hint Resolve sh_impl_insert : shdb.

Lemma sh_frame_enter i s first ph k s' l : frame_enter i s = Ok (first, ph, k, s') -> shared s = l -> shared s' = l.
Proof. intros H <-. unfold frame_enter in H. sh_crush H. Qed.
#[export] Hint Resolve sh_frame_enter : shdb.

Lemma sh_frame_leave i ph s s' l : frame_leave i ph s = Ok s' -> shared s = l -> shared s' = l.
Proof. intros H <-. unfold frame_leave in H. sh_crush H. Qed.
#[export] Hint Resolve sh_frame_leave : shdb.

Lemma sh_conn_disconnect p s s' l : conn_disconnect p s = Ok s' -> shared s = l -> shared s' = l.
Proof. intros H <-. unfold conn_disconnect in H. sh_crush H. Qed.
#[export] Hint Resolve sh_conn_disconnect : shdb.

Lemma sh_conn_set w p s s' l : conn_set w p s = Ok s' -> shared s = l -> shared s' = l.
Proof. intros H <-. unfold conn_set in H. sh_crush H. Qed.
#[export] Hint Resolve sh_conn_set : shdb.

Lemma sh_sig_destroy g go s s' l : sig_destroy g go s = Ok s' -> shared s = l -> shared s' = l.
Proof. intros H <-. unfold sig_destroy in H. sh_crush H. Qed.
#[export] Hint Resolve sh_sig_destroy : shdb.

(* ------------------------------------------------------------------ *)
(* 2. the interpreter keeps the keys of [shared] distinct               *)

Definition PS (st : state) : Prop := NoDup (map fst (shared st)).

Definition out_p {A} (o : outcome A) : Prop :=
  match o with Done s _ => PS s | Thrown s => PS s | Fail _ => True end.

Lemma PS_sh s s' : shared s' = shared s -> PS s -> PS s'.
Proof. unfold PS. intros ->. exact (fun H => H). Qed.

Lemma PS_aset t b st st' : shared st' = shared st -> PS st -> PS (with_shared (aset t b (shared st)) st').
Proof. intros _ H. unfold PS. cbn [shared with_shared]. apply (nodup_keys_aset t (shared st) b). exact H. Qed.

Lemma PS_st0 : PS st0.
Proof. unfold PS. cbn. constructor. Qed.

Create HintDb outdb.

Ltac solve_ps :=
  match goal with
  | HP : PS ?s |- PS ?s' => solve [apply (PS_sh s s'); [eauto 30 with shdb | exact HP]]
  end.

#[export] Hint Extern 1 (PS _) => solve_ps : outdb.

Ltac out_crush :=
  repeat (cbv beta zeta;
  match goal with
  | |- True => exact I
  | |- PS _ => solve_ps
  | |- out_p (Fail _) => exact I
  | |- out_p (Done _ _) => cbn [out_p]; solve_ps
  | |- out_p (Thrown _) => cbn [out_p]; solve_ps
  | |- out_p (skip _) => unfold skip
  | |- out_p (liftu _) => unfold liftu
  | |- out_p (lift _ _) => unfold lift, rbind
  | |- out_p (match ?x with _ => _ end) =>
       lazymatch type of x with
       | outcome _ => let X := fresh "X" in
                      assert (X : out_p x) by (eauto with outdb);
                      destruct x eqn:?; cbn [out_p] in X
       | _ => destruct x eqn:?; unfold rbind in *; split_match idtac; inv_ok
       end
  end).

Section SharedStep.
  Variable prog : program.
  Variable rec : callee -> state -> outcome N.
  Hypothesis rec_p : forall c st, PS st -> out_p (rec c st).

  Lemma invoke_functor_p f arg st : PS st -> out_p (invoke_functor rec f arg st).
  Proof.
    intro HP. unfold invoke_functor. destruct (f_fwd f); [apply rec_p; exact HP|].
    assert (X : out_p (rec (CScript (f_body f) arg) (emit_ev (EEnter (f_body f) arg) st))) by (apply rec_p; solve_ps).
    destruct (rec (CScript (f_body f) arg) (emit_ev (EEnter (f_body f) arg) st)); cbn [out_p] in *; out_crush.
  Qed.
  Hint Resolve invoke_functor_p : outdb.

  Lemma invoke_at_p l arg st : PS st -> out_p (invoke_at rec l arg st).
  Proof. intro HP. unfold invoke_at. out_crush. apply invoke_functor_p; exact HP. Qed.
  Hint Resolve invoke_at_p : outdb.

  Lemma emit_loop_p i ph arg : forall fuel cur last st, PS st -> out_p (emit_loop rec fuel i cur ph arg last st).
  Proof.
    induction fuel as [|fuel IH]; intros cur last st HP; cbn [emit_loop]; out_crush; apply IH; solve_ps.
  Qed.
  Hint Resolve emit_loop_p : outdb.

  Lemma with_frame_p {A} i (body : nid -> nid -> nat -> state -> outcome A) st :
    (forall first ph n st1, PS st1 -> out_p (body first ph n st1)) -> PS st -> out_p (with_frame i body st).
  Proof.
    intros Hb HP. unfold with_frame. out_crush.
  Qed.

  Lemma cur_deref_p i arg c st : PS st -> out_p (cur_deref rec i arg c st).
  Proof. intro HP. unfold cur_deref. out_crush. Qed.
  Hint Resolve cur_deref_p : outdb.

  Lemma acc_walk_p i arg lastpos z : forall fuel c a st, PS st -> out_p (acc_walk rec fuel i arg lastpos z c a st).
  Proof.
    induction fuel as [|fuel IH]; intros c a st HP; cbn [acc_walk]; out_crush; apply IH; solve_ps.
  Qed.
  Hint Resolve acc_walk_p : outdb.

  Lemma acc_walk_rev_p i arg firstpos : forall fuel c a st, PS st -> out_p (acc_walk_rev rec fuel i arg firstpos c a st).
  Proof.
    induction fuel as [|fuel IH]; intros c a st HP; cbn [acc_walk_rev]; out_crush; apply IH; solve_ps.
  Qed.
  Hint Resolve acc_walk_rev_p : outdb.

  Lemma acc_run_p n i arg fc lc : forall ops cs a st, PS st -> out_p (acc_run rec n i arg fc lc ops cs a st).
  Proof.
    induction ops as [|o ops IH]; intros cs a st HP; cbn [acc_run]; [out_crush|].
    destruct o; out_crush; apply IH; solve_ps.
  Qed.
  Hint Resolve acc_run_p : outdb.

  Lemma emit_sig_p g arg st : PS st -> out_p (emit_sig prog rec g arg st).
  Proof.
    intro HP. unfold emit_sig. out_crush; try (apply with_frame_p; [intros; eauto with outdb|exact HP]); eauto with outdb.
  Qed.
  Hint Resolve emit_sig_p : outdb.

  Lemma conn_query_p p st : PS st -> out_p (conn_query p st).
  Proof. intro HP. unfold conn_query. out_crush. Qed.
  Lemma conn_block_p p b st : PS st -> out_p (conn_block p b st).
  Proof. intro HP. unfold conn_block. out_crush. Qed.
  Hint Resolve conn_query_p conn_block_p : outdb.

  Theorem step_p o st : PS st -> out_p (step prog rec o st).
  Proof.
    intro HP. destruct o; cbn [step].
    all: try solve [out_crush].
    all: try solve [out_crush; eauto with outdb].
    - (* OTNewShared *)
      destruct (fresh_track t st && (t <? 1000)); [|out_crush].
      cbn [out_p]. apply PS_aset; [reflexivity|exact HP].
    - (* OTRelease *)
      destruct (live_track t st); [|out_crush].
      destruct (is_shared t st && negb (is_released t st)); [|out_crush].
      cbn [out_p]. apply PS_aset; [reflexivity|exact HP].
    - (* OGShare *)
      destruct (live_sig g st); [|out_crush].
      destruct (negb (is_shared (sig_key g) st) && (g <? 1000)); [|out_crush].
      cbn [out_p]. apply PS_aset; [reflexivity|exact HP].
    - (* OGRelease *)
      destruct (live_sig g st); [|out_crush].
      destruct (is_shared (sig_key g) st && negb (is_released (sig_key g) st)); [|out_crush].
      cbn [out_p]. apply PS_aset; [reflexivity|exact HP].
    - (* OCShare *)
      destruct (get_connptr (WC c) st); [|out_crush].
      destruct (negb (is_shared (conn_key c) st) && (c <? 1000)); [|out_crush].
      cbn [out_p]. apply PS_aset; [reflexivity|exact HP].
    - (* OCRelease *)
      destruct (get_connptr (WC c) st); [|out_crush].
      destruct (is_shared (conn_key c) st && negb (is_released (conn_key c) st)); [|out_crush].
      cbn [out_p]. apply PS_aset; [reflexivity|exact HP].
  Qed.

  Lemma sh_gc : forall fuel s s' l, gc prog fuel s = Ok s' -> shared s = l -> shared s' = l.
  Proof. induction fuel as [|fuel IH]; intros s s' l H <-; cbn [gc] in H; sh_crush H. Qed.

  Lemma sh_gc_shared s s' l : gc_shared prog s = Ok s' -> shared s = l -> shared s' = l.
  Proof. unfold gc_shared. apply sh_gc. Qed.
  Hint Resolve sh_gc_shared : shdb.

  Lemma run_ops_p ops : forall st, PS st -> out_p (run_ops prog rec ops st).
  Proof.
    induction ops as [|o ops IH]; intros st HP; cbn [run_ops]; [exact HP|].
    pose proof (step_p o st HP) as X. destruct (step prog rec o st) as [st1 u|st1|e]; cbn [out_p] in X; [|exact X|exact I].
    destruct (gc_shared prog st1) as [st2|e] eqn:E2; [|exact I].
    apply IH. solve_ps.
  Qed.

  Lemma run_callee_p c st : PS st -> out_p (run_callee prog rec c st).
  Proof.
    intro HP. destruct c as [b arg|g arg]; cbn [run_callee].
    - destruct (aget b (p_scripts prog)) as [[ops rs]|]; [|exact HP].
      pose proof (run_ops_p ops st HP) as X. destruct (run_ops prog rec ops st); exact X.
    - apply emit_sig_p. exact HP.
  Qed.
End SharedStep.

(* closing the knot *)
Lemma run_callee_fuel_p prog fuel : forall c st, PS st -> out_p (run_callee_fuel prog fuel c st).
Proof.
  induction fuel as [|fuel IH]; intros c st HP; cbn [run_callee_fuel].
  - exact I.
  - apply run_callee_p; [exact IH|exact HP].
Qed.

(* one top-level operation, as in [run_top] *)
Lemma after_op_p p fuel o st st1 : PS st -> after_op p fuel o st st1 -> PS st1.
Proof.
  intros HP Ha. pose proof (step_p p _ (run_callee_fuel_p p fuel) o st HP) as X.
  destruct Ha as [E|(st1' & E & ->)]; rewrite E in X; cbn [out_p] in X; [exact X|].
  eapply PS_sh; [|exact X]. reflexivity.
Qed.

Lemma after_op_wf p fuel o st st1 : WF st -> after_op p fuel o st st1 -> WF st1.
Proof.
  intros H Ha. pose proof (step_ok p _ (run_callee_fuel_ok p fuel) o st H) as X.
  destruct Ha as [E|(st1' & E & ->)]; rewrite E in X; cbn [out_ok] in X; [exact (proj1 X)|].
  eapply WF_sim; [apply sim_emit_ev|exact (proj1 X)].
Qed.

Lemma run_top_p p fuel : forall ops st st', PS st -> run_top p fuel ops st = Ok st' -> PS st'.
Proof.
  induction ops as [|o ops IH]; intros st st' HP E; cbn [run_top] in E.
  - apply Ok_inj in E. subst st'. exact HP.
  - destruct (step p (run_callee_fuel p fuel) o st) as [st1 u|st1|e] eqn:Es; [| |discriminate E].
    + destruct u. assert (P1 : PS st1) by (apply (after_op_p p fuel o st st1 HP); left; exact Es).
      destruct (gc_shared p st1) as [st2|e] eqn:E2; cbn [rbind] in E; [|discriminate E].
      apply (IH st2 st'); [|exact E]. eapply PS_sh; [|exact P1]. eapply sh_gc_shared; [exact E2|reflexivity].
    + assert (P1 : PS (emit_ev EExn st1)) by (apply (after_op_p p fuel o st _ HP); right; exists st1; split; [exact Es|reflexivity]).
      destruct (gc_shared p (emit_ev EExn st1)) as [st2|e] eqn:E2; cbn [rbind] in E; [|discriminate E].
      apply (IH st2 st'); [|exact E]. eapply PS_sh; [|exact P1]. eapply sh_gc_shared; [exact E2|reflexivity].
Qed.

(* ------------------------------------------------------------------ *)
(* 3. the statements                                                    *)

Lemma shared_keys_distinct : S_shared_keys_distinct.
Proof.
  intros p fuel st [ops E]. exact (run_top_p p fuel ops st0 st PS_st0 E).
Qed.

Lemma reachable_wf p fuel st : reachable p fuel st -> WF st.
Proof.
  intros [ops E]. pose proof (run_top_safe p fuel ops st0 WF_top_st0) as X. rewrite E in X. exact (proj1 X).
Qed.

Lemma shared_trackable_lifetime_history : S_shared_trackable_lifetime_history.
Proof.
  intros p fuel st o st1 st2 t Hr Ha Hg Ht.
  assert (W1 : WF st1) by (eapply after_op_wf; [exact (reachable_wf p fuel st Hr)|exact Ha]).
  assert (P1 : PS st1) by (eapply after_op_p; [exact (shared_keys_distinct p fuel st Hr)|exact Ha]).
  split; [exact P1|]. split.
  - exact (proj1 (shared_trackable_lifetime_partial p st1 st2 t W1 P1 Hg Ht)).
  - apply (shared_trackable_kept_while_owned p st1 st2 t Hg). lia.
Qed.

(* the same for signal objects co-owned by functor copies *)
Lemma shared_signal_lifetime_history : S_shared_signal_lifetime_history.
Proof.
  intros p fuel st o st1 st2 g Hr Ha Hg Hlt.
  assert (W1 : WF st1) by (eapply after_op_wf; [exact (reachable_wf p fuel st Hr)|exact Ha]).
  assert (P1 : PS st1) by (eapply after_op_p; [exact (shared_keys_distinct p fuel st Hr)|exact Ha]).
  split.
  - intros Hl Hl'. exact (proj1 (proj1 (shared_signal_lifetime p st1 st2 g W1 P1 Hg Hlt) Hl Hl')).
  - exact (shared_signal_kept_while_owned p st1 st2 g Hg Hlt).
Qed.

(* and for connection objects co-owned by functor copies *)
Lemma shared_connection_lifetime_history : S_shared_connection_lifetime_history.
Proof.
  intros p fuel st o st1 st2 c Hr Ha Hg.
  assert (W1 : WF st1) by (eapply after_op_wf; [exact (reachable_wf p fuel st Hr)|exact Ha]).
  assert (P1 : PS st1) by (eapply after_op_p; [exact (shared_keys_distinct p fuel st Hr)|exact Ha]).
  split.
  - intros Hl Hl'. exact (proj1 (proj1 (shared_connection_lifetime p st1 st2 c W1 P1 Hg) Hl Hl')).
  - exact (shared_connection_kept_while_owned p st1 st2 c Hg).
Qed.

(* after the collection at the end of an operation no orphan is left; this is true of the initial
   state too, so of every reachable state *)
Definition no_orphan (p : program) (st : state) : Prop := find_orphan p (shared st) st = None.

Lemma run_top_no_orphan p fuel : forall ops st st', no_orphan p st -> run_top p fuel ops st = Ok st' -> no_orphan p st'.
Proof.
  induction ops as [|o ops IH]; intros st st' HR E; cbn [run_top] in E.
  - apply Ok_inj in E. subst st'. exact HR.
  - destruct (step p (run_callee_fuel p fuel) o st) as [st1 u|st1|e]; [| |discriminate E].
    + destruct (gc_shared p st1) as [st2|e] eqn:E2; cbn [rbind] in E; [|discriminate E].
      apply (IH st2 st'); [|exact E]. exact (gc_result p _ st1 st2 E2).
    + destruct (gc_shared p (emit_ev EExn st1)) as [st2|e] eqn:E2; cbn [rbind] in E; [|discriminate E].
      apply (IH st2 st'); [|exact E]. exact (gc_result p _ _ st2 E2).
Qed.

(* S_no_orphan_at_rest as stated (for every t) is FALSE in the model with co-owned signal objects:
   a key from 2000 on names a signal object, while the trackable with that number can be the
   trackable base of the signal object g = t - 1000 >= 1000.  It holds for every t < 2000 (user
   trackables are the t < 1000). *)
Lemma no_orphan_at_rest_partial :
  forall p fuel st t, reachable p fuel st -> t < 2000 ->
    live_track t st <> None -> is_released t st = true -> 0 < owner_count p t st.
Proof.
  intros p fuel st t [ops E] Ht2 Hl Hr.
  assert (Hfo : no_orphan p st) by (apply (run_top_no_orphan p fuel ops st0 st); [reflexivity|exact E]).
  unfold no_orphan in Hfo. unfold is_released in Hr.
  destruct (aget t (shared st)) as [[|]|] eqn:Ha; try discriminate Hr.
  pose proof (find_orphan_none p _ _ Hfo t (aget_in _ _ _ Ha) (proj2 (key_live_track t st Ht2) Hl)) as X. lia.
Qed.

(* the statement quantified over every t is false at t = 2000 (the trackable base of signal object 1000
   against the key of signal object 0): the counterexample is kept with the old statement spelled out *)
Definition nox_prog : program := mkProg [] [] [] [].
Definition nox_ops : list op :=
  [OGNew 1000 (mkGK RV None true); OGNew 0 (mkGK RV None false); OGShare 0; OGRelease 0].
Definition nox_st : state := match run_top nox_prog 0 nox_ops st0 with Ok s => s | Err _ => st0 end.

Lemma no_orphan_at_rest_any_key_false :
  ~ (forall p fuel st t, reachable p fuel st ->
       live_track t st <> None -> is_released t st = true -> 0 < owner_count p t st).
Proof.
  intro H.
  assert (R : reachable nox_prog 0 nox_st) by (exists nox_ops; vm_compute; reflexivity).
  assert (A : 0 < owner_count nox_prog 2000 nox_st).
  { apply (H nox_prog 0%nat nox_st 2000 R); [vm_compute; discriminate|vm_compute; reflexivity]. }
  vm_compute in A. discriminate.
Qed.

Lemma no_orphan_at_rest : S_no_orphan_at_rest.
Proof.
  intros p fuel st t R Ht. apply (no_orphan_at_rest_partial p fuel st t R). lia.
Qed.

Lemma no_orphan_signal_at_rest : S_no_orphan_signal_at_rest.
Proof.
  intros p fuel st g [ops E] Hg Hl Hr.
  assert (Hfo : no_orphan p st) by (apply (run_top_no_orphan p fuel ops st0 st); [reflexivity|exact E]).
  unfold no_orphan in Hfo. unfold is_released in Hr.
  destruct (aget (sig_key g) (shared st)) as [[|]|] eqn:Ha; try discriminate Hr.
  pose proof (find_orphan_none p _ _ Hfo _ (aget_in _ _ _ Ha) (proj2 (key_live_sig g st Hg) Hl)) as X. lia.
Qed.

Lemma no_orphan_connection_at_rest : S_no_orphan_connection_at_rest.
Proof.
  intros p fuel st c [ops E] Hl Hr.
  assert (Hfo : no_orphan p st) by (apply (run_top_no_orphan p fuel ops st0 st); [reflexivity|exact E]).
  unfold no_orphan in Hfo. unfold is_released in Hr.
  destruct (aget (conn_key c) (shared st)) as [[|]|] eqn:Ha; try discriminate Hr.
  pose proof (find_orphan_none p _ _ Hfo _ (aget_in _ _ _ Ha) (proj2 (key_live_conn c st) Hl)) as X. lia.
Qed.

(* S_shared_signal_lifetime_history and S_no_orphan_signal_at_rest without the bound g < 2000 are false in
   the model with co-owned connection objects: the key sig_key 2000 = 4000 = conn_key 0 names the
   connection object 0.  After OGNew 2000; OCEmpty 0; OCShare 0; OCRelease 0 the connection object has been
   collected, its entry (4000, true) stays in the table, and the signal object 2000 is alive and unowned. *)
Definition sgx_prog : program := mkProg [] [] [] [].
Definition sgx_ops : list op := [OGNew 2000 (mkGK RV None false); OCEmpty 0; OCShare 0].
Definition sgx_st : state := match run_top sgx_prog 0 sgx_ops st0 with Ok s => s | Err _ => st0 end.
Definition sgx_st1 : state :=
  match step sgx_prog (run_callee_fuel sgx_prog 0) (OCRelease 0) sgx_st with Done s _ => s | _ => st0 end.
Definition sgx_st2 : state := match gc_shared sgx_prog sgx_st1 with Ok s => s | Err _ => st0 end.

Lemma shared_signal_any_key_false :
  ~ (forall p fuel st g, reachable p fuel st ->
       live_sig g st <> None -> is_released (sig_key g) st = true -> 0 < owner_count p (sig_key g) st) /\
  ~ (forall p fuel st o st1 st2 g, reachable p fuel st -> after_op p fuel o st st1 ->
       gc_shared p st1 = Ok st2 ->
       (live_sig g st1 <> None -> live_sig g st2 = None -> is_released (sig_key g) st1 = true) /\
       (live_sig g st2 <> None -> is_released (sig_key g) st2 = true -> 0 < owner_count p (sig_key g) st2)).
Proof.
  assert (R : reachable sgx_prog 0 sgx_st) by (exists sgx_ops; vm_compute; reflexivity).
  assert (A : after_op sgx_prog 0 (OCRelease 0) sgx_st sgx_st1) by (left; vm_compute; reflexivity).
  assert (G : gc_shared sgx_prog sgx_st1 = Ok sgx_st2) by (vm_compute; reflexivity).
  split; intro H.
  - assert (R2 : reachable sgx_prog 0 sgx_st2) by (exists (sgx_ops ++ [OCRelease 0]); vm_compute; reflexivity).
    assert (X : 0 < owner_count sgx_prog (sig_key 2000) sgx_st2).
    { apply (H sgx_prog 0%nat sgx_st2 2000 R2); [vm_compute; discriminate|vm_compute; reflexivity]. }
    vm_compute in X. discriminate.
  - destruct (H _ _ _ _ _ _ 2000 R A G) as (_ & B).
    assert (X : 0 < owner_count sgx_prog (sig_key 2000) sgx_st2).
    { apply B; [vm_compute; discriminate|vm_compute; reflexivity]. }
    vm_compute in X. discriminate.
Qed.

Print Assumptions shared_keys_distinct.
Print Assumptions shared_trackable_lifetime_history.
Print Assumptions no_orphan_at_rest.
Print Assumptions no_orphan_at_rest_any_key_false.
Print Assumptions shared_signal_lifetime_history.
Print Assumptions no_orphan_signal_at_rest.
Print Assumptions shared_signal_any_key_false.
Print Assumptions shared_connection_lifetime_history.
Print Assumptions no_orphan_connection_at_rest.
