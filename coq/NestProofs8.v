(* NestProofs8.v -- frames (what an internal step does not touch) *)
From Coq Require Import List NArith Bool Arith Lia Permutation.
Import ListNotations.
Require Import Util NestModel NestSpec NestProofs1 NestProofs2 NestProofs3 NestProofs4 NestProofs5 NestProofs6 NestProofs7.
Local Open Scope N_scope.

Definition vkind (s : N) (st : nstate) : option (option (option N)) :=
  match aget s (vars st) with
  | None => None
  | Some None => Some None
  | Some (Some None) => Some (Some None)
  | Some (Some (Some r)) => Some (Some (Some (r_id r)))
  end.
Definition tkind (t : N) (st : nstate) : option bool :=
  match aget t (tracks st) with
  | None => None
  | Some None => Some false
  | Some (Some _) => Some true
  end.

Record VFrame (st st' : nstate) : Prop := mkVFrame
  { vf_v : forall s, vkind s st' = vkind s st;
    vf_t : forall t, tkind t st' = tkind t st;
    vf_ids : incl (ids (all_reps st')) (ids (all_reps st));
    vf_next : next_id st <= next_id st';
    vf_trace : ntrace st' = ntrace st }.

Lemma VFrame_refl : forall st, VFrame st st.
Proof. intros st. constructor; intros; try reflexivity. apply incl_refl. Qed.

Lemma VFrame_trans : forall a b c, VFrame a b -> VFrame b c -> VFrame a c.
Proof.
  intros a b c [v1 t1 i1 n1 e1] [v2 t2 i2 n2 e2]. constructor.
  - intros s. rewrite v2. apply v1.
  - intros t. rewrite t2. apply t1.
  - eapply incl_tran; eassumption.
  - lia.
  - congruence.
Qed.

Lemma live_var_kind : forall s st, live_var s st = None <-> (vkind s st = None \/ vkind s st = Some None).
Proof.
  intros s st. unfold live_var, vkind. destruct (aget s (vars st)) as [[[r|]|]|]; split; intros H; try discriminate; try reflexivity;
    try (destruct H; discriminate); try (left; reflexivity); try (right; reflexivity).
Qed.

Lemma live_var_kind_null : forall s st, live_var s st = Some None <-> vkind s st = Some (Some None).
Proof.
  intros s st. unfold live_var, vkind. destruct (aget s (vars st)) as [[[r|]|]|]; split; intros H; try discriminate; reflexivity.
Qed.

Lemma live_var_kind_rep : forall s st i, (exists r, live_var s st = Some (Some r) /\ r_id r = i) <-> vkind s st = Some (Some (Some i)).
Proof.
  intros s st i. unfold live_var, vkind. destruct (aget s (vars st)) as [[[r|]|]|]; split; intros H; try discriminate;
    try (destruct H as (r0 & H & _); discriminate).
  - destruct H as (r0 & H & E). injection H as <-. rewrite E. reflexivity.
  - injection H as <-. exists r. split; reflexivity.
Qed.

Lemma live_tr_kind : forall t st, live_tr t st <> None <-> tkind t st = Some true.
Proof.
  intros t st. unfold live_tr, tkind. destruct (aget t (tracks st)) as [[x|]|]; split; intros H; try discriminate; try reflexivity; try (exfalso; apply H; reflexivity).
Qed.

Lemma fresh_var_kind : forall s st, fresh_var s st = true <-> vkind s st = None.
Proof.
  intros s st. unfold fresh_var, vkind. destruct (aget s (vars st)) as [[[r|]|]|]; split; intros H; try discriminate; reflexivity.
Qed.

Lemma cur_reps_kind : forall s st, (forall i, vkind s st <> Some (Some (Some i))) -> cur_reps s st = [].
Proof.
  intros s st H. unfold cur_reps. unfold vkind in H. destruct (aget s (vars st)) as [[[r|]|]|]; try reflexivity.
  exfalso. exact (H (r_id r) eq_refl).
Qed.

Lemma VFrame_live_var : forall st st' s, VFrame st st' -> (live_var s st' <> None <-> live_var s st <> None).
Proof.
  intros st st' s F. pose proof (vf_v _ _ F s) as E.
  split; intros H Hn; apply H; apply live_var_kind; apply live_var_kind in Hn; rewrite ?E in *; try exact Hn; rewrite <- E; exact Hn.
Qed.

Lemma VFrame_live_tr : forall st st' t, VFrame st st' -> (live_tr t st' <> None <-> live_tr t st <> None).
Proof. intros st st' t F. rewrite !live_tr_kind. rewrite (vf_t _ _ F t). reflexivity. Qed.

(* ---- frames of the primitive updates ---- *)
Lemma vkind_map_rep : forall id f s st, pres_id f -> vkind s (map_rep id f st) = vkind s st.
Proof.
  intros id f s st Hf. unfold vkind, map_rep. cbn [vars with_vars].
  induction (vars st) as [|[k [[r|]|]] tl IH]; cbn [map aget]; [reflexivity| | |]; destruct (N.eqb s k); try exact IH; try reflexivity.
  rewrite map_in_rep_id by exact Hf. reflexivity.
Qed.

Lemma ids_reps_incl_aux : forall id f F,
  (forall c, In c F -> incl (ids (reps_of (map_in_rep id f c))) (ids (reps_of c))) ->
  incl (ids (RL (map (map_in_rep id f) F))) (ids (RL F)).
Proof.
  induction F as [|c tl IH]; intros H; [apply incl_refl|].
  cbn [map RL flat_map]. fold (RL tl). fold (RL (map (map_in_rep id f) tl)). rewrite !ids_app.
  apply incl_app; [apply incl_appl; apply H; left; reflexivity | apply incl_appr; apply IH; intros c' Hc'; apply H; right; exact Hc'].
Qed.

Lemma ids_map_in_rep_incl : forall id f, pres_id f ->
  (forall x, incl (ids (reps_items (items_of (f x)))) (ids (reps_items (items_of x)))) ->
  forall r, incl (ids (reps_of (map_in_rep id f r))) (ids (reps_of r)).
Proof.
  intros id f Hf Hsub. apply rep_kids_ind. intros r IH.
  destruct (N.eq_dec (r_id r) id) as [E|E].
  - rewrite map_in_rep_hit by exact E. rewrite (reps_of_eq (f r)), (reps_of_eq r). cbn [ids map]. rewrite Hf.
    intros x [Hx|Hx]; [left; exact Hx | right; apply Hsub; exact Hx].
  - pose proof (map_in_rep_other id f r E) as (_ & _ & Hit & _).
    rewrite (reps_of_eq (map_in_rep id f r)), (reps_of_eq r), Hit. cbn [ids map]. rewrite map_in_rep_id by exact Hf.
    rewrite !reps_items_kids, kids_map_items.
    intros x [Hx|Hx]; [left; exact Hx | right]. revert x Hx. apply (ids_reps_incl_aux id f (kids (items_of r))). exact IH.
Qed.

Lemma VFrame_map_rep : forall id f st, pres_id f ->
  (forall x, incl (ids (reps_items (items_of (f x)))) (ids (reps_items (items_of x)))) ->
  VFrame st (map_rep id f st).
Proof.
  intros id f st Hf Hsub. constructor; try reflexivity.
  - intros s. apply vkind_map_rep. exact Hf.
  - rewrite all_reps_map_rep, all_reps_tops. apply ids_reps_incl_aux. intros c _. apply ids_map_in_rep_incl; assumption.
Qed.

Lemma VFrame_map_rep_field : forall id f st, pres_id f -> pres_fn f -> VFrame st (map_rep id f st).
Proof.
  intros id f st Hf Hfn. apply VFrame_map_rep; [exact Hf|]. intros x. unfold items_of. rewrite Hfn. apply incl_refl.
Qed.

Lemma VFrame_destroy : forall id st, VFrame st (map_rep id fdestroy st).
Proof. intros. apply VFrame_map_rep; [exact pres_id_fdestroy|]. intros x. cbn. intros y []. Qed.

Lemma tkind_set_live : forall t t' x x' st, live_tr t st = Some x ->
  tkind t' (with_tracks (aset t (Some x') (tracks st)) st) = tkind t' st.
Proof.
  intros t t' x x' st Hx. unfold tkind, with_tracks. cbn [tracks]. unfold live_tr in Hx.
  destruct (N.eq_dec t' t) as [->|E].
  - rewrite aget_aset_same. destruct (aget t (tracks st)) as [[y|]|]; try discriminate. reflexivity.
  - rewrite aget_aset_other by exact E. reflexivity.
Qed.

Lemma VFrame_set_regs : forall t x x' st, live_tr t st = Some x -> VFrame st (with_tracks (aset t (Some x') (tracks st)) st).
Proof.
  intros t x x' st Hx. constructor; try reflexivity.
  - intros t'. eapply tkind_set_live. exact Hx.
  - apply incl_refl.
Qed.

Lemma VFrame_unbind_item : forall me it st st', unbind_item me it st = NOk st' -> VFrame st st'.
Proof.
  intros me [t|s|v] st st' H; cbn [unbind_item] in H.
  - unfold track_remove in H. destruct (live_tr t st) as [x|] eqn:Hx; [|discriminate]. injection H as <-.
    eapply VFrame_set_regs. exact Hx.
  - destruct (live_var s st) as [[r|]|]; [| |discriminate].
    + destruct (r_parent r) as [p|].
      * destruct (N.eqb p me); injection H as <-; [|apply VFrame_refl].
        apply VFrame_map_rep_field; [apply pres_id_set_parent | apply pres_fn_set_parent].
      * injection H as <-. apply VFrame_refl.
    + injection H as <-. apply VFrame_refl.
  - injection H as <-. apply VFrame_refl.
Qed.

Lemma VFrame_unbind_list : forall B st st', unbind_list B st = NOk st' -> VFrame st st'.
Proof.
  induction B as [|[me it] tl IH]; intros st st' H; cbn [unbind_list] in H.
  - injection H as <-. apply VFrame_refl.
  - destruct (unbind_item me it st) as [st1|] eqn:E; [|discriminate]. cbn [nbind] in H.
    eapply VFrame_trans; [eapply VFrame_unbind_item; exact E | apply IH; exact H].
Qed.

Lemma VFrame_drop_rep : forall r st st', drop_rep r st = NOk st' -> VFrame st st'.
Proof. intros r st st' H. rewrite drop_rep_unbind in H. eapply VFrame_unbind_list. exact H. Qed.

Lemma VFrame_bind_item : forall me it st st', bind_item me it st = NOk st' -> VFrame st st'.
Proof.
  intros me [t|s|[r|]] st st' H; cbn [bind_item] in H.
  - unfold track_add in H. destruct (live_tr t st) as [x|] eqn:Hx; [|discriminate]. injection H as <-.
    eapply VFrame_set_regs. exact Hx.
  - destruct (live_var s st) as [[r|]|]; [| |discriminate].
    + destruct (r_parent r) as [p|]; injection H as <-; [apply VFrame_refl|].
      apply VFrame_map_rep_field; [apply pres_id_set_parent | apply pres_fn_set_parent].
    + injection H as <-. apply VFrame_refl.
  - destruct (r_parent r) as [p|]; injection H as <-; [apply VFrame_refl|].
    apply VFrame_map_rep_field; [apply pres_id_set_parent | apply pres_fn_set_parent].
  - injection H as <-. apply VFrame_refl.
Qed.

Lemma VFrame_with_next : forall n st, next_id st <= n -> VFrame st (with_next n st).
Proof. intros n st H. constructor; try reflexivity; [apply incl_refl | exact H]. Qed.

Lemma ginv_with_next : forall T P B st n, next_id st <= n -> GInv T P B st -> GInv T P B (with_next n st).
Proof.
  intros T P B st n Hn HG. constructor; try (destruct HG; assumption).
  - cbn. pose proof (gi_next _ _ _ _ HG). lia.
  - intros u Hu. destruct (gi_idpos _ _ _ _ HG u Hu) as [H1 H2]. split; [exact H1|]. cbn. lia.
Qed.
