(* NestProofs7.v -- taking a top-level rep out of the forest, putting one in *)
From Coq Require Import List NArith Bool Arith Lia Permutation.
Import ListNotations.
Require Import Util NestModel NestSpec NestProofs1 NestProofs2 NestProofs3 NestProofs4 NestProofs5 NestProofs6.
Local Open Scope N_scope.

Definition vreps (v : option (option rep)) : list rep := match v with Some (Some r) => reps_of r | _ => [] end.
Definition cur_reps (s : N) (st : nstate) : list rep :=
  match aget s (vars st) with Some v0 => vreps v0 | None => [] end.

Lemma RL_tops_cons : forall k v l, RL (tops ((k, v) :: l)) = vreps v ++ RL (tops l).
Proof. intros k [[r|]|] l; reflexivity. Qed.

Lemma all_reps_set_var : forall s st, exists L1 L2,
  all_reps st = L1 ++ cur_reps s st ++ L2 /\ forall v, all_reps (set_var s v st) = L1 ++ vreps v ++ L2.
Proof.
  intros s st. unfold cur_reps. destruct (aget s (vars st)) as [v0|] eqn:E.
  - destruct (aget_split _ _ _ E) as (l1 & l2 & El & Hn).
    exists (RL (tops l1)), (RL (tops l2)). split.
    + rewrite all_reps_tops, El, tops_app, RL_app, RL_tops_cons. reflexivity.
    + intros v. rewrite all_reps_tops. unfold set_var. cbn [vars with_vars]. rewrite El, aset_split by exact Hn.
      rewrite tops_app, RL_app, RL_tops_cons. reflexivity.
  - exists (all_reps st), []. split; [rewrite app_nil_r; reflexivity|].
    intros v. rewrite !all_reps_tops. unfold set_var. cbn [vars with_vars]. rewrite aset_none by exact E.
    rewrite tops_app, RL_app. cbn [app]. rewrite RL_tops_cons. reflexivity.
Qed.

Lemma live_var_set_var : forall s s' v st, live_var s' (set_var s v st) = if N.eqb s' s then v else live_var s' st.
Proof.
  intros s s' v st. unfold live_var, set_var. cbn [vars with_vars]. destruct (N.eqb s' s) eqn:E.
  - apply N.eqb_eq in E. subst s'. rewrite aget_aset_same. destruct v; reflexivity.
  - apply N.eqb_neq in E. rewrite aget_aset_other by exact E. reflexivity.
Qed.

Lemma live_tr_set_var : forall s v t st, live_tr t (set_var s v st) = live_tr t st.
Proof. reflexivity. Qed.

Lemma cur_reps_live : forall s st r, live_var s st = Some (Some r) -> cur_reps s st = reps_of r.
Proof.
  intros s st r H. unfold live_var in H. unfold cur_reps. destruct (aget s (vars st)) as [[x|]|]; try discriminate.
  injection H as ->. reflexivity.
Qed.

Lemma lk_sub : forall i a d c q, NoDup (ids (a ++ d ++ c)) -> lk i (a ++ c) = Some q -> lk i (a ++ d ++ c) = Some q.
Proof.
  intros i a d c q Hnd H. destruct (lk_some _ _ _ H) as [H1 H2]. subst i. apply lk_in; [exact Hnd|].
  apply in_app_or in H1. apply in_or_app. destruct H1 as [H1|H1]; [left; exact H1 | right; apply in_or_app; right; exact H1].
Qed.

(* ---- removal ---- *)
Lemma ginv_remove : forall T P B st s r v,
  GInv T P B st -> live_var s st = Some (Some r) ->
  (v = None \/ v = Some None) ->
  (v = None -> (forall u, In u (all_reps st) -> ~ In (IRef s) (items_of u)) /\ (forall i, ~ In (i, IRef s) B)) ->
  GInv T P (bindings (reps_of r) ++ B) (set_var s v st).
Proof.
  intros T P B st s r v HG Hs Hv Hnoref.
  destruct (all_reps_set_var s st) as (L1 & L2 & EU & EU').
  rewrite (cur_reps_live s st r Hs) in EU. specialize (EU' v).
  assert (Ev : vreps v = []) by (destruct Hv as [->| ->]; reflexivity). rewrite Ev in EU'. cbn [app] in EU'.
  set (st' := set_var s v st) in *.
  pose proof (gi_nodup _ _ _ _ HG) as Hnd.
  assert (HndU : NoDup (ids (L1 ++ reps_of r ++ L2))) by (rewrite <- EU; exact Hnd).
  assert (HSU : forall u, In u (all_reps st') -> In u (all_reps st)).
  { intros u Hu. rewrite EU. rewrite EU' in Hu. apply in_app_or in Hu. apply in_or_app.
    destruct Hu as [Hu|Hu]; [left; exact Hu | right; apply in_or_app; right; exact Hu]. }
  assert (HSD : forall u u', In u (all_reps st') -> In u' (reps_of r) -> r_id u = r_id u' -> False).
  { intros u u' Hu Hu'. rewrite EU' in Hu. exact (ids_mid_disj L1 (reps_of r) L2 u u' HndU Hu Hu'). }
  assert (Hr_in : In r (all_reps st)) by (eapply live_var_in; eassumption).
  assert (HinB : forall i it, In (i, it) (bindings (reps_of r)) -> exists d, In d (all_reps st) /\ In d (reps_of r) /\ r_id d = i /\ In it (items_of d)).
  { intros i it Hi. apply in_bindings in Hi. destruct Hi as (d & Hd & E & Hit). exists d. split; [|repeat split; assumption].
    apply (all_reps_sub_closed st r Hr_in). exact Hd. }
  assert (Hlv : forall s', s' <> s -> live_var s' st' = live_var s' st).
  { intros s' Hne. unfold st'. rewrite live_var_set_var. apply N.eqb_neq in Hne. rewrite Hne. reflexivity. }
  assert (Hlvs : live_var s st' = v) by (unfold st'; rewrite live_var_set_var, N.eqb_refl; reflexivity).
  assert (Hlive_keep : forall s', live_var s' st <> None -> (s' = s -> v <> None) -> live_var s' st' <> None).
  { intros s' H1 H2. destruct (N.eq_dec s' s) as [->|Hne]; [rewrite Hlvs; apply H2; reflexivity | rewrite Hlv by exact Hne; exact H1]. }
  assert (Hwit : forall s' u, In u (all_reps st') -> live_var s' st = Some (Some u) -> live_var s' st' = Some (Some u)).
  { intros s' u Hu Hw. destruct (N.eq_dec s' s) as [->|Hne]; [|rewrite Hlv by exact Hne; exact Hw].
    exfalso. rewrite Hs in Hw. injection Hw as ->. exact (HSD u u Hu (reps_of_self u) eq_refl). }
  constructor.
  - rewrite EU'. eapply NoDup_ids_remove_mid. exact HndU.
  - exact (gi_next _ _ _ _ HG).
  - intros u Hu. exact (gi_idpos _ _ _ _ HG u (HSU u Hu)).
  - intros u t Hu Ht. exact (gi_track_live _ _ _ _ HG u t (HSU u Hu) Ht).
  - intros u s' Hu Hs'. apply Hlive_keep; [exact (gi_ref_live _ _ _ _ HG u s' (HSU u Hu) Hs')|].
    intros -> ->. exact (proj1 (Hnoref eq_refl) u (HSU u Hu) Hs').
  - intros i t Hi. apply in_app_or in Hi. destruct Hi as [Hi|Hi].
    + destruct (HinB i _ Hi) as (d & Hd & _ & _ & Hit). exact (gi_track_live _ _ _ _ HG d t Hd Hit).
    + exact (gi_btrack_live _ _ _ _ HG i t Hi).
  - intros i s' Hi. apply in_app_or in Hi. destruct Hi as [Hi|Hi].
    + destruct (HinB i _ Hi) as (d & Hd & _ & _ & Hit). apply Hlive_keep; [exact (gi_ref_live _ _ _ _ HG d s' Hd Hit)|].
      intros -> ->. exact (proj1 (Hnoref eq_refl) d Hd Hit).
    + apply Hlive_keep; [exact (gi_bref_live _ _ _ _ HG i s' Hi)|]. intros -> ->. exact (proj2 (Hnoref eq_refl) i Hi).
  - intros [i it] Hb. apply in_app_or in Hb. destruct Hb as [Hb|Hb].
    + destruct (HinB i it Hb) as (d & Hd & _ & <- & _). exact (proj1 (gi_idpos _ _ _ _ HG d Hd)).
    + exact (gi_bpos _ _ _ _ HG _ Hb).
  - exact (gi_clearing _ _ _ _ HG).
  - exact (gi_armed _ _ _ _ HG).
  - intros t x i Hx. change (live_tr t st = Some x) in Hx. rewrite (gi_regs _ _ _ _ HG t x i Hx). rewrite bcount_app.
    rewrite (bcount_bindings t i (reps_of r)) by (eapply NoDup_sub_st; eassumption).
    rewrite EU, EU'. rewrite (drefs_mid t i L1 (reps_of r) L2 HndU). lia.
  - intros u p Hu Hp.
    destruct (gi_parent _ _ _ _ HG u p (HSU u Hu) Hp) as [(q & Hq & Hw)|(s' & Hs' & Hw)].
    + pose proof (lk_mid p L1 (reps_of r) L2 HndU) as Hmid. rewrite <- EU, Hq in Hmid. rewrite <- EU' in Hmid.
      destruct Hmid as [(HqD & _ & _)|(HqS & HlkS & _)].
      * destruct Hw as [Hw|(s' & Hs' & Hw)].
        -- exfalso. apply (HSD u u Hu); [|reflexivity]. apply (reps_of_trans r q HqD). apply (reps_of_kid q u Hw). apply reps_of_self.
        -- right. exists s'. split; [|exact (Hwit s' u Hu Hw)]. apply in_or_app. left. apply in_bindings.
           exists q. destruct (lk_some _ _ _ Hq) as [_ Hqi]. repeat split; assumption.
      * left. exists q. split; [exact HlkS|]. destruct Hw as [Hw|(s' & Hs' & Hw)]; [left; exact Hw|].
        right. exists s'. split; [exact Hs' | exact (Hwit s' u Hu Hw)].
    + right. exists s'. split; [apply in_or_app; right; exact Hs' | exact (Hwit s' u Hu Hw)].
  - intros q c Hq Hc. exact (gi_vcp _ _ _ _ HG q c (HSU q Hq) Hc).
  - intros i po r' Hi Hr'. apply (gi_pending _ _ _ _ HG i po r' Hi). rewrite EU. rewrite EU' in Hr'. apply lk_sub; assumption.
  - intros u Hu. exact (gi_fnvalid _ _ _ _ HG u (HSU u Hu)).
  - intros q c Hq Hc. exact (gi_kidfn _ _ _ _ HG q c (HSU q Hq) Hc).
Qed.

(* ---- insertion ---- *)
Lemma ginv_insert : forall T B st d c,
  GInv T [] (bindings (reps_of c) ++ B) st ->
  cur_reps d st = [] ->
  (forall u, live_var d st <> Some (Some u)) ->
  NoDup (ids (reps_of c)) ->
  (forall x, In x (reps_of c) -> 0 < r_id x /\ r_id x < next_id st /\ ~ In (r_id x) (ids (all_reps st))) ->
  (forall q k, In q (reps_of c) -> In k (kids (items_of q)) -> r_parent k = Some (r_id q)) ->
  (forall x, In x (reps_of c) -> r_fn x = None -> r_valid x = false) ->
  (forall q k, In q (reps_of c) -> In k (kids (items_of q)) -> r_fn k <> None) ->
  (forall p, r_parent c = Some p ->
      (exists q, lk p (all_reps st) = Some q /\ In (IRef d) (items_of q)) \/ In (p, IRef d) (bindings (reps_of c) ++ B)) ->
  GInv T [] B (set_var d (Some (Some c)) st).
Proof.
  intros T B st d c HG Hcur Hdnot Hndc Hfresh Hvcp Hfnv Hkfn Hpar.
  destruct (all_reps_set_var d st) as (L1 & L2 & EU & EU').
  rewrite Hcur in EU. cbn [app] in EU. specialize (EU' (Some (Some c))). cbn [vreps] in EU'.
  set (st' := set_var d (Some (Some c)) st) in *.
  pose proof (gi_nodup _ _ _ _ HG) as Hnd.
  assert (HndU' : NoDup (ids (L1 ++ reps_of c ++ L2))).
  { rewrite !ids_app. rewrite EU, ids_app in Hnd.
    apply NoDup_app_intro; [eapply NoDup_app_l; eassumption | apply NoDup_app_intro; [exact Hndc | eapply NoDup_app_r; eassumption |] |].
    - intros x H1 H2. unfold ids in H1. apply in_map_iff in H1. destruct H1 as (y & <- & Hy).
      apply (proj2 (proj2 (Hfresh y Hy))). rewrite EU, ids_app. apply in_or_app. right. exact H2.
    - intros x H1 H2. apply in_app_or in H2. destruct H2 as [H2|H2].
      + unfold ids in H2. apply in_map_iff in H2. destruct H2 as (y & <- & Hy).
        apply (proj2 (proj2 (Hfresh y Hy))). rewrite EU, ids_app. apply in_or_app. left. exact H1.
      + exact (NoDup_app_disj _ _ _ x Hnd H1 H2). }
  assert (HUS : forall u, In u (all_reps st) -> In u (all_reps st')).
  { intros u Hu. rewrite EU'. rewrite EU in Hu. apply in_app_or in Hu. apply in_or_app.
    destruct Hu as [Hu|Hu]; [left; exact Hu | right; apply in_or_app; right; exact Hu]. }
  assert (HCS : forall u, In u (reps_of c) -> In u (all_reps st')).
  { intros u Hu. rewrite EU'. apply in_or_app. right. apply in_or_app. left. exact Hu. }
  assert (Hsplit : forall u, In u (all_reps st') -> In u (all_reps st) \/ In u (reps_of c)).
  { intros u Hu. rewrite EU' in Hu. rewrite EU. apply in_app_or in Hu. destruct Hu as [Hu|Hu]; [left; apply in_or_app; left; exact Hu|].
    apply in_app_or in Hu. destruct Hu as [Hu|Hu]; [right; exact Hu | left; apply in_or_app; right; exact Hu]. }
  assert (Hlk_in : forall q, In q (all_reps st') -> lk (r_id q) (all_reps st') = Some q).
  { intros q Hq. apply lk_in; [rewrite EU'; exact HndU' | exact Hq]. }
  assert (Hlv : forall s', s' <> d -> live_var s' st' = live_var s' st).
  { intros s' Hne. unfold st'. rewrite live_var_set_var. apply N.eqb_neq in Hne. rewrite Hne. reflexivity. }
  assert (Hlvd : live_var d st' = Some (Some c)) by (unfold st'; rewrite live_var_set_var, N.eqb_refl; reflexivity).
  assert (Hlive_keep : forall s', live_var s' st <> None -> live_var s' st' <> None).
  { intros s' H1. destruct (N.eq_dec s' d) as [->|Hne]; [rewrite Hlvd; discriminate | rewrite Hlv by exact Hne; exact H1]. }
  assert (Hwit : forall s' u, live_var s' st = Some (Some u) -> live_var s' st' = Some (Some u)).
  { intros s' u Hw. destruct (N.eq_dec s' d) as [->|Hne]; [exfalso; exact (Hdnot u Hw) | rewrite Hlv by exact Hne; exact Hw]. }
  assert (HinB : forall i it, In (i, it) (bindings (reps_of c)) -> exists x, In x (reps_of c) /\ r_id x = i /\ In it (items_of x)).
  { intros i it Hi. apply in_bindings in Hi. exact Hi. }
  assert (HBin : forall x it, In x (reps_of c) -> In it (items_of x) -> In (r_id x, it) (bindings (reps_of c) ++ B)).
  { intros x it Hx Hit. apply in_or_app. left. apply in_bindings. exists x. repeat split; assumption. }
  constructor.
  - rewrite EU'. exact HndU'.
  - exact (gi_next _ _ _ _ HG).
  - intros u Hu. destruct (Hsplit u Hu) as [Hu'|Hu']; [exact (gi_idpos _ _ _ _ HG u Hu')|].
    destruct (Hfresh u Hu') as (H1 & H2 & _). split; assumption.
  - intros u t Hu Ht. change (live_tr t st <> None). destruct (Hsplit u Hu) as [Hu'|Hu'].
    + exact (gi_track_live _ _ _ _ HG u t Hu' Ht).
    + exact (gi_btrack_live _ _ _ _ HG (r_id u) t (HBin u _ Hu' Ht)).
  - intros u s Hu Hs. apply Hlive_keep. destruct (Hsplit u Hu) as [Hu'|Hu'].
    + exact (gi_ref_live _ _ _ _ HG u s Hu' Hs).
    + exact (gi_bref_live _ _ _ _ HG (r_id u) s (HBin u _ Hu' Hs)).
  - intros i t Hi. change (live_tr t st <> None). apply (gi_btrack_live _ _ _ _ HG i t). apply in_or_app. right. exact Hi.
  - intros i s Hi. apply Hlive_keep. apply (gi_bref_live _ _ _ _ HG i s). apply in_or_app. right. exact Hi.
  - intros b Hb. apply (gi_bpos _ _ _ _ HG b). apply in_or_app. right. exact Hb.
  - exact (gi_clearing _ _ _ _ HG).
  - exact (gi_armed _ _ _ _ HG).
  - intros t x i Hx. change (live_tr t st = Some x) in Hx. rewrite (gi_regs _ _ _ _ HG t x i Hx). rewrite bcount_app.
    rewrite (bcount_bindings t i (reps_of c) Hndc).
    rewrite EU, EU'. rewrite (drefs_mid t i L1 (reps_of c) L2 HndU'). lia.
  - intros u p Hu Hp.
    assert (Hold : forall u, In u (all_reps st') ->
       ((exists q, lk p (all_reps st) = Some q /\
                   (In u (kids (items_of q)) \/ exists s, In (IRef s) (items_of q) /\ live_var s st' = Some (Some u)))
        \/ (exists s, In (p, IRef s) (bindings (reps_of c) ++ B) /\ live_var s st' = Some (Some u))) ->
       (exists q, lk p (all_reps st') = Some q /\
                   (In u (kids (items_of q)) \/ exists s, In (IRef s) (items_of q) /\ live_var s st' = Some (Some u)))
        \/ (exists s, In (p, IRef s) B /\ live_var s st' = Some (Some u))).
    { intros u0 Hu0 [(q & Hq & Hw)|(s & Hs & Hw)].
      - left. exists q. split; [|exact Hw]. destruct (lk_some _ _ _ Hq) as [Hq1 Hq2]. subst p. apply Hlk_in. apply HUS. exact Hq1.
      - apply in_app_or in Hs. destruct Hs as [Hs|Hs]; [|right; exists s; split; assumption].
        destruct (HinB _ _ Hs) as (x & Hx & Hxi & Hit). left. exists x. split; [subst p; apply Hlk_in; apply HCS; exact Hx|].
        right. exists s. split; assumption. }
    destruct (Hsplit u Hu) as [Hu'|Hu'].
    + apply (Hold u Hu). destruct (gi_parent _ _ _ _ HG u p Hu' Hp) as [(q & Hq & Hw)|(s & Hs & Hw)].
      * left. exists q. split; [exact Hq|]. destruct Hw as [Hw|(s & Hs & Hw)]; [left; exact Hw|].
        right. exists s. split; [exact Hs | exact (Hwit s u Hw)].
      * right. exists s. split; [exact Hs | exact (Hwit s u Hw)].
    + rewrite reps_of_eq in Hu'. destruct Hu' as [<-|Hu'].
      * apply (Hold c Hu). destruct (Hpar p Hp) as [(q & Hq & Hit)|Hin].
        -- left. exists q. split; [exact Hq|]. right. exists d. split; [exact Hit | exact Hlvd].
        -- right. exists d. split; [exact Hin | exact Hlvd].
      * destruct (strict_holder c u Hu') as (q & Hq & Hk). rewrite (Hvcp q u Hq Hk) in Hp. injection Hp as <-.
        left. exists q. split; [apply Hlk_in; apply HCS; exact Hq | left; exact Hk].
  - intros q k Hq Hk. destruct (Hsplit q Hq) as [Hq'|Hq'].
    + exact (gi_vcp _ _ _ _ HG q k Hq' Hk).
    + left. exact (Hvcp q k Hq' Hk).
  - intros i po r' [].
  - intros u Hu. destruct (Hsplit u Hu) as [Hu'|Hu']; [exact (gi_fnvalid _ _ _ _ HG u Hu') | exact (Hfnv u Hu')].
  - intros q k Hq Hk Hfn. destruct (Hsplit q Hq) as [Hq'|Hq'].
    + exact (gi_kidfn _ _ _ _ HG q k Hq' Hk Hfn).
    + exfalso. exact (Hkfn q k Hq' Hk Hfn).
Qed.
