(* TypeModel.v -- a finite universe of C++ types and the rules that decide whether a functor can
   be stored in a sigc::slot<R(A...)> / connected to a signal<R(A...)>:
     binds      : reference binding / implicit conversion of one argument ([dcl.init.ref], [conv]),
                  hand-written for the universe and validated exhaustively against the compilers
                  (static_assert(std::is_invocable_v<...> == model) for every pair, see checks/typecheck.py)
     take       : type_trait_take_t  (sigc++/type_traits.h)
     callable   : the criterion of property C05 ("can be called with the signal's parameter types as
                  the library passes them and its result can be returned as the signal's result type")
     lib_call   : what the library's call path actually requires, hop by hop (slot::operator() ->
                  call_it -> adaptor operator()s with the regenerated parameter-passing modes)
   Universe: int long double bool, class B, D : B, unrelated U, B*, D*; parameters T, T&, const T&, T&&;
   signal/slot signature parameters T, T&, const T& (rvalue-reference signature parameters are
   outside the universe: value-returning emitters cannot forward them, see DESIGN.md).
   Definitions only. *)
From Coq Require Import List Bool String ZArith.
Import ListNotations.
Require Import GenTypes AdaptorModel.
Local Open Scope string_scope.
Local Open Scope list_scope.

Inductive base := TInt | TLong | TDouble | TBool | TB | TD | TU | TPB | TPD.
Inductive form := FVal | FLRef | FCRef | FRRef.
Record ptype := mkP { pt_base : base; pt_form : form }.
(* an argument expression: always an lvalue in the modelled universe; possibly const *)
Record argexpr := mkAE { ae_base : base; ae_const : bool }.
Definition rtype := option base.      (* None = void *)

Definition base_eqb (a b : base) : bool :=
  match a, b with
  | TInt, TInt | TLong, TLong | TDouble, TDouble | TBool, TBool | TB, TB | TD, TD | TU, TU | TPB, TPB | TPD, TPD => true
  | _, _ => false
  end.

Definition arith (b : base) : bool :=
  match b with TInt | TLong | TDouble | TBool => true | _ => false end.
Definition pointer (b : base) : bool :=
  match b with TPB | TPD => true | _ => false end.

(* implicit conversion sequence from an expression of base s to a prvalue of base d *)
Definition converts (s d : base) : bool :=
  base_eqb s d
  || (arith s && arith d)
  || (match s, d with TD, TB => true | TPD, TPB => true | _, _ => false end)
  || (pointer s && match d with TBool => true | _ => false end).

(* d is reference-related to s: same type or a base class of it *)
Definition ref_related (d s : base) : bool :=
  base_eqb d s || match d, s with TB, TD => true | _, _ => false end.

Definition binds (p : ptype) (a : argexpr) : bool :=
  match pt_form p with
  | FVal => converts (ae_base a) (pt_base p)
  | FLRef => ref_related (pt_base p) (ae_base a) && negb (ae_const a)
  | FCRef => ref_related (pt_base p) (ae_base a) || converts (ae_base a) (pt_base p)
  | FRRef => negb (ref_related (pt_base p) (ae_base a)) && converts (ae_base a) (pt_base p)
  end.

(* static_cast<P>(a) for an lvalue a: what sigc::retype does to every argument *)
Definition downcast (d s : base) : bool := match d, s with TD, TB => true | _, _ => false end.
Definition explicit_converts (s d : base) : bool :=
  converts s d || match s, d with TPB, TPD => true | _, _ => false end.
Definition explicit_ok (p : ptype) (a : argexpr) : bool :=
  let related := ref_related (pt_base p) (ae_base a) || downcast (pt_base p) (ae_base a) in
  match pt_form p with
  | FVal => explicit_converts (ae_base a) (pt_base p)
  | FLRef => related && negb (ae_const a)
  | FCRef => related || converts (ae_base a) (pt_base p)        (* a temporary needs an implicit conversion *)
  | FRRef => if related then negb (ae_const a) else converts (ae_base a) (pt_base p)
  end.

Definition result_ok (rf r : rtype) : bool :=
  match rf, r with
  | None, None => true
  | Some s, Some d => converts s d
  | _, _ => false
  end.

(* type_trait_take_t<A> seen as the expression the library hands on (std::forward<take_t<A>>(a)) *)
Definition take (a : ptype) : argexpr :=
  match pt_form a with
  | FLRef => mkAE (pt_base a) false
  | _ => mkAE (pt_base a) true
  end.
Definition sig_param_ok (a : ptype) : bool :=
  match pt_form a with FRRef => false | _ => true end.

(* the class the method belongs to, relative to the class of the object handed to mem_fun() *)
Inductive clsrel := RSame | RMethInBase | RMethInDerived | RUnrelated.
(* (obj.*method) is well-formed: the method is a member of the object's class or of a base of it *)
Definition memptr_doc (r : clsrel) : bool :=
  match r with RSame | RMethInBase => true | _ => false end.
(* what the factory accepts, given how it passes the method pointer on *)
Definition memptr_lib (P : memptr_pass) (r : clsrel) : bool :=
  match P with
  | MPImplicit => memptr_doc r
  | MPExplicit => match r with RUnrelated => false | _ => true end     (* static_cast also converts D::* to B::* *)
  | MPUnrecognised => false
  end.

Inductive functor_ty :=
| TFun (ps : list ptype) (r : rtype)                                 (* ptr_fun / lambda / function object *)
| TMemBound (rel : clsrel) (obj_const meth_const : bool) (ps : list ptype) (r : rtype)   (* mem_fun(obj, &C::m) *)
| TBindLast (f : functor_ty) (v : base)                              (* sigc::bind(f, value of type v) *)
| THideLast (f : functor_ty)                                         (* sigc::hide(f) *)
| THideReturn (f : functor_ty)                                       (* sigc::hide_return(f) *)
| TRetype (f : functor_ty)                                           (* sigc::retype(f): f a ptr_fun / mem_fun / slot *)
| THideAt (i : nat) (f : functor_ty)                                 (* sigc::hide<i>(f): argument number i (0-based) is dropped *)
| TBindAt (i : nat) (f : functor_ty) (v : base).                     (* sigc::bind<i>(f, v): the bound value is inserted at position i *)

Fixpoint forallb2 {A B} (p : A -> B -> bool) (l1 : list A) (l2 : list B) : bool :=
  match l1, l2 with
  | [], [] => true
  | x :: r1, y :: r2 => p x y && forallb2 p r1 r2
  | _, _ => false                                                     (* arity mismatch *)
  end.

Fixpoint result_of (f : functor_ty) : rtype :=
  match f with
  | TFun _ r => r
  | TMemBound _ _ _ _ r => r
  | TBindLast g _ => result_of g
  | THideLast g => result_of g
  | THideReturn _ => None
  | TRetype g => result_of g
  | THideAt _ g => result_of g
  | TBindAt _ g _ => result_of g
  end.

(* C05's criterion: the arguments ... *)
Fixpoint callable_args (f : functor_ty) (args : list argexpr) : bool :=
  match f with
  | TFun ps _ => forallb2 binds ps args
  | TMemBound rel oc mc ps _ => memptr_doc rel && (mc || negb oc) && forallb2 binds ps args
  | TBindLast g v => callable_args g (args ++ [mkAE v false])          (* the stored copy, as T_type& *)
  | THideLast g => match args with [] => false | _ => callable_args g (removelast args) end
  | THideReturn g => callable_args g args
  | TRetype g =>
      (* every argument is static_cast to the declared parameter type of the typed functor *)
      match g with
      | TFun ps _ => forallb2 explicit_ok ps args
      | TMemBound rel oc mc ps _ => memptr_doc rel && (mc || negb oc) && forallb2 explicit_ok ps args
      | _ => false                                   (* retype() only accepts ptr_fun / mem_fun / slot *)
      end
  | THideAt i g =>
      (* position i must name one of the arguments; the others are handed on in order *)
      Nat.ltb i (List.length args) && callable_args g (firstn i args ++ skipn (S i) args)
  | TBindAt i g v =>
      (* position i may be one past the last argument; the stored copy is passed as T_type&, as for TBindLast *)
      Nat.leb i (List.length args) && callable_args g (firstn i args ++ [mkAE v false] ++ skipn i args)
  end.

(* ... and the result *)
Definition callable (f : functor_ty) (args : list argexpr) (r : rtype) : bool :=
  callable_args f args && result_ok (result_of f) r.

Definition direct_ok (sig_args : list ptype) (r : rtype) (f : functor_ty) : bool :=
  forallb sig_param_ok sig_args && callable f (map take sig_args) r.

(* the library's path *)
Definition tpass (m : hop_mode) (deduced : bool) (args : list argexpr) : list argexpr :=
  match m with
  | ByValue => if deduced then map (fun a => mkAE (ae_base a) false) args else args    (* a fresh non-const copy *)
  | _ => args
  end.

(* S: the arithmetic with which the positional adaptors cut the argument tuple (tuple_start<>/tuple_end<>
   template arguments, regenerated from the source); a negative count is a compile error *)
Fixpoint lib_call_args (M : mtable) (P : memptr_pass) (S : stable) (f : functor_ty) (deduced : bool) (args : list argexpr) : bool :=
  match f with
  | TFun ps _ =>
      forallb2 binds ps (tpass (mode_of M "adaptor_functor") deduced args)
  | TMemBound rel oc mc ps _ =>
      memptr_lib P rel && (mc || negb oc) && forallb2 binds ps (tpass (mode_of M "bound_mem_functor") deduced args)
  | TBindLast g v =>
      let a := tpass (mode_of M "bind_functor<-1>") deduced args in
      lib_call_args M P S g true (a ++ [mkAE v false])
  | THideLast g =>
      let a := tpass (mode_of M "hide_functor") deduced args in
      match a with [] => false | _ => lib_call_args M P S g true (removelast a) end
  | THideReturn g =>
      lib_call_args M P S g true (tpass (mode_of M "retype_return_functor<void>") deduced args)
  | TRetype g =>
      let a := tpass (mode_of M "retype_functor") deduced args in
      match g with
      | TFun ps _ => forallb2 explicit_ok ps a
      | TMemBound rel oc mc ps _ => memptr_lib P rel && (mc || negb oc) && forallb2 explicit_ok ps a
      | _ => false
      end
  | THideAt i g =>
      let a := tpass (mode_of M "hide_functor") deduced args in
      match slice_counts S "hide_functor" (Z.of_nat i) (List.length a) with
      | Some (s, e) =>
          Nat.leb s (List.length a) && Nat.leb e (List.length a) && lib_call_args M P S g true (firstn s a ++ lastn e a)
      | None => false
      end
  | TBindAt i g v =>
      let a := tpass (mode_of M "bind_functor") deduced args in
      match slice_counts S "bind_functor" (Z.of_nat i) (List.length a) with
      | Some (s, e) =>
          Nat.leb s (List.length a) && Nat.leb e (List.length a)
          && lib_call_args M P S g true (firstn s a ++ [mkAE v false] ++ lastn e a)
      | None => false
      end
  end.

Definition lib_call (M : mtable) (P : memptr_pass) (S : stable) (f : functor_ty) (deduced : bool) (args : list argexpr) (r : rtype) : bool :=
  lib_call_args M P S f deduced args && result_ok (result_of f) r.

(* slot<R(A...)>(f) / signal<R(A...)>::connect(f): call_it instantiates the outermost operator()
   with explicit template arguments take_t<A>... *)
Definition lib_accepts (M : mtable) (P : memptr_pass) (S : stable) (sig_args : list ptype) (r : rtype) (f : functor_ty) : bool :=
  forallb sig_param_ok sig_args && lib_call M P S f false (map take sig_args) r.

Definition tmodes_ok (M : mtable) : bool :=
  forallb (fun k => match mode_of M k with ByValue => false | _ => true end)
    ["adaptor_functor"; "bound_mem_functor"; "bind_functor<-1>"; "hide_functor"; "retype_return_functor<void>"; "retype_functor";
     "bind_functor"].

Definition memptr_ok (P : memptr_pass) : bool := match P with MPImplicit => true | _ => false end.

(* a counter-model for the slicing obligation: expected_slices, except that hide_functor's tail count is
   clamped at zero when the position equals the number of arguments (instead of going negative) *)
Definition clamped_hide_slices : stable :=
  [ ("bind_functor", [("tuple_start", ALoc); ("tuple_end", ASub ASize ALoc)])
  ; ("hide_functor", [("tuple_start", AIf (AEq ALoc (ANeg (AConst 1))) (ASub ASize (AConst 1)) ALoc);
                      ("tuple_end", AIf (AEq (ASub ASize ALoc) (AConst 0)) (AConst 0)
                                        (ASub (ASub ASize ALoc) (AConst 1)))]) ].

(* Explicit conversions on the typed call path (functors/, adaptors/, signal.h, ...): the model
   accounts for exactly these; any other explicit cast in the regenerated table is a conversion the
   model does not know (file, enclosing function, kind, target type as written). *)
Definition cast_row := (string * string * string * string)%type.
Definition allowed_casts : list cast_row :=
  [ ("retype.h", "operator()", "static_cast", "T_type")            (* TRetype: explicit_ok *)
  ; ("retype_return.h", "operator()", "functional", "T_return")    (* retype_return<R>: explicit conversion of the result (AdaptorModel) *)
  ; ("slot.h", "call_it", "static_cast", "typed_slot_rep<T_functor> *")   (* the erased call path, C20_gen_erased_call_well_typed *)
  ; ("slot.h", "function_pointer_cast", "reinterpret_cast", "T_out")
  ; ("slot.h", "function_pointer_cast", "reinterpret_cast", "void (*)()")
  ; ("signal.h", "operator*", "static_cast", "const slot_type")    (* slot_base& to the typed slot it is *)
  ; ("weak_raw_ptr.h", "notify_object_invalidated", "static_cast", "weak_raw_ptr<T> *")
  ].
Definition cast_row_eqb (a b : cast_row) : bool :=
  match a, b with
  | (f1, g1, k1, t1), (f2, g2, k2, t2) => String.eqb f1 f2 && String.eqb g1 g2 && String.eqb k1 k2 && String.eqb t1 t2
  end.
Definition casts_ok (l : list cast_row) : bool :=
  forallb (fun c => existsb (cast_row_eqb c) allowed_casts) l.

Definition all_bases : list base := [TInt; TLong; TDouble; TBool; TB; TD; TU; TPB; TPD].
Definition all_forms : list form := [FVal; FLRef; FCRef; FRRef].
Definition all_ptypes : list ptype := flat_map (fun b => map (mkP b) all_forms) all_bases.
Definition all_argexprs : list argexpr := flat_map (fun b => [mkAE b false; mkAE b true]) all_bases.
