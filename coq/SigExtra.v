From Coq Require Import List NArith Bool Lia Arith Permutation. Import ListNotations. Require Import Util SigCore SigLemmas SigInv SigSafe SigSpec SigConn SigValues. Local Open Scope N_scope.

(* SigExtra.v -- C15 (assignment of slot variables), C14 (two handles to one list), C02 (the other
   events that notify a trackable's watchers; lifetime of shared trackables). *)

(* ------------------------------------------------------------------ *)
(* small facts                                                          *)

Lemma get_var_set_same s sb st : get_sb (LVar s) (set_sb (LVar s) sb st) = Some sb.
Proof. unfold get_sb, set_sb. cbn [slots with_slots]. rewrite aget_aset_same. reflexivity. Qed.

Lemma same_rep_refl sb : same_rep sb sb = true.
Proof. unfold same_rep. destruct (sb_rep sb); [apply N.eqb_refl|reflexivity]. Qed.

Lemma rkind_eqb_refl k : rkind_eqb k k = true.
Proof. destruct k; reflexivity. Qed.

Lemma sb_eta sb : mkSB (sb_rep sb) (sb_blocked sb) = sb.
Proof. destruct sb; reflexivity. Qed.

(* two different slot variables never hold the same rep *)
Lemma same_rep_diff st sd ss dst src : WF st ->
  get_sb (LVar sd) st = Some dst -> get_sb (LVar ss) st = Some src -> sd <> ss ->
  (sb_rep src <> None \/ sb_rep dst <> None) -> same_rep src dst = false.
Proof.
  intros H Hd Hs Hne Hor. unfold same_rep.
  destruct (sb_rep src) as [x|] eqn:Hx; destruct (sb_rep dst) as [y|] eqn:Hy; try reflexivity.
  - destruct (N.eqb_spec (r_id x) (r_id y)) as [E|]; [exfalso|reflexivity].
    pose proof (rep_ids_injective st (LVar ss) (LVar sd) src dst x y H Hs Hx Hd Hy E) as X.
    inversion X. congruence.
  - exfalso. destruct Hor as [X|X]; apply X; reflexivity.
Qed.

Lemma var_rep_detached st s sb r : WF st -> get_sb (LVar s) st = Some sb -> sb_rep sb = Some r ->
  r_attached r = false /\ r_watch r = [].
Proof.
  intros H G R. apply (wf_var_detached st r H). exact (get_sb_in_reps (LVar s) st sb r G R).
Qed.

Lemma rep_clone_shape r st r' st1 : rep_clone r st = Ok (r', st1) ->
  r' = mkRep (next_rid st) (r_valid r) false (r_fn r) [].
Proof.
  unfold rep_clone. intro E.
  match type of E with rbind ?x _ = _ => destruct x as [st2|e] end; cbn [rbind] in E; [|discriminate].
  inversion E. reflexivity.
Qed.

(* ------------------------------------------------------------------ *)
(* C15: assignment                                                      *)

Lemma slot_assign_copies : S_slot_assign_copies.
Proof.
  intros prog rec sd ss st st' dst src H Hd Hs Hne Hk He Hstep.
  cbn [step] in Hstep. rewrite Hd, Hs, Hk in Hstep.
  destruct (sb_assign sd ss st) as [st1|e] eqn:Ea; cbn [liftu lift] in Hstep; [|discriminate].
  inversion Hstep; subst st1. clear Hstep. unfold live_slot in *.
  split.
  - rewrite (sb_assign_frame sd ss st st' H Ea ss) by congruence. exact Hs.
  - unfold sb_assign in Ea. rewrite Hd, Hs in Ea.
    assert (Hsrc : exists r, sb_rep src = Some r /\ r_valid r = true).
    { unfold sb_empty in He. destruct (sb_rep src) as [r|]; [|discriminate]. exists r. split; [reflexivity|].
      destruct (r_valid r); [reflexivity|discriminate]. }
    destruct Hsrc as (r & Hr & Hv).
    rewrite (same_rep_diff st sd ss dst src H Hd Hs Hne) in Ea by (left; congruence).
    rewrite He, Hr in Ea.
    destruct (rep_clone r st) as [[r' st1]|e] eqn:Ec; cbn [rbind] in Ea; [|discriminate].
    apply rep_clone_shape in Ec. subst r'.
    match type of Ea with rbind ?x _ = _ => destruct x as [st2|e] eqn:E2 end; cbn [rbind] in Ea; [|discriminate].
    injection Ea as E'. subst st'.
    eexists. eexists. split; [apply get_var_set_same|].
    cbn [sb_blocked sb_rep]. split; [reflexivity|]. split.
    { unfold body_of. cbn [sb_rep]. rewrite Hr. destruct (sb_rep dst); reflexivity. }
    split; [reflexivity|]. destruct (sb_rep dst); cbn [r_with_attached r_valid r_id]; auto.
Qed.

Lemma slot_assign_from_empty : S_slot_assign_from_empty.
Proof.
  intros prog rec sd ss st st' dst src H Hd Hs Hne Hk He Hrd Hstep.
  cbn [step] in Hstep. rewrite Hd, Hs, Hk in Hstep.
  destruct (sb_assign sd ss st) as [st1|e] eqn:Ea; cbn [liftu lift] in Hstep; [|discriminate].
  inversion Hstep; subst st1. clear Hstep. unfold live_slot in *.
  split.
  2:{ rewrite (sb_assign_frame sd ss st st' H Ea ss) by congruence. exact Hs. }
  unfold sb_assign in Ea. rewrite Hd, Hs in Ea.
  rewrite (same_rep_diff st sd ss dst src H Hd Hs Hne) in Ea by (right; exact Hrd).
  rewrite He in Ea.
  destruct (sb_rep dst) as [rd|] eqn:Hr; [|contradiction]. clear Hrd.
  destruct (var_rep_detached st sd dst rd H Hd Hr) as (Hatt & _).
  unfold delete_rep_with_check in Ea. rewrite Hd, Hr in Ea.
  destruct (rep_disconnect_ok (LVar sd) st (wf_c _ H)) as (st1 & E1 & W1 & C1 & _).
  rewrite E1 in Ea. cbn [rbind] in Ea.
  assert (WF1 : WF st1) by exact (proj1 (Guar_of_Casc _ _ H W1 C1)).
  unfold rep_disconnect, get_rep in E1. rewrite Hd, Hr, Hatt in E1. unfold set_rep in E1. rewrite Hd in E1.
  apply Ok_inj in E1.
  set (rd1 := r_with_valid false rd) in *. set (sb1 := mkSB (Some rd1) (sb_blocked dst)) in *.
  assert (Gd : get_sb (LVar sd) st1 = Some sb1) by (rewrite <- E1; apply get_var_set_same).
  destruct (find_rep (r_id rd) st1) as [l'|] eqn:Hf.
  2:{ exfalso. apply (find_rep_complete rd1 st1); [|exact Hf].
      eapply get_sb_in_all_reps; [exact Gd|reflexivity]. }
  destruct (find_rep_sound _ _ _ (WFstruct_keys_ok _ (wc_struct _ W1)) Hf) as (sbx & rx & Gx & Rx & Ix).
  assert (El : l' = LVar sd).
  { eapply (rep_ids_injective st1 l' (LVar sd) sbx sb1 rx rd1 WF1 Gx Rx Gd); [reflexivity|]. rewrite Ix. reflexivity. }
  subst l'. rewrite Gd in Ea. cbn [sb1 sb_rep sb_blocked] in Ea.
  apply rep_delete_lite in Ea. destruct Ea as (Sl & _).
  rewrite (get_sb_var_slots _ _ _ Sl). apply get_var_set_same.
Qed.

Lemma slot_self_assign : S_slot_self_assign.
Proof.
  intros prog rec s st st' sb H Hl Hstep. unfold live_slot in *.
  destruct Hstep as [Hstep|Hstep]; cbn [step] in Hstep; unfold live_slot in Hstep;
    rewrite Hl, rkind_eqb_refl in Hstep.
  - unfold sb_assign in Hstep. rewrite Hl, same_rep_refl, sb_eta in Hstep. cbn [liftu lift] in Hstep.
    inversion Hstep. apply get_var_set_same.
  - unfold sb_move_assign in Hstep. rewrite Hl, same_rep_refl, sb_eta in Hstep. cbn [liftu lift] in Hstep.
    inversion Hstep. apply get_var_set_same.
Qed.

Lemma slot_move_assign : S_slot_move_assign.
Proof.
  intros prog rec sd ss st st' dst src H Hd Hs Hne Hk He Hstep.
  cbn [step] in Hstep. rewrite Hd, Hs, Hk in Hstep.
  destruct (sb_move_assign sd ss st) as [stx|e] eqn:Ea; cbn [liftu lift] in Hstep; [|discriminate].
  inversion Hstep; subst stx. clear Hstep. unfold live_slot in *.
  unfold sb_move_assign in Ea. rewrite Hd, Hs in Ea.
  assert (Hsrc : exists r, sb_rep src = Some r /\ r_valid r = true).
  { unfold sb_empty in He. destruct (sb_rep src) as [r|]; [|discriminate]. exists r. split; [reflexivity|].
    destruct (r_valid r); [reflexivity|discriminate]. }
  destruct Hsrc as (r & Hr & Hv).
  rewrite (same_rep_diff st sd ss dst src H Hd Hs Hne) in Ea by (left; congruence).
  rewrite He, Hr in Ea.
  destruct (var_rep_detached st ss src r H Hs Hr) as (Hatt & Hw).
  rewrite Hatt in Ea. cbn [rbind] in Ea.
  set (st1 := null_watchers (r_watch r) st) in *.
  set (st1' := set_sb (LVar ss) sb_none st1) in *.
  match type of Ea with rbind ?x _ = _ => destruct x as [st2|e] eqn:E2 end; cbn [rbind] in Ea; [|discriminate].
  injection Ea as E'. subst st'.
  pose proof (rep_delete_opt_slots _ _ _ E2) as S2.
  split.
  - etransitivity; [apply (get_sb_var_set_other ss sd _ st2); congruence|].
    rewrite (get_sb_var_slots _ _ _ S2).
    unfold st1'. apply get_var_set_same.
  - eexists. split; [apply get_var_set_same|]. cbn [sb_blocked sb_rep]. split; [reflexivity|]. split.
    + rewrite Hr. destruct (sb_rep dst); reflexivity.
    + unfold body_of. cbn [sb_rep]. rewrite Hr. destruct (sb_rep dst); reflexivity.
Qed.

(* ------------------------------------------------------------------ *)
(* C14: two handles                                                     *)

Lemma handles_share_list : S_handles_share_list.
Proof.
  intros g1 g2 st a b i Ha Hb Ia Ib. unfold nodes_of, impl_of. rewrite Ha, Hb, Ia, Ib. reflexivity.
Qed.

Lemma emission_through_either_handle : S_emission_through_either_handle.
Proof.
  intros prog rec g1 g2 arg st a b Ha Hb Ei Ek. unfold emit_sig. rewrite Ha, Hb, Ei, Ek. reflexivity.
Qed.

(* ------------------------------------------------------------------ *)
(* C02: notify_callbacks without destruction                            *)

Lemma trackable_notify_invalidates : S_trackable_notify_invalidates.
Proof.
  intros prog rec t st st' H Hp Hstep.
  cbn [step] in Hstep. destruct (prog_track t st) as [tr|] eqn:Hpt; [|contradiction]. clear Hp.
  destruct (track_notify_G t st H) as (st1 & E & G & C & D). rewrite E in Hstep.
  cbn [liftu lift] in Hstep. inversion Hstep; subst st1. clear Hstep.
  assert (W' : WF st') by exact (proj1 G).
  assert (R : RR st st') by exact (track_notify_RR t st st' (wf_c _ H) E).
  assert (C2 : forall r f, In r (all_reps st') -> r_fn r = Some f -> ~ In t (f_refs f)).
  { intros r f Hin Hf Hin_t.
    assert (X : (0 < dem t (r_id r) (dem_of (all_reps st')))%nat).
    { eapply dem_in_pos; [|exact Hin_t]. unfold dem_of. apply in_map_iff. exists r. split; [|exact Hin].
      unfold refs_of. rewrite Hf. reflexivity. }
    rewrite D in X. lia. }
  assert (Hev : forall r r' l sb', In r (all_reps st) -> get_sb l st' = Some sb' -> sb_rep sb' = Some r' ->
                  r_id r' = r_id r -> exists sb, get_sb l st = Some sb /\ sb_rep sb = Some r /\ rchg l st r r').
  { intros r r' l sb' Hin G' R' I. destruct (R l sb' r' G' R') as (sb & r0 & G0 & R0 & Ch).
    assert (r0 = r).
    { eapply (NoDup_map_inj r_id); [exact (proj1 (wf_rids_unique st H))|eapply get_sb_in_all_reps; eauto|exact Hin|].
      destruct Ch as (I0 & _). congruence. }
    subst r0. exists sb. auto. }
  assert (Hfn : forall r r', In t (refs_of r) -> In r' (all_reps st') -> r_fn r' = r_fn r -> False).
  { intros r r' Hin_t Hin' F. unfold refs_of in Hin_t. destruct (r_fn r) as [f|] eqn:Hf; [|destruct Hin_t].
    exact (C2 r' f Hin' F Hin_t). }
  split; [|split; [|exact C2]].
  - apply (proj2 (tlive_live st st' t (ca_tracks _ _ C))).
    unfold prog_track in Hpt. destruct (is_released t st); [discriminate|]. rewrite Hpt. discriminate.
  - intros r Hin Hin_t r' Hin' I.
    destruct (in_all_reps_loc st' r' W' Hin') as (l & sb' & G' & R').
    destruct (Hev r r' l sb' Hin G' R' I) as (sb & G0 & R0 & (_ & Ch)).
    assert (F : r_fn r' = None).
    { destruct Ch as [(_ & F)|(_ & [F|F] & _)]; [exfalso; eauto|exfalso; eauto|exact F]. }
    split; [|exact F]. destruct (r_valid r') eqn:V; [|reflexivity].
    exfalso. exact (wf_valid_has_fn st' r' W' Hin' V F).
Qed.

(* ------------------------------------------------------------------ *)
(* shared ownership: the collection at the end of an operation          *)

(* a key below 2000 denotes a trackable, the key [sig_key g] the signal object g (g < 2000), the key
   [conn_key c] the connection object c *)
Lemma key_live_track k st : k < 2000 -> (key_live k st = true <-> live_track k st <> None).
Proof.
  intro Hk. unfold key_live. destruct (N.leb_spec 4000 k); [lia|]. destruct (N.leb_spec 2000 k); [lia|].
  destruct (live_track k st); split; intro X; try reflexivity; try discriminate. contradiction.
Qed.

Lemma key_live_sig g st : g < 2000 -> (key_live (sig_key g) st = true <-> live_sig g st <> None).
Proof.
  intro Hg. unfold key_live, sig_key. destruct (N.leb_spec 4000 (2000 + g)); [lia|].
  destruct (N.leb_spec 2000 (2000 + g)); [|lia].
  replace (2000 + g - 2000) with g by lia.
  destruct (live_sig g st); split; intro X; try reflexivity; try discriminate. contradiction.
Qed.

Lemma key_live_conn c st : key_live (conn_key c) st = true <-> get_connptr (WC c) st <> None.
Proof.
  unfold key_live, conn_key. destruct (N.leb_spec 4000 (4000 + c)); [|lia].
  replace (4000 + c - 4000) with c by lia.
  destruct (get_connptr (WC c) st); split; intro X; try reflexivity; try discriminate. contradiction.
Qed.

Lemma find_orphan_some prog l st t : find_orphan prog l st = Some t ->
  In (t, true) l /\ key_live t st = true /\ owner_count prog t st = 0.
Proof.
  induction l as [|[t' rel] l IH]; cbn [find_orphan]; [discriminate|].
  destruct (rel && key_live t' st && N.eqb (owner_count prog t' st) 0) eqn:E.
  - intro X. inversion X; subst t'. apply andb_true_iff in E. destruct E as [E E3].
    apply andb_true_iff in E. destruct E as [E1 E2]. subst rel.
    split; [left; reflexivity|]. split; [exact E2|apply N.eqb_eq; exact E3].
  - intro X. destruct (IH X) as (A & B). split; [right; exact A|exact B].
Qed.

Lemma find_orphan_none prog l st : find_orphan prog l st = None ->
  forall t, In (t, true) l -> key_live t st = true -> owner_count prog t st <> 0.
Proof.
  induction l as [|[t' rel] l IH]; cbn [find_orphan]; [intros _ t []|].
  destruct (rel && key_live t' st && N.eqb (owner_count prog t' st) 0) eqn:E;
    [discriminate|].
  intros X t [Y|Y] Hl.
  - inversion Y; subst t' rel. rewrite Hl in E. cbn [andb] in E. apply N.eqb_neq. exact E.
  - exact (IH X t Y Hl).
Qed.

Lemma gc_result prog : forall fuel st st', gc prog fuel st = Ok st' ->
  find_orphan prog (shared st') st' = None.
Proof.
  induction fuel as [|fuel IH]; intros st st' E; cbn [gc] in E.
  - destruct (find_orphan prog (shared st) st) eqn:Hfo; [discriminate|]. inversion E; subst st'. exact Hfo.
  - destruct (find_orphan prog (shared st) st) eqn:Hfo; [|inversion E; subst st'; exact Hfo].
    destruct (N.leb 4000 n); [|destruct (N.leb 2000 n)].
    + destruct (get_connptr (WC (n - 4000)) st) as [p|]; [|discriminate].
      destruct (watch_remove p (WC (n - 4000)) st) as [st1|e]; cbn [rbind] in E; [|discriminate].
      eapply IH; eauto.
    + destruct (live_sig (n - 2000) st) as [go|]; [|discriminate].
      destruct (sig_destroy (n - 2000) go st) as [st1|e]; cbn [rbind] in E; [|discriminate].
      eapply IH; eauto.
    + destruct (track_notify n st) as [st1|e]; cbn [rbind] in E; [|discriminate].
      eapply IH; eauto.
Qed.

Lemma is_released_shared t st st' : shared st' = shared st -> is_released t st' = is_released t st.
Proof. intro E. unfold is_released. rewrite E. reflexivity. Qed.

(* what the collection destroys, among the objects the table of shared objects can name (user
   trackables, keys below 1000, signal objects, keys from 2000 on, and connection objects, keys from
   4000 on), was released and listed *)
Lemma gc_dead prog : forall fuel st st', WF st -> NoDup (map fst (shared st)) -> gc prog fuel st = Ok st' ->
  shared st' = shared st /\
  forall k, k < 1000 \/ 2000 <= k -> key_live k st = true -> key_live k st' = false ->
    is_released k st = true /\ In k (map fst (shared st)).
Proof.
  induction fuel as [|fuel IH]; intros st st' H Hnd E; cbn [gc] in E.
  - destruct (find_orphan prog (shared st) st) eqn:Hfo; [discriminate|]. inversion E; subst st'.
    split; [reflexivity|]. intros k _ A B. congruence.
  - destruct (find_orphan prog (shared st) st) as [t0|] eqn:Hfo.
    2:{ inversion E; subst st'. split; [reflexivity|]. intros k _ A B. congruence. }
    destruct (find_orphan_some _ _ _ _ Hfo) as (Hin & Hlive & Hoc).
    assert (Ht : shkey t0).
    { pose proof (wf_shared _ H) as F. unfold shared_ok in F. rewrite Forall_forall in F. exact (F (t0, true) Hin). }
    (* one step of the collection kills the key t0 and no other nameable key *)
    assert (Hstep : exists st2, gc prog fuel st2 = Ok st' /\ WF st2 /\ shared st2 = shared st /\
              forall k, k < 1000 \/ 2000 <= k -> key_live k st = true -> key_live k st2 = false -> k = t0).
    { destruct (N.leb_spec 4000 t0) as [Hge4|Hlt4]; [|destruct (N.leb_spec 2000 t0) as [Hge|Hlt]].
      - unfold key_live in Hlive. destruct (N.leb_spec 4000 t0) as [_|]; [|lia].
        destruct (get_connptr (WC (t0 - 4000)) st) as [p|] eqn:Hp; [|discriminate].
        destruct (conn_destroy_full (t0 - 4000) p st H Hp) as (st1 & E1 & C & P & G).
        rewrite E1 in E. cbn [rbind] in E.
        set (st2 := with_conns (aset (t0 - 4000) None (conns st1)) st1) in *.
        exists st2. split; [exact E|]. split; [exact (proj1 G)|]. split; [exact (ca_shared _ _ C)|].
        intros k Hk A B. unfold key_live in A, B.
        destruct (N.leb_spec 4000 k) as [Hk4|Hk4]; [|destruct (N.leb_spec 2000 k) as [Hk2|Hk2]].
        + unfold st2 in B. cbn [get_connptr conns with_conns] in B.
          destruct (N.eqb_spec (k - 4000) (t0 - 4000)) as [X|Hne]; [lia|exfalso].
          rewrite aget_aset_other in B by exact Hne.
          pose proof (P (WC (k - 4000))) as Q. cbn [get_connptr] in Q. rewrite Q in B.
          cbn [get_connptr] in A. rewrite B in A. discriminate.
        + exfalso. unfold live_sig, st2 in B. cbn [sigs with_conns] in B. rewrite (ca_sigs _ _ C) in B.
          unfold live_sig in A. rewrite B in A. discriminate.
        + exfalso. assert (X : live_track k st1 <> None).
          { apply (tlive_live st st1 k (ca_tracks _ _ C)). destruct (live_track k st); [discriminate|discriminate A]. }
          change (live_track k st2) with (live_track k st1) in B.
          destruct (live_track k st1); [discriminate B|contradiction].
      - unfold key_live in Hlive. destruct (N.leb_spec 4000 t0) as [|_]; [lia|]. destruct (N.leb_spec 2000 t0) as [_|]; [|lia].
        destruct (live_sig (t0 - 2000) st) as [go|] eqn:Hl; [|discriminate].
        destruct (sig_destroy_full (t0 - 2000) go st H Hl) as (st1 & E1 & G & Hsh & Hsg & _ & Htr).
        rewrite E1 in E. cbn [rbind] in E.
        exists st1. split; [exact E|]. split; [exact (proj1 G)|]. split; [exact Hsh|].
        intros k Hk A B. unfold key_live in A, B.
        destruct (N.leb_spec 4000 k) as [Hk4|Hk4]; [|destruct (N.leb_spec 2000 k) as [Hk2|Hk2]].
        + exfalso. assert (X : get_connptr (WC (k - 4000)) st1 <> None).
          { apply (cmono_dom st st1 _ (sig_destroy_cm _ _ _ _ E1)). destruct (get_connptr (WC (k - 4000)) st); [discriminate|discriminate A]. }
          destruct (get_connptr (WC (k - 4000)) st1); [discriminate B|contradiction].
        + rewrite Hsg in B. destruct (N.eqb_spec (k - 2000) (t0 - 2000)) as [X|_]; [lia|].
          rewrite B in A. discriminate.
        + exfalso. assert (Hk1 : k < 1000) by (destruct Hk; [assumption|lia]).
          assert (X : live_track k st1 <> None).
          { apply Htr; [unfold trackable_of_sig; lia|]. destruct (live_track k st); [discriminate|discriminate A]. }
          destruct (live_track k st1); [discriminate B|contradiction].
      - assert (Ht' : t0 < 1000) by (destruct Ht as [|[[]|[]]]; [assumption|lia|lia]).
        destruct (track_notify_G t0 st H) as (st1 & E1 & _ & C & _).
        destruct (del_user_track_G t0 st H Ht') as (st1' & E1' & _ & G). rewrite E1 in E1'. inversion E1'; subst st1'.
        rewrite E1 in E. cbn [rbind] in E.
        set (st2 := with_tracks (aset t0 None (tracks st1)) st1) in *.
        exists st2. split; [exact E|]. split; [exact (proj1 G)|]. split; [exact (ca_shared _ _ C)|].
        intros k Hk A B. unfold key_live in A, B.
        destruct (N.leb_spec 4000 k) as [Hk4|Hk4]; [|destruct (N.leb_spec 2000 k) as [Hk2|Hk2]].
        + exfalso. assert (X : get_connptr (WC (k - 4000)) st1 <> None).
          { apply (cmono_dom st st1 _ (track_notify_cm _ _ _ E1)). destruct (get_connptr (WC (k - 4000)) st); [discriminate|discriminate A]. }
          change (get_connptr (WC (k - 4000)) st2) with (get_connptr (WC (k - 4000)) st1) in B.
          destruct (get_connptr (WC (k - 4000)) st1); [discriminate B|contradiction].
        + exfalso. unfold live_sig, st2 in B. cbn [sigs with_tracks] in B. rewrite (ca_sigs _ _ C) in B.
          unfold live_sig in A. rewrite B in A. discriminate.
        + unfold st2 in B. rewrite live_track_aset in B. destruct (N.eqb_spec k t0) as [X|Hne]; [exact X|exfalso].
          assert (X : live_track k st1 <> None).
          { apply (tlive_live st st1 k (ca_tracks _ _ C)). destruct (live_track k st); [discriminate|discriminate A]. }
          destruct (live_track k st1); [discriminate B|contradiction]. }
    destruct Hstep as (st2 & E2 & W2 & Hsh & Honly).
    assert (Hnd2 : NoDup (map fst (shared st2))) by (rewrite Hsh; exact Hnd).
    destruct (IH st2 st' W2 Hnd2 E2) as (Sh' & Hd).
    split; [congruence|]. intros k Hk Hl Hl'.
    destruct (key_live k st2) eqn:Hl2.
    + destruct (Hd k Hk Hl2 Hl') as (A & B).
      rewrite (is_released_shared k st st2 Hsh) in A. rewrite Hsh in B. auto.
    + rewrite (Honly k Hk Hl Hl2). split.
      * unfold is_released. rewrite (in_aget_nodup t0 true (shared st) Hnd Hin). reflexivity.
      * apply in_map_iff. exists (t0, true). split; [reflexivity|exact Hin].
Qed.

(* the lifetime of a shared object, in terms of the key that names it *)
Lemma shared_key_lifetime :
  forall prog st st' k, WF st -> NoDup (map fst (shared st)) -> gc_shared prog st = Ok st' ->
    k < 1000 \/ 2000 <= k ->
    (key_live k st = true -> key_live k st' = false ->
       is_released k st = true /\ In k (map fst (shared st))) /\
    (key_live k st' = true -> is_released k st' = true -> 0 < owner_count prog k st').
Proof.
  intros prog st st' k H Hnd E Hk. unfold gc_shared in E. split.
  - exact (proj2 (gc_dead prog _ st st' H Hnd E) k Hk).
  - intros Hl Hr. pose proof (gc_result prog _ st st' E) as Hfo.
    unfold is_released in Hr. destruct (aget k (shared st')) as [[|]|] eqn:Ha; try discriminate.
    pose proof (find_orphan_none prog _ _ Hfo k (aget_in _ _ _ Ha) Hl). lia.
Qed.

Lemma key_live_false_track k st : k < 2000 -> (key_live k st = false <-> live_track k st = None).
Proof.
  intro Hk. pose proof (key_live_track k st Hk) as X. destruct (key_live k st), (live_track k st);
    split; intro Y; try reflexivity; try discriminate; exfalso; [apply (proj1 X); [reflexivity|exact Y]|].
  assert (Z : false = true) by (apply (proj2 X); discriminate). discriminate.
Qed.

Lemma key_live_false_sig g st : g < 2000 -> (key_live (sig_key g) st = false <-> live_sig g st = None).
Proof.
  intro Hg. pose proof (key_live_sig g st Hg) as X. destruct (key_live (sig_key g) st), (live_sig g st);
    split; intro Y; try reflexivity; try discriminate; exfalso; [apply (proj1 X); [reflexivity|exact Y]|].
  assert (Z : false = true) by (apply (proj2 X); discriminate). discriminate.
Qed.

Lemma key_live_false_conn c st : key_live (conn_key c) st = false <-> get_connptr (WC c) st = None.
Proof.
  pose proof (key_live_conn c st) as X. destruct (key_live (conn_key c) st), (get_connptr (WC c) st);
    split; intro Y; try reflexivity; try discriminate; exfalso; [apply (proj1 X); [reflexivity|exact Y]|].
  assert (Z : false = true) by (apply (proj2 X); discriminate). discriminate.
Qed.

(* S_shared_trackable_lifetime does not hold for every WF state: WF does not say that the keys of
   the table [shared] are unique (they are in every reachable state: the table is only ever changed
   by [aset]).  With a shadowed entry (t, true) behind (t, false), find_orphan collects t although
   is_released t (which reads the first entry) is false.  With unique keys the statement holds. *)
Lemma shared_trackable_lifetime_partial :
  forall prog st st' t, WF st -> NoDup (map fst (shared st)) -> gc_shared prog st = Ok st' -> t < 1000 ->
    (live_track t st <> None -> live_track t st' = None ->
       is_released t st = true /\ In t (map fst (shared st))) /\
    (live_track t st' <> None -> is_released t st' = true -> In t (map fst (shared st')) -> 0 < owner_count prog t st').
Proof.
  intros prog st st' t H Hnd E Ht.
  assert (Ht2 : t < 2000) by lia.
  destruct (shared_key_lifetime prog st st' t H Hnd E (or_introl Ht)) as (A & B). split.
  - intros Hl Hl'. apply A; [apply key_live_track; assumption|apply key_live_false_track; assumption].
  - intros Hl Hr _. apply B; [apply key_live_track; assumption|exact Hr].
Qed.

(* the same for a signal object co-owned by functor copies (a key from 4000 on names a connection
   object, so the signal objects that the table can name are the g < 2000; OGShare takes g < 1000) *)
Lemma shared_signal_lifetime :
  forall prog st st' g, WF st -> NoDup (map fst (shared st)) -> gc_shared prog st = Ok st' -> g < 2000 ->
    (live_sig g st <> None -> live_sig g st' = None ->
       is_released (sig_key g) st = true /\ In (sig_key g) (map fst (shared st))) /\
    (live_sig g st' <> None -> is_released (sig_key g) st' = true -> 0 < owner_count prog (sig_key g) st').
Proof.
  intros prog st st' g H Hnd E Hg.
  assert (Hk : sig_key g < 1000 \/ 2000 <= sig_key g) by (right; unfold sig_key; lia).
  destruct (shared_key_lifetime prog st st' (sig_key g) H Hnd E Hk) as (A & B). split.
  - intros Hl Hl'. apply A; [apply key_live_sig; assumption|apply key_live_false_sig; assumption].
  - intros Hl Hr. apply B; [apply key_live_sig; assumption|exact Hr].
Qed.

(* and for a connection object co-owned by functor copies *)
Lemma shared_connection_lifetime :
  forall prog st st' c, WF st -> NoDup (map fst (shared st)) -> gc_shared prog st = Ok st' ->
    (get_connptr (WC c) st <> None -> get_connptr (WC c) st' = None ->
       is_released (conn_key c) st = true /\ In (conn_key c) (map fst (shared st))) /\
    (get_connptr (WC c) st' <> None -> is_released (conn_key c) st' = true -> 0 < owner_count prog (conn_key c) st').
Proof.
  intros prog st st' c H Hnd E.
  assert (Hk : conn_key c < 1000 \/ 2000 <= conn_key c) by (right; unfold conn_key; lia).
  destruct (shared_key_lifetime prog st st' (conn_key c) H Hnd E Hk) as (A & B). split.
  - intros Hl Hl'. apply A; [apply key_live_conn; assumption|apply key_live_false_conn; assumption].
  - intros Hl Hr. apply B; [apply key_live_conn; assumption|exact Hr].
Qed.

(* the second conjunct needs no side condition on the state (a key from 2000 on names a signal
   object, not the trackable with that number) *)
Lemma shared_trackable_kept_while_owned :
  forall prog st st' t, gc_shared prog st = Ok st' -> t < 2000 ->
    live_track t st' <> None -> is_released t st' = true -> 0 < owner_count prog t st'.
Proof.
  intros prog st st' t E Ht Hl Hr. pose proof (gc_result prog _ st st' E) as Hfo.
  unfold is_released in Hr. destruct (aget t (shared st')) as [[|]|] eqn:Ha; try discriminate.
  pose proof (find_orphan_none prog _ _ Hfo t (aget_in _ _ _ Ha) (proj2 (key_live_track t st' Ht) Hl)). lia.
Qed.

Lemma shared_signal_kept_while_owned :
  forall prog st st' g, gc_shared prog st = Ok st' -> g < 2000 ->
    live_sig g st' <> None -> is_released (sig_key g) st' = true -> 0 < owner_count prog (sig_key g) st'.
Proof.
  intros prog st st' g E Hg Hl Hr. pose proof (gc_result prog _ st st' E) as Hfo.
  unfold is_released in Hr. destruct (aget (sig_key g) (shared st')) as [[|]|] eqn:Ha; try discriminate.
  pose proof (find_orphan_none prog _ _ Hfo _ (aget_in _ _ _ Ha) (proj2 (key_live_sig g st' Hg) Hl)). lia.
Qed.

Lemma shared_connection_kept_while_owned :
  forall prog st st' c, gc_shared prog st = Ok st' ->
    get_connptr (WC c) st' <> None -> is_released (conn_key c) st' = true -> 0 < owner_count prog (conn_key c) st'.
Proof.
  intros prog st st' c E Hl Hr. pose proof (gc_result prog _ st st' E) as Hfo.
  unfold is_released in Hr. destruct (aget (conn_key c) (shared st')) as [[|]|] eqn:Ha; try discriminate.
  pose proof (find_orphan_none prog _ _ Hfo _ (aget_in _ _ _ Ha) (proj2 (key_live_conn c st') Hl)). lia.
Qed.

(* machine-checked counterexample to the unrestricted statement *)
Definition cxs : state :=
  mkState [] [] [] [] [(5, Some (mkTr None false))] [] [] 0 0 0 0 0 [] [(5, false); (5, true)].

Lemma WF_top_cxs : WF_top cxs.
Proof.
  split; [constructor; [constructor; [constructor|..]|..]|].
  - cbn. constructor.
  - cbn. constructor.
  - cbn. intros i [].
  - intros i im X. discriminate.
  - cbn. constructor.
  - cbn. constructor.
  - cbn. constructor.
  - split.
    + intros t rid Hd. exfalso. cbn in Hd. lia.
    + intros t tr Hl rid. unfold live_track in Hl. cbn in Hl. destruct (N.eqb t 5); [|discriminate].
      inversion Hl; subst tr. reflexivity.
  - split.
    + intro g. split; [split|].
      * intro X. exfalso. apply X. unfold live_track, cxs. cbn [tracks aget].
        destruct (N.eqb_spec (trackable_of_sig g) 5) as [E|]; [unfold trackable_of_sig in E; lia|reflexivity].
      * intros (go & X & _). discriminate.
      * intros _. unfold cxs. cbn [tracks aget].
        destruct (N.eqb_spec (trackable_of_sig g) 5) as [E|]; [unfold trackable_of_sig in E; lia|reflexivity].
    + intros g go i X. discriminate.
  - intros w i n X. destruct w; discriminate.
  - intros t tr X. unfold live_track in X. cbn in X. destruct (N.eqb t 5); [|discriminate]. inversion X. reflexivity.
  - intros i im X. discriminate.
  - constructor; [left; cbn; lia|]. constructor; [left; cbn; lia|constructor].
  - intros i im X. discriminate.
Qed.

Lemma shared_trackable_lifetime_false : ~ S_shared_trackable_lifetime_dupkeys.
Proof.
  intro S.
  assert (E : exists st', gc_shared pdummy cxs = Ok st' /\ live_track 5 st' = None).
  { eexists. split; [vm_compute; reflexivity|]. reflexivity. }
  destruct E as (st' & E & Hd).
  destruct (S pdummy cxs st' 5 (proj1 WF_top_cxs) E) as (A & _); [lia|].
  destruct A as (A & _); [discriminate|exact Hd|]. discriminate.
Qed.

(* ------------------------------------------------------------------ *)
Print Assumptions slot_assign_copies.
Print Assumptions slot_assign_from_empty.
Print Assumptions slot_self_assign.
Print Assumptions slot_move_assign.
Print Assumptions handles_share_list.
Print Assumptions emission_through_either_handle.
Print Assumptions trackable_notify_invalidates.
Print Assumptions shared_trackable_lifetime_partial.
Print Assumptions shared_trackable_kept_while_owned.
Print Assumptions shared_signal_lifetime.
Print Assumptions shared_signal_kept_while_owned.
Print Assumptions shared_connection_lifetime.
Print Assumptions shared_connection_kept_while_owned.
Print Assumptions shared_trackable_lifetime_false.
