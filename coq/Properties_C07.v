(* Properties_C07.v -- Disconnected slots release their functor and memory; nothing leaks.
   Statements only: each Prop is defined in SigSpec.v (or spelled out here) and closed by a lemma of
   SigSafe.v, SigQuiesce.v; Print Assumptions follows each. *)
From Coq Require Import List NArith Bool.
Import ListNotations.
Require Import Util SigCore SigLemmas SigInv SigSafe SigSpec SigQuiesce SigExtra SigShared.
Local Open Scope N_scope.

Theorem C07_functor_held_only_by_live_slot_or_connected_element : S_functor_holders.
Proof. exact functor_holders. Qed.
Print Assumptions C07_functor_held_only_by_live_slot_or_connected_element.

(* leaked = 0 at every quiescent point of every history *)
Theorem C07_nothing_leaks_lists_hold_only_connected : S_quiescent_lists.
Proof. exact quiescent_lists. Qed.
Print Assumptions C07_nothing_leaks_lists_hold_only_connected.

Theorem C07_teardown_complete : S_teardown_complete.
Proof. exact teardown_complete. Qed.
Print Assumptions C07_teardown_complete.

(* "releasing whatever the functor holds": an object co-owned by functor copies dies exactly when the
   program has released it and no functor copy owns it any more *)
Theorem C07_shared_object_lifetime : S_shared_trackable_lifetime.
Proof. exact shared_trackable_lifetime_partial. Qed.
Print Assumptions C07_shared_object_lifetime.

(* the side condition of the previous theorem (distinct keys) holds along every history, so the
   lifetime rule holds after every operation of every program *)
Theorem C07_shared_keys_distinct : S_shared_keys_distinct.
Proof. exact shared_keys_distinct. Qed.
Print Assumptions C07_shared_keys_distinct.

Theorem C07_shared_object_lifetime_every_history : S_shared_trackable_lifetime_history.
Proof. exact shared_trackable_lifetime_history. Qed.
Print Assumptions C07_shared_object_lifetime_every_history.

(* between operations nothing a functor co-owned is alive without an owner *)
Theorem C07_no_orphan_between_operations : S_no_orphan_at_rest.
Proof. exact no_orphan_at_rest. Qed.
Print Assumptions C07_no_orphan_between_operations.
