(* GenTypes.v -- vocabulary of the tables regenerated from the C++ source by translate/cxx2coq.py *)
From Coq Require Import List String ZArith.
Import ListNotations.

(* what a visitor<X>::do_visit_each body does with the members of X *)
Inductive visit :=
| VMember (m : string)                 (* sigc::visit_each(action, target.m) *)
| VTupleAll (m : string)               (* tuple_for_each<TupleVisitorVisitEach>(target.m, action) *)
| VTupleElem (m : string) (k : nat)    (* sigc::visit_each(action, std::get<k>(target.m)) *)
| VVisitMethod                         (* sigc::visit_each(action, target.visit()) *)
| VAction (m : string)                 (* action(target) *)
| VSlotParent
| VUnrecognised (w : string).

(* how an adaptor's operator() receives its argument pack *)
Inductive hop_mode :=
| Forwarding       (* template<T_arg...> operator()(T_arg&&... a) ... std::forward<T_arg>(a)... *)
| RefNoForward     (* T_arg&&... but passed on as lvalues *)
| ByValue          (* template<T_arg...> operator()(T_arg... a): a deduced call copies every argument *)
| Fixed            (* not a template: parameter types are those of the class (type_trait_take_t<...>) *)
| NoArgs.

(* how the mem_fun(obj, method) factories hand the method pointer to the functor's constructor *)
Inductive memptr_pass :=
| MPImplicit       (* the parameter itself: only the implicit pointer-to-member conversion (method of the object's class or of a base) *)
| MPExplicit       (* through an explicit cast: also the unchecked derived-to-base direction *)
| MPUnrecognised.

(* arithmetic of the template arguments of tuple_start<>/tuple_end<> *)
Inductive aexp :=
| ALoc | ASize | AConst (z : Z) | ANeg (a : aexp)
| AAdd (a b : aexp) | ASub (a b : aexp) | AEq (a b : aexp) | AIf (c a b : aexp)
| AUnrecognised.
