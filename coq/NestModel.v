(* NestModel.v -- slots whose functor contains (by value) or refers to (by std::ref) other slots.

   Models, for sigc++/functors/slot.h and slot_base.cc:
     visitor<slot>::do_visit_each (slot_do_bind / slot_do_unbind), slot_rep::set_parent / unset_parent,
     slot_rep::disconnect, slot_rep::notify_slot_rep_invalidated, typed_slot_rep's constructor,
     copy constructor (clone), destroy() and destructor, slot_base's copy / move construction,
     copy / move assignment, delete_rep_with_check, disconnect and destruction,
   and for trackable.cc the callback list (add, remove while clearing, notify on destruction).

   Ownership is structural: a slot_rep lives inside the slot object that owns it, and a slot object
   held by value lives inside the functor that holds it.  What the C++ reaches through raw pointers
   (parent_, the data_ of a trackable's callback entry, a std::ref to a slot variable) goes through
   ids and searches; a failing search is ErrUAF.  In the assignments the new rep is installed before
   the old one is destroyed, as in the library since fix ea4b4ab (finding F8).
   Definitions only; proofs are in NestProofs.v. *)
From Coq Require Import List NArith Bool.
Import ListNotations.
Require Import Util.
Local Open Scope N_scope.

Inductive nerror := NErrUAF | NErrLoop | NErrUnsupported.
Inductive nres (A : Type) := NOk (a : A) | NErr (e : nerror).
Arguments NOk {A} a.
Arguments NErr {A} e.
Definition nbind {A B} (r : nres A) (k : A -> nres B) : nres B :=
  match r with NOk a => k a | NErr e => NErr e end.
Notation "x <-- e ;;; k" := (nbind e (fun x => k)) (at level 61, e at next level, right associativity).

(* a functor is the list of things it refers to or holds, in member order *)
Inductive item :=
| ITrack (t : N)                (* a sigc::trackable referred to by reference *)
| IRef (s : N)                  (* a slot variable referred to through std::ref *)
| IVal (r : option rep)         (* a slot object held by value: its rep_ *)
with rep :=
| mkRep (r_id : N) (r_valid : bool) (r_fn : option (list item)) (r_parent : option N).

Definition r_id (r : rep) := let (i, _, _, _) := r in i.
Definition r_valid (r : rep) := let (_, v, _, _) := r in v.
Definition r_fn (r : rep) := let (_, _, f, _) := r in f.
Definition r_parent (r : rep) := let (_, _, _, p) := r in p.

(* a trackable: its callback list (rep id, still armed) and whether the list is being cleared *)
Record tr := mkTr { t_regs : list (N * bool); t_clearing : bool }.

Inductive nevent :=
| NQ (has_rep empty : bool)                        (* operator bool, empty() of a slot variable *)
| NSkip.

Record nstate := mkNS
  { vars : list (N * option (option rep))           (* slot variables: None destroyed, Some None: rep_ == nullptr *)
  ; tracks : list (N * option tr)                   (* None: destroyed *)
  ; next_id : N
  ; ntrace : list nevent }.

Definition with_vars v (s : nstate) := mkNS v (tracks s) (next_id s) (ntrace s).
Definition with_tracks v (s : nstate) := mkNS (vars s) v (next_id s) (ntrace s).
Definition with_next v (s : nstate) := mkNS (vars s) (tracks s) v (ntrace s).
Definition emit (e : nevent) (s : nstate) := mkNS (vars s) (tracks s) (next_id s) (e :: ntrace s).

Definition nst0 : nstate := mkNS [] [] 1 [].

(* ---- searching and updating the forest of reps ---- *)

Fixpoint find_in_rep (id : N) (r : rep) : option rep :=
  if N.eqb (r_id r) id then Some r else
  match r_fn r with
  | None => None
  | Some l =>
      (fix go (l : list item) : option rep :=
         match l with
         | [] => None
         | IVal (Some r') :: tl => match find_in_rep id r' with Some x => Some x | None => go tl end
         | _ :: tl => go tl
         end) l
  end.

Fixpoint find_in_vars (id : N) (l : list (N * option (option rep))) : option rep :=
  match l with
  | [] => None
  | (_, Some (Some r)) :: tl => match find_in_rep id r with Some x => Some x | None => find_in_vars id tl end
  | _ :: tl => find_in_vars id tl
  end.

Definition find_rep (id : N) (st : nstate) : option rep := find_in_vars id (vars st).

(* apply f to the rep with the given id, wherever it lives *)
Fixpoint map_in_rep (id : N) (f : rep -> rep) (r : rep) : rep :=
  if N.eqb (r_id r) id then f r else
  match r with
  | mkRep i v fn p =>
      mkRep i v
        (match fn with
         | None => None
         | Some l =>
             Some ((fix go (l : list item) : list item :=
                      match l with
                      | [] => []
                      | IVal (Some r') :: tl => IVal (Some (map_in_rep id f r')) :: go tl
                      | x :: tl => x :: go tl
                      end) l)
         end) p
  end.

Definition map_rep (id : N) (f : rep -> rep) (st : nstate) : nstate :=
  with_vars (map (fun kv => match kv with
                            | (k, Some (Some r)) => (k, Some (Some (map_in_rep id f r)))
                            | x => x
                            end) (vars st)) st.

Definition set_valid (b : bool) (r : rep) : rep := mkRep (r_id r) b (r_fn r) (r_parent r).
Definition set_parent (p : option N) (r : rep) : rep := mkRep (r_id r) (r_valid r) (r_fn r) p.
Definition set_fn (f : option (list item)) (r : rep) : rep := mkRep (r_id r) (r_valid r) f (r_parent r).

Definition live_var (s : N) (st : nstate) : option (option rep) :=
  match aget s (vars st) with Some (Some x) => Some x | _ => None end.
Definition live_tr (t : N) (st : nstate) : option tr :=
  match aget t (tracks st) with Some (Some x) => Some x | _ => None end.

(* ---- the trackable's callback list ---- *)

Definition track_add (t me : N) (st : nstate) : nres nstate :=
  match live_tr t st with
  | None => NErr NErrUAF
  | Some x => NOk (with_tracks (aset t (Some (mkTr (t_regs x ++ [(me, true)]) (t_clearing x))) (tracks st)) st)
  end.

Fixpoint disarm_first (me : N) (l : list (N * bool)) : list (N * bool) :=
  match l with
  | [] => []
  | (d, a) :: tl => if N.eqb d me && a then (d, false) :: tl else (d, a) :: disarm_first me tl
  end.

(* trackable_callback_list::remove_callback: the first entry with this data whose func_ is not null;
   erased, or only disarmed while the list is being cleared *)
Definition track_remove (t me : N) (st : nstate) : nres nstate :=
  match live_tr t st with
  | None => NErr NErrUAF
  | Some x =>
      let regs := if t_clearing x then disarm_first me (t_regs x)
                  else remove_first (fun e => N.eqb (fst e) me && snd e) (t_regs x) in
      NOk (with_tracks (aset t (Some (mkTr regs (t_clearing x))) (tracks st)) st)
  end.

(* ---- visitor<slot>: slot_do_bind / slot_do_unbind ---- *)

(* bind one item of the functor of rep `me` *)
Definition bind_item (me : N) (it : item) (st : nstate) : nres nstate :=
  match it with
  | ITrack t => track_add t me st
  | IRef s =>
      match live_var s st with
      | None => NErr NErrUAF                                   (* a dangling std::ref *)
      | Some None => NOk st                                    (* target.rep_ == nullptr *)
      | Some (Some r) =>
          match r_parent r with
          | None => NOk (map_rep (r_id r) (set_parent (Some me)) st)
          | Some _ => NOk st
          end
      end
  | IVal None => NOk st
  | IVal (Some r) =>
      match r_parent r with
      | None => NOk (map_rep (r_id r) (set_parent (Some me)) st)
      | Some _ => NOk st
      end
  end.

Fixpoint bind_items (me : N) (l : list item) (st : nstate) : nres nstate :=
  match l with
  | [] => NOk st
  | it :: tl => st1 <-- bind_item me it st ;;; bind_items me tl st1
  end.

(* unbind one item of the functor of rep `me`; a slot held by value is about to be destroyed with the
   functor, so clearing its parent_ is not recorded *)
Definition unbind_item (me : N) (it : item) (st : nstate) : nres nstate :=
  match it with
  | ITrack t => track_remove t me st
  | IRef s =>
      match live_var s st with
      | None => NErr NErrUAF
      | Some None => NOk st
      | Some (Some r) =>
          match r_parent r with
          | Some p => if N.eqb p me then NOk (map_rep (r_id r) (set_parent None) st) else NOk st
          | None => NOk st
          end
      end
  | IVal _ => NOk st
  end.

Fixpoint unbind_items (me : N) (l : list item) (st : nstate) : nres nstate :=
  match l with
  | [] => NOk st
  | it :: tl => st1 <-- unbind_item me it st ;;; unbind_items me tl st1
  end.

(* ---- destruction of a rep that has been taken out of the forest (delete rep_) ----
   ~typed_slot_rep -> destroy(): unbind every item, then the functor dies and with it the slot
   objects it holds, each deleting its own rep the same way *)
Fixpoint drop_rep (r : rep) (st : nstate) : nres nstate :=
  match r_fn r with
  | None => NOk st
  | Some l =>
      st1 <-- unbind_items (r_id r) l st ;;;
      (fix go (l : list item) (st : nstate) : nres nstate :=
         match l with
         | [] => NOk st
         | IVal (Some r') :: tl => st2 <-- drop_rep r' st ;;; go tl st2
         | _ :: tl => go tl st
         end) l st1
  end.

(* destroy() of a rep that stays where it is (called from notify_slot_rep_invalidated) *)
Definition destroy_in_place (id : N) (st : nstate) : nres nstate :=
  match find_rep id st with
  | None => NErr NErrUAF
  | Some r =>
      let st1 := map_rep id (fun x => set_fn None (set_valid false x)) st in
      drop_rep r st1
  end.

(* ---- slot_rep::notify_slot_rep_invalidated / slot_rep::disconnect ---- *)

Fixpoint invalidate (fuel : nat) (id : N) (st : nstate) : nres nstate :=
  match fuel with
  | O => NErr NErrLoop
  | S f =>
      match find_rep id st with
      | None => NErr NErrUAF                                   (* a callback into a deleted slot_rep *)
      | Some r =>
          let st1 := map_rep id (fun x => set_parent None (set_valid false x)) st in
          st2 <-- match r_parent r with
                  | None => NOk st1
                  | Some p => invalidate f p st1               (* cleanup_(parent_) *)
                  end ;;;
          match find_rep id st2 with
          | None => NOk st2                                    (* the parent's destroy() deleted it *)
          | Some _ => destroy_in_place id st2
          end
      end
  end.

(* slot_base::disconnect() -> slot_rep::disconnect() *)
Definition disconnect_rep (fuel : nat) (id : N) (st : nstate) : nres nstate :=
  match find_rep id st with
  | None => NErr NErrUAF
  | Some r =>
      let st1 := map_rep id (fun x => set_parent None (set_valid false x)) st in
      match r_parent r with
      | None => NOk st1
      | Some p => invalidate fuel p st1
      end
  end.

Fixpoint count_reps (r : rep) : nat :=
  S (match r_fn r with
     | None => O
     | Some l => (fix go (l : list item) : nat :=
                    match l with
                    | [] => O
                    | IVal (Some r') :: tl => (count_reps r' + go tl)%nat
                    | _ :: tl => go tl
                    end) l
     end).
Definition nfuel (st : nstate) : nat :=
  S (fold_right (fun kv n => match kv with (_, Some (Some r)) => count_reps r + n | _ => n end)%nat O (vars st)).

(* ---- clone: typed_slot_rep(const typed_slot_rep&) ----
   the functor is copied first (a slot held by value is copy-constructed: cloned when valid, a
   default slot otherwise), then the new rep binds to everything its own functor refers to *)
Fixpoint clone_rep (r : rep) (st : nstate) : nres (rep * nstate) :=
  let me := next_id st in
  let st0 := with_next (me + 1) st in
  match r_fn r with
  | None => NErr NErrUAF                                       (* clone() of a rep without functor *)
  | Some l =>
      res <-- (fix go (l : list item) (st : nstate) : nres (list item * nstate) :=
                 match l with
                 | [] => NOk ([], st)
                 | IVal (Some r') :: tl =>
                     hd <-- (if r_valid r' then c <-- clone_rep r' st ;;; NOk (IVal (Some (fst c)), snd c)
                             else NOk (IVal None, st)) ;;;
                     rest <-- go tl (snd hd) ;;;
                     NOk (fst hd :: fst rest, snd rest)
                 | x :: tl =>
                     rest <-- go tl st ;;; NOk (x :: fst rest, snd rest)
                 end) l st0 ;;;
      (* bind: trackables register `me`; slots held by value get `me` as parent (they are inside the
         new rep, so their parent is set on the value being built); slots referred to by std::ref are
         adopted when they have no parent *)
      let items := map (fun it => match it with
                                  | IVal (Some r') => match r_parent r' with
                                                      | None => IVal (Some (set_parent (Some me) r'))
                                                      | Some _ => it
                                                      end
                                  | _ => it
                                  end) (fst res) in
      st2 <-- (fix bd (l : list item) (st : nstate) : nres nstate :=
                 match l with
                 | [] => NOk st
                 | IVal _ :: tl => bd tl st
                 | it :: tl => st1 <-- bind_item me it st ;;; bd tl st1
                 end) items (snd res) ;;;
      NOk (mkRep me true (Some items) None, st2)
  end.

(* ---- operations ---- *)

Inductive ispec := NPTrack (t : N) | NPRef (s : N) | NPVal (s : N).

Inductive nop :=
| NTNew (t : N) | NTDel (t : N)
| NSNew (s : N) (items : list ispec)          (* slot<void()> s = functor referring to / holding these *)
| NSEmpty (s : N)
| NSCopy (d s : N) | NSMove (d s : N)
| NSAssign (d s : N) | NSMoveAssign (d s : N)
| NSDisc (s : N) | NSDel (s : N) | NSQuery (s : N).

Definition nskip (st : nstate) : nres nstate := NOk (emit NSkip st).

Definition fresh_var (s : N) (st : nstate) : bool :=
  match aget s (vars st) with None => true | Some _ => false end.
Definition fresh_tr (t : N) (st : nstate) : bool :=
  match aget t (tracks st) with None => true | Some _ => false end.

Definition set_var (s : N) (v : option (option rep)) (st : nstate) : nstate :=
  with_vars (aset s v (vars st)) st.

(* slot_base(const slot_base&): the value of the new rep_ *)
Definition copy_of (src : option rep) (st : nstate) : nres (option rep * nstate) :=
  match src with
  | None => NOk (None, st)
  | Some r => if r_valid r then c <-- clone_rep r st ;;; NOk (Some (fst c), snd c) else NOk (None, st)
  end.

(* the items of a new functor: a slot held by value is a copy of the named variable *)
Fixpoint build_items (l : list ispec) (st : nstate) : nres (list item * nstate) :=
  match l with
  | [] => NOk ([], st)
  | NPTrack t :: tl =>
      match live_tr t st with
      | None => NErr NErrUnsupported
      | Some _ => rest <-- build_items tl st ;;; NOk (ITrack t :: fst rest, snd rest)
      end
  | NPRef s :: tl =>
      match live_var s st with
      | None => NErr NErrUnsupported
      | Some _ => rest <-- build_items tl st ;;; NOk (IRef s :: fst rest, snd rest)
      end
  | NPVal s :: tl =>
      match live_var s st with
      | None => NErr NErrUnsupported
      | Some src =>
          c <-- copy_of src st ;;;
          rest <-- build_items tl (snd c) ;;;
          NOk (IVal (fst c) :: fst rest, snd rest)
      end
  end.

Definition ispec_ok (st : nstate) (p : ispec) : bool :=
  match p with
  | NPTrack t => match live_tr t st with Some _ => true | None => false end
  | NPRef s | NPVal s => match live_var s st with Some _ => true | None => false end
  end.

(* notify every armed entry in list order; entries are re-read at each step because a callback may
   disarm later ones *)
Fixpoint notify_loop (n : nat) (i : nat) (t : N) (st : nstate) : nres nstate :=
  match n with
  | O => NOk st
  | S n' =>
      match live_tr t st with
      | None => NErr NErrUAF
      | Some x =>
          match nth_error (t_regs x) i with
          | None => NOk st
          | Some (d, armed) =>
              st1 <-- (if armed then invalidate (nfuel st) d st else NOk st) ;;;
              notify_loop n' (S i) t st1
          end
      end
  end.

Definition nstep (o : nop) (st : nstate) : nres nstate :=
  match o with
  | NTNew t =>
      if fresh_tr t st then NOk (with_tracks (aset t (Some (mkTr [] false)) (tracks st)) st) else nskip st
  | NTDel t =>
      match live_tr t st with
      | None => nskip st
      | Some x =>
          let st1 := with_tracks (aset t (Some (mkTr (t_regs x) true)) (tracks st)) st in
          st2 <-- notify_loop (length (t_regs x)) O t st1 ;;;
          NOk (with_tracks (aset t None (tracks st2)) st2)
      end
  | NSEmpty s =>
      if fresh_var s st then NOk (set_var s (Some None) st) else nskip st
  | NSNew s items =>
      if fresh_var s st && forallb (ispec_ok st) items then
        (* the caller builds a functor object (its by-value slots are copies of the named variables),
           typed_slot_rep's constructor copies that functor and binds, then the caller's functor dies *)
        b <-- build_items items st ;;;
        let tmp := mkRep 0 true (Some (fst b)) None in          (* id 0 is never registered anywhere *)
        c <-- clone_rep tmp (snd b) ;;;
        st2 <-- drop_rep tmp (snd c) ;;;
        NOk (set_var s (Some (Some (fst c))) st2)
      else nskip st
  | NSCopy d s =>
      match live_var s st with
      | Some src => if fresh_var d st
                    then c <-- copy_of src st ;;; NOk (set_var d (Some (fst c)) (snd c))
                    else nskip st
      | None => nskip st
      end
  | NSMove d s =>
      match live_var s st with
      | Some src =>
          if fresh_var d st && negb (N.eqb d s) then
            match src with
            | None => NOk (set_var d (Some None) st)
            | Some r =>
                match r_parent r with
                | Some _ => c <-- copy_of src st ;;; NOk (set_var d (Some (fst c)) (snd c))     (* copy, don't move *)
                | None => NOk (set_var d (Some (Some r)) (set_var s (Some None) st))
                end
            end
          else nskip st
      | None => nskip st
      end
  | NSAssign d s | NSMoveAssign d s =>
      match live_var d st, live_var s st with
      | Some dst, Some src =>
          let same := match dst, src with
                      | None, None => true
                      | Some a, Some b => N.eqb (r_id a) (r_id b)
                      | _, _ => false
                      end in
          if same then NOk st
          else
            let src_empty := match src with None => true | Some r => negb (r_valid r) end in
            if src_empty then
              (* delete_rep_with_check *)
              match dst with
              | None => NOk st
              | Some r =>
                  st1 <-- disconnect_rep (nfuel st) (r_id r) st ;;;
                  match live_var d st1 with
                  | Some (Some r1) =>
                      if N.eqb (r_id r1) (r_id r)
                      then drop_rep r1 (set_var d (Some None) st1)
                      else NErr NErrUAF
                  | _ => NErr NErrUAF
                  end
              end
            else
              match src with
              | None => NOk st
              | Some rs =>
                  let really_move := match o with NSMoveAssign _ _ => match r_parent rs with None => true | Some _ => false end | _ => false end in
                  nr <-- (if really_move then NOk (rs, set_var s (Some None) st) else clone_rep rs st) ;;;
                  let (newrep, st1) := nr in
                  match live_var d st1 with
                  | Some (Some old) =>
                      (* silently exchange the slot_rep: the new one inherits the parent; the old one is
                         destroyed without disconnect() *)
                      let newrep' := set_parent (r_parent old) newrep in
                      drop_rep old (set_var d (Some (Some newrep')) st1)
                  | Some None => NOk (set_var d (Some (Some newrep)) st1)
                  | None => NErr NErrUAF
                  end
              end
      | _, _ => nskip st
      end
  | NSDisc s =>
      match live_var s st with
      | Some (Some r) => disconnect_rep (nfuel st) (r_id r) st
      | Some None => NOk st
      | None => nskip st
      end
  | NSDel s =>
      match live_var s st with
      | Some (Some r) => drop_rep r (set_var s None st)
      | Some None => NOk (set_var s None st)
      | None => nskip st
      end
  | NSQuery s =>
      match live_var s st with
      | Some None => NOk (emit (NQ false true) st)
      | Some (Some r) => NOk (emit (NQ true (negb (r_valid r))) st)
      | None => nskip st
      end
  end.

Fixpoint nrun (ops : list nop) (st : nstate) : nres nstate :=
  match ops with
  | [] => NOk st
  | o :: tl => st1 <-- nstep o st ;;; nrun tl st1
  end.

(* ---- observation at an operation boundary (the probe) ---- *)
Inductive vobs := VDead | VNull | VInvalid (has_parent : bool) | VValid (has_parent : bool).
Definition obs_var (v : option (option rep)) : vobs :=
  match v with
  | None => VDead
  | Some None => VNull
  | Some (Some r) =>
      let hp := match r_parent r with Some _ => true | None => false end in
      if r_valid r then VValid hp else VInvalid hp
  end.
Definition observe (st : nstate) : list (N * vobs) * list (N * option N) :=
  (map (fun kv => (fst kv, obs_var (snd kv))) (vars st),
   map (fun kv => (fst kv, option_map (fun x => N.of_nat (length (t_regs x))) (snd kv))) (tracks st)).
