(* SigValues.v -- proofs of the statements of SigSpec.v sections C12, C13, C14, C15, C18.
   Two statements are false for the model as written (S_deref_at_most_once, S_other_handles_keep_list):
   their negations are proved here from concrete states, together with the versions that hold
   (deref_at_most_once_partial; other_handles_keep_list_partial, other_handles_keep_impl). *)
From Coq Require Import List NArith Bool Lia Arith Permutation. Import ListNotations. Require Import Util SigCore SigLemmas SigInv SigSafe SigSpec. Local Open Scope N_scope.

(* ------------------------------------------------------------------ *)
(* C12 *)

Lemma slot_block_only_target : S_slot_block_only_target.
Proof.
  intros prog rec s b st sb Hl. cbn [step]. rewrite Hl. reflexivity.
Qed.

Lemma conn_block_only_target : S_conn_block_only_target.
Proof.
  intros prog rec c b st i n sb Hp Hg. cbn [step]. rewrite Hp.
  unfold conn_block, conn_target. rewrite Hg. reflexivity.
Qed.

Lemma blocked_call_default : S_blocked_call_default.
Proof.
  intros prog rec s arg catch st sb Hl Hb. cbn [step]. rewrite Hl, Hb.
  cbn [negb]. rewrite andb_false_r. reflexivity.
Qed.

Lemma signal_block_sets_current : S_signal_block_sets_current.
Proof.
  intros prog rec g b st st' go i im Hl Hi Him Hs. cbn [step] in Hs. rewrite Hl, Hi in Hs.
  unfold upd_impl in Hs. rewrite Him in Hs. cbn [liftu lift] in Hs. inversion Hs as [E]. clear Hs E.
  eexists. split; [rewrite aget_set_impl, N.eqb_refl; reflexivity|].
  cbn [i_nodes with_nodes]. rewrite !map_map. cbn [n_id n_sb sb_rep sb_blocked].
  split; [reflexivity|]. split; [reflexivity|].
  rewrite forallb_forall. intros x Hx. apply in_map_iff in Hx. destruct Hx as (y & <- & _).
  cbn [n_sb sb_blocked]. apply eqb_reflx.
Qed.

(* ------------------------------------------------------------------ *)
(* C13 *)

Lemma deref_skips_blocked : S_deref_skips_blocked.
Proof.
  intros rec i arg c st sb Hg Hc. unfold cur_deref. rewrite Hg.
  unfold callable_sb in Hc. rewrite Hc. reflexivity.
Qed.

(* S_deref_at_most_once is false as stated: the invoked user code may remove the node the cursor
   is at (for an arbitrary [rec], even the whole impl), and then the second dereference fails with
   ErrDangling instead of returning the buffered value.  It holds whenever the position is still in
   the list after the first dereference -- which is what an emission frame guarantees
   (SigSafe.Guar_block / node_at_block: erasure is deferred while exec_count_ > 0). *)
Lemma deref_at_most_once_partial :
  forall rec i arg c st st1 c1,
    cur_deref rec i arg c st = Done st1 c1 ->
    get_sb (LNode i (c_pos c)) st1 <> None ->
    (c_invoked c = true -> st1 = st /\ c1 = c) /\
    cur_deref rec i arg c1 st1 = Done st1 c1 \/ c_invoked c1 = false.
Proof.
  intros rec i arg c st st1 c1 H Hpos. unfold cur_deref in H.
  destruct (get_sb (LNode i (c_pos c)) st) as [sb|] eqn:Hg; [|discriminate].
  destruct (negb (sb_empty sb) && negb (sb_blocked sb) && negb (c_invoked c)) eqn:Hc.
  - destruct (invoke_at rec (LNode i (c_pos c)) arg st) as [s v|s|e]; try discriminate.
    inversion H; subst s c1. clear H. left. split.
    + intro X. rewrite X in Hc. cbn [negb] in Hc. rewrite andb_false_r in Hc. discriminate.
    + unfold cur_deref. cbn [c_pos c_invoked].
      destruct (get_sb (LNode i (c_pos c)) st1) as [sb1|]; [|contradiction].
      cbn [negb]. rewrite andb_false_r. reflexivity.
  - inversion H; subst st1 c1. clear H. left. split; [auto|].
    unfold cur_deref. rewrite Hg, Hc. reflexivity.
Qed.

Lemma move_rearms : S_move_rearms.
Proof.
  intros i c st c' [H|H].
  - unfold cur_inc in H. destruct (node_next i (c_pos c) st) as [[n|]|e]; cbn [rbind] in H; try discriminate.
    inversion H. split; reflexivity.
  - unfold cur_dec in H. destruct (node_prev i (c_pos c) st) as [[n|]|e]; cbn [rbind] in H; try discriminate.
    inversion H. split; reflexivity.
Qed.

Lemma undereferenced_never_invoked : S_undereferenced_never_invoked.
Proof.
  intros rec n i arg fc lc ops. induction ops as [|o ops IH]; intros cs a st st' v Hnd H.
  - cbn [acc_run] in H. inversion H. split; reflexivity.
  - unfold no_deref in Hnd. cbn [forallb] in Hnd. apply andb_prop in Hnd. destruct Hnd as [Ho Hnd].
    destruct o as [k j|k|k|k|k|k|k z]; try discriminate; cbn [acc_run] in H.
    + destruct (writable k); eapply IH; eauto.
    + match type of H with (if ?c then _ else _) = _ => destruct c end; [|eapply IH; eauto].
      match type of H with match ?x with _ => _ end = _ => destruct x end; [|discriminate]. eapply IH; eauto.
    + match type of H with (if ?c then _ else _) = _ => destruct c end; [|eapply IH; eauto].
      match type of H with match ?x with _ => _ end = _ => destruct x end; [|discriminate]. eapply IH; eauto.
Qed.

(* the negation of S_deref_at_most_once, by a concrete state *)
Lemma deref_at_most_once_false : ~ S_deref_at_most_once_any_rec.
Proof.
  intro H.
  pose (nd := mkNode (Real 0) (mkSB (Some (mkRep 0 true true (Some (mkFun 0 [] None)) [])) false)).
  pose (st := with_impls [(0, mkImpl [nd] 0 false 0 false)] st0).
  pose (rec := fun (_ : callee) (_ : state) => Done st0 0).
  specialize (H rec 0 0 (mkCur (Real 0) false 0) st (emit_ev (ELeave 0 0) st0) (mkCur (Real 0) true 0) eq_refl).
  destruct H as [[_ H]|H]; discriminate.
Qed.

(* ------------------------------------------------------------------ *)
(* C14 *)

Lemma fresh_sig_none g st : fresh_sig g st = true -> aget g (sigs st) = None.
Proof. unfold fresh_sig. destruct (aget g (sigs st)); [discriminate|reflexivity]. Qed.

Lemma fresh_slot_none s st : fresh_slot s st = true -> aget s (slots st) = None.
Proof. unfold fresh_slot. destruct (aget s (slots st)); [discriminate|reflexivity]. Qed.

Lemma live_sig_tracks v st g : live_sig g (with_tracks v st) = live_sig g st.
Proof. reflexivity. Qed.

Lemma sigs_if_tracks (b : bool) v st : sigs (if b then with_tracks v st else st) = sigs st.
Proof. destruct b; reflexivity. Qed.

Lemma copy_shares : S_copy_shares.
Proof.
  intros prog rec gn go st st' src Hl Hf Hs. cbn [step] in Hs. rewrite Hl, Hf in Hs.
  assert (Hne : gn <> go).
  { intro X. subst gn. apply fresh_sig_none in Hf. unfold live_sig in Hl. rewrite Hf in Hl. discriminate. }
  assert (Hne' : go <> gn) by congruence.
  unfold ensure_impl in Hs. destruct (g_impl src) as [j|] eqn:Hj.
  - exists j, (mkSig (g_kind src) (Some j)), src.
    assert (A : live_sig gn st' = Some (mkSig (g_kind src) (Some j)) /\ live_sig go st' = Some src).
    { inversion Hs as [E]. clear Hs E. unfold live_sig in *. rewrite sigs_if_tracks. cbn [sigs with_sigs].
      rewrite aget_aset_same, aget_aset_other by exact Hne'. auto. }
    destruct A as [A1 A2]. repeat split; auto. intros j' X. congruence.
  - set (i := next_iid st) in *.
    exists i, (mkSig (g_kind src) (Some i)), (mkSig (g_kind src) (Some i)).
    assert (A : live_sig gn st' = Some (mkSig (g_kind src) (Some i)) /\ live_sig go st' = Some (mkSig (g_kind src) (Some i))).
    { inversion Hs as [E]. clear Hs E. unfold live_sig in *. rewrite sigs_if_tracks. cbn [sigs with_sigs set_impl with_impls with_next_iid].
      rewrite aget_aset_same, aget_aset_other by exact Hne'. rewrite aget_aset_same. auto. }
    destruct A as [A1 A2]. repeat split; auto. intros j' X. discriminate.
Qed.

Lemma trivial_rec_ok : forall (c : callee) (st : state), WF st -> out_ok st ((fun (_ : callee) (s : state) => Done s 0) c st).
Proof. intros c st H. cbn [out_ok]. apply Guar_refl. exact H. Qed.

Lemma assign_shares : S_assign_shares.
Proof.
  intros prog rec gd gs st st' dst src H Hld Hls Hk Hs. cbn [step] in Hs. rewrite Hld, Hls, Hk in Hs.
  destruct (match g_impl dst with Some a => match g_impl src with Some b => N.eqb a b | None => false end | None => false end) eqn:Hsame.
  - inversion Hs; subst st'. destruct (g_impl dst) as [a|] eqn:Ha; [|discriminate].
    destruct (g_impl src) as [b|] eqn:Hb; [|discriminate]. apply N.eqb_eq in Hsame. subst b.
    exists a, dst, src. auto.
  - destruct (ensure_impl_G gs src st H Hls) as (i & st1 & E & G & P & L & Ho & _). rewrite E in Hs.
    assert (Hld1 : exists dst1, live_sig gd st1 = Some dst1 /\ g_kind dst1 = g_kind dst).
    { destruct (N.eq_dec gd gs) as [->|Hne].
      - rewrite Hld in Hls. inversion Hls; subst src. eexists. split; [exact L|reflexivity].
      - exists dst. split; [|reflexivity]. unfold live_sig. rewrite (Ho gd Hne). exact Hld. }
    destruct Hld1 as (dst1 & Hld1 & Hk1).
    pose proof (upd_sig_G gd dst1 (Some i) st1 (proj1 G) Hld1) as G2. rewrite Hk1 in G2.
    set (st2 := with_sigs (aset gd (Some (mkSig (g_kind dst) (Some i))) (sigs st1)) st1) in *.
    assert (G2' : Guar st1 st2).
    { apply G2. intros j X. inversion X; subst j. exact P. }
    assert (A : live_sig gd st2 = Some (mkSig (g_kind dst) (Some i))).
    { unfold st2. rewrite live_sig_aset, N.eqb_refl. reflexivity. }
    assert (B : exists b, live_sig gs st2 = Some b /\ g_impl b = Some i).
    { assert (X : live_sig gs st2 = if N.eqb gs gd then Some (mkSig (g_kind dst) (Some i)) else live_sig gs st1)
        by (unfold st2; apply live_sig_aset).
      destruct (N.eqb gs gd); eexists; (split; [rewrite X; try reflexivity; exact L|reflexivity]). }
    destruct B as (b & B1 & B2).
    assert (Es : sigs st' = sigs st2).
    { destruct (g_impl dst) as [old|].
      - destruct (release_check_G old st2 (proj1 G2')) as (st3 & E3 & _ & S3 & _). rewrite E3 in Hs.
        cbn [liftu lift] in Hs. inversion Hs; subst st3. exact S3.
      - inversion Hs. reflexivity. }
    exists i, (mkSig (g_kind dst) (Some i)), b. unfold live_sig in *. rewrite Es. auto.
Qed.

Lemma move_transfers : S_move_transfers.
Proof.
  intros prog rec gn go st st' src H Hl Hf Hacc Hs. cbn [step] in Hs. rewrite Hl, Hf, Hacc in Hs. cbn [andb] in Hs.
  pose proof (fresh_sig_none _ _ Hf) as Hfn.
  assert (Hne : gn <> go).
  { intro X. subst gn. unfold live_sig in Hl. rewrite Hfn in Hl. discriminate. }
  set (sta := with_sigs (aset go (Some (mkSig (g_kind src) None)) (sigs st)) st).
  assert (Ga : Guar st sta) by (apply (upd_sig_G go src None st H Hl); intros i X; discriminate).
  assert (Gb : Guar sta (add_sig gn (g_kind src) (g_impl src) sta)).
  { apply (add_sig_G gn (g_kind src) (g_impl src) sta (proj1 Ga)).
    - cbn [sta sigs with_sigs]. rewrite aget_aset_other by exact Hne. exact Hfn.
    - intros i X. cbn [sta impls with_sigs]. eapply live_sig_impl_present; eauto. }
  set (st1 := with_sigs (aset gn (Some (mkSig (g_kind src) (g_impl src)))
                           (aset go (Some (mkSig (g_kind src) None)) (sigs st))) st) in *.
  assert (A : live_sig gn st1 = Some (mkSig (g_kind src) (g_impl src)) /\ live_sig go st1 = Some (mkSig (g_kind src) None)).
  { unfold st1, live_sig. cbn [sigs with_sigs]. rewrite aget_aset_same.
    rewrite aget_aset_other by congruence. rewrite aget_aset_same. auto. }
  assert (Es : sigs st' = sigs st1).
  { unfold add_sig in Gb. cbn [sta sigs with_sigs] in Gb. fold st1 in Gb.
    destruct (gk_track (g_kind src)).
    - match type of Hs with liftu (track_notify ?t ?s) = _ =>
        destruct (track_notify_G t s (proj1 Gb)) as (st3 & E3 & _ & C3 & _); rewrite E3 in Hs end.
      cbn [liftu lift] in Hs. inversion Hs; subst st3. rewrite (ca_sigs _ _ C3). reflexivity.
    - inversion Hs. reflexivity. }
  destruct A as [A1 A2]. exists (mkSig (g_kind src) (g_impl src)), (mkSig (g_kind src) None).
  unfold live_sig in *. rewrite Es. auto.
Qed.

(* ------------------------------------------------------------------ *)
(* C15 *)

Lemma live_slot_new_slot_var s s' rk sb st :
  live_slot s' (new_slot_var s rk sb st) = if N.eqb s' s then Some sb else live_slot s' st.
Proof.
  unfold live_slot, new_slot_var, get_sb. cbn [slots with_skind with_slots]. rewrite aget_aset.
  destruct (N.eqb s' s); reflexivity.
Qed.

Lemma live_slot_slots_eq s st st' : slots st' = slots st -> live_slot s st' = live_slot s st.
Proof. intro E. unfold live_slot, get_sb. rewrite E. reflexivity. Qed.

Lemma default_slot_empty : S_default_slot_empty.
Proof.
  intros prog rec s rk arg catch st Hf. eexists. split; [cbn [step]; rewrite Hf; reflexivity|].
  assert (L : live_slot s (new_slot_var s rk sb_none st) = Some sb_none)
    by (rewrite live_slot_new_slot_var, N.eqb_refl; reflexivity).
  split; [exact L|]. cbn [step]. rewrite L. reflexivity.
Qed.

Lemma live_slot_not_fresh s st sb sn : live_slot s st = Some sb -> fresh_slot sn st = true -> s <> sn.
Proof.
  intros Hl Hf X. subst sn. apply fresh_slot_none in Hf. unfold live_slot, get_sb in Hl. rewrite Hf in Hl. discriminate.
Qed.

Lemma copy_independent : S_copy_independent.
Proof.
  intros prog rec sn so st st' src H Hl Hf Hs. cbn [step] in Hs. rewrite Hl, Hf in Hs.
  pose proof (live_slot_not_fresh _ _ _ _ Hl Hf) as Hne.
  destruct (sb_copy src st) as [[sb st1]|e] eqn:Hc; [|discriminate]. inversion Hs as [E]. clear Hs E.
  assert (Esl : slots st1 = slots st).
  { unfold sb_copy in Hc. destruct (sb_rep src) as [r|]; [|inversion Hc; reflexivity].
    destruct (r_valid r); [|inversion Hc; reflexivity].
    destruct (rep_clone r st) as [[r' st2]|e] eqn:Hcl; cbn [rbind] in Hc; [|discriminate].
    inversion Hc; subst st2. eapply rep_clone_slots; eauto. }
  split.
  - rewrite live_slot_new_slot_var. destruct (N.eqb_spec so sn); [contradiction|].
    rewrite (live_slot_slots_eq _ _ _ Esl). exact Hl.
  - exists sb. split; [rewrite live_slot_new_slot_var, N.eqb_refl; reflexivity|].
    unfold sb_copy in Hc. unfold sb_empty, body_of. destruct (sb_rep src) as [r|] eqn:Hr.
    + destruct (r_valid r) eqn:Hv.
      * destruct (rep_clone r st) as [[r' st2]|e] eqn:Hcl; cbn [rbind] in Hc; [|discriminate].
        inversion Hc; subst sb st2. clear Hc. cbn [negb]. split; [discriminate|]. intros _.
        unfold rep_clone in Hcl.
        destruct (match r_fn r with Some f => bind_all (next_rid st) (f_refs f) (with_next_rid (next_rid st + 1) st)
                                  | None => Ok (with_next_rid (next_rid st + 1) st) end) as [st3|e]; cbn [rbind] in Hcl; [|discriminate].
        inversion Hcl; subst r'. cbn [sb_blocked sb_rep r_fn]. split; [reflexivity|]. split; [reflexivity|].
        eexists. split; [reflexivity|]. cbn [r_valid r_id]. auto.
      * inversion Hc; subst sb. cbn [negb]. split; [reflexivity|discriminate].
    + inversion Hc; subst sb. split; [reflexivity|discriminate].
Qed.

Lemma move_empties_source : S_move_empties_source.
Proof.
  intros prog rec sn so st st' src H Hl Hf Hrep Hne Hs. cbn [step] in Hs. rewrite Hl, Hf in Hs.
  destruct (sb_rep src) as [r|] eqn:Hr; [|contradiction]. clear Hrep.
  assert (Hdet : r_attached r = false).
  { pose proof (get_sb_in_reps (LVar so) st src r Hl Hr) as Hin. cbn beta iota in Hin.
    exact (proj1 (wf_var_detached st r H Hin)). }
  unfold sb_move in Hs. rewrite Hr, Hdet in Hs. inversion Hs as [E]. clear Hs E.
  split.
  - rewrite live_slot_new_slot_var. destruct (N.eqb_spec so sn); [congruence|].
    unfold live_slot, set_sb, get_sb. cbn [slots with_slots]. rewrite aget_aset_same. reflexivity.
  - eexists. split; [rewrite live_slot_new_slot_var, N.eqb_refl; reflexivity|].
    cbn [sb_blocked sb_rep option_map r_with_watch r_id]. split; [reflexivity|]. split; [reflexivity|].
    unfold body_of. rewrite Hr. reflexivity.
Qed.

Lemma disconnect_empties : S_disconnect_empties.
Proof.
  intros prog rec s st st' sb H Hl Hs. cbn [step] in Hs. rewrite Hl in Hs.
  unfold rep_disconnect, get_rep in Hs. unfold live_slot in Hl. rewrite Hl in Hs.
  destruct (sb_rep sb) as [r|] eqn:Hr.
  - destruct (r_attached r); [discriminate|]. unfold set_rep in Hs. rewrite Hl in Hs.
    cbn [liftu lift] in Hs. inversion Hs as [E]. clear Hs E.
    eexists. split; [unfold live_slot, get_sb; cbn [slots with_slots]; rewrite aget_aset_same; reflexivity|]. reflexivity.
  - cbn [liftu lift] in Hs. inversion Hs; subst st'. exists sb. split; [exact Hl|].
    unfold sb_empty. rewrite Hr. reflexivity.
Qed.

(* ------------------------------------------------------------------ *)
(* C18 *)

Lemma forwarder_emits : S_forwarder_emits.
Proof.
  intros prog fuel f g arg st Hf. unfold invoke_functor. rewrite Hf. reflexivity.
Qed.

Lemma forwarder_tracks_its_signal : S_forwarder_tracks_its_signal.
Proof.
  intros prog rec s g st st' go Hl Hacc Hf Hs. cbn [step] in Hs. rewrite Hl, Hf, Hacc in Hs. cbn [andb] in Hs.
  match type of Hs with match ?x with _ => _ end = _ => destruct x as [st2|e]; [|discriminate] end.
  inversion Hs as [E]. clear Hs E.
  eexists. eexists. eexists. split; [rewrite live_slot_new_slot_var, N.eqb_refl; reflexivity|].
  cbn [sb_rep]. split; [reflexivity|]. cbn [r_fn]. split; [reflexivity|]. split; reflexivity.
Qed.

Lemma copy_is_distinct_trackable : S_copy_is_distinct_trackable.
Proof. intros gn go Hne E. apply tos_inj in E. contradiction. Qed.

Lemma live_track_tlive_none st st' t : tlive_same st st' -> live_track t st = None -> live_track t st' = None.
Proof.
  intros T H. destruct (live_track t st') eqn:E; [|reflexivity].
  exfalso. apply (proj1 (tlive_live st st' t T)); congruence.
Qed.

(* without the hypothesis that the signal object is not shared the statement is false
   (forwarder_dies_with_signal_false below): OGDel on a shared signal object is skipped, the object
   is destroyed later by the collection of orphans, so its forwarders stay valid *)
Lemma forwarder_dies_with_signal : S_forwarder_dies_with_signal.
Proof.
  intros prog rec g st st' go H Hl Hk Hsh Hs r f Hin Hfn. cbn [step] in Hs. rewrite Hl, Hsh in Hs. cbn [negb] in Hs.
  destruct (sig_destroy_G g go st H Hl) as (st'' & E & G). rewrite E in Hs. cbn [liftu lift] in Hs.
  inversion Hs; subst st''. clear Hs.
  right. intro Hr. apply (wf_refs_live st' r f (trackable_of_sig g) (proj1 G) Hin Hfn Hr).
  (* the trackable base is gone *)
  pose proof (proj1 (wc_sig _ (wf_c _ (proj1 G))) g) as [A _].
  destruct (live_track (trackable_of_sig g) st') eqn:Et; [|reflexivity]. exfalso.
  destruct (proj1 A) as (go' & Hl' & _); [congruence|].
  (* ... because the signal object is *)
  unfold sig_destroy in E. rewrite Hk in E.
  destruct (track_notify (trackable_of_sig g) st) as [st1|e] eqn:E1; cbn [rbind] in E; [|discriminate].
  destruct (track_notify_G (trackable_of_sig g) st H) as (st1' & E1' & G1 & C1 & D1). rewrite E1 in E1'. inversion E1'; subst st1'.
  set (st2 := with_sigs _ _) in E.
  assert (Hl1 : live_sig g st1 = Some go) by (unfold live_sig; rewrite (ca_sigs _ _ C1); exact Hl).
  pose proof (del_sig_G g go st1 (proj1 G1) Hl1 (fun _ => D1)) as G2. rewrite Hk in G2.
  change (del_sig g true st1) with st2 in G2.
  assert (Es : sigs st' = sigs st2).
  { destruct (g_impl go) as [i|].
    - destruct (release_check_G i st2 (proj1 G2)) as (st3 & E3 & _ & S3 & _). rewrite E3 in E. inversion E; subst st3. exact S3.
    - inversion E. reflexivity. }
  unfold live_sig in Hl'. rewrite Es in Hl'. unfold st2 in Hl'. cbn [sigs with_sigs] in Hl'.
  rewrite aget_aset_same in Hl'. discriminate.
Qed.

(* the pass showing that connection pointers only ever change by being nulled in library code
   (cmono, lite and the _cm / _lite lemmas) is in SigSafe.v: the collection of orphans needs it *)

(* ------------------------------------------------------------------ *)
(* reference counts *)

Lemma refcount_del g go i st : live_sig g st = Some go -> g_impl go = Some i ->
  refcount i st = refcount i (with_sigs (aset g None (sigs st)) st) + 1.
Proof.
  intros Hl Hi. unfold live_sig in Hl.
  destruct (aget g (sigs st)) as [[go'|]|] eqn:Hg; try discriminate. inversion Hl; subst go'.
  destruct (aget_split _ _ _ Hg) as (l1 & l2 & E & Hn).
  unfold refcount. cbn [sigs impls with_sigs]. rewrite E, (aset_split _ _ _ _ _ Hn).
  unfold count_if. rewrite !filter_app. cbn [filter]. rewrite Hi, N.eqb_refl. rewrite !app_length. cbn [length]. lia.
Qed.

Lemma refcount_eq i st st' : sigs st' = sigs st ->
  match aget i (impls st') with Some im => i_holders im | None => 0 end =
  match aget i (impls st) with Some im => i_holders im | None => 0 end ->
  refcount i st' = refcount i st.
Proof. intros A B. unfold refcount. rewrite A, B. reflexivity. Qed.

(* ------------------------------------------------------------------ *)
(* the first two steps of sig_destroy: the trackable base, then the handle *)

Lemma sig_destroy_pre g go st : WF st -> live_sig g st = Some go ->
  exists sta,
    (if gk_track (g_kind go)
     then st1 <- track_notify (trackable_of_sig g) st ;;
          Ok (with_tracks (aset (trackable_of_sig g) None (tracks st1)) st1)
     else Ok st) = Ok sta /\
    WF (with_sigs (aset g None (sigs sta)) sta) /\ sigs sta = sigs st /\
    (forall j, match aget j (impls st), aget j (impls sta) with
               | Some im, Some im' => impl_same im im'
               | None, None => True
               | _, _ => False
               end) /\
    cmono st sta /\
    (gk_track (g_kind go) = false -> sta = st).
Proof.
  intros H Hl. destruct (gk_track (g_kind go)) eqn:Hk.
  - destruct (track_notify_G (trackable_of_sig g) st H) as (st1 & E & G & C & D). rewrite E. cbn [rbind].
    eexists. split; [reflexivity|].
    assert (Hla : live_sig g st1 = Some go) by (unfold live_sig; rewrite (ca_sigs _ _ C); exact Hl).
    pose proof (del_sig_G g go st1 (proj1 G) Hla (fun _ => D)) as X. rewrite Hk in X.
    split; [exact (proj1 X)|]. split; [exact (ca_sigs _ _ C)|]. split; [exact (ca_impls _ _ C)|]. split; [|discriminate].
    eapply cmono_trans; [eapply track_notify_cm; eauto|apply cmono_eq; reflexivity].
  - eexists. split; [reflexivity|].
    pose proof (del_sig_G g go st H Hl) as X. rewrite Hk in X.
    split; [apply X; discriminate|]. split; [reflexivity|]. split; [|split; [apply cmono_refl|reflexivity]].
    intro j. destruct (aget j (impls st)); [apply impl_same_refl|exact I].
Qed.

(* ------------------------------------------------------------------ *)
(* C14: teardown of the shared list *)

Lemma conn_ptr_some w st i n : conn_ptr w st = Some (i, n) -> get_connptr w st = Some (Some (i, n)).
Proof. unfold conn_ptr. destruct (get_connptr w st) as [p|]; [intro E; rewrite E; reflexivity|discriminate]. Qed.

(* common analysis of OGDel at a quiescent point *)
Lemma sig_del_top prog rec g st st' go i : WF_top st -> live_sig g st = Some go -> g_impl go = Some i ->
  is_shared (sig_key g) st = false ->
  step prog rec (OGDel g) st = Done st' tt ->
  exists sta im im1,
    aget i (impls st) = Some im /\ aget i (impls sta) = Some im1 /\ impl_same im im1 /\
    i_holders im1 = 0 /\ i_dying im1 = false /\
    WF (with_sigs (aset g None (sigs sta)) sta) /\ WF st' /\
    (gk_track (g_kind go) = false -> sta = st) /\
    cmono st (with_sigs (aset g None (sigs sta)) sta) /\
    refcount i st = refcount i (with_sigs (aset g None (sigs sta)) sta) + 1 /\
    release_check i (with_sigs (aset g None (sigs sta)) sta) = Ok st'.
Proof.
  intros [H Hq] Hl Hi Hsh Hs. cbn [step] in Hs. rewrite Hl, Hsh in Hs. cbn [negb] in Hs.
  destruct (sig_destroy_G g go st H Hl) as (st'' & E & G). rewrite E in Hs. cbn [liftu lift] in Hs.
  inversion Hs; subst st''. clear Hs.
  unfold sig_destroy in E.
  destruct (sig_destroy_pre g go st H Hl) as (sta & Ea & W2 & Es & Him & Cm & Hnt). rewrite Ea in E. cbn [rbind] in E.
  rewrite Hi in E.
  pose proof (live_sig_impl_present st g go i H Hl Hi) as P.
  destruct (aget i (impls st)) as [im|] eqn:Hgi; [|contradiction]. clear P.
  destruct (Hq i im Hgi) as (Q1 & Q2 & Q3 & Q4 & _).
  pose proof (Him i) as X. rewrite Hgi in X.
  destruct (aget i (impls sta)) as [im1|] eqn:Hgi1; [|contradiction].
  exists sta, im, im1. split; [reflexivity|]. split; [exact Hgi1|]. split; [exact X|].
  destruct X as (X1 & X2 & X3 & _).
  split; [congruence|]. split; [congruence|]. split; [exact W2|]. split; [exact (proj1 G)|]. split; [exact Hnt|].
  split; [eapply cmono_trans; [exact Cm|apply cmono_eq; reflexivity]|]. split; [|exact E].
  assert (Hla : live_sig g sta = Some go) by (unfold live_sig; rewrite Es; exact Hl).
  rewrite <- (refcount_del g go i sta Hla Hi). symmetry. apply refcount_eq; [exact Es|].
  rewrite Hgi, Hgi1. congruence.
Qed.

(* without the hypothesis that the handle is not shared the statement is false
   (last_handle_teardown_false below): OGDel on a shared signal object is skipped *)
Lemma last_handle_teardown : S_last_handle_teardown.
Proof.
  intros prog rec g st st' go i Ht Hl Hi Hrc Hsh Hs.
  destruct (sig_del_top prog rec g st st' go i Ht Hl Hi Hsh Hs)
    as (sta & im & im1 & Hgi & Hgi1 & Hsame & Hh & Hd & W2 & W' & _ & Cm & Hr & E).
  set (st2 := with_sigs (aset g None (sigs sta)) sta) in *.
  assert (Hr0 : refcount i st2 = 0) by lia.
  assert (Hnone : aget i (impls st') = None).
  { unfold release_check in E. change (impls st2) with (impls sta) in E. rewrite Hgi1, Hr0, Hd in E. cbn [N.eqb negb andb] in E.
    destruct (destroy_impl_ok i im1 st2 (wf_c _ W2) Hgi1 (proj1 (refcount_zero i st2 Hr0))) as (st3 & E3 & _ & _ & N3).
    rewrite E3 in E. inversion E; subst st3. exact N3. }
  split; [exact Hnone|].
  intros w n Hw. apply conn_ptr_some in Hw.
  assert (Cm' : cmono st st') by (eapply cmono_trans; [exact Cm|eapply release_check_cm; eauto]).
  destruct (Cm' w) as [X|[X _]].
  - exfalso. rewrite Hw in X. destruct (wf_conn_target st' w i n W' X) as (sb & r & Hg & _).
    destruct (get_sb_node_inv _ _ _ _ Hg) as (imx & ndx & Hx & _). congruence.
  - unfold conn_ptr. rewrite X. reflexivity.
Qed.

(* the counterexample to S_last_handle_teardown and S_forwarder_dies_with_signal without the
   hypothesis [is_shared (sig_key g) st = false]: a trackable_signal
   with its own make_slot() forwarder connected, made a co-owned object; the program's OGDel is skipped *)
Definition shx_prog : program := mkProg [] [] [] [].
Definition shx_ops : list op :=
  [OGNew 0 (mkGK RV None true); OGMakeSlot 0 0; OGConnect 0 0 None false false; OGShare 0].
Definition shx_st : state := match run_top shx_prog 0 shx_ops st0 with Ok s => s | Err _ => st0 end.
Definition shx_st' : state :=
  match step shx_prog (run_callee_fuel shx_prog 0) (OGDel 0) shx_st with Done s _ => s | _ => st0 end.

Lemma last_handle_teardown_false :
  ~ (forall prog rec g st st' go i, WF_top st -> live_sig g st = Some go -> g_impl go = Some i ->
       refcount i st = 1 ->
       step prog rec (OGDel g) st = Done st' tt ->
       aget i (impls st') = None /\ (forall w n, conn_ptr w st = Some (i, n) -> conn_ptr w st' = None)).
Proof.
  intro H.
  assert (E : run_top shx_prog 0 shx_ops st0 = Ok shx_st) by (vm_compute; reflexivity).
  pose proof (run_top_safe shx_prog 0 shx_ops st0 WF_top_st0) as W. rewrite E in W.
  assert (A1 : live_sig 0 shx_st = Some (mkSig (mkGK RV None true) (Some 0))) by (vm_compute; reflexivity).
  assert (A3 : refcount 0 shx_st = 1) by (vm_compute; reflexivity).
  assert (A4 : step shx_prog (run_callee_fuel shx_prog 0) (OGDel 0) shx_st = Done shx_st' tt) by (vm_compute; reflexivity).
  destruct (H _ _ _ _ _ _ _ W A1 eq_refl A3 A4) as (A & _).
  vm_compute in A. discriminate.
Qed.

Lemma forwarder_dies_with_signal_false :
  ~ (forall prog rec g st st' go, WF st -> live_sig g st = Some go -> gk_track (g_kind go) = true ->
       step prog rec (OGDel g) st = Done st' tt ->
       forall r f, In r (all_reps st') -> r_fn r = Some f -> f_fwd f <> Some g \/ ~ In (trackable_of_sig g) (f_refs f)).
Proof.
  intro H.
  assert (E : run_top shx_prog 0 shx_ops st0 = Ok shx_st) by (vm_compute; reflexivity).
  pose proof (run_top_safe shx_prog 0 shx_ops st0 WF_top_st0) as W. rewrite E in W.
  assert (A1 : live_sig 0 shx_st = Some (mkSig (mkGK RV None true) (Some 0))) by (vm_compute; reflexivity).
  assert (A4 : step shx_prog (run_callee_fuel shx_prog 0) (OGDel 0) shx_st = Done shx_st' tt) by (vm_compute; reflexivity).
  set (r := mkRep 0 true false (Some (mkFun 0 [1000] (Some 0))) []).
  assert (A5 : In r (all_reps shx_st')) by (vm_compute; left; reflexivity).
  destruct (H _ _ _ _ _ _ (proj1 W) A1 eq_refl A4 r _ A5 eq_refl) as [X|X].
  - apply X. reflexivity.
  - apply X. vm_compute. left; reflexivity.
Qed.

(* S_other_handles_keep_list is false for a trackable_signal that holds (a copy of) its own
   make_slot() forwarder: destroying one of two handles fires the trackable base of that handle,
   which invalidates the forwarder, whose node is erased from the shared list on the spot (the list
   is not being emitted).  Concretely: *)
Definition cex_prog : program := mkProg [] [] [] [].
Definition cex_ops : list op :=
  [OGNew 0 (mkGK RV None true); OGMakeSlot 0 0; OGConnect 0 0 None false false; OGCopy 1 0].
Definition cex_st : state := match run_top cex_prog 0 cex_ops st0 with Ok s => s | Err _ => st0 end.
Definition cex_st' : state :=
  match step cex_prog (run_callee_fuel cex_prog 0) (OGDel 0) cex_st with Done s _ => s | _ => st0 end.

Lemma other_handles_keep_list_false : ~ S_other_handles_keep_list_tracked.
Proof.
  intro H.
  assert (E : run_top cex_prog 0 cex_ops st0 = Ok cex_st) by (vm_compute; reflexivity).
  pose proof (run_top_safe cex_prog 0 cex_ops st0 WF_top_st0) as W. rewrite E in W.
  assert (A1 : live_sig 0 cex_st = Some (mkSig (mkGK RV None true) (Some 0))) by (vm_compute; reflexivity).
  assert (A2 : aget 0 (impls cex_st) =
               Some (mkImpl [mkNode (Real 0) (mkSB (Some (mkRep 1 true true (Some (mkFun 0 [1000] (Some 0))) [])) false)]
                            0 false 0 false)) by (vm_compute; reflexivity).
  assert (A3 : 1 < refcount 0 cex_st) by (vm_compute; reflexivity).
  assert (A4 : step cex_prog (run_callee_fuel cex_prog 0) (OGDel 0) cex_st = Done cex_st' tt) by (vm_compute; reflexivity).
  destruct (H _ _ _ _ _ _ _ _ W A1 eq_refl A2 A3 A4) as (im' & A & B).
  vm_compute in A. inversion A; subst im'. vm_compute in B. discriminate.
Qed.

(* ... it holds for signals without a trackable base *)
Lemma other_handles_keep_list_partial :
  forall prog rec g st st' go i im, WF_top st -> live_sig g st = Some go -> g_impl go = Some i ->
    aget i (impls st) = Some im -> 1 < refcount i st ->
    gk_track (g_kind go) = false ->
    step prog rec (OGDel g) st = Done st' tt ->
    exists im', aget i (impls st') = Some im' /\ map n_id (i_nodes im') = map n_id (i_nodes im).
Proof.
  intros prog rec g st st' go i im Ht Hl Hi Hgi Hrc Hk Hs.
  destruct (is_shared (sig_key g) st) eqn:Hsh.
  { cbn [step] in Hs. rewrite Hl, Hsh in Hs. cbn [negb] in Hs. inversion Hs; subst st'.
    exists im. split; [exact Hgi|reflexivity]. }
  destruct (sig_del_top prog rec g st st' go i Ht Hl Hi Hsh Hs)
    as (sta & im0 & im1 & Hgi0 & Hgi1 & Hsame & Hh & Hd & W2 & W' & Hnt & Cm & Hr & E).
  specialize (Hnt Hk). subst sta.
  set (st2 := with_sigs (aset g None (sigs st)) st) in *.
  unfold release_check in E. change (impls st2) with (impls st) in E. rewrite Hgi in E.
  destruct (N.eqb_spec (refcount i st2) 0) as [X|_]; [lia|]. cbn [andb] in E. inversion E; subst st'.
  exists im. split; [exact Hgi|reflexivity].
Qed.

(* ... and in general the list object itself survives *)
Lemma other_handles_keep_impl :
  forall prog rec g st st' go i im, WF_top st -> live_sig g st = Some go -> g_impl go = Some i ->
    aget i (impls st) = Some im -> 1 < refcount i st ->
    step prog rec (OGDel g) st = Done st' tt ->
    aget i (impls st') <> None.
Proof.
  intros prog rec g st st' go i im Ht Hl Hi Hgi Hrc Hs.
  destruct (is_shared (sig_key g) st) eqn:Hsh.
  { cbn [step] in Hs. rewrite Hl, Hsh in Hs. cbn [negb] in Hs. inversion Hs; subst st'.
    change (impls (emit_ev ESkip st)) with (impls st). congruence. }
  destruct (sig_del_top prog rec g st st' go i Ht Hl Hi Hsh Hs)
    as (sta & im0 & im1 & Hgi0 & Hgi1 & Hsame & Hh & Hd & W2 & W' & Hnt & Cm & Hr & E).
  set (st2 := with_sigs (aset g None (sigs sta)) sta) in *.
  unfold release_check in E. change (impls st2) with (impls sta) in E. rewrite Hgi1 in E.
  destruct (N.eqb_spec (refcount i st2) 0) as [X|_]; [lia|]. cbn [andb] in E. inversion E; subst st'.
  change (impls st2) with (impls sta). congruence.
Qed.

(* ------------------------------------------------------------------ *)
(* C15: operations on one slot variable leave every other slot variable alone *)

Lemma get_sb_var_slots s st st' : slots st' = slots st -> get_sb (LVar s) st' = get_sb (LVar s) st.
Proof. intro E. unfold get_sb. rewrite E. reflexivity. Qed.

Lemma get_sb_var_set_other s a sb st : s <> a -> get_sb (LVar s) (set_sb (LVar a) sb st) = get_sb (LVar s) st.
Proof. intro Hne. apply get_set_sb_other. congruence. Qed.

Lemma rep_disconnect_var a st st' : rep_disconnect (LVar a) st = Ok st' ->
  forall s, s <> a -> get_sb (LVar s) st' = get_sb (LVar s) st.
Proof.
  unfold rep_disconnect. destruct (get_rep (LVar a) st) as [r|]; [|intro H; inversion H; reflexivity].
  destruct (r_attached r); [discriminate|]. intro H; inversion H. intros s Hne.
  unfold set_rep. destruct (get_sb (LVar a) st); [apply get_sb_var_set_other; exact Hne|reflexivity].
Qed.

Lemma drwc_var_frame d st st' : WF st -> delete_rep_with_check (LVar d) st = Ok st' ->
  forall s, s <> d -> get_sb (LVar s) st' = get_sb (LVar s) st.
Proof.
  intros H E s Hne. unfold delete_rep_with_check in E.
  destruct (get_sb (LVar d) st) as [sb|] eqn:Hsb; [|discriminate].
  destruct (sb_rep sb) as [r|] eqn:Hr; [|inversion E; reflexivity].
  destruct (rep_disconnect_ok (LVar d) st (wf_c _ H)) as (st1 & E1 & W1 & C1 & _). rewrite E1 in E. cbn [rbind] in E.
  assert (WF1 : WF st1) by exact (proj1 (Guar_of_Casc _ _ H W1 C1)).
  pose proof (rep_disconnect_var d st st1 E1 s Hne) as F1.
  destruct (find_rep (r_id r) st1) as [l'|] eqn:Hf; [|inversion E; subst st'; exact F1].
  destruct (find_rep_sound _ _ _ (WFstruct_keys_ok _ (wc_struct _ W1)) Hf) as (sb1 & r1 & G1 & R1 & I1).
  assert (Hd : exists sbd rd, get_sb (LVar d) st1 = Some sbd /\ sb_rep sbd = Some rd /\ r_id rd = r_id r).
  { unfold rep_disconnect, get_rep in E1. rewrite Hsb, Hr in E1. destruct (r_attached r); [discriminate|].
    inversion E1 as [E1']. unfold set_rep. rewrite Hsb. eexists. eexists.
    split; [eapply get_set_sb_same; exact Hsb|]. split; reflexivity. }
  destruct Hd as (sbd & rd & Gd & Rd & Id).
  assert (El : l' = LVar d) by (eapply (rep_ids_injective st1); eauto; congruence). subst l'.
  rewrite G1, R1 in E. apply rep_delete_lite in E. destruct E as (Sl & _).
  rewrite (get_sb_var_slots _ _ _ Sl), get_sb_var_set_other by exact Hne. exact F1.
Qed.

Lemma rep_delete_opt_slots (o : option rep) st st' :
  match o with Some old => rep_delete (r_with_attached false old) st | None => Ok st end = Ok st' ->
  slots st' = slots st.
Proof.
  destruct o; intro H; [apply rep_delete_lite in H; exact (proj1 H)|inversion H; reflexivity].
Qed.

Lemma sb_assign_frame d s0 st st' : WF st -> sb_assign d s0 st = Ok st' ->
  forall s, s <> d -> get_sb (LVar s) st' = get_sb (LVar s) st.
Proof.
  intros H E s Hne. unfold sb_assign in E.
  destruct (get_sb (LVar d) st) as [dst|] eqn:Hd; [|discriminate].
  destruct (get_sb (LVar s0) st) as [src|] eqn:Hs0; [|discriminate].
  destruct (same_rep src dst); [inversion E; apply get_sb_var_set_other; exact Hne|].
  destruct (sb_empty src); [eapply drwc_var_frame; eauto|].
  destruct (sb_rep src) as [r|]; [|inversion E; reflexivity].
  destruct (rep_clone r st) as [[r' st1]|e] eqn:Ec; cbn [rbind] in E; [|discriminate].
  match type of E with rbind ?x _ = _ => destruct x as [st2|e] eqn:E2 end; cbn [rbind] in E; [|discriminate].
  injection E as E'. rewrite <- E'. etransitivity; [apply (get_sb_var_set_other s d _ st2 Hne)|].
  rewrite (get_sb_var_slots _ _ _ (rep_delete_opt_slots _ _ _ E2)).
  apply get_sb_var_slots. eapply rep_clone_slots; eauto.
Qed.

Lemma sb_move_assign_frame d s0 st st' : WF st -> sb_move_assign d s0 st = Ok st' ->
  forall s, s <> d -> s <> s0 -> get_sb (LVar s) st' = get_sb (LVar s) st.
Proof.
  intros H E s Hne Hne0. unfold sb_move_assign in E.
  destruct (get_sb (LVar d) st) as [dst|] eqn:Hd; [|discriminate].
  destruct (get_sb (LVar s0) st) as [src|] eqn:Hs0; [|discriminate].
  destruct (same_rep src dst); [inversion E; apply get_sb_var_set_other; exact Hne|].
  destruct (sb_empty src); [eapply drwc_var_frame; eauto|].
  destruct (sb_rep src) as [r|]; [|inversion E; reflexivity].
  match type of E with rbind ?x _ = _ => destruct x as [[[newrep src'] st1]|e] eqn:E1 end; cbn [rbind] in E; [|discriminate].
  assert (S1 : slots st1 = slots st).
  { destruct (r_attached r).
    - destruct (rep_clone r st) as [[r' st1']|e] eqn:Ec; cbn [rbind] in E1; [|discriminate].
      inversion E1; subst st1'. eapply rep_clone_slots; eauto.
    - inversion E1. exact (proj1 (null_watchers_fields _ _)). }
  match type of E with rbind ?x _ = _ => destruct x as [st2|e] eqn:E2 end; cbn [rbind] in E; [|discriminate].
  injection E as E'. rewrite <- E'. etransitivity; [apply (get_sb_var_set_other s d _ st2 Hne)|].
  rewrite (get_sb_var_slots _ _ _ (rep_delete_opt_slots _ _ _ E2)).
  etransitivity; [apply (get_sb_var_set_other s s0 _ st1 Hne0)|]. apply get_sb_var_slots. exact S1.
Qed.

Lemma get_sb_var_new_slot_var s a rk sb st : s <> a ->
  get_sb (LVar s) (new_slot_var a rk sb st) = get_sb (LVar s) st.
Proof.
  intro Hne. unfold get_sb, new_slot_var. cbn [slots with_skind with_slots].
  rewrite aget_aset_other by exact Hne. reflexivity.
Qed.

Lemma slot_ops_frame : S_slot_ops_frame.
Proof.
  intros prog rec o st st' s H Hso Ht Hs. unfold live_slot.
  destruct o as [t|t|td ts|td ts|t|t|t|a rk body refs|a rk|sn so|sn so|sd ss|sd ss|a arg catch|a b|a|a|a|g k|gn go|gn go|gd gs|gd gs|g|g|g|g a c front mv|g arg catch|g|g b|g|a g|c|cn co|cd cs|c|c b|c|c|c|c|k c|k|k c|kn ko|kd ks|k1 k2|k c|k|k b|k|k| | ];
    try discriminate Hso; cbn [touches_slot] in Ht; cbn [step] in Hs;
    try (apply orb_false_elim in Ht; destruct Ht as [Ht Ht2]; apply N.eqb_neq in Ht2);
    apply N.eqb_neq in Ht.
  - (* OSNew *)
    match type of Hs with (if ?c then _ else _) = _ => destruct c end; [|inversion Hs; reflexivity].
    match type of Hs with match ?x with _ => _ end = _ => destruct x as [st2|e] eqn:Eb end; [|discriminate].
    inversion Hs. rewrite get_sb_var_new_slot_var by congruence.
    apply get_sb_var_slots. apply bind_all_slots in Eb. exact Eb.
  - (* OSEmpty *)
    destruct (fresh_slot a st); inversion Hs; [apply get_sb_var_new_slot_var; congruence|reflexivity].
  - (* OSCopy *)
    destruct (live_slot so st) as [src|]; [|inversion Hs; reflexivity].
    destruct (fresh_slot sn st); [|inversion Hs; reflexivity].
    destruct (sb_copy src st) as [[sb st1]|e] eqn:Hc; [|discriminate]. inversion Hs.
    rewrite get_sb_var_new_slot_var by congruence. apply get_sb_var_slots.
    unfold sb_copy in Hc. destruct (sb_rep src) as [r|]; [|inversion Hc; reflexivity].
    destruct (r_valid r); [|inversion Hc; reflexivity].
    destruct (rep_clone r st) as [[r' st2]|e] eqn:Hcl; cbn [rbind] in Hc; [|discriminate].
    inversion Hc; subst st2. eapply rep_clone_slots; eauto.
  - (* OSMove *)
    destruct (live_slot so st) as [src|]; [|inversion Hs; reflexivity].
    destruct (fresh_slot sn st); [|inversion Hs; reflexivity].
    destruct (sb_move src st) as [[[sb src'] st1]|e] eqn:Hm; [|discriminate]. injection Hs as Hs'. rewrite <- Hs'.
    rewrite get_sb_var_new_slot_var by congruence.
    etransitivity; [apply (get_sb_var_set_other s so src' st1); congruence|].
    apply get_sb_var_slots. eapply sb_move_slots; eauto.
  - (* OSAssign *)
    destruct (live_slot sd st); [|inversion Hs; reflexivity].
    destruct (live_slot ss st); [|inversion Hs; reflexivity].
    destruct (rkind_eqb _ _); [|inversion Hs; reflexivity].
    destruct (sb_assign sd ss st) as [st1|e] eqn:Ea; cbn [liftu lift] in Hs; [|discriminate].
    inversion Hs; subst st1. eapply sb_assign_frame; eauto.
  - (* OSMoveAssign *)
    destruct (live_slot sd st); [|inversion Hs; reflexivity].
    destruct (live_slot ss st); [|inversion Hs; reflexivity].
    destruct (rkind_eqb _ _); [|inversion Hs; reflexivity].
    destruct (sb_move_assign sd ss st) as [st1|e] eqn:Ea; cbn [liftu lift] in Hs; [|discriminate].
    inversion Hs; subst st1. eapply sb_move_assign_frame; eauto.
  - (* OSBlock *)
    destruct (live_slot a st) as [sb|]; inversion Hs; [|reflexivity].
    change (get_sb (LVar s) (set_sb (LVar a) (mkSB (sb_rep sb) b) st) = get_sb (LVar s) st).
    apply get_sb_var_set_other. congruence.
  - (* OSDisc *)
    destruct (live_slot a st) as [sb|]; [|inversion Hs; reflexivity].
    destruct (rep_disconnect (LVar a) st) as [st1|e] eqn:Ed; cbn [liftu lift] in Hs; [|discriminate].
    inversion Hs; subst st1. eapply rep_disconnect_var; eauto.
  - (* OSDel *)
    destruct (live_slot a st) as [sb|]; [|inversion Hs; reflexivity].
    match type of Hs with liftu ?x = _ => destruct x as [st1|e] eqn:Ed end; cbn [liftu lift] in Hs; [|discriminate].
    inversion Hs; subst st1. apply sb_delete_lite in Ed. destruct Ed as (Sl & _).
    rewrite (get_sb_var_slots _ _ _ Sl). unfold get_sb. cbn [slots with_slots].
    rewrite aget_aset_other by congruence. reflexivity.
  - (* OSQuery *)
    destruct (live_slot a st) as [sb|]; inversion Hs; reflexivity.
Qed.

(* ------------------------------------------------------------------ *)
Print Assumptions slot_block_only_target.
Print Assumptions conn_block_only_target.
Print Assumptions blocked_call_default.
Print Assumptions signal_block_sets_current.
Print Assumptions deref_at_most_once_partial.
Print Assumptions deref_at_most_once_false.
Print Assumptions deref_skips_blocked.
Print Assumptions move_rearms.
Print Assumptions undereferenced_never_invoked.
Print Assumptions copy_shares.
Print Assumptions assign_shares.
Print Assumptions move_transfers.
Print Assumptions last_handle_teardown.
Print Assumptions last_handle_teardown_false.
Print Assumptions forwarder_dies_with_signal.
Print Assumptions forwarder_dies_with_signal_false.
Print Assumptions other_handles_keep_list_false.
Print Assumptions other_handles_keep_list_partial.
Print Assumptions other_handles_keep_impl.
Print Assumptions default_slot_empty.
Print Assumptions copy_independent.
Print Assumptions move_empties_source.
Print Assumptions disconnect_empties.
Print Assumptions slot_ops_frame.
Print Assumptions forwarder_emits.
Print Assumptions forwarder_tracks_its_signal.
Print Assumptions copy_is_distinct_trackable.
