(* NestProofs10.v -- history relations for the internal steps (Evo, TFrame), fuel measure *)
From Coq Require Import List NArith Bool Arith Lia Permutation.
Import ListNotations.
Require Import Util NestModel NestSpec NestProofs1 NestProofs2 NestProofs3 NestProofs4 NestProofs5 NestProofs6 NestProofs7 NestProofs8.
Local Open Scope N_scope.

Definition skel (l : list item) : list (N + N + option N) :=
  map (fun it => match it with
                 | ITrack t => inl (inl t)
                 | IRef s => inl (inr s)
                 | IVal None => inr None
                 | IVal (Some c) => inr (Some (r_id c))
                 end) l.

Definition Evo (st st' : nstate) : Prop :=
  forall i r', lk i (all_reps st') = Some r' ->
    exists r, lk i (all_reps st) = Some r /\ (r_valid r = false -> r_valid r' = false) /\
      (r_fn r' = None \/ (r_fn r <> None /\ skel (items_of r') = skel (items_of r))).

Lemma Evo_refl : forall st, Evo st st.
Proof.
  intros st i r H. exists r. split; [exact H|]. split; [tauto|].
  destruct (r_fn r) eqn:E; [right; split; [discriminate | reflexivity] | left; reflexivity].
Qed.

Lemma Evo_same : forall st st', all_reps st' = all_reps st -> Evo st st'.
Proof. intros st st' E i r H. rewrite E in H. apply (Evo_refl st). exact H. Qed.

Lemma Evo_trans : forall a b c, Evo a b -> Evo b c -> Evo a c.
Proof.
  intros a b c H1 H2 i r'' H. destruct (H2 i r'' H) as (r' & Hr' & Hv' & Hf').
  destruct (H1 i r' Hr') as (r & Hr & Hv & Hf). exists r. split; [exact Hr|]. split; [tauto|].
  destruct Hf' as [Hf'|[Hn' Hs']]; [left; exact Hf'|].
  destruct Hf as [Hf|[Hn Hs]]; [contradiction|]. right. split; [exact Hn | congruence].
Qed.

Lemma skel_map_items : forall id f l, pres_id f -> skel (map_items id f l) = skel l.
Proof.
  intros id f l Hf. induction l as [|it tl IH]; [reflexivity|].
  destruct it as [t|s|[r'|]]; cbn [map_items skel map]; fold (skel tl); fold (skel (map_items id f tl)); rewrite IH; try reflexivity.
  rewrite map_in_rep_id by exact Hf. reflexivity.
Qed.

Lemma evo_field : forall id f st, NoDup (ids (all_reps st)) -> pres_id f -> pres_fn f ->
  (forall x, r_valid x = false -> r_valid (f x) = false) -> Evo st (map_rep id f st).
Proof.
  intros id f st Hnd Hf Hfn Hv i r' H.
  rewrite (all_reps_map_field id f Hfn st Hnd) in H. rewrite lk_map in H by (intros x; apply map_in_rep_id; exact Hf).
  destruct (lk i (all_reps st)) as [r|] eqn:E; [|discriminate]. cbn [option_map] in H. injection H as <-.
  exists r. split; [reflexivity|].
  destruct (N.eq_dec (r_id r) id) as [Ei|Ei].
  - rewrite map_in_rep_hit by exact Ei. split; [apply Hv|].
    destruct (r_fn r) eqn:Er; [right | left; rewrite Hfn; exact Er].
    split; [discriminate|]. unfold items_of. rewrite Hfn. reflexivity.
  - pose proof (map_in_rep_other id f r Ei) as (H1 & _ & H3 & H4). split; [rewrite H1; tauto|].
    destruct (r_fn r) eqn:Er; [right | left; apply H4; reflexivity].
    split; [discriminate|]. rewrite H3. apply skel_map_items. exact Hf.
Qed.

Lemma evo_destroy : forall id st ro, NoDup (ids (all_reps st)) -> lk id (all_reps st) = Some ro ->
  Evo st (map_rep id fdestroy st).
Proof.
  intros id st ro Hnd Hlk i r' H.
  destruct (map_rep_destroy_split id fdestroy st ro pres_id_fdestroy Hnd Hlk) as (l1 & l2 & EU & EU' & Hl2).
  set (g := map_in_rep id fdestroy) in *.
  destruct (lk_some _ _ _ Hlk) as [_ Hro_id].
  assert (Hgro : g ro = fdestroy ro) by (apply map_in_rep_hit; exact Hro_id).
  assert (EU2' : all_reps (map_rep id fdestroy st) = map g (l1 ++ ro :: l2)).
  { rewrite EU'. rewrite map_app. cbn [map]. rewrite Hgro. rewrite (reps_of_eq (fdestroy ro)). cbn [fdestroy items_of set_fn r_fn reps_items app].
    f_equal. f_equal. rewrite <- (map_id l2) at 1. apply map_ext_in. intros u Hu. symmetry. apply Hl2. exact Hu. }
  rewrite EU2' in H. rewrite lk_map in H by (intros x; apply map_in_rep_id; exact pres_id_fdestroy).
  destruct (lk i (l1 ++ ro :: l2)) as [r|] eqn:E; [|discriminate]. cbn [option_map] in H. injection H as <-.
  destruct (lk_some _ _ _ E) as [Hr_in Hr_id].
  assert (HrU : In r (all_reps st)).
  { rewrite EU, reps_of_eq. apply in_app_or in Hr_in. apply in_or_app. destruct Hr_in as [Hr|[Hr|Hr]].
    - left. exact Hr.
    - right. left. exact Hr.
    - right. right. apply in_or_app. right. exact Hr. }
  exists r. split; [subst i; apply lk_in; assumption|].
  destruct (N.eq_dec (r_id r) id) as [Ei|Ei].
  - unfold g. rewrite map_in_rep_hit by exact Ei. split; [reflexivity | left; reflexivity].
  - pose proof (map_in_rep_other id fdestroy r Ei) as (H1 & _ & H3 & H4). fold g in H1, H3, H4. split; [rewrite H1; tauto|].
    destruct (r_fn r) eqn:Er; [right | left; apply H4; reflexivity].
    split; [discriminate|]. rewrite H3. apply skel_map_items. exact pres_id_fdestroy.
Qed.


(* ---- the holder of a std::ref is invalidated with the slot it adopted ---- *)
Definition GoneOrInvalid (p : N) (st : nstate) : Prop := forall q, lk p (all_reps st) = Some q -> r_valid q = false.

Definition AdoptRelX (Ex : N -> Prop) (st st' : nstate) : Prop :=
  forall i x x' p, ~ Ex i -> lk i (all_reps st) = Some x -> lk i (all_reps st') = Some x' -> r_parent x = Some p ->
    (r_parent x' = Some p /\ (r_fn x' = None -> r_fn x = None)) \/ GoneOrInvalid p st'.
Definition AdoptRel : nstate -> nstate -> Prop := AdoptRelX (fun _ => False).

Lemma gone_mono : forall p st st', Evo st st' -> GoneOrInvalid p st -> GoneOrInvalid p st'.
Proof. intros p st st' He Hg q Hq. destruct (He p q Hq) as (q0 & Hq0 & Hv & _). apply Hv. apply Hg. exact Hq0. Qed.

Lemma adoptx_same : forall Ex st st', all_reps st' = all_reps st -> AdoptRelX Ex st st'.
Proof. intros Ex st st' E i x x' p _ Hx Hx' Hp. rewrite E in Hx'. rewrite Hx in Hx'. injection Hx' as <-. left. split; [exact Hp | tauto]. Qed.

Lemma adoptx_weaken : forall (E1 E2 : N -> Prop) st st', (forall i, E1 i -> E2 i) -> AdoptRelX E1 st st' -> AdoptRelX E2 st st'.
Proof. intros E1 E2 st st' H HA i x x' p Hn. apply HA. intros He. apply Hn. apply H. exact He. Qed.

Lemma adoptx_trans : forall Ex a b c, AdoptRelX Ex a b -> AdoptRelX Ex b c -> Evo b c -> AdoptRelX Ex a c.
Proof.
  intros Ex a b c H1 H2 He i x x'' p Hn Hx Hx'' Hp.
  destruct (He i x'' Hx'') as (x' & Hx' & _).
  destruct (H1 i x x' p Hn Hx Hx' Hp) as [[Hp' Hf']|Hg].
  - destruct (H2 i x' x'' p Hn Hx' Hx'' Hp') as [[Hp'' Hf'']|Hg]; [left; split; [exact Hp'' | tauto] | right; exact Hg].
  - right. eapply gone_mono; eassumption.
Qed.

Lemma adopt_trans : forall a b c, AdoptRel a b -> AdoptRel b c -> Evo b c -> AdoptRel a c.
Proof. intros a b c. unfold AdoptRel. apply adoptx_trans. Qed.

Lemma adopt_same : forall st st', all_reps st' = all_reps st -> AdoptRel st st'.
Proof. intros st st'. unfold AdoptRel. apply adoptx_same. Qed.

Lemma adopt_field_x : forall id f st, NoDup (ids (all_reps st)) -> pres_id f -> pres_fn f ->
  AdoptRelX (eq id) st (map_rep id f st).
Proof.
  intros id f st Hnd Hf Hfn i x x' p Hn Hx Hx' Hp.
  rewrite (all_reps_map_field id f Hfn st Hnd) in Hx'. rewrite lk_map in Hx' by (intros y; apply map_in_rep_id; exact Hf).
  rewrite Hx in Hx'. cbn [option_map] in Hx'. injection Hx' as <-.
  destruct (lk_some _ _ _ Hx) as [_ Hxi]. assert (Hne : r_id x <> id) by (intros E; apply Hn; congruence).
  pose proof (map_in_rep_other id f x Hne) as (_ & H2 & _ & H4). left. split; [congruence | apply H4].
Qed.

Lemma adopt_clear_parent : forall id me st ro, NoDup (ids (all_reps st)) -> lk id (all_reps st) = Some ro ->
  r_parent ro = Some me -> GoneOrInvalid me st -> AdoptRel st (map_rep id (set_parent None) st).
Proof.
  intros id me st ro Hnd Hlk Hpro Hg i x x' p _ Hx Hx' Hp.
  assert (HU : all_reps (map_rep id (set_parent None) st) = map (map_in_rep id (set_parent None)) (all_reps st))
    by (apply all_reps_map_field; [apply pres_fn_set_parent | exact Hnd]).
  assert (Hlkm : forall j, lk j (all_reps (map_rep id (set_parent None) st)) = option_map (map_in_rep id (set_parent None)) (lk j (all_reps st))).
  { intros j. rewrite HU. apply lk_map. intros y. apply map_in_rep_id. apply pres_id_set_parent. }
  destruct (N.eq_dec i id) as [->|Hne].
  - rewrite Hlk in Hx. injection Hx as <-. rewrite Hpro in Hp. injection Hp as <-. right.
    intros q Hq. rewrite Hlkm in Hq. destruct (lk me (all_reps st)) as [q0|] eqn:Eq; [|discriminate]. cbn [option_map] in Hq. injection Hq as <-.
    pose proof (Hg q0 Eq) as Hv. destruct (N.eq_dec (r_id q0) id) as [E|E].
    + rewrite map_in_rep_hit by exact E. exact Hv.
    + rewrite (proj1 (map_in_rep_other id (set_parent None) q0 E)). exact Hv.
  - apply (adopt_field_x id (set_parent None) st Hnd (pres_id_set_parent _) (pres_fn_set_parent _) i x x' p); try assumption. congruence.
Qed.

Lemma destroy_list_view : forall id st ro, NoDup (ids (all_reps st)) -> lk id (all_reps st) = Some ro ->
  exists l1 l2, all_reps st = l1 ++ reps_of ro ++ l2 /\
    all_reps (map_rep id fdestroy st) = map (map_in_rep id fdestroy) (l1 ++ ro :: l2).
Proof.
  intros id st ro Hnd Hlk.
  destruct (map_rep_destroy_split id fdestroy st ro pres_id_fdestroy Hnd Hlk) as (l1 & l2 & EU & EU' & Hl2).
  exists l1, l2. split; [exact EU|].
  destruct (lk_some _ _ _ Hlk) as [_ Hro_id].
  rewrite EU'. rewrite map_app. cbn [map]. rewrite (map_in_rep_hit id fdestroy ro Hro_id).
  rewrite (reps_of_eq (fdestroy ro)). cbn [fdestroy items_of set_fn r_fn reps_items app].
  f_equal. f_equal. rewrite <- (map_id l2) at 1. apply map_ext_in. intros u Hu. symmetry. apply Hl2. exact Hu.
Qed.

Lemma adopt_destroy : forall id st ro, NoDup (ids (all_reps st)) -> lk id (all_reps st) = Some ro -> r_parent ro = None ->
  AdoptRel st (map_rep id fdestroy st).
Proof.
  intros id st ro Hnd Hlk Hpro i x x' p _ Hx Hx' Hp.
  destruct (destroy_list_view id st ro Hnd Hlk) as (l1 & l2 & EU & EU').
  rewrite EU' in Hx'. rewrite lk_map in Hx' by (intros y; apply map_in_rep_id; exact pres_id_fdestroy).
  destruct (lk i (l1 ++ ro :: l2)) as [x0|] eqn:E0; [|discriminate]. cbn [option_map] in Hx'. injection Hx' as <-.
  destruct (lk_some _ _ _ E0) as [Hx0_in Hx0_id].
  assert (Hx0U : In x0 (all_reps st)).
  { rewrite EU, reps_of_eq. apply in_app_or in Hx0_in. apply in_or_app. destruct Hx0_in as [H|[H|H]].
    - left. exact H.
    - right. left. exact H.
    - right. right. apply in_or_app. right. exact H. }
  assert (x0 = x). { pose proof (lk_in _ x0 Hnd Hx0U) as H. rewrite Hx0_id, Hx in H. congruence. }
  subst x0. destruct (lk_some _ _ _ Hlk) as [Hro_in Hro_id].
  assert (Hne : r_id x <> id). { intros E. assert (x = ro) by (eapply same_id_same_rep; try eassumption; congruence). subst x. congruence. }
  pose proof (map_in_rep_other id fdestroy x Hne) as (_ & H2 & _ & H4). left. split; [congruence | apply H4].
Qed.

Lemma gone_after_destroy : forall id st ro, NoDup (ids (all_reps st)) -> lk id (all_reps st) = Some ro ->
  forall u, In u (reps_of ro) -> GoneOrInvalid (r_id u) (map_rep id fdestroy st).
Proof.
  intros id st ro Hnd Hlk u Hu q Hq.
  destruct (destroy_list_view id st ro Hnd Hlk) as (l1 & l2 & EU & EU').
  rewrite EU' in Hq. rewrite lk_map in Hq by (intros y; apply map_in_rep_id; exact pres_id_fdestroy).
  destruct (lk (r_id u) (l1 ++ ro :: l2)) as [q0|] eqn:E0; [|discriminate]. cbn [option_map] in Hq. injection Hq as <-.
  destruct (lk_some _ _ _ E0) as [Hq0_in Hq0_id].
  destruct (lk_some _ _ _ Hlk) as [_ Hro_id].
  assert (q0 = ro).
  { rewrite reps_of_eq in Hu. destruct Hu as [<-|Hu].
    - rewrite EU, reps_of_eq in Hnd.
      assert (Hq0U : In q0 (l1 ++ (ro :: reps_items (items_of ro)) ++ l2)).
      { apply in_app_or in Hq0_in. apply in_or_app. destruct Hq0_in as [H|[H|H]]; [left; exact H | right; left; exact H | right; right; apply in_or_app; right; exact H]. }
      apply (same_id_same_rep _ q0 ro Hnd Hq0U); [|exact Hq0_id]. apply in_or_app. right. left. reflexivity.
    - exfalso. rewrite EU, reps_of_eq in Hnd.
      change (l1 ++ (ro :: reps_items (items_of ro)) ++ l2) with (l1 ++ ([ro] ++ reps_items (items_of ro)) ++ l2) in Hnd.
      rewrite <- app_assoc, app_assoc in Hnd.
      apply (ids_mid_disj (l1 ++ [ro]) (reps_items (items_of ro)) l2 q0 u Hnd); [|exact Hu | exact Hq0_id].
      rewrite <- app_assoc. exact Hq0_in. }
  subst q0. rewrite (map_in_rep_hit id fdestroy ro Hro_id). reflexivity.
Qed.

(* ---- callback lists of trackables being cleared ---- *)
Definition RegsLe (l l' : list (N * bool)) : Prop :=
  Forall2 (fun e e' : N * bool => fst e' = fst e /\ (snd e' = true -> snd e = true)) l l'.

Lemma RegsLe_refl : forall l, RegsLe l l.
Proof. induction l; constructor; [tauto | assumption]. Qed.

Lemma RegsLe_trans : forall a b c, RegsLe a b -> RegsLe b c -> RegsLe a c.
Proof.
  intros a b c H. revert c. induction H as [|x y l l' Hxy H IH]; intros c H2; inversion H2; subst; constructor.
  - destruct Hxy, H3. split; [congruence | tauto].
  - apply IH. assumption.
Qed.

Lemma RegsLe_disarm : forall me l, RegsLe l (disarm_first me l).
Proof.
  intros me. induction l as [|[d a] tl IH]; [constructor|]. cbn [disarm_first].
  destruct (N.eqb d me && a); constructor; try (apply RegsLe_refl); try exact IH; cbn; split; try reflexivity; try tauto; discriminate.
Qed.

Definition TFrame (st st' : nstate) : Prop :=
  forall t x, live_tr t st = Some x ->
    exists x', live_tr t st' = Some x' /\ t_clearing x' = t_clearing x /\
               (t_clearing x = true -> RegsLe (t_regs x) (t_regs x')).

Lemma TFrame_refl : forall st, TFrame st st.
Proof. intros st t x H. exists x. split; [exact H|]. split; [reflexivity|]. intros _. apply RegsLe_refl. Qed.

Lemma TFrame_trans : forall a b c, TFrame a b -> TFrame b c -> TFrame a c.
Proof.
  intros a b c H1 H2 t x H. destruct (H1 t x H) as (x' & Hx' & Hc' & Hr'). destruct (H2 t x' Hx') as (x'' & Hx'' & Hc'' & Hr'').
  exists x''. split; [exact Hx''|]. split; [congruence|]. intros Hc. eapply RegsLe_trans; [apply Hr'; exact Hc | apply Hr''; congruence].
Qed.

Lemma TFrame_same : forall st st', tracks st' = tracks st -> TFrame st st'.
Proof.
  intros st st' E t x H. exists x. unfold live_tr in *. rewrite E. split; [exact H|]. split; [reflexivity|]. intros _. apply RegsLe_refl.
Qed.

Record IFrame (st st' : nstate) : Prop := mkIFrame
  { if_v : VFrame st st'; if_e : Evo st st'; if_t : TFrame st st'; if_next : next_id st' = next_id st }.

Lemma IFrame_refl : forall st, IFrame st st.
Proof. intros. constructor; [apply VFrame_refl | apply Evo_refl | apply TFrame_refl | reflexivity]. Qed.

Lemma IFrame_trans : forall a b c, IFrame a b -> IFrame b c -> IFrame a c.
Proof.
  intros a b c [v1 e1 t1 n1] [v2 e2 t2 n2]. constructor;
    [eapply VFrame_trans | eapply Evo_trans | eapply TFrame_trans | congruence]; eassumption.
Qed.

Lemma iframe_field : forall id f st, NoDup (ids (all_reps st)) -> pres_id f -> pres_fn f ->
  (forall x, r_valid x = false -> r_valid (f x) = false) -> IFrame st (map_rep id f st).
Proof.
  intros. constructor; [apply VFrame_map_rep_field; assumption | apply evo_field; assumption | apply TFrame_same; reflexivity | reflexivity].
Qed.

Lemma iframe_destroy : forall id st ro, NoDup (ids (all_reps st)) -> lk id (all_reps st) = Some ro -> IFrame st (map_rep id fdestroy st).
Proof.
  intros. constructor; [apply VFrame_destroy | eapply evo_destroy; eassumption | apply TFrame_same; reflexivity | reflexivity].
Qed.

Lemma iframe_set_regs : forall t x x' st, live_tr t st = Some x -> t_clearing x' = t_clearing x ->
  (t_clearing x = true -> RegsLe (t_regs x) (t_regs x')) ->
  IFrame st (with_tracks (aset t (Some x') (tracks st)) st).
Proof.
  intros t x x' st Hx Hc Hr. constructor; [eapply VFrame_set_regs; exact Hx | apply Evo_same; reflexivity | | reflexivity].
  intros t' y Hy. rewrite live_tr_set. destruct (N.eqb t' t) eqn:E.
  - apply N.eqb_eq in E. subst t'. rewrite Hx in Hy. injection Hy as <-. exists x'. split; [reflexivity|]. split; assumption.
  - exists y. split; [exact Hy|]. split; [reflexivity|]. intros _. apply RegsLe_refl.
Qed.

Lemma iframe_unbind_item : forall me it st st', NoDup (ids (all_reps st)) -> unbind_item me it st = NOk st' -> IFrame st st'.
Proof.
  intros me [t|s|v] st st' Hnd H; cbn [unbind_item] in H.
  - unfold track_remove in H. destruct (live_tr t st) as [x|] eqn:Hx; [|discriminate]. injection H as <-.
    eapply iframe_set_regs; [exact Hx | reflexivity|]. cbn [t_regs]. intros Hc. rewrite Hc. apply RegsLe_disarm.
  - destruct (live_var s st) as [[r|]|]; [| |discriminate].
    + destruct (r_parent r) as [p|].
      * destruct (N.eqb p me); injection H as <-; [|apply IFrame_refl].
        apply iframe_field; [exact Hnd | apply pres_id_set_parent | apply pres_fn_set_parent | intros x Hx; exact Hx].
      * injection H as <-. apply IFrame_refl.
    + injection H as <-. apply IFrame_refl.
  - injection H as <-. apply IFrame_refl.
Qed.

Lemma unbind_list_ok2 : forall T P B1 B st, GInv T P (B1 ++ B) st ->
  exists st', unbind_list B1 st = NOk st' /\ GInv T P B st' /\ IFrame st st'.
Proof.
  induction B1 as [|[me it] tl IH]; intros B st HG.
  - exists st. split; [reflexivity|]. split; [exact HG | apply IFrame_refl].
  - cbn [app] in HG. destruct (unbind_item_ok T P (tl ++ B) st me it HG) as (st1 & E1 & HG1).
    cbn [unbind_list]. rewrite E1. cbn [nbind]. destruct (IH B st1 HG1) as (st' & E & HG' & F').
    exists st'. split; [exact E|]. split; [exact HG'|]. eapply IFrame_trans; [|exact F'].
    eapply iframe_unbind_item; [exact (gi_nodup _ _ _ _ HG) | exact E1].
Qed.

Lemma drop_rep_ok2 : forall T P B st r, GInv T P (bindings (reps_of r) ++ B) st ->
  exists st', drop_rep r st = NOk st' /\ GInv T P B st' /\ IFrame st st'.
Proof. intros. rewrite drop_rep_unbind. apply unbind_list_ok2. assumption. Qed.

(* ---- the fuel measure ---- *)
Definition hasp (u : rep) : bool := match r_parent u with Some _ => true | None => false end.
Definition np (st : nstate) : nat := length (filter hasp (all_reps st)).

Lemma count_reps_len : forall r, count_reps r = length (reps_of r).
Proof.
  apply rep_kids_ind. intros r IH. rewrite count_reps_eq, reps_of_eq. cbn [length]. f_equal.
  rewrite reps_items_kids.
  assert (H : forall l, (forall c, In c (kids l) -> count_reps c = length (reps_of c)) -> count_items l = length (flat_map reps_of (kids l))).
  { induction l as [|it tl IHl]; intros Hk; [reflexivity|].
    destruct it as [t|s|[r'|]]; cbn [count_items kids flat_map] in *; try (apply IHl; exact Hk).
    rewrite app_length, (Hk r' (or_introl eq_refl)), IHl; [reflexivity|]. intros c Hc. apply Hk. right. exact Hc. }
  apply H. exact IH.
Qed.

Lemma nfuel_len : forall st, nfuel st = S (length (all_reps st)).
Proof.
  intros st. unfold nfuel, all_reps. f_equal. induction (vars st) as [|[k [[r|]|]] tl IH]; cbn [fold_right flat_map app]; try exact IH; [reflexivity|].
  rewrite app_length, <- IH, count_reps_len. reflexivity.
Qed.

Lemma filter_len_le : forall (A : Type) (p : A -> bool) l, (length (filter p l) <= length l)%nat.
Proof. intros A p l. induction l as [|a tl IH]; [apply le_n|]. cbn [filter]. destruct (p a); cbn [length]; lia. Qed.

Lemma np_le : forall st, (np st < nfuel st)%nat.
Proof. intros st. rewrite nfuel_len. unfold np. pose proof (filter_len_le _ hasp (all_reps st)). lia. Qed.

Definition fmark (x : rep) : rep := set_parent None (set_valid false x).
Lemma pres_id_fmark : pres_id fmark. Proof. intros x; reflexivity. Qed.
Lemma pres_fn_fmark : pres_fn fmark. Proof. intros x; reflexivity. Qed.

Lemma np_mark_aux : forall (g : rep -> rep) id L, NoDup (ids L) ->
  (forall u, hasp (g u) = if N.eqb (r_id u) id then false else hasp u) ->
  (length (filter hasp (map g L)) + match lk id L with Some ro => if hasp ro then 1 else 0 | None => 0 end = length (filter hasp L))%nat.
Proof.
  intros g id L Hnd Hg. induction L as [|u tl IH]; [reflexivity|].
  cbn [ids map] in Hnd. apply NoDup_cons_iff in Hnd. destruct Hnd as [Hx Hnd]. specialize (IH Hnd).
  cbn [map filter]. rewrite Hg. unfold lk in *. cbn [find]. destruct (N.eqb (r_id u) id) eqn:E.
  - apply N.eqb_eq in E. assert (Hn : find (fun u0 => N.eqb (r_id u0) id) tl = None).
    { apply lk_none_iff. rewrite <- E. exact Hx. }
    rewrite Hn in IH. destruct (hasp u); cbn [length]; lia.
  - destruct (hasp u); cbn [length]; lia.
Qed.

Lemma np_mark : forall id st ro, NoDup (ids (all_reps st)) -> lk id (all_reps st) = Some ro ->
  (np (map_rep id fmark st) + (if hasp ro then 1 else 0) = np st)%nat.
Proof.
  intros id st ro Hnd Hlk. unfold np. rewrite (all_reps_map_field id fmark pres_fn_fmark st Hnd).
  pose proof (np_mark_aux (map_in_rep id fmark) id (all_reps st) Hnd) as H. rewrite Hlk in H. apply H.
  intros u. destruct (N.eqb (r_id u) id) eqn:E.
  - apply N.eqb_eq in E. rewrite map_in_rep_hit by exact E. reflexivity.
  - apply N.eqb_neq in E. unfold hasp. rewrite (proj1 (proj2 (map_in_rep_other id fmark u E))). reflexivity.
Qed.
