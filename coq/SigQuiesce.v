From Coq Require Import List NArith Bool Lia Arith Permutation. Import ListNotations. Require Import Util SigCore SigLemmas SigInv SigSafe SigSpec. Local Open Scope N_scope.

(* SigQuiesce.v -- what holds at quiescent points (SigSpec.v, section "Quiescence").

   The three extra conjuncts of S_quiescent_lists need an invariant QY that is threaded through the
   whole interpreter next to WF:
     QX  : nothing has leaked; no impl is dying; every list element is a real element holding an attached
           rep or -- only while a sweep is pending (deferred) -- a detached, invalid one, or a
           placeholder without rep;
     Own : every impl present has a positive reference count.
   Library-internal transients (an impl being swept or destroyed) are handled by an exemption set [ex].
   Part 1-3: the primitives; part 4-7: the interpreter; part 8: the statements; part 9-10: connect. *)

(* ------------------------------------------------------------------ *)
(* The extra invariant                                                  *)

(* status of a list element: a real element holds a rep that is attached, or (only while a sweep is
   pending, [d]) a detached and invalid one; a placeholder holds no rep *)
Definition node_x (d : bool) (nd : node) : Prop :=
  match sb_rep (n_sb nd) with
  | Some r => nid_is_ph (n_id nd) = false /\ (r_attached r = true \/ (d = true /\ r_valid r = false))
  | None => nid_is_ph (n_id nd) = true
  end.

(* [ex] : impls that are inside a library-internal transient (being swept / destroyed) *)
Definition impl_x (ex : N -> bool) (i : N) (im : impl) : Prop :=
  (ex i = false -> i_dying im = false) /\ Forall (node_x (i_deferred im || ex i)) (i_nodes im).

Definition Xe (ex : N -> bool) (st : state) : Prop :=
  leaked st = 0 /\ forall i im, aget i (impls st) = Some im -> impl_x ex i im.

Definition noex : N -> bool := fun _ => false.
Definition QX : state -> Prop := Xe noex.

Definition Own (st : state) : Prop := forall i im, aget i (impls st) = Some im -> 0 < refcount i st.
Definition QY (st : state) : Prop := QX st /\ Own st.

(* states that agree on impls, sigs and the leak counter *)
Definition lite (st st' : state) : Prop :=
  impls st' = impls st /\ sigs st' = sigs st /\ leaked st' = leaked st.

Lemma lite_refl st : lite st st.
Proof. repeat split. Qed.

Lemma lite_trans a b c : lite a b -> lite b c -> lite a c.
Proof. intros (A1 & A2 & A3) (B1 & B2 & B3). repeat split; congruence. Qed.

Lemma Xe_lite ex st st' : lite st st' -> Xe ex st -> Xe ex st'.
Proof. intros (A1 & A2 & A3) (L & H). split; [congruence|]. rewrite A1. exact H. Qed.

Lemma refcount_eq i st st' : sigs st' = sigs st ->
  match aget i (impls st'), aget i (impls st) with
  | Some a, Some b => i_holders a = i_holders b
  | None, None => True
  | _, _ => False
  end -> refcount i st' = refcount i st.
Proof.
  intros Es H. unfold refcount. rewrite Es.
  destruct (aget i (impls st')), (aget i (impls st)); try contradiction; [rewrite H|]; reflexivity.
Qed.

Lemma Own_lite st st' : lite st st' -> Own st -> Own st'.
Proof.
  intros (A1 & A2 & A3) H i im Hi. rewrite A1 in Hi.
  rewrite (refcount_eq i st st' A2); [eauto|]. rewrite A1, Hi. reflexivity.
Qed.

Lemma Y_lite st st' : lite st st' -> QY st -> QY st'.
Proof. intros L (A & B). split; [eapply Xe_lite; eauto|eapply Own_lite; eauto]. Qed.

Lemma Own_Casc st st' : Casc st st' -> Own st -> Own st'.
Proof.
  intros C H i im' Hi. pose proof (ca_impls _ _ C i) as Z. rewrite Hi in Z.
  destruct (aget i (impls st)) as [im|] eqn:Hi0; [|contradiction].
  rewrite (refcount_eq i st st' (ca_sigs _ _ C)); [eauto|]. rewrite Hi, Hi0.
  destruct Z as (_ & Z & _). exact Z.
Qed.

(* ------------------------------------------------------------------ *)
(* node_x basics                                                        *)

Lemma node_x_mono d d' nd : (d = true -> d' = true) -> node_x d nd -> node_x d' nd.
Proof.
  unfold node_x. intros Hd. destruct (sb_rep (n_sb nd)); [|auto].
  intros (A & [B|(B & C)]); split; auto.
Qed.

Lemma Forall_node_x_mono d d' l : (d = true -> d' = true) -> Forall (node_x d) l -> Forall (node_x d') l.
Proof. intros Hd. apply Forall_impl. intro nd. apply node_x_mono. exact Hd. Qed.

Lemma Xe_mono ex ex' st : (forall i, ex i = true -> ex' i = true) -> Xe ex st -> Xe ex' st.
Proof.
  intros Hm (L & H). split; [exact L|]. intros i im Hi. destruct (H i im Hi) as (A & B). split.
  - intro E. apply A. destruct (ex i) eqn:Ei; [|reflexivity]. rewrite (Hm i Ei) in E. discriminate.
  - eapply Forall_node_x_mono; [|exact B]. intro E. apply orb_true_iff in E. apply orb_true_iff.
    destruct E as [E|E]; [left; exact E|right; auto].
Qed.

Lemma Forall_del_node {P : node -> Prop} n l : Forall P l -> Forall P (del_node n l).
Proof.
  induction l as [|x l IH]; cbn [del_node]; intro H; [constructor|].
  inversion H as [|? ? H1 H2]; subst. destruct (nid_eqb (n_id x) n); [exact H2|constructor; auto].
Qed.

Lemma Forall_set_node {P : node -> Prop} n sb' l nd :
  Forall P l -> find_node n l = Some nd -> P (mkNode n sb') -> Forall P (set_node n sb' l).
Proof.
  intros H Hf Hp. destruct (find_node_split _ _ _ Hf) as (l1 & l2 & -> & Hn & Hid).
  rewrite (set_node_split _ _ _ _ _ Hn Hid). rewrite Forall_app in *. destruct H as (H1 & H2).
  inversion H2; subst. split; [exact H1|constructor; assumption].
Qed.

Lemma Forall_find_node {P : node -> Prop} n l nd : Forall P l -> find_node n l = Some nd -> P nd.
Proof. intros H Hf. rewrite Forall_forall in H. apply H. exact (proj1 (find_node_in _ _ _ Hf)). Qed.

Lemma node_x_eta d nd : node_x d nd <-> node_x d (mkNode (n_id nd) (n_sb nd)).
Proof. destruct nd; reflexivity. Qed.

(* ------------------------------------------------------------------ *)
(* Xe under elementary updates                                          *)

Lemma leaked_set_impl i im st : leaked (set_impl i im st) = leaked st.
Proof. reflexivity. Qed.

Lemma Xe_set_impl ex i im' st : Xe ex st -> impl_x ex i im' -> Xe ex (set_impl i im' st).
Proof.
  intros (L & H) Hx. split; [exact L|]. intros j imj. rewrite aget_set_impl.
  destruct (N.eqb_spec j i) as [->|Hne]; [intro E; inversion E; subst; exact Hx|apply H].
Qed.

Lemma Xe_get ex st i im : Xe ex st -> aget i (impls st) = Some im -> impl_x ex i im.
Proof. intros (_ & H). apply H. Qed.

Lemma lite_set_sb_var s sb st : lite st (set_sb (LVar s) sb st).
Proof. repeat split. Qed.

Lemma leaked_set_sb l sb st : leaked (set_sb l sb st) = leaked st.
Proof. destruct l as [s|i n]; unfold set_sb; [reflexivity|]. destruct (aget i (impls st)); reflexivity. Qed.

Lemma sigs_set_sb l sb st : sigs (set_sb l sb st) = sigs st.
Proof. exact (proj1 (set_sb_other_fields l sb st)). Qed.

(* replacing the slot base of a location by one with the same status *)
Lemma Xe_set_sb ex l sb sb' st : Xe ex st -> get_sb l st = Some sb ->
  (forall d n, node_x d (mkNode n sb) -> node_x d (mkNode n sb')) -> Xe ex (set_sb l sb' st).
Proof.
  intros Hx Hg Hst. destruct l as [s|i n]; [eapply Xe_lite; [apply lite_set_sb_var|exact Hx]|].
  destruct (get_sb_node_inv _ _ _ _ Hg) as (im & nd & Hi & Hf & Hsb). unfold set_sb. rewrite Hi.
  apply Xe_set_impl; [exact Hx|]. destruct (Xe_get _ _ _ _ Hx Hi) as (A & B). split; [exact A|].
  cbn [i_deferred i_nodes with_nodes]. eapply Forall_set_node; eauto.
  apply Hst. pose proof (Forall_find_node _ _ _ B Hf) as Z. pose proof (proj2 (find_node_in _ _ _ Hf)) as Hid.
  destruct nd as [n0 sb0]. cbn [n_id n_sb] in *. subst n0 sb0. exact Z.
Qed.

Lemma node_x_upd d n r r' b b' :
  r_attached r' = r_attached r -> (r_valid r' = true -> r_valid r = true) ->
  node_x d (mkNode n (mkSB (Some r) b)) -> node_x d (mkNode n (mkSB (Some r') b')).
Proof.
  unfold node_x. cbn [n_sb n_id sb_rep]. intros Ea Ev (A & [B|(B & C)]); split; auto.
  - left. congruence.
  - right. split; [exact B|]. destruct (r_valid r'); [rewrite Ev in C by reflexivity; discriminate|reflexivity].
Qed.

Lemma Xe_set_rep ex l sb r r' b' st : Xe ex st -> get_sb l st = Some sb -> sb_rep sb = Some r ->
  r_attached r' = r_attached r -> (r_valid r' = true -> r_valid r = true) ->
  Xe ex (set_sb l (mkSB (Some r') b') st).
Proof.
  intros Hx Hg Hr Ea Ev. apply (Xe_set_sb ex l sb _ st Hx Hg). intros d n. destruct sb as [o b]. cbn [sb_rep] in Hr. subst o.
  apply node_x_upd; assumption.
Qed.

Lemma Xe_set_blocked ex l sb b st : Xe ex st -> get_sb l st = Some sb -> Xe ex (set_sb l (mkSB (sb_rep sb) b) st).
Proof. intros Hx Hg. apply (Xe_set_sb ex l sb _ st Hx Hg). intros d n H. exact H. Qed.

(* ------------------------------------------------------------------ *)
(* trackable lists, watchers: lite                                      *)

Lemma track_add_lite t rid st st' : track_add t rid st = Ok st' -> lite st st'.
Proof.
  unfold track_add. destruct (live_track t st) as [tr|]; [|discriminate].
  destruct (t_clearing tr); intro H; inversion H; repeat split.
Qed.

Lemma track_remove_lite t rid st st' : track_remove t rid st = Ok st' -> lite st st'.
Proof.
  unfold track_remove. destruct (live_track t st) as [tr|]; [|discriminate].
  destruct (t_clearing tr); intro H; inversion H; repeat split.
Qed.

Lemma bind_all_lite rid refs : forall st st', bind_all rid refs st = Ok st' -> lite st st'.
Proof.
  induction refs as [|t refs IH]; intros st st'; cbn [bind_all]; [intro H; inversion H; apply lite_refl|].
  destruct (track_add t rid st) as [st1|] eqn:E; cbn [rbind]; [|discriminate].
  intro H. eapply lite_trans; [eapply track_add_lite; eauto|eauto].
Qed.

Lemma unbind_all_lite rid refs : forall st st', unbind_all rid refs st = Ok st' -> lite st st'.
Proof.
  induction refs as [|t refs IH]; intros st st'; cbn [unbind_all]; [intro H; inversion H; apply lite_refl|].
  destruct (track_remove t rid st) as [st1|] eqn:E; cbn [rbind]; [|discriminate].
  intro H. eapply lite_trans; [eapply track_remove_lite; eauto|eauto].
Qed.

Lemma set_connptr_lite w p st : lite st (set_connptr w p st).
Proof. destruct w; repeat split. Qed.

Lemma null_watchers_lite ws : forall st, lite st (null_watchers ws st).
Proof.
  induction ws as [|w ws IH]; intro st; cbn [null_watchers]; [apply lite_refl|].
  eapply lite_trans; [|apply IH]. destruct (get_connptr w st); [apply set_connptr_lite|apply lite_refl].
Qed.

Lemma set_track_lite t tr st : lite st (set_track t tr st).
Proof. repeat split. Qed.

Lemma rep_delete_lite r st st' : r_attached r = false -> rep_delete r st = Ok st' -> lite st st'.
Proof.
  intros Ha. unfold rep_delete. rewrite Ha.
  destruct (r_fn r) as [f|].
  - destruct (unbind_all (r_id r) (f_refs f) st) as [st1|] eqn:E; cbn [rbind]; [|discriminate].
    intro H. inversion H; subst. eapply lite_trans; [eapply unbind_all_lite; eauto|apply null_watchers_lite].
  - cbn [rbind]. intro H. inversion H; subst. apply null_watchers_lite.
Qed.

Lemma rep_clone_lite r st r' st' : rep_clone r st = Ok (r', st') -> lite st st'.
Proof.
  unfold rep_clone. destruct (r_fn r) as [f|].
  - destruct (bind_all (next_rid st) (f_refs f) (with_next_rid (next_rid st + 1) st)) as [st2|] eqn:E; cbn [rbind]; [|discriminate].
    intro H. inversion H; subst. eapply lite_trans; [|eapply bind_all_lite; eauto]. repeat split.
  - cbn [rbind]. intro H. inversion H; subst. repeat split.
Qed.

Lemma sb_copy_lite src st sb st' : sb_copy src st = Ok (sb, st') -> lite st st'.
Proof.
  unfold sb_copy. destruct (sb_rep src) as [r|]; [|intro H; inversion H; apply lite_refl].
  destruct (r_valid r); [|intro H; inversion H; apply lite_refl].
  destruct (rep_clone r st) as [[r' st1]|] eqn:E; cbn [rbind]; [|discriminate].
  intro H. inversion H; subst. eapply rep_clone_lite; eauto.
Qed.

Lemma sb_move_lite src st sb src' st' : sb_move src st = Ok (sb, src', st') -> lite st st'.
Proof.
  unfold sb_move. destruct (sb_rep src) as [r|]; [|intro H; inversion H; apply lite_refl].
  destruct (r_attached r).
  - destruct (r_valid r); [|intro H; inversion H; apply lite_refl].
    destruct (rep_clone r st) as [[r' st1]|] eqn:E; cbn [rbind]; [|discriminate].
    intro H. inversion H; subst. eapply rep_clone_lite; eauto.
  - intro H. inversion H; subst. apply null_watchers_lite.
Qed.

(* ------------------------------------------------------------------ *)
(* erase_node, rep_disconnect, rep_destroy, rep_invalidated, track_notify *)

Definition NA (i : N) (n : nid) (st : state) : Prop :=
  forall sb r, get_sb (LNode i n) st = Some sb -> sb_rep sb = Some r -> r_attached r = false.

Lemma Xe_set_impl_over ex i im' st st0 : Xe ex st0 -> leaked st = leaked st0 ->
  (forall j, j <> i -> aget j (impls st) = aget j (impls st0)) -> impl_x ex i im' ->
  Xe ex (set_impl i im' st).
Proof.
  intros (L & H) El Eo Hx. split; [rewrite leaked_set_impl; congruence|]. intros j imj. rewrite aget_set_impl.
  destruct (N.eqb_spec j i) as [->|Hne]; [intro E; inversion E; subst; exact Hx|].
  rewrite (Eo j Hne). apply H.
Qed.

Lemma Forall_del_set_node {P : node -> Prop} n sb' l : Forall P l -> Forall P (del_node n (set_node n sb' l)).
Proof.
  induction l as [|x l IH]; cbn [set_node del_node]; intro H; [constructor|].
  inversion H as [|? ? H1 H2]; subst. destruct (nid_eqb (n_id x) n) eqn:E; cbn [del_node n_id].
  - rewrite nid_eqb_refl. exact H2.
  - rewrite E. constructor; auto.
Qed.

(* erasing element n of impl i; the invariant of impl i is only needed for the list without n *)
Lemma erase_node_x_gen ex i n st st' :
  leaked st = 0 ->
  (forall j imj, j <> i -> aget j (impls st) = Some imj -> impl_x ex j imj) ->
  (forall im, aget i (impls st) = Some im ->
     (ex i = false -> i_dying im = false) /\ Forall (node_x (i_deferred im || ex i)) (del_node n (i_nodes im))) ->
  NA i n st -> erase_node i n st = Ok st' -> Xe ex st'.
Proof.
  intros L Ho Hi0 Hna. unfold erase_node. destruct (aget i (impls st)) as [im|] eqn:Hi; [|discriminate].
  destruct (find_node n (i_nodes im)) as [nd|] eqn:Hf; [|discriminate].
  set (st1 := set_impl i (with_nodes (del_node n (i_nodes im)) im) st).
  assert (Hx1 : Xe ex st1).
  { split; [exact L|]. intros j imj. unfold st1. rewrite aget_set_impl.
    destruct (N.eqb_spec j i) as [->|Hne]; [|apply Ho; exact Hne].
    intro E. inversion E; subst imj. exact (Hi0 im eq_refl). }
  unfold sb_delete. destruct (sb_rep (n_sb nd)) as [r|] eqn:Hr.
  - intro H. eapply Xe_lite; [eapply rep_delete_lite; [|exact H]|exact Hx1].
    apply (Hna (n_sb nd) r); [|exact Hr]. rewrite get_sb_node, Hi, Hf. reflexivity.
  - intro H. inversion H; subst. exact Hx1.
Qed.

Lemma erase_node_x ex i n st st' : Xe ex st -> NA i n st -> erase_node i n st = Ok st' -> Xe ex st'.
Proof.
  intros (L & H) Hna. apply erase_node_x_gen; [exact L| | |exact Hna].
  - intros j imj _. apply H.
  - intros im Hi. destruct (H i im Hi) as (A & B). split; [exact A|apply Forall_del_node; exact B].
Qed.

(* the list after detaching (and invalidating) the rep of element n *)
Lemma detach_nodes d l n nd r b :
  Forall (node_x d) l -> find_node n l = Some nd -> sb_rep (n_sb nd) = Some r ->
  Forall (node_x true) (set_node n (mkSB (Some (r_with_attached false (r_with_valid false r))) b) l).
Proof.
  intros H Hf Hr. eapply Forall_set_node; [|exact Hf|].
  - eapply Forall_node_x_mono; [|exact H]. auto.
  - pose proof (Forall_find_node _ _ _ H Hf) as Z. unfold node_x in *. rewrite Hr in Z.
    cbn [n_sb n_id sb_rep r_valid r_with_attached r_with_valid]. rewrite <- (proj2 (find_node_in _ _ _ Hf)).
    split; [exact (proj1 Z)|right; split; reflexivity].
Qed.

Lemma ex_of_dying ex i im : impl_x ex i im -> i_dying im = true -> ex i = true.
Proof. intros (A & _) Hd. destruct (ex i); [reflexivity|]. rewrite A in Hd by reflexivity. discriminate. Qed.

Lemma rep_disconnect_x ex l st st' : Xe ex st -> rep_disconnect l st = Ok st' -> Xe ex st'.
Proof.
  intros Hx. unfold rep_disconnect. destruct (get_rep l st) as [r|] eqn:Hg; [|intro H; inversion H; subst; exact Hx].
  destruct (get_rep_inv _ _ _ Hg) as (sb & Hsb & Hrep). unfold set_rep. rewrite Hsb.
  destruct (r_attached r) eqn:Hatt.
  - destruct l as [s|i n]; [discriminate|].
    destruct (get_sb_node_inv _ _ _ _ Hsb) as (im & nd & Hi & Hf & Hnsb).
    set (r' := r_with_attached false (r_with_valid false r)).
    unfold set_sb. rewrite Hi.
    set (im1 := with_nodes (set_node n (mkSB (Some r') (sb_blocked sb)) (i_nodes im)) im).
    set (st1 := set_impl i im1 st).
    destruct (Xe_get _ _ _ _ Hx Hi) as (A & B).
    assert (Hr0 : sb_rep (n_sb nd) = Some r) by (rewrite Hnsb; exact Hrep).
    assert (Hdet : Forall (node_x true) (i_nodes im1)).
    { cbn [im1 i_nodes with_nodes]. eapply detach_nodes; eauto. }
    assert (Hi1 : aget i (impls st1) = Some im1) by (unfold st1; rewrite aget_set_impl, N.eqb_refl; reflexivity).
    assert (Ho1 : forall j, j <> i -> aget j (impls st1) = aget j (impls st)).
    { intros j Hj. unfold st1. rewrite aget_set_impl. destruct (N.eqb_spec j i); [contradiction|reflexivity]. }
    unfold parent_cleanup. rewrite Hi1.
    destruct (i_dying im1) eqn:Hd.
    + intro H. inversion H; subst st'. apply Xe_set_impl; [exact Hx|]. split; [exact A|].
      assert (Ee : ex i = true) by (apply (ex_of_dying ex i im); [split; assumption|exact Hd]).
      rewrite Ee, orb_true_r. exact Hdet.
    + destruct (N.eqb (i_exec im1) 0).
      * intro H. apply (erase_node_x_gen ex i n st1 st'); [exact (proj1 Hx)| | | |exact H].
        -- intros j imj Hj E. rewrite (Ho1 j Hj) in E. exact (proj2 Hx j imj E).
        -- intros im0 E. rewrite Hi1 in E. inversion E; subst im0. split; [exact A|].
           cbn [im1 i_deferred i_nodes with_nodes]. apply Forall_del_set_node. exact B.
        -- intros sb0 r0 G0 R0. unfold st1 in G0. rewrite get_sb_set_impl_node, N.eqb_refl in G0.
           cbn [im1 i_nodes with_nodes] in G0. rewrite find_node_set_node, nid_eqb_refl, Hf in G0.
           cbn [option_map n_sb] in G0. inversion G0; subst sb0. cbn [sb_rep] in R0. inversion R0; subst r0. reflexivity.
      * intro H. inversion H; subst st'. apply (Xe_set_impl_over ex i _ st1 st); [exact Hx|reflexivity|exact Ho1|].
        split; [exact A|]. cbn [i_deferred with_deferred i_nodes orb]. exact Hdet.
  - intro H. inversion H; subst st'. eapply Xe_set_rep; eauto. cbn. discriminate.
Qed.

Lemma rep_destroy_x ex l st st' : Xe ex st -> rep_destroy l st = Ok st' -> Xe ex st'.
Proof.
  intros Hx. unfold rep_destroy. destruct (get_rep l st) as [r|] eqn:Hg; [|intro H; inversion H; subst; exact Hx].
  destruct (get_rep_inv _ _ _ Hg) as (sb & Hsb & Hrep). unfold set_rep. rewrite Hsb.
  set (st1 := set_sb l _ st).
  assert (Hx1 : Xe ex st1) by (unfold st1; eapply Xe_set_rep; eauto; cbn; discriminate).
  destruct (r_fn r) as [f|].
  - intro H. eapply Xe_lite; [eapply unbind_all_lite; exact H|exact Hx1].
  - intro H. inversion H; subst. exact Hx1.
Qed.

Lemma rep_invalidated_x ex rid st st' : Xe ex st -> rep_invalidated rid st = Ok st' -> Xe ex st'.
Proof.
  intros Hx. unfold rep_invalidated. destruct (find_rep rid st) as [l|]; [|discriminate].
  destruct (rep_disconnect l st) as [st1|] eqn:E1; cbn [rbind]; [|discriminate].
  pose proof (rep_disconnect_x ex l st st1 Hx E1) as Hx1.
  destruct (find_rep rid st1) as [l'|]; [apply rep_destroy_x; exact Hx1|intro H; inversion H; subst; exact Hx1].
Qed.

Lemma track_round_x ex fuel : forall k t st st', Xe ex st -> track_round fuel k t st = Ok st' -> Xe ex st'.
Proof.
  induction fuel as [|fuel IH]; intros k t st st' Hx; cbn [track_round]; [intro H; inversion H; subst; exact Hx|].
  destruct (live_track t st) as [tr|]; [|discriminate].
  destruct (t_list tr) as [l|]; [|intro H; inversion H; subst; exact Hx].
  destruct (nth_error l k) as [[rid f]|]; [|intro H; inversion H; subst; exact Hx].
  destruct f.
  - destruct (rep_invalidated rid st) as [st1|] eqn:E1; cbn [rbind]; [|discriminate].
    apply IH. eapply rep_invalidated_x; eauto.
  - apply IH. exact Hx.
Qed.

Lemma track_notify_x ex t st st' : Xe ex st -> track_notify t st = Ok st' -> Xe ex st'.
Proof.
  intros Hx. unfold track_notify. destruct (live_track t st) as [tr|]; [|intro H; inversion H; subst; exact Hx].
  destruct (t_list tr) as [l|]; [|intro H; inversion H; subst; exact Hx].
  destruct (track_round (length l) 0 t (set_track t (mkTr (Some l) true) st)) as [st2|] eqn:E2; cbn [rbind]; [|discriminate].
  intro H. inversion H; subst. eapply Xe_lite; [apply set_track_lite|].
  eapply track_round_x; [|exact E2]. eapply Xe_lite; [apply set_track_lite|exact Hx].
Qed.

(* ------------------------------------------------------------------ *)
(* slot variable assignments do not touch lists                         *)

Lemma find_rep_var st rid l r : find_rep rid st = Some l -> In r (var_reps st) -> r_id r = rid ->
  exists s, l = LVar s.
Proof.
  unfold find_rep. intros H Hin Hid. destruct (find_in_slots rid (slots st)) as [lc|] eqn:E.
  - inversion H; subst lc. destruct (find_in_slots_sound _ _ _ E) as (s & _ & _ & -> & _). eauto.
  - exfalso. subst rid. exact (find_in_slots_complete _ _ Hin E).
Qed.

Lemma delete_rep_with_check_lite d st st' : WFc st -> delete_rep_with_check (LVar d) st = Ok st' -> lite st st'.
Proof.
  intros Hc. unfold delete_rep_with_check. destruct (get_sb (LVar d) st) as [sb|] eqn:Hd; [|discriminate].
  destruct (sb_rep sb) as [r|] eqn:Hrep; [|intro H; inversion H; apply lite_refl].
  destruct (var_rep_detached _ _ _ _ (wc_struct _ Hc) Hd Hrep) as (Hatt & Hwat).
  unfold rep_disconnect, get_rep, set_rep. rewrite Hd, Hrep, Hatt. cbn [rbind].
  set (r0 := r_with_valid false r). set (st1 := set_sb (LVar d) (mkSB (Some r0) (sb_blocked sb)) st).
  assert (Hc1 : WFc st1).
  { unfold st1. eapply set_sb_benign_ok; eauto; try reflexivity; [discriminate|split; assumption|apply incl_refl]. }
  assert (Hd1 : get_sb (LVar d) st1 = Some (mkSB (Some r0) (sb_blocked sb))) by (unfold st1; eapply get_set_sb_same; eauto).
  destruct (find_rep (r_id r) st1) as [l'|] eqn:Hf; [|intro H; inversion H; subst; apply lite_set_sb_var].
  destruct (find_rep_var st1 (r_id r) l' r0 Hf) as (s' & ->); [exact (get_sb_in_reps _ _ _ _ Hd1 eq_refl)|reflexivity|].
  destruct (get_sb (LVar s') st1) as [sb1|] eqn:G1; [|intro H; inversion H; subst; apply lite_set_sb_var].
  destruct (sb_rep sb1) as [r1|] eqn:G2; [|intro H; inversion H; subst; apply lite_set_sb_var].
  destruct (var_rep_detached _ _ _ _ (wc_struct _ Hc1) G1 G2) as (Hatt1 & _).
  intro H. eapply lite_trans; [apply lite_set_sb_var|]. eapply lite_trans; [apply lite_set_sb_var|].
  eapply rep_delete_lite; eauto.
Qed.

Lemma sb_assign_lite d s st st' : WFc st -> sb_assign d s st = Ok st' -> lite st st'.
Proof.
  intros Hc. unfold sb_assign.
  destruct (get_sb (LVar d) st) as [dst|] eqn:Hd; [|discriminate].
  destruct (get_sb (LVar s) st) as [src|] eqn:Hs; [|discriminate].
  destruct (same_rep src dst); [intro H; inversion H; apply lite_set_sb_var|].
  destruct (sb_empty src); [apply delete_rep_with_check_lite; exact Hc|].
  destruct (sb_rep src) as [r|]; [|intro H; inversion H; apply lite_refl].
  destruct (rep_clone r st) as [[r' st1]|] eqn:E1; cbn [rbind]; [|discriminate].
  pose proof (rep_clone_lite _ _ _ _ E1) as L1.
  destruct (sb_rep dst) as [old|].
  - destruct (rep_delete (r_with_attached false old) st1) as [st2|] eqn:E2; cbn [rbind]; [|discriminate].
    intro H. inversion H; subst. eapply lite_trans; [exact L1|]. eapply lite_trans; [|apply lite_set_sb_var].
    eapply rep_delete_lite; [|exact E2]. reflexivity.
  - cbn [rbind]. intro H. inversion H; subst. eapply lite_trans; [exact L1|apply lite_set_sb_var].
Qed.

Lemma sb_move_assign_lite d s st st' : WFc st -> sb_move_assign d s st = Ok st' -> lite st st'.
Proof.
  intros Hc. unfold sb_move_assign.
  destruct (get_sb (LVar d) st) as [dst|] eqn:Hd; [|discriminate].
  destruct (get_sb (LVar s) st) as [src|] eqn:Hs; [|discriminate].
  destruct (same_rep src dst); [intro H; inversion H; apply lite_set_sb_var|].
  destruct (sb_empty src); [apply delete_rep_with_check_lite; exact Hc|].
  destruct (sb_rep src) as [r|]; [|intro H; inversion H; apply lite_refl].
  assert (Hfirst : forall x, (if r_attached r
            then '(r', st1) <- rep_clone r st;; Ok (r', src, st1)
            else Ok (r_with_watch [] r, sb_none, null_watchers (r_watch r) st)) = Ok x ->
            lite st (snd x)).
  { intros [[a b] c]. destruct (r_attached r).
    - destruct (rep_clone r st) as [[r' st1]|] eqn:E1; cbn [rbind]; [|discriminate].
      intro H. inversion H; subst. cbn [snd]. eapply rep_clone_lite; eauto.
    - intro H. inversion H; subst. cbn [snd]. apply null_watchers_lite. }
  destruct (if r_attached r then _ else _) as [[[newrep src'] st1]|]; cbn [rbind]; [|discriminate].
  pose proof (Hfirst _ eq_refl) as L1. cbn [snd] in L1.
  destruct (sb_rep dst) as [old|].
  - destruct (rep_delete (r_with_attached false old) (set_sb (LVar s) src' st1)) as [st2|] eqn:E2; cbn [rbind]; [|discriminate].
    intro H. injection H as <-. eapply lite_trans; [exact L1|]. eapply lite_trans; [apply lite_set_sb_var|].
    eapply lite_trans; [|apply lite_set_sb_var]. eapply rep_delete_lite; [|exact E2]. reflexivity.
  - cbn [rbind]. intro H. injection H as <-. eapply lite_trans; [exact L1|].
    eapply lite_trans; [apply (lite_set_sb_var s src' st1)|apply lite_set_sb_var].
Qed.

Lemma del_slot_lite s sb st st' : WFc st -> get_sb (LVar s) st = Some sb ->
  sb_delete sb (with_slots (aset s None (slots st)) st) = Ok st' -> lite st st'.
Proof.
  intros Hc Hg. unfold sb_delete. destruct (sb_rep sb) as [r|] eqn:Hr.
  - destruct (var_rep_detached _ _ _ _ (wc_struct _ Hc) Hg Hr) as (Ha & _).
    intro H. eapply lite_trans; [|eapply rep_delete_lite; eauto]. repeat split.
  - intro H. inversion H; subst. repeat split.
Qed.

Lemma rep_delete_impls r st st' : rep_delete r st = Ok st' -> impls st' = impls st /\ sigs st' = sigs st.
Proof.
  unfold rep_delete. set (st0 := if r_attached r then _ else _).
  assert (E0 : impls st0 = impls st /\ sigs st0 = sigs st) by (unfold st0; destruct (r_attached r); split; reflexivity).
  destruct (match r_fn r with Some f => unbind_all (r_id r) (f_refs f) st0 | None => Ok st0 end) as [st1|] eqn:E1; cbn [rbind]; [|discriminate].
  assert (L1 : lite st0 st1).
  { destruct (r_fn r); [eapply unbind_all_lite; eauto|inversion E1; apply lite_refl]. }
  intro H. inversion H; subst.
  destruct (null_watchers_lite (r_watch r) st1) as (A1 & A2 & _). destruct L1 as (B1 & B2 & _).
  destruct E0. split; congruence.
Qed.

Lemma erase_node_lite_impls i n st st' : erase_node i n st = Ok st' ->
  exists im, aget i (impls st) = Some im /\
    impls st' = impls (set_impl i (with_nodes (del_node n (i_nodes im)) im) st) /\ sigs st' = sigs st.
Proof.
  unfold erase_node. destruct (aget i (impls st)) as [im|] eqn:Hi; [|discriminate].
  destruct (find_node n (i_nodes im)) as [nd|] eqn:Hf; [|discriminate].
  intro H. exists im. split; [reflexivity|]. unfold sb_delete in H. destruct (sb_rep (n_sb nd)) as [r|].
  - destruct (rep_delete_impls _ _ _ H) as (A & B). rewrite A, B. split; reflexivity.
  - inversion H; subst. split; reflexivity.
Qed.

(* ------------------------------------------------------------------ *)
(* disconnecting all elements                                           *)

Lemma rep_disconnect_na i n st st' : WFc st -> rep_disconnect (LNode i n) st = Ok st' -> NA i n st'.
Proof.
  intros Hc. unfold rep_disconnect. destruct (get_rep (LNode i n) st) as [r|] eqn:Hg.
  2:{ intro H. inversion H; subst st'. intros sb r G R. unfold get_rep in Hg. rewrite G, R in Hg. discriminate. }
  destruct (get_rep_inv _ _ _ Hg) as (sb & Hsb & Hrep). unfold set_rep. rewrite Hsb.
  destruct (r_attached r) eqn:Hatt.
  - destruct (get_sb_node_inv _ _ _ _ Hsb) as (im & nd & Hi & Hf & Hnsb).
    set (r' := r_with_attached false (r_with_valid false r)).
    set (st1 := set_sb (LNode i n) (mkSB (Some r') (sb_blocked sb)) st).
    assert (G1 : get_sb (LNode i n) st1 = Some (mkSB (Some r') (sb_blocked sb))) by (unfold st1; eapply get_set_sb_same; eauto).
    assert (Hna1 : NA i n st1).
    { intros sb0 r0 G R. rewrite G1 in G. inversion G; subst sb0. cbn [sb_rep] in R. inversion R; subst r0. reflexivity. }
    destruct (get_sb_node_inv _ _ _ _ G1) as (im1 & nd1 & Hi1 & Hf1 & _).
    assert (Hc1 : WFc st1).
    { unfold st1. eapply set_sb_benign_ok; eauto; try reflexivity; [discriminate|apply incl_refl]. }
    unfold parent_cleanup. rewrite Hi1. destruct (i_dying im1); [intro H; inversion H; subst; exact Hna1|].
    destruct (N.eqb (i_exec im1) 0).
    + intro H. destruct (erase_node_lite_impls _ _ _ _ H) as (im0 & Hi0 & Ei & _).
      rewrite Hi1 in Hi0. inversion Hi0; subst im0.
      intros sb0 r0 G R. rewrite (get_sb_node_impls _ _ _ _ Ei), get_sb_set_impl_node, N.eqb_refl in G.
      cbn [i_nodes with_nodes] in G. rewrite find_node_del_same in G; [discriminate|].
      exact (proj1 (ws_nodes _ (wc_struct _ Hc1) i im1 Hi1)).
    + intro H. injection H as <-. intros sb0 r0 G R. apply (Hna1 sb0 r0); [|exact R].
      rewrite get_sb_set_impl_node, N.eqb_refl in G. cbn [i_nodes with_deferred] in G.
      rewrite get_sb_node, Hi1. exact G.
  - set (stx := set_sb (LNode i n) _ st). intro H. inversion H; subst st'. intros sb0 r0 G R. unfold stx in G.
    rewrite (get_set_sb_same _ _ _ _ Hsb) in G. inversion G; subst sb0. cbn [sb_rep] in R. inversion R; subst r0.
    exact Hatt.
Qed.

Lemma disconnect_nodes_xna ex i ids : forall st st', WFc st -> Xe ex st -> disconnect_nodes i ids st = Ok st' ->
  Xe ex st' /\ (forall m, NA i m st -> NA i m st') /\ (forall m, In m ids -> NA i m st').
Proof.
  induction ids as [|n ids IH]; intros st st' Hc Hx; cbn [disconnect_nodes].
  - intro H. inversion H; subst. split; [exact Hx|]. split; [auto|intros m []].
  - destruct (rep_disconnect_ok (LNode i n) st Hc) as (st1 & E1 & W1 & C1 & (O1 & _)).
    rewrite E1. cbn [rbind]. intro H.
    pose proof (rep_disconnect_x ex _ _ _ Hx E1) as Hx1. pose proof (rep_disconnect_na _ _ _ _ Hc E1) as Hn1.
    destruct (IH st1 st' W1 Hx1 H) as (A & B & C).
    assert (Hstep : forall m, NA i m st -> NA i m st1).
    { intros m Hm. destruct (nid_eq_dec m n) as [->|Hne]; [exact Hn1|].
      intros sb r G R. apply (Hm sb r); [|exact R]. rewrite <- (O1 (LNode i m)) by congruence. exact G. }
    split; [exact A|]. split; [intros m Hm; apply B; apply Hstep; exact Hm|].
    intros m [<-|Hin]; [apply B; exact Hn1|apply C; exact Hin].
Qed.

Lemma delete_sbs_lite l : forall st st',
  (forall nd r, In nd l -> sb_rep (n_sb nd) = Some r -> r_attached r = false) ->
  delete_sbs l st = Ok st' -> lite st st'.
Proof.
  induction l as [|x l IH]; intros st st' Hna; cbn [delete_sbs]; [intro H; inversion H; apply lite_refl|].
  destruct (sb_delete (n_sb x) st) as [st1|] eqn:E1; cbn [rbind]; [|discriminate].
  intro H. eapply lite_trans; [|eapply IH; [|exact H]]; [|intros nd r Hin; apply Hna; right; exact Hin].
  unfold sb_delete in E1. destruct (sb_rep (n_sb x)) as [r|] eqn:Hr; [|inversion E1; apply lite_refl].
  eapply rep_delete_lite; [|exact E1]. apply (Hna x r); [left; reflexivity|exact Hr].
Qed.

Lemma NA_all_nodes i st im : WFc st -> aget i (impls st) = Some im -> (forall m, NA i m st) ->
  forall nd r, In nd (i_nodes im) -> sb_rep (n_sb nd) = Some r -> r_attached r = false.
Proof.
  intros Hc Hi Hna nd r Hin Hr. apply (Hna (n_id nd) (n_sb nd) r); [|exact Hr].
  rewrite get_sb_node, Hi. rewrite (find_node_in_nodup _ _ (proj1 (ws_nodes _ (wc_struct _ Hc) i im Hi)) Hin). reflexivity.
Qed.

Lemma NA_absent i m st im : aget i (impls st) = Some im -> ~ In m (ids (i_nodes im)) -> NA i m st.
Proof.
  intros Hi Hn sb r G _. exfalso. apply Hn. eapply get_sb_node_some_in; [exact Hi|]. rewrite G. discriminate.
Qed.

Lemma impl_x_ex_eq ex ex' j im : ex j = ex' j -> impl_x ex j im -> impl_x ex' j im.
Proof. unfold impl_x. intros <-. auto. Qed.

Definition only (i : N) : N -> bool := fun j => N.eqb j i.

Lemma X_only i st : QX st -> Xe (only i) st.
Proof. apply Xe_mono. intros j E. discriminate. Qed.

Lemma destroy_impl_x i st st' : WFc st -> QX st -> destroy_impl i st = Ok st' -> QX st'.
Proof.
  intros Hc Hx. unfold destroy_impl, upd_impl. destruct (aget i (impls st)) as [im|] eqn:Hi; [|discriminate]. cbn [rbind].
  set (im1 := with_exec (i_exec im + 1) (with_dying true im)). set (st1 := set_impl i im1 st).
  assert (Hi1 : aget i (impls st1) = Some im1) by (unfold st1; rewrite aget_set_impl, N.eqb_refl; reflexivity).
  rewrite Hi1.
  assert (Hc1 : WFc st1) by (eapply WFc_set_impl_flags; eauto).
  assert (Hx1 : Xe (only i) st1).
  { apply Xe_set_impl; [apply X_only; exact Hx|]. destruct (Xe_get _ _ _ _ Hx Hi) as (A & B). split.
    - unfold only. rewrite N.eqb_refl. discriminate.
    - cbn [im1 i_deferred i_nodes with_exec with_dying]. eapply Forall_node_x_mono; [|exact B].
      intros _. unfold only. rewrite N.eqb_refl. apply orb_true_r. }
  destruct (disconnect_nodes_ok i (map n_id (i_nodes im1)) st1 Hc1) as (st2 & E2 & W2 & C2 & F2).
  rewrite E2. cbn [rbind].
  destruct (disconnect_nodes_xna (only i) i _ st1 st2 Hc1 Hx1 E2) as (Hx2 & Hk2 & Hn2).
  destruct (Casc_impl_some _ _ _ _ C2 Hi1) as (im2 & Hi2 & _). rewrite Hi2.
  assert (Hna2 : forall m, NA i m st2).
  { intro m. destruct (in_dec nid_eq_dec m (ids (i_nodes im1))) as [Hin|Hnin]; [apply Hn2; exact Hin|].
    apply Hk2. eapply NA_absent; eauto. }
  destruct (delete_sbs (i_nodes im2) (set_impl i (with_nodes [] im2) st2)) as [st4|] eqn:E4; cbn [rbind]; [|discriminate].
  pose proof (delete_sbs_lite _ _ _ (NA_all_nodes i st2 im2 W2 Hi2 Hna2) E4) as (L1 & L2 & L3).
  intro H. inversion H; subst st'. split.
  - cbn [leaked with_impls]. rewrite L3, leaked_set_impl. exact (proj1 Hx2).
  - cbn [impls with_impls]. intros j imj. rewrite L1.
    assert (Hnd : NoDup (akeys (impls (set_impl i (with_nodes [] im2) st2)))).
    { unfold set_impl. cbn [impls with_impls]. apply nodup_keys_aset. exact (ws_keys_impls _ (wc_struct _ W2)). }
    destruct (N.eq_dec j i) as [->|Hne]; [rewrite aget_adel_same by exact Hnd; discriminate|].
    rewrite aget_adel_other by exact Hne. rewrite aget_set_impl. destruct (N.eqb_spec j i); [contradiction|].
    intro E. apply (impl_x_ex_eq (only i)); [|exact (proj2 Hx2 j imj E)].
    unfold only, noex. apply N.eqb_neq. exact Hne.
Qed.

Lemma release_check_wx i st st' : WFc st -> QX st -> release_check i st = Ok st' -> WFc st' /\ QX st'.
Proof.
  intros Hc Hx H. destruct (release_check_ok i st Hc) as (st1 & E & W & _). rewrite H in E. inversion E; subst st1.
  split; [exact W|]. revert H. unfold release_check. destruct (aget i (impls st)) as [im|]; [|intro H; inversion H; subst; exact Hx].
  destruct (N.eqb (refcount i st) 0 && negb (i_dying im)); [apply destroy_impl_x; assumption|intro H; inversion H; subst; exact Hx].
Qed.

(* ------------------------------------------------------------------ *)
(* flag updates, sweep                                                  *)

Lemma upd_impl_wx i f st st' : WFc st -> QX st -> upd_impl i f st = Ok st' ->
  (forall im, i_nodes (f im) = i_nodes im /\ i_deferred (f im) = i_deferred im /\ i_dying (f im) = i_dying im) ->
  WFc st' /\ QX st'.
Proof.
  intros Hc Hx H0 Hf. revert H0. unfold upd_impl. destruct (aget i (impls st)) as [im|] eqn:Hi; [|discriminate].
  intro H. inversion H; subst st'. destruct (Hf im) as (F1 & F2 & F3).
  split; [eapply WFc_set_impl_flags; eauto|]. apply Xe_set_impl; [exact Hx|].
  destruct (Xe_get _ _ _ _ Hx Hi) as (A & B). split; [rewrite F3; exact A|rewrite F1, F2; exact B].
Qed.

Lemma upd_impl_opt_wx i f st st' : WFc st -> QX st -> upd_impl_opt i f st = Ok st' ->
  (forall im, i_nodes (f im) = i_nodes im /\ i_deferred (f im) = i_deferred im /\ i_dying (f im) = i_dying im) ->
  WFc st' /\ QX st'.
Proof.
  intros Hc Hx H0 Hf. revert H0. unfold upd_impl_opt. destruct (aget i (impls st)) as [im|] eqn:Hi.
  - intro H. apply (upd_impl_wx i f st st' Hc Hx); [|exact Hf]. unfold upd_impl. rewrite Hi. exact H.
  - intro H. inversion H; subst. auto.
Qed.

Lemma erase_node_wx ex i n st st' : WFc st -> Xe ex st -> NA i n st -> erase_node i n st = Ok st' -> WFc st' /\ Xe ex st'.
Proof.
  intros Hc Hx Hna H. split; [|eapply erase_node_x; eauto].
  pose proof H as H0. unfold erase_node in H0. destruct (aget i (impls st)) as [im|] eqn:Hi; [|discriminate].
  destruct (find_node n (i_nodes im)) as [nd|] eqn:Hf; [|discriminate].
  destruct (erase_node_ok i n st im nd Hc Hi Hf) as (st1 & E & W & _). rewrite H in E. inversion E; subst. exact W.
Qed.

Lemma sweep_nodes_x ex i ns : forall st st' im, WFc st -> Xe ex st -> aget i (impls st) = Some im -> 0 < i_exec im ->
  NoDup ns -> (forall n, In n ns -> get_sb (LNode i n) st <> None) ->
  sweep_nodes i ns st = Ok st' -> Xe ex st'.
Proof.
  induction ns as [|n ns IH]; intros st st' im Hc Hx Hi Hex Hnd Hall; cbn [sweep_nodes]; [intro H; inversion H; subst; exact Hx|].
  inversion Hnd as [|? ? Hnin Hnd']; subst.
  destruct (get_sb (LNode i n) st) as [sb|] eqn:Hg; [|discriminate].
  destruct (sb_empty sb).
  - destruct (sweep_step_ok i n st im Hc Hi Hex) as (st0 & st1 & im1 & E0 & E1 & W1 & F1 & Hi1 & X1 & X2 & X3 & X4 & X5 & X6).
    { rewrite Hg. discriminate. }
    rewrite E0. cbn [rbind]. rewrite E1. cbn [rbind].
    pose proof (rep_disconnect_x ex _ _ _ Hx E0) as Hx0. pose proof (rep_disconnect_na _ _ _ _ Hc E0) as Hn0.
    pose proof (erase_node_x ex _ _ _ _ Hx0 Hn0 E1) as Hx1.
    apply (IH st1 st' im1 W1 Hx1 Hi1); [lia|exact Hnd'|].
    intros m Hm. rewrite X6; [apply Hall; right; exact Hm|]. intro Z. subst m. contradiction.
  - apply (IH st st' im Hc Hx Hi Hex Hnd'). intros m Hm. apply Hall. right; exact Hm.
Qed.

Lemma sweep_pass_wx i st st' : WFc st -> QX st -> sweep_pass i st = Ok st' -> WFc st' /\ QX st'.
Proof.
  intros Hc Hx H. destruct (aget i (impls st)) as [im|] eqn:Hi.
  2:{ unfold sweep_pass, upd_impl in H. rewrite Hi in H. discriminate. }
  destruct (sweep_pass_ok i im st Hc Hi) as (st1 & im' & E & W & F & Hi' & A1 & A2 & A3 & A4 & A5 & _).
  rewrite H in E. inversion E; subst st1. split; [exact W|].
  (* replay the pass under the exemption of i *)
  assert (Hxe : Xe (only i) st').
  { revert H. unfold sweep_pass, upd_impl. rewrite Hi. cbn [rbind].
    set (im1 := with_deferred false (with_exec (i_exec im + 1) (with_holders (i_holders im + 1) im))).
    set (st1 := set_impl i im1 st).
    assert (Hi1 : aget i (impls st1) = Some im1) by (unfold st1; rewrite aget_set_impl, N.eqb_refl; reflexivity).
    rewrite Hi1.
    assert (Hc1 : WFc st1) by (eapply WFc_set_impl_flags; eauto).
    assert (Hx1 : Xe (only i) st1).
    { apply Xe_set_impl; [apply X_only; exact Hx|]. destruct (Xe_get _ _ _ _ Hx Hi) as (A & B). split.
      - unfold only. rewrite N.eqb_refl. discriminate.
      - cbn [im1 i_deferred i_nodes with_exec with_deferred with_holders]. eapply Forall_node_x_mono; [|exact B].
        intros _. unfold only. rewrite N.eqb_refl. reflexivity. }
    destruct (sweep_nodes i (map n_id (i_nodes im1)) st1) as [st2|] eqn:E2; cbn [rbind]; [|discriminate].
    assert (Hx2 : Xe (only i) st2).
    { apply (sweep_nodes_x (only i) i (map n_id (i_nodes im1)) st1 st2 im1 Hc1 Hx1 Hi1); [|exact (proj1 (ws_nodes _ (wc_struct _ Hc1) i im1 Hi1))| |exact E2].
      - cbn [im1 i_exec with_deferred with_exec]. lia.
      - intros n Hn. rewrite get_sb_node, Hi1. pose proof (in_ids_find _ _ Hn) as Z.
        destruct (find_node n (i_nodes im1)); [discriminate|contradiction]. }
    destruct (aget i (impls st2)) as [im2|] eqn:Hi2; [|discriminate].
    intro H. inversion H; subst st'. apply Xe_set_impl; [exact Hx2|].
    destruct (Xe_get _ _ _ _ Hx2 Hi2) as (A & B). split; [exact A|exact B]. }
  split; [exact (proj1 Hxe)|]. intros j imj Hj. destruct (N.eq_dec j i) as [->|Hne].
  - rewrite Hi' in Hj. inversion Hj; subst imj. destruct (Xe_get _ _ _ _ Hx Hi) as (A & _). split; [intros _; rewrite A3; apply A; reflexivity|].
    destruct (Xe_get _ _ _ _ Hxe Hi') as (_ & B). rewrite Forall_forall in *. intros nd Hin. specialize (B nd Hin).
    assert (G : get_sb (LNode i (n_id nd)) st' = Some (n_sb nd)).
    { rewrite get_sb_node, Hi'. rewrite (find_node_in_nodup _ _ (proj1 (ws_nodes _ (wc_struct _ W) i im' Hi')) Hin). reflexivity. }
    pose proof (A5 _ _ G) as Hemp. unfold sb_empty in Hemp. unfold node_x in *.
    destruct (sb_rep (n_sb nd)) as [r|]; [|discriminate].
    destruct B as (B1 & [B2|(_ & B3)]); [split; [exact B1|left; exact B2]|].
    rewrite B3 in Hemp. discriminate.
  - apply (impl_x_ex_eq (only i)); [|exact (proj2 Hxe j imj Hj)]. unfold only, noex. apply N.eqb_neq. exact Hne.
Qed.

Ltac flag_side := intro; repeat split.
Ltac okinv H := match type of H with Ok ?a = Ok ?b => assert (b = a) as -> by congruence; clear H end.

Lemma sweep_wx i st st' : WFc st -> QX st -> sweep i st = Ok st' -> WFc st' /\ QX st'.
Proof.
  intros Hc Hx. unfold sweep.
  destruct (sweep_pass i st) as [st1|] eqn:E1; cbn [rbind]; [|discriminate].
  destruct (sweep_pass_wx i st st1 Hc Hx E1) as (W1 & X1).
  assert (Hmid : forall st2, match aget i (impls st1) with
         | Some im =>
             if N.eqb (i_exec im) 0 && i_deferred im
             then st2 <- sweep_pass i st1;;
                  st3 <- upd_impl i (fun im0 => with_holders (i_holders im0 - 1) im0) st2;;
                  release_check i st3
             else Ok st1
         | None => Err ErrUAF
         end = Ok st2 -> WFc st2 /\ QX st2).
  { intros st2. destruct (aget i (impls st1)) as [im1|]; [|discriminate].
    destruct (N.eqb (i_exec im1) 0 && i_deferred im1); [|intro H; inversion H; subst; auto].
    destruct (sweep_pass i st1) as [sta|] eqn:Ea; cbn [rbind]; [|discriminate].
    destruct (sweep_pass_wx i st1 sta W1 X1 Ea) as (Wa & Xa).
    destruct (upd_impl i (fun im0 => with_holders (i_holders im0 - 1) im0) sta) as [stb|] eqn:Eb; cbn [rbind]; [|discriminate].
    destruct (upd_impl_wx i _ sta stb Wa Xa Eb) as (Wb & Xb); [flag_side|].
    apply release_check_wx; assumption. }
  destruct (match aget i (impls st1) with Some _ => _ | None => _ end) as [st2|]; cbn [rbind]; [|discriminate].
  destruct (Hmid st2 eq_refl) as (W2 & X2).
  destruct (upd_impl_opt i (fun im0 => with_holders (i_holders im0 - 1) im0) st2) as [st3|] eqn:E3; cbn [rbind]; [|discriminate].
  destruct (upd_impl_opt_wx i _ st2 st3 W2 X2 E3) as (W3 & X3); [flag_side|].
  apply release_check_wx; assumption.
Qed.

Lemma unreference_exec_wx i st st' : WFc st -> QX st -> unreference_exec i st = Ok st' -> WFc st' /\ QX st'.
Proof.
  intros Hc Hx. unfold unreference_exec.
  destruct (upd_impl i (fun im => with_exec (i_exec im - 1) im) st) as [st1|] eqn:E1; cbn [rbind]; [|discriminate].
  destruct (upd_impl_wx i _ st st1 Hc Hx E1) as (W1 & X1); [flag_side|].
  destruct (aget i (impls st1)) as [im|]; [|discriminate].
  destruct (N.eqb (i_exec im) 0 && i_deferred im); [apply sweep_wx; assumption|intro H; inversion H; subst; auto].
Qed.

Lemma impl_clear_x i st st' : WFc st -> QX st -> impl_clear i st = Ok st' -> QX st'.
Proof.
  intros Hc Hx. unfold impl_clear. destruct (aget i (impls st)) as [im|] eqn:Hi; [|discriminate].
  set (im1 := with_exec (i_exec im + 1) im). set (st1 := set_impl i im1 st).
  assert (Hi1 : aget i (impls st1) = Some im1) by (unfold st1; rewrite aget_set_impl, N.eqb_refl; reflexivity).
  assert (Hc1 : WFc st1) by (eapply WFc_set_impl_flags; eauto).
  assert (Hx1 : QX st1).
  { apply Xe_set_impl; [exact Hx|]. exact (Xe_get _ _ _ _ Hx Hi). }
  destruct (disconnect_nodes_ok i (map n_id (i_nodes im)) st1 Hc1) as (st2 & E2 & W2 & C2 & F2).
  rewrite E2. cbn [rbind].
  destruct (disconnect_nodes_xna noex i _ st1 st2 Hc1 Hx1 E2) as (Hx2 & Hk2 & Hn2).
  destruct (Casc_impl_some _ _ _ _ C2 Hi1) as (im2 & Hi2 & _).
  destruct (negb (N.eqb (i_exec im) 0)).
  - cbn [rbind]. intro H. exact (proj2 (unreference_exec_wx i st2 st' W2 Hx2 H)).
  - rewrite Hi2.
    set (imc := with_nodes [] (with_deferred (i_deferred im) im2)).
    destruct (clear_nodes_ok i im2 imc st2 W2 Hi2 eq_refl) as (st3 & E3 & W3 & H3 & T3).
    rewrite E3. cbn [rbind].
    assert (Hna2 : forall m, NA i m st2).
    { intro m. destruct (in_dec nid_eq_dec m (ids (i_nodes im1))) as [Hin|Hnin]; [apply Hn2; exact Hin|].
      apply Hk2. eapply NA_absent; eauto. }
    pose proof (delete_sbs_lite _ _ _ (NA_all_nodes i st2 im2 W2 Hi2 Hna2) E3) as L3.
    assert (Hx3 : QX st3).
    { eapply Xe_lite; [exact L3|]. apply Xe_set_impl; [exact Hx2|].
      destruct (Xe_get _ _ _ _ Hx2 Hi2) as (A & _). split; [exact A|constructor]. }
    intro H. exact (proj2 (unreference_exec_wx i st3 st' W3 Hx3 H)).
Qed.

(* ------------------------------------------------------------------ *)
(* insert, frames, blocking                                             *)

Lemma impl_insert_x i front sb st n st' : QX st -> impl_insert i front sb st = Ok (n, st') -> QX st'.
Proof.
  intros Hx. unfold impl_insert. destruct (aget i (impls st)) as [im|] eqn:Hi; [|discriminate].
  set (st1 := with_next_nid (next_nid st + 1) st).
  destruct (Xe_get _ _ _ _ Hx Hi) as (A & B).
  assert (Hgen : forall r st2, leaked st2 = leaked st -> impls st2 = impls st -> r_attached r = true ->
     QX (set_impl i (with_nodes (if front then mkNode (Real (next_nid st)) (mkSB (Some r) (sb_blocked sb)) :: i_nodes im
                               else i_nodes im ++ [mkNode (Real (next_nid st)) (mkSB (Some r) (sb_blocked sb))]) im) st2)).
  { intros r st2 El Ei Ha. apply (Xe_set_impl_over noex i _ st2 st Hx El); [intros j _; rewrite Ei; reflexivity|].
    split; [exact A|]. cbn [i_deferred i_nodes with_nodes].
    assert (Hn : node_x (i_deferred im || noex i) (mkNode (Real (next_nid st)) (mkSB (Some r) (sb_blocked sb)))).
    { unfold node_x. cbn [n_sb n_id sb_rep nid_is_ph]. split; [reflexivity|left; exact Ha]. }
    destruct front; [constructor; assumption|apply Forall_app; split; [exact B|constructor; [exact Hn|constructor]]]. }
  destruct (sb_rep sb) as [r|]; intro H; inversion H; subst; apply Hgen; reflexivity.
Qed.

Lemma frame_enter_x i st first ph k st1 : QX st -> frame_enter i st = Ok (first, ph, k, st1) -> QX st1.
Proof.
  intros Hx. unfold frame_enter. destruct (aget i (impls st)) as [im|] eqn:Hi; [|discriminate].
  intro H. inversion H; subst. destruct (Xe_get _ _ _ _ Hx Hi) as (A & B).
  apply (Xe_set_impl_over noex i _ _ st Hx); [reflexivity|reflexivity|].
  split; [exact A|]. cbn [i_deferred i_nodes with_nodes with_exec with_holders].
  apply Forall_app. split; [exact B|]. constructor; [reflexivity|constructor].
Qed.

Lemma NA_ph ex i ph st : Xe ex st -> nid_is_ph ph = true -> NA i ph st.
Proof.
  intros Hx Hph sb r G R. exfalso. destruct (get_sb_node_inv _ _ _ _ G) as (im & nd & Hi & Hf & Hsb).
  destruct (Xe_get _ _ _ _ Hx Hi) as (_ & B). pose proof (Forall_find_node _ _ _ B Hf) as Z.
  unfold node_x in Z. rewrite Hsb, R in Z. rewrite (proj2 (find_node_in _ _ _ Hf)), Hph in Z. destruct Z; discriminate.
Qed.

Lemma frame_leave_wx i ph st st' : WFc st -> QX st -> nid_is_ph ph = true -> frame_leave i ph st = Ok st' -> WFc st' /\ QX st'.
Proof.
  intros Hc Hx Hph. unfold frame_leave.
  destruct (erase_node i ph st) as [st1|] eqn:E1; cbn [rbind]; [|discriminate].
  destruct (erase_node_wx noex i ph st st1 Hc Hx (NA_ph _ _ _ _ Hx Hph) E1) as (W1 & X1).
  destruct (unreference_exec i st1) as [st2|] eqn:E2; cbn [rbind]; [|discriminate].
  destruct (unreference_exec_wx i st1 st2 W1 X1 E2) as (W2 & X2).
  destruct (upd_impl i (fun im => with_holders (i_holders im - 1) im) st2) as [st3|] eqn:E3; cbn [rbind]; [|discriminate].
  destruct (upd_impl_wx i _ st2 st3 W2 X2 E3) as (W3 & X3); [flag_side|].
  apply release_check_wx; assumption.
Qed.

Lemma block_all_x i b st st' : QX st ->
  upd_impl i (fun im => with_nodes (map (fun x => mkNode (n_id x) (mkSB (sb_rep (n_sb x)) b)) (i_nodes im)) im) st = Ok st' -> QX st'.
Proof.
  intros Hx. unfold upd_impl. destruct (aget i (impls st)) as [im|] eqn:Hi; [|discriminate].
  intro H. inversion H; subst. apply Xe_set_impl; [exact Hx|]. destruct (Xe_get _ _ _ _ Hx Hi) as (A & B).
  split; [exact A|]. cbn [i_deferred i_nodes with_nodes]. rewrite Forall_map. eapply Forall_impl; [|exact B].
  intros nd Z. exact Z.
Qed.

(* ------------------------------------------------------------------ *)
(* connections                                                          *)

Lemma watch_add_x ex p w st st' : Xe ex st -> watch_add p w st = Ok st' -> Xe ex st'.
Proof.
  intros Hx. unfold watch_add. destruct p as [[i n]|]; [|intro H; inversion H; subst; exact Hx].
  destruct (get_sb (LNode i n) st) as [sb|] eqn:G; [|discriminate].
  destruct (sb_rep sb) as [r|] eqn:R; intro H; okinv H; [|exact Hx].
  eapply Xe_set_rep; eauto.
Qed.

Lemma watch_remove_x ex p w st st' : Xe ex st -> watch_remove p w st = Ok st' -> Xe ex st'.
Proof.
  intros Hx. unfold watch_remove. destruct p as [[i n]|]; [|intro H; inversion H; subst; exact Hx].
  destruct (get_sb (LNode i n) st) as [sb|] eqn:G; [|discriminate].
  destruct (sb_rep sb) as [r|] eqn:R; intro H; okinv H; [|exact Hx].
  eapply Xe_set_rep; eauto.
Qed.

Lemma conn_set_x ex w p st st' : Xe ex st -> conn_set w p st = Ok st' -> Xe ex st'.
Proof.
  intros Hx. unfold conn_set. destruct (get_connptr w st) as [old|]; [|discriminate].
  destruct (watch_remove old w st) as [st1|] eqn:E1; cbn [rbind]; [|discriminate].
  destruct (watch_add p w (set_connptr w p st1)) as [st2|] eqn:E2; cbn [rbind]; [|discriminate].
  intro H. inversion H; subst. eapply watch_add_x; [|exact E2].
  eapply Xe_lite; [apply set_connptr_lite|]. eapply watch_remove_x; eauto.
Qed.

Lemma conn_disconnect_x ex p st st' : Xe ex st -> conn_disconnect p st = Ok st' -> Xe ex st'.
Proof.
  intros Hx. unfold conn_disconnect. destruct (conn_target p st) as [t|]; cbn [rbind]; [|discriminate].
  destruct t as [[l sb]|]; [apply rep_disconnect_x; exact Hx|intro H; inversion H; subst; exact Hx].
Qed.

(* ------------------------------------------------------------------ *)
(* reference counts                                                     *)

Definition sigref (i : N) (o : option sigobj) : bool :=
  match o with
  | Some g => match g_impl g with Some j => N.eqb i j | None => false end
  | None => false
  end.
Definition sigcount (i : N) (l : list (N * option sigobj)) : N := count_if (fun '(_, o) => sigref i o) l.
Definition hold (i : N) (st : state) : N := match aget i (impls st) with Some im => i_holders im | None => 0 end.
Definition b2n (b : bool) : N := if b then 1 else 0.

Lemma refcount_split i st : refcount i st = sigcount i (sigs st) + hold i st.
Proof. reflexivity. Qed.

Lemma count_if_cons {A} (p : A -> bool) x l : count_if p (x :: l) = b2n (p x) + count_if p l.
Proof.
  unfold count_if, b2n. cbn [filter]. destruct (p x); cbn [length]; [rewrite Nat2N.inj_succ; lia|reflexivity].
Qed.

Lemma sigcount_aset i g o l :
  sigcount i (aset g o l) + b2n (sigref i (match aget g l with Some o0 => o0 | None => None end)) =
  sigcount i l + b2n (sigref i o).
Proof.
  unfold sigcount. induction l as [|[k v] l IH]; cbn [aset aget].
  - rewrite !count_if_cons. cbn [sigref b2n]. unfold count_if. cbn. lia.
  - destruct (N.eqb g k).
    + rewrite !count_if_cons. lia.
    + rewrite !count_if_cons. lia.
Qed.

Lemma sigcount_pos i g o l : aget g l = Some o -> sigref i o = true -> 0 < sigcount i l.
Proof.
  unfold sigcount. induction l as [|[k v] l IH]; cbn [aget]; [discriminate|].
  rewrite count_if_cons. destruct (N.eqb g k).
  - intros E R. inversion E; subst v. rewrite R. cbn [b2n]. lia.
  - intros E R. specialize (IH E R). lia.
Qed.

Definition OwnP (P : N -> Prop) (st : state) : Prop :=
  forall j im, P j -> aget j (impls st) = Some im -> 0 < refcount j st.
Definition OwnX (i : N) : state -> Prop := OwnP (fun j => j <> i).

Lemma Own_OwnP P st : Own st -> OwnP P st.
Proof. intros H j im _. apply H. Qed.

Lemma OwnP_Own st : OwnP (fun _ => True) st -> Own st.
Proof. intros H j im. apply H. exact I. Qed.

Lemma OwnP_weaken (P Q : N -> Prop) st : (forall j, Q j -> P j) -> OwnP P st -> OwnP Q st.
Proof. intros Hq H j im Qj. apply H. auto. Qed.

Lemma OwnP_frame (P : N -> Prop) st st' : sigs st' = sigs st ->
  (forall j, P j -> aget j (impls st') = aget j (impls st)) -> OwnP P st -> OwnP P st'.
Proof.
  intros Es Ei H j im Pj Hj. rewrite (Ei j Pj) in Hj. rewrite (refcount_eq j st st' Es); [eapply H; eauto|].
  rewrite (Ei j Pj), Hj. reflexivity.
Qed.

Lemma OwnX_FrameI i st st' : FrameI i st st' -> OwnX i st -> OwnX i st'.
Proof. intros F. apply OwnP_frame; [exact (fi_sigs _ _ _ F)|]. intros j Hj. apply (fi_others _ _ _ F). exact Hj. Qed.

Lemma OwnP_aset_sig (P : N -> Prop) g o st : OwnP P st ->
  (forall j, P j -> sigref j (match aget g (sigs st) with Some o0 => o0 | None => None end) = true -> sigref j o = true) ->
  OwnP P (with_sigs (aset g o (sigs st)) st).
Proof.
  intros H Hr j im Pj Hj. cbn [impls with_sigs] in Hj. specialize (H j im Pj Hj). specialize (Hr j Pj).
  rewrite refcount_split in *. cbn [sigs with_sigs]. unfold hold in *. cbn [impls with_sigs].
  pose proof (sigcount_aset j g o (sigs st)) as Z.
  destruct (sigref j (match aget g (sigs st) with Some o0 => o0 | None => None end)).
  - rewrite Hr in Z by reflexivity. lia.
  - cbn [b2n] in Z. lia.
Qed.

Lemma Own_of_X_pos b st : OwnX b st -> (forall im, aget b (impls st) = Some im -> 0 < refcount b st) -> Own st.
Proof. intros H Hb j im Hj. destruct (N.eq_dec j b) as [->|Hne]; [eapply Hb; eauto|eapply H; eauto]. Qed.

Lemma refcount_sig_pos j g go st : live_sig g st = Some go -> g_impl go = Some j -> 0 < refcount j st.
Proof.
  intros Hl Hg. rewrite refcount_split. unfold live_sig in Hl. destruct (aget g (sigs st)) as [[x|]|] eqn:E; try discriminate.
  inversion Hl; subst x. pose proof (sigcount_pos j g (Some go) (sigs st) E) as Z. cbn [sigref] in Z. rewrite Hg, N.eqb_refl in Z.
  specialize (Z eq_refl). lia.
Qed.

Lemma Own_set_impl_holders i im im' st : Own st -> aget i (impls st) = Some im -> i_holders im <= i_holders im' ->
  Own (set_impl i im' st).
Proof.
  intros H Hi Hh j imj Hj. rewrite aget_set_impl in Hj. rewrite refcount_split. cbn [sigs set_impl with_impls].
  unfold hold. rewrite aget_set_impl. destruct (N.eqb_spec j i) as [->|Hne].
  - specialize (H i im Hi). rewrite refcount_split in H. unfold hold in H. rewrite Hi in H. lia.
  - specialize (H j imj Hj). rewrite refcount_split in H. unfold hold in H. exact H.
Qed.

Lemma OwnX_set_impl i im' st : OwnX i st -> OwnX i (set_impl i im' st).
Proof.
  apply OwnP_frame; [reflexivity|]. intros j Hj. rewrite aget_set_impl. destruct (N.eqb_spec j i); [contradiction|reflexivity].
Qed.

(* ------------------------------------------------------------------ *)
(* release_check restores ownership                                     *)

Lemma release_check_own i st st' : WFc st -> QX st -> OwnX i st -> release_check i st = Ok st' -> Own st'.
Proof.
  intros Hc Hx Ho. unfold release_check. destruct (aget i (impls st)) as [im|] eqn:Hi.
  2:{ intro H. inversion H; subst. intros j imj Hj. apply (Ho j imj); [|exact Hj]. intro Z. subst j. congruence. }
  destruct (N.eqb_spec (refcount i st) 0) as [Hz|Hnz]; cbn [andb].
  - destruct (Xe_get _ _ _ _ Hx Hi) as (A & _). rewrite (A eq_refl). cbn [negb].
    destruct (destroy_impl_ok i im st Hc Hi (proj1 (refcount_zero i st Hz))) as (st1 & E & W & F & N0).
    rewrite E. intro H. inversion H; subst st1. pose proof (OwnX_FrameI _ _ _ F Ho) as Ho'.
    intros j imj Hj. apply (Ho' j imj); [|exact Hj]. intro Z. subst j. congruence.
  - intro H. inversion H; subst. apply (Own_of_X_pos i); [exact Ho|]. intros _ _. lia.
Qed.

Lemma upd_impl_frame i f st st' : upd_impl i f st = Ok st' -> FrameI i st st'.
Proof. unfold upd_impl. destruct (aget i (impls st)); [|discriminate]. intro H. inversion H. apply FrameI_set_impl. Qed.

Lemma upd_impl_opt_frame i f st st' : upd_impl_opt i f st = Ok st' -> FrameI i st st'.
Proof. unfold upd_impl_opt. destruct (aget i (impls st)); intro H; inversion H; [apply FrameI_set_impl|apply FrameI_refl]. Qed.

Lemma sweep_pass_frame i st st' : WFc st -> sweep_pass i st = Ok st' -> FrameI i st st'.
Proof.
  intros Hc H. destruct (aget i (impls st)) as [im|] eqn:Hi.
  2:{ unfold sweep_pass, upd_impl in H. rewrite Hi in H. discriminate. }
  destruct (sweep_pass_ok i im st Hc Hi) as (st1 & im' & E & W & F & _). rewrite H in E. inversion E; subst. exact F.
Qed.

Lemma release_check_frame i st st' : WFc st -> release_check i st = Ok st' -> FrameI i st st'.
Proof. intros Hc H. destruct (release_check_ok i st Hc) as (st1 & E & _ & F & _). rewrite H in E. inversion E; subst. exact F. Qed.

Lemma sweep_own i st st' : WFc st -> QX st -> OwnX i st -> sweep i st = Ok st' -> Own st'.
Proof.
  intros Hc Hx Ho. unfold sweep.
  destruct (sweep_pass i st) as [st1|] eqn:E1; cbn [rbind]; [|discriminate].
  destruct (sweep_pass_wx i st st1 Hc Hx E1) as (W1 & X1).
  pose proof (OwnX_FrameI _ _ _ (sweep_pass_frame _ _ _ Hc E1) Ho) as O1.
  assert (Hmid : forall st2, match aget i (impls st1) with
         | Some im =>
             if N.eqb (i_exec im) 0 && i_deferred im
             then st2 <- sweep_pass i st1;;
                  st3 <- upd_impl i (fun im0 => with_holders (i_holders im0 - 1) im0) st2;;
                  release_check i st3
             else Ok st1
         | None => Err ErrUAF
         end = Ok st2 -> WFc st2 /\ QX st2 /\ OwnX i st2).
  { intros st2. destruct (aget i (impls st1)) as [im1|]; [|discriminate].
    destruct (N.eqb (i_exec im1) 0 && i_deferred im1); [|intro H; inversion H; subst; auto].
    destruct (sweep_pass i st1) as [sta|] eqn:Ea; cbn [rbind]; [|discriminate].
    destruct (sweep_pass_wx i st1 sta W1 X1 Ea) as (Wa & Xa).
    pose proof (OwnX_FrameI _ _ _ (sweep_pass_frame _ _ _ W1 Ea) O1) as Oa.
    destruct (upd_impl i (fun im0 => with_holders (i_holders im0 - 1) im0) sta) as [stb|] eqn:Eb; cbn [rbind]; [|discriminate].
    destruct (upd_impl_wx i _ sta stb Wa Xa Eb) as (Wb & Xb); [flag_side|].
    pose proof (OwnX_FrameI _ _ _ (upd_impl_frame _ _ _ _ Eb) Oa) as Ob.
    intro H. destruct (release_check_wx i stb st2 Wb Xb H) as (W2 & X2). split; [exact W2|]. split; [exact X2|].
    apply Own_OwnP. exact (release_check_own i stb st2 Wb Xb Ob H). }
  destruct (match aget i (impls st1) with Some _ => _ | None => _ end) as [st2|]; cbn [rbind]; [|discriminate].
  destruct (Hmid st2 eq_refl) as (W2 & X2 & O2).
  destruct (upd_impl_opt i (fun im0 => with_holders (i_holders im0 - 1) im0) st2) as [st3|] eqn:E3; cbn [rbind]; [|discriminate].
  destruct (upd_impl_opt_wx i _ st2 st3 W2 X2 E3) as (W3 & X3); [flag_side|].
  pose proof (OwnX_FrameI _ _ _ (upd_impl_opt_frame _ _ _ _ E3) O2) as O3.
  apply release_check_own; assumption.
Qed.

Lemma unreference_exec_own i st st' : WFc st -> QX st -> Own st -> unreference_exec i st = Ok st' -> Own st'.
Proof.
  intros Hc Hx Ho. unfold unreference_exec.
  destruct (upd_impl i (fun im => with_exec (i_exec im - 1) im) st) as [st1|] eqn:E1; cbn [rbind]; [|discriminate].
  destruct (upd_impl_wx i _ st st1 Hc Hx E1) as (W1 & X1); [flag_side|].
  assert (O1 : Own st1).
  { revert E1. unfold upd_impl. destruct (aget i (impls st)) as [im|] eqn:Hi; [|discriminate].
    intro H. inversion H; subst. eapply Own_set_impl_holders; eauto. cbn [i_holders with_exec]. lia. }
  destruct (aget i (impls st1)) as [im|]; [|discriminate].
  destruct (N.eqb (i_exec im) 0 && i_deferred im); [|intro H; inversion H; subst; auto].
  apply sweep_own; [exact W1|exact X1|apply Own_OwnP; exact O1].
Qed.

Lemma erase_node_own i n st st' : Own st -> erase_node i n st = Ok st' -> Own st'.
Proof.
  intros Ho H. destruct (erase_node_lite_impls _ _ _ _ H) as (im & Hi & Ei & Es).
  pose proof (Own_set_impl_holders i im (with_nodes (del_node n (i_nodes im)) im) st Ho Hi) as Z.
  intros j imj Hj. rewrite Ei in Hj. rewrite (refcount_eq j (set_impl i (with_nodes (del_node n (i_nodes im)) im) st) st').
  - eapply Z; [cbn [i_holders with_nodes]; lia|exact Hj].
  - rewrite Es. reflexivity.
  - rewrite Ei, Hj. reflexivity.
Qed.

Lemma frame_leave_own i ph st st' : WFc st -> QX st -> Own st -> nid_is_ph ph = true -> frame_leave i ph st = Ok st' -> Own st'.
Proof.
  intros Hc Hx Ho Hph. unfold frame_leave.
  destruct (erase_node i ph st) as [st1|] eqn:E1; cbn [rbind]; [|discriminate].
  destruct (erase_node_wx noex i ph st st1 Hc Hx (NA_ph _ _ _ _ Hx Hph) E1) as (W1 & X1).
  pose proof (erase_node_own _ _ _ _ Ho E1) as O1.
  destruct (unreference_exec i st1) as [st2|] eqn:E2; cbn [rbind]; [|discriminate].
  destruct (unreference_exec_wx i st1 st2 W1 X1 E2) as (W2 & X2).
  pose proof (unreference_exec_own _ _ _ W1 X1 O1 E2) as O2.
  destruct (upd_impl i (fun im => with_holders (i_holders im - 1) im) st2) as [st3|] eqn:E3; cbn [rbind]; [|discriminate].
  destruct (upd_impl_wx i _ st2 st3 W2 X2 E3) as (W3 & X3); [flag_side|].
  pose proof (OwnX_FrameI _ _ _ (upd_impl_frame _ _ _ _ E3) (Own_OwnP _ _ O2)) as O3.
  apply release_check_own; assumption.
Qed.

Lemma frame_enter_own i st first ph k st1 : Own st -> frame_enter i st = Ok (first, ph, k, st1) -> Own st1.
Proof.
  intros Ho. unfold frame_enter. destruct (aget i (impls st)) as [im|] eqn:Hi; [|discriminate].
  intro H. inversion H; subst.
  match goal with |- Own (set_impl i ?im' ?s) => apply (Own_set_impl_holders i im im' s) end.
  - intros j imj Hj. apply (Ho j imj Hj).
  - exact Hi.
  - cbn [i_holders with_nodes with_exec with_holders]. lia.
Qed.

(* ------------------------------------------------------------------ *)
(* The interpreter preserves QY                                          *)

Definition out_y {A} (o : outcome A) : Prop :=
  match o with Done st' _ => QY st' | Thrown st' => QY st' | Fail _ => True end.
Definition out_wy {A} (o : outcome A) : Prop :=
  match o with Done st' _ => WF st' /\ QY st' | Thrown st' => WF st' /\ QY st' | Fail _ => True end.

Lemma out_wy_of {A} st (o : outcome A) : out_ok st o -> out_y o -> out_wy o.
Proof. destruct o; cbn; intros [W _] Hy; auto. Qed.

Lemma lite_emit_ev e st : lite st (emit_ev e st).
Proof. repeat split. Qed.

Lemma Y_ev e st : QY st -> QY (emit_ev e st).
Proof. apply Y_lite. apply lite_emit_ev. Qed.

Lemma Y_Casc st st' : Casc st st' -> QX st' -> QY st -> QY st'.
Proof. intros C Hx (_ & Ho). split; [exact Hx|eapply Own_Casc; eauto]. Qed.

Lemma liftu_y r : (forall st', r = Ok st' -> QY st') -> out_y (liftu r).
Proof. intro H. destruct r; cbn; auto. Qed.

Lemma track_notify_y t st st' : WF st -> QY st -> track_notify t st = Ok st' -> QY st'.
Proof.
  intros H Hy E. destruct (track_notify_ok t st (wf_c _ H) (wf_noclear _ H)) as (st1 & E1 & _ & C & _).
  rewrite E in E1. inversion E1; subst st1. apply (Y_Casc st); [exact C| |exact Hy].
  eapply track_notify_x; [exact (proj1 Hy)|exact E].
Qed.

Lemma rep_disconnect_y l st st' : WFc st -> QY st -> rep_disconnect l st = Ok st' -> QY st'.
Proof.
  intros Hc Hy E. destruct (rep_disconnect_ok l st Hc) as (st1 & E1 & _ & C & _).
  rewrite E in E1. inversion E1; subst st1. apply (Y_Casc st); [exact C| |exact Hy].
  eapply rep_disconnect_x; [exact (proj1 Hy)|exact E].
Qed.

Lemma watch_add_Casc p w st st' : watch_add p w st = Ok st' -> Casc st st'.
Proof.
  unfold watch_add. destruct p as [[i n]|]; [|intro H; inversion H; apply Casc_refl].
  destruct (get_sb (LNode i n) st) as [sb|]; [|discriminate].
  destruct (sb_rep sb); intro H; okinv H; [apply Casc_set_sb|apply Casc_refl].
Qed.

Lemma watch_remove_Casc p w st st' : watch_remove p w st = Ok st' -> Casc st st'.
Proof.
  unfold watch_remove. destruct p as [[i n]|]; [|intro H; inversion H; apply Casc_refl].
  destruct (get_sb (LNode i n) st) as [sb|]; [|discriminate].
  destruct (sb_rep sb); intro H; okinv H; [apply Casc_set_sb|apply Casc_refl].
Qed.

Lemma watch_add_y p w st st' : QY st -> watch_add p w st = Ok st' -> QY st'.
Proof. intros Hy E. apply (Y_Casc st); [eapply watch_add_Casc; eauto|eapply watch_add_x; [exact (proj1 Hy)|exact E]|exact Hy]. Qed.

Lemma watch_remove_y p w st st' : QY st -> watch_remove p w st = Ok st' -> QY st'.
Proof. intros Hy E. apply (Y_Casc st); [eapply watch_remove_Casc; eauto|eapply watch_remove_x; [exact (proj1 Hy)|exact E]|exact Hy]. Qed.

(* destruction of a connection object (OCDel, and the collection of a shared one) *)
Lemma conn_destroy_y c p st st1 : QY st -> watch_remove p (WC c) st = Ok st1 ->
  QY (with_conns (aset c None (conns st1)) st1).
Proof. intros Hy E1. eapply Y_lite; [|eapply watch_remove_y; eauto]. repeat split. Qed.

Lemma conn_set_y w p st st' : QY st -> conn_set w p st = Ok st' -> QY st'.
Proof.
  intros Hy. unfold conn_set. destruct (get_connptr w st) as [old|]; [|discriminate].
  destruct (watch_remove old w st) as [st1|] eqn:E1; cbn [rbind]; [|discriminate].
  destruct (watch_add p w (set_connptr w p st1)) as [st2|] eqn:E2; cbn [rbind]; [|discriminate].
  intro H. inversion H; subst. eapply watch_add_y; [|exact E2].
  eapply Y_lite; [apply set_connptr_lite|]. eapply watch_remove_y; eauto.
Qed.

Lemma conn_disconnect_y p st st' : WFc st -> QY st -> conn_disconnect p st = Ok st' -> QY st'.
Proof.
  intros Hc Hy. unfold conn_disconnect. destruct (conn_target p st) as [t|]; cbn [rbind]; [|discriminate].
  destruct t as [[l sb]|]; [apply rep_disconnect_y; assumption|intro H; inversion H; subst; exact Hy].
Qed.

Lemma set_conn_y w p st st' : QY st -> watch_add p w (set_connptr w p st) = Ok st' -> QY st'.
Proof. intros Hy. apply watch_add_y. eapply Y_lite; [apply set_connptr_lite|exact Hy]. Qed.

Lemma Y_set_blocked l sb b st : QY st -> get_sb l st = Some sb -> QY (set_sb l (mkSB (sb_rep sb) b) st).
Proof. intros Hy G. apply (Y_Casc st); [apply Casc_set_sb|apply Xe_set_blocked; [exact (proj1 Hy)|exact G]|exact Hy]. Qed.

Lemma impl_insert_own i front sb st n st' : Own st -> impl_insert i front sb st = Ok (n, st') -> Own st'.
Proof.
  intros Ho. unfold impl_insert. destruct (aget i (impls st)) as [im|] eqn:Hi; [|discriminate].
  assert (Hgen : forall st2 im', lite st st2 -> i_holders im' = i_holders im -> Own (set_impl i im' st2)).
  { intros st2 im' L Hh. apply (Own_set_impl_holders i im); [eapply Own_lite; eauto|rewrite (proj1 L); exact Hi|lia]. }
  destruct (sb_rep sb) as [r|]; intro H; inversion H; subst; apply Hgen; try reflexivity; repeat split.
Qed.

Section Quiesce.
  Variable prog : program.
  Variable rec : callee -> state -> outcome N.
  Hypothesis rec_ok : forall c st, WF st -> out_ok st (rec c st).
  Hypothesis rec_y : forall c st, WF st -> QY st -> out_y (rec c st).

  Lemma invoke_functor_y f arg st : WF st -> QY st -> out_y (invoke_functor rec f arg st).
  Proof.
    intros H Hy. unfold invoke_functor. destruct (f_fwd f) as [g|]; [apply rec_y; assumption|].
    pose proof (rec_y (CScript (f_body f) arg) _ (WF_ev st (EEnter (f_body f) arg) H) (Y_ev _ _ Hy)) as Z.
    destruct (rec (CScript (f_body f) arg) (emit_ev (EEnter (f_body f) arg) st)); cbn [out_y] in *; try apply Y_ev; exact Z.
  Qed.

  Lemma invoke_at_y l arg st : WF st -> QY st -> out_y (invoke_at rec l arg st).
  Proof.
    intros H Hy. unfold invoke_at. destruct (get_rep l st) as [r|]; [|exact I].
    destruct (r_fn r); [apply invoke_functor_y; assumption|exact I].
  Qed.

  Lemma invoke_at_wy l arg st sb : WF st -> QY st -> get_sb l st = Some sb -> sb_empty sb = false ->
    out_wy (invoke_at rec l arg st).
  Proof.
    intros H Hy G E. eapply out_wy_of; [eapply (invoke_at_ok rec rec_ok); eauto|apply invoke_at_y; assumption].
  Qed.

  Lemma with_frame_y {A} i (body : nid -> nid -> nat -> state -> outcome A) st :
    WF st -> QY st ->
    (forall first ph n st1, WF st1 -> QY st1 -> out_wy (body first ph n st1)) ->
    out_y (with_frame i body st).
  Proof.
    intros H Hy Hbody. unfold with_frame.
    destruct (frame_enter i st) as [[[[first ph] n] st1]|] eqn:E; [|exact I].
    destruct (aget i (impls st)) as [im|] eqn:Hi; [|unfold frame_enter in E; rewrite Hi in E; discriminate].
    destruct (frame_enter_ok i im st H Hi) as (first' & ph' & st1' & im1 & E' & W1 & Fr & _).
    rewrite E in E'. inversion E'; subst first' ph' st1' n. clear E'.
    assert (Hy1 : QY st1).
    { split; [eapply frame_enter_x; [exact (proj1 Hy)|exact E]|eapply frame_enter_own; [exact (proj2 Hy)|exact E]]. }
    pose proof (fr_isph _ _ _ _ _ _ Fr) as Hph.
    specialize (Hbody first ph (length (i_nodes im1)) st1 W1 Hy1).
    assert (Hleave : forall st2, WF st2 -> QY st2 -> forall st3, frame_leave i ph st2 = Ok st3 -> QY st3).
    { intros st2 W2 (X2 & O2) st3 E3. split.
      - exact (proj2 (frame_leave_wx i ph st2 st3 (wf_c _ W2) X2 Hph E3)).
      - exact (frame_leave_own i ph st2 st3 (wf_c _ W2) X2 O2 Hph E3). }
    destruct (body first ph (length (i_nodes im1)) st1) as [st2 v|st2|e]; cbn [out_wy] in Hbody; [| |exact I].
    - destruct Hbody as (W2 & Y2). destruct (frame_leave i ph st2) as [st3|] eqn:E3; cbn [lift out_y]; [|exact I].
      exact (Hleave st2 W2 Y2 st3 E3).
    - destruct Hbody as (W2 & Y2). destruct (frame_leave i ph st2) as [st3|] eqn:E3; cbn [out_y]; [|exact I].
      exact (Hleave st2 W2 Y2 st3 E3).
  Qed.

  Lemma emit_loop_wy i ph arg : forall fuel cur last st, WF st -> QY st ->
    out_wy (emit_loop rec fuel i cur ph arg last st).
  Proof.
    induction fuel as [|fuel IH]; intros cur last st H Hy; cbn [emit_loop].
    - destruct (nid_eqb cur ph); cbn [out_wy]; auto.
    - destruct (nid_eqb cur ph); [cbn [out_wy]; auto|].
      destruct (get_sb (LNode i cur) st) as [sb|] eqn:Hsb; [|exact I].
      assert (Hcont : forall st1 last1, WF st1 -> QY st1 ->
                out_wy (match node_next i cur st1 with
                        | Err e => Fail e
                        | Ok None => Fail ErrDangling
                        | Ok (Some nx) => emit_loop rec fuel i nx ph arg last1 st1
                        end)).
      { intros st1 last1 W1 Y1. destruct (node_next i cur st1) as [[nx|]|]; try exact I. apply IH; assumption. }
      destruct (sb_empty sb || sb_blocked sb) eqn:Hskip; [apply Hcont; assumption|].
      apply orb_false_elim in Hskip. destruct Hskip as [Hemp _].
      pose proof (invoke_at_wy (LNode i cur) arg st sb H Hy Hsb Hemp) as Z.
      destruct (invoke_at rec (LNode i cur) arg st) as [st1 v|st1|e]; cbn [out_wy] in Z; [|exact Z|exact I].
      apply Hcont; tauto.
  Qed.

  Lemma cur_deref_wy i arg c st : WF st -> QY st -> out_wy (cur_deref rec i arg c st).
  Proof.
    intros H Hy. unfold cur_deref. destruct (get_sb (LNode i (c_pos c)) st) as [sb|] eqn:Hsb; [|exact I].
    destruct (negb (sb_empty sb) && negb (sb_blocked sb) && negb (c_invoked c)) eqn:Hc; [|cbn [out_wy]; auto].
    apply andb_true_iff in Hc. destruct Hc as [Hc _]. apply andb_true_iff in Hc. destruct Hc as [Hc _].
    apply negb_true_iff in Hc.
    pose proof (invoke_at_wy (LNode i (c_pos c)) arg st sb H Hy Hsb Hc) as Z.
    destruct (invoke_at rec (LNode i (c_pos c)) arg st); exact Z.
  Qed.

  Lemma acc_walk_wy i arg lastpos z : forall fuel c a st, WF st -> QY st ->
    out_wy (acc_walk rec fuel i arg lastpos z c a st).
  Proof.
    induction fuel as [|fuel IH]; intros c a st H Hy; cbn [acc_walk].
    - destruct (nid_eqb (c_pos c) lastpos); cbn [out_wy]; auto.
    - destruct (nid_eqb (c_pos c) lastpos); [cbn [out_wy]; auto|].
      pose proof (cur_deref_wy i arg c st H Hy) as Z.
      destruct (cur_deref rec i arg c st) as [st1 c1|st1|e]; cbn [out_wy] in Z; [|exact Z|exact I].
      destruct (cur_inc i c1 st1) as [c2|]; [|exact I].
      destruct (match z with Some zz => N.ltb zz (c_buf c1) | None => false end); [exact Z|].
      apply IH; tauto.
  Qed.

  Lemma acc_walk_rev_wy i arg firstpos : forall fuel c a st, WF st -> QY st ->
    out_wy (acc_walk_rev rec fuel i arg firstpos c a st).
  Proof.
    induction fuel as [|fuel IH]; intros c a st H Hy; cbn [acc_walk_rev].
    - destruct (nid_eqb (c_pos c) firstpos); cbn [out_wy]; auto.
    - destruct (nid_eqb (c_pos c) firstpos); [cbn [out_wy]; auto|].
      destruct (cur_dec i c st) as [c1|]; [|exact I].
      pose proof (cur_deref_wy i arg c1 st H Hy) as Z.
      destruct (cur_deref rec i arg c1 st) as [st1 c2|st1|e]; cbn [out_wy] in Z; [|exact Z|exact I].
      apply IH; tauto.
  Qed.

  Lemma acc_run_wy n i arg fc lc : forall ops cs a st, WF st -> QY st ->
    out_wy (acc_run rec n i arg fc lc ops cs a st).
  Proof.
    induction ops as [|o ops IH]; intros cs a st H Hy; cbn [acc_run]; [cbn [out_wy]; auto|].
    destruct o as [k j|k|k|k|k|k|k z].
    - destruct (writable k); apply IH; assumption.
    - destruct (writable k && _); [|apply IH; assumption].
      destruct (cur_inc i _ st); [apply IH; assumption|exact I].
    - destruct (writable k && _); [|apply IH; assumption].
      destruct (cur_dec i _ st); [apply IH; assumption|exact I].
    - destruct (writable k && _); [|apply IH; assumption].
      match goal with |- out_wy (match cur_deref rec i arg ?c st with _ => _ end) =>
        pose proof (cur_deref_wy i arg c st H Hy) as Z; destruct (cur_deref rec i arg c st) as [st1 c1|st1|e] end;
        cbn [out_wy] in Z; [|exact Z|exact I].
      apply IH; tauto.
    - destruct (writable k); [|apply IH; assumption].
      match goal with |- out_wy (match acc_walk rec n i arg ?lp ?z ?c a st with _ => _ end) =>
        pose proof (acc_walk_wy i arg lp z n c a st H Hy) as Z; destruct (acc_walk rec n i arg lp z c a st) as [st1 [c1 a1]|st1|e] end;
        cbn [out_wy] in Z; [|exact Z|exact I].
      apply IH; tauto.
    - destruct (writable k); [|apply IH; assumption].
      match goal with |- out_wy (match acc_walk_rev rec n i arg ?fp ?c a st with _ => _ end) =>
        pose proof (acc_walk_rev_wy i arg fp n c a st H Hy) as Z; destruct (acc_walk_rev rec n i arg fp c a st) as [st1 [c1 a1]|st1|e] end;
        cbn [out_wy] in Z; [|exact Z|exact I].
      apply IH; tauto.
    - destruct (writable k); [|apply IH; assumption].
      match goal with |- out_wy (match acc_walk rec n i arg ?lp ?z ?c a st with _ => _ end) =>
        pose proof (acc_walk_wy i arg lp z n c a st H Hy) as Z; destruct (acc_walk rec n i arg lp z c a st) as [st1 [c1 a1]|st1|e] end;
        cbn [out_wy] in Z; [|exact Z|exact I].
      apply IH; tauto.
  Qed.

  Lemma emit_sig_y g arg st : WF st -> QY st -> out_y (emit_sig prog rec g arg st).
  Proof.
    intros H Hy. unfold emit_sig. destruct (live_sig g st) as [go|]; [|exact I].
    destruct (gk_acc (g_kind go)) as [acc|].
    - destruct (g_impl go) as [i|].
      + apply with_frame_y; [exact H|exact Hy|]. intros first ph k st1 W1 Y1. apply acc_run_wy; assumption.
      + destruct (acc_run_noimpl rec arg (match aget acc (p_accs prog) with Some l => l | None => [] end) [] 0 st) as (a' & E).
        { intros k c Z. discriminate. }
        rewrite E. exact Hy.
    - destruct (g_impl go) as [i|]; [|exact Hy].
      destruct (aget i (impls st)) as [im|]; [|exact I].
      destruct (i_nodes im); [exact Hy|].
      apply with_frame_y; [exact H|exact Hy|]. intros first ph k st1 W1 Y1. apply emit_loop_wy; assumption.
  Qed.
End Quiesce.

(* ------------------------------------------------------------------ *)
(* the table of signal objects                                          *)

Lemma X_with_sigs v st : QX st -> QX (with_sigs v st).
Proof. intros (L & H). split; [exact L|exact H]. Qed.

Definition oldsig (g : N) (st : state) : option sigobj :=
  match aget g (sigs st) with Some o0 => o0 | None => None end.

Lemma OwnP_add_pos (P : N -> Prop) b st : OwnP (fun j => P j /\ j <> b) st ->
  (forall im, aget b (impls st) = Some im -> 0 < refcount b st) -> OwnP P st.
Proof.
  intros H Hb j im Pj Hj. destruct (N.eq_dec j b) as [->|Hne]; [eapply Hb; eauto|]. apply (H j im); auto.
Qed.

Lemma Y_aset_sig g o st : QY st -> (forall j, sigref j (oldsig g st) = true -> sigref j o = true) ->
  QY (with_sigs (aset g o (sigs st)) st).
Proof.
  intros (Hx & Ho) Hr. split; [apply X_with_sigs; exact Hx|]. apply OwnP_Own.
  apply OwnP_aset_sig; [apply Own_OwnP; exact Ho|]. intros j _. apply Hr.
Qed.

Lemma live_sig_old g st go : live_sig g st = Some go -> oldsig g st = Some go.
Proof. unfold live_sig, oldsig. destruct (aget g (sigs st)) as [[x|]|]; congruence. Qed.

Lemma fresh_old g st : aget g (sigs st) = None -> oldsig g st = None.
Proof. unfold oldsig. intros ->. reflexivity. Qed.

Lemma ensure_impl_y g go st i st1 : QY st -> live_sig g st = Some go -> ensure_impl g go st = (i, st1) -> QY st1.
Proof.
  intros (Hx & Ho) Hl. unfold ensure_impl. destruct (g_impl go) as [i0|] eqn:Hgi; [intro H; inversion H; subst; split; assumption|].
  intro H. inversion H; subst i st1. clear H.
  set (i0 := next_iid st). set (st2 := set_impl i0 (mkImpl [] 0 false 0 false) (with_next_iid (i0 + 1) st)).
  split.
  - apply X_with_sigs. apply Xe_set_impl; [eapply Xe_lite; [|exact Hx]; repeat split|].
    split; [reflexivity|constructor].
  - apply (Own_of_X_pos i0).
    + apply (OwnP_aset_sig _ g _ st2).
      * apply (OwnP_frame _ st st2); [reflexivity| |apply Own_OwnP; exact Ho].
        intros j Hj. unfold st2. rewrite aget_set_impl. destruct (N.eqb_spec j i0); [contradiction|reflexivity].
      * intros j _. change (sigs st2) with (sigs st). fold (oldsig g st). rewrite (live_sig_old _ _ _ Hl).
        cbn [sigref]. rewrite Hgi. discriminate.
    + intros im _. apply (refcount_sig_pos i0 g (mkSig (g_kind go) (Some i0))); [|reflexivity].
      change (sigs st) with (sigs st2). rewrite (live_sig_aset g g _ st2), N.eqb_refl. reflexivity.
Qed.

Lemma new_slot_var_lite s rk sb st : lite st (new_slot_var s rk sb st).
Proof. repeat split. Qed.

Lemma conn_target_inv p st l sb : conn_target p st = Ok (Some (l, sb)) -> get_sb l st = Some sb.
Proof.
  unfold conn_target. destruct p as [[i n]|]; [|discriminate].
  destruct (get_sb (LNode i n) st) as [sb0|] eqn:G; [|discriminate]. intro H. inversion H; subst. exact G.
Qed.

Section QStep.
  Variable prog : program.
  Variable rec : callee -> state -> outcome N.
  Hypothesis rec_ok : forall c st, WF st -> out_ok st (rec c st).
  Hypothesis rec_y : forall c st, WF st -> QY st -> out_y (rec c st).

  Lemma skip_y st : QY st -> out_y (skip st).
  Proof. intro Hy. unfold skip. cbn [out_y]. apply Y_ev. exact Hy. Qed.

  Lemma conn_query_y p st : QY st -> out_y (conn_query p st).
  Proof.
    intro Hy. unfold conn_query. destruct (conn_target p st) as [[[l sb]|]|]; cbn [out_y]; try apply Y_ev; auto.
  Qed.

  Lemma conn_block_y p b st : QY st -> out_y (conn_block p b st).
  Proof.
    intro Hy. unfold conn_block. destruct (conn_target p st) as [[[l sb]|]|] eqn:E; cbn [out_y]; try apply Y_ev; auto.
    apply Y_set_blocked; [exact Hy|]. eapply conn_target_inv; eauto.
  Qed.

  Lemma step_track_y o st : WF st -> QY st ->
    match o with
    | OTNew _ | OTDel _ | OTAssign _ _ | OTMoveAssign _ _ | OTNotify _ | OTNewShared _ | OTRelease _ =>
        out_y (step prog rec o st)
    | _ => True
    end.
  Proof.
    intros H Hy. destruct o as [t|t|td ts|td ts|t|t|t|s rk body refs|s rk|sn so|sn so|sd ss|sd ss|s arg catch|s b|s|s|s|g k|gn go|gn go|gd gs|gd gs|g|g|g|g s c front mv|g arg catch|g|g b|g|s g|c|cn co|cd cs|c|c b|c|c|c|c|k c|k|k c|kn ko|kd ks|k1 k2|k c|k|k b|k|k| | ]; try exact I; cbn [step].
    - destruct (fresh_track t st && N.ltb t 1000); [|apply skip_y; exact Hy].
      cbn [out_y]. eapply Y_lite; [|exact Hy]. repeat split.
    - destruct (live_track t st); [|apply skip_y; exact Hy].
      destruct (N.ltb t 1000 && negb (is_shared t st)); [|apply skip_y; exact Hy].
      apply liftu_y. intros st' E. destruct (track_notify t st) as [st1|] eqn:E1; cbn [rbind] in E; [|discriminate].
      inversion E; subst st'. eapply Y_lite; [|eapply track_notify_y; eauto]. repeat split.
    - destruct (prog_track td st); [|apply skip_y; exact Hy].
      destruct (prog_track ts st); [|apply skip_y; exact Hy].
      destruct (N.eqb td ts); [exact Hy|]. apply liftu_y. intros st' E. eapply track_notify_y; eauto.
    - destruct (prog_track td st); [|apply skip_y; exact Hy].
      destruct (prog_track ts st); [|apply skip_y; exact Hy].
      destruct (N.eqb td ts); [exact Hy|]. apply liftu_y. intros st' E.
      destruct (track_notify_G td st H) as (st1 & E1 & G1 & _). rewrite E1 in E. cbn [rbind] in E.
      eapply track_notify_y; [exact (proj1 G1)| |exact E]. eapply track_notify_y; eauto.
    - destruct (prog_track t st); [|apply skip_y; exact Hy].
      apply liftu_y. intros st' E. eapply track_notify_y; eauto.
    - destruct (fresh_track t st && N.ltb t 1000); [|apply skip_y; exact Hy].
      cbn [out_y]. eapply Y_lite; [|exact Hy]. repeat split.
    - destruct (live_track t st); [|apply skip_y; exact Hy].
      destruct (is_shared t st && negb (is_released t st)); [|apply skip_y; exact Hy].
      cbn [out_y]. eapply Y_lite; [|exact Hy]. repeat split.
  Qed.

  Lemma step_slot_y o st : WF st -> QY st ->
    match o with
    | OSNew _ _ _ _ | OSEmpty _ _ | OSCopy _ _ | OSMove _ _ | OSAssign _ _ | OSMoveAssign _ _
    | OSCall _ _ _ | OSBlock _ _ | OSDisc _ | OSDel _ | OSQuery _ => out_y (step prog rec o st)
    | _ => True
    end.
  Proof.
    intros H Hy. pose proof (wf_c _ H) as Hc. destruct o as [t|t|td ts|td ts|t|t|t|s rk body refs|s rk|sn so|sn so|sd ss|sd ss|s arg catch|s b|s|s|s|g k|gn go|gn go|gd gs|gd gs|g|g|g|g s c front mv|g arg catch|g|g b|g|s g|c|cn co|cd cs|c|c b|c|c|c|c|k c|k|k c|kn ko|kd ks|k1 k2|k c|k|k b|k|k| | ]; try exact I; cbn [step].
    - (* OSNew *)
      destruct (fresh_slot s st && _ && _); [|apply skip_y; exact Hy].
      destruct (bind_all (next_rid st) refs (with_next_rid (next_rid st + 1) st)) as [st2|] eqn:E; [|exact I].
      cbn [out_y]. eapply Y_lite; [|exact Hy]. eapply lite_trans; [|apply new_slot_var_lite].
      eapply lite_trans; [|eapply bind_all_lite; eauto]. repeat split.
    - (* OSEmpty *)
      destruct (fresh_slot s st); [|apply skip_y; exact Hy]. cbn [out_y]. eapply Y_lite; [apply new_slot_var_lite|exact Hy].
    - (* OSCopy *)
      destruct (live_slot so st) as [src|]; [|apply skip_y; exact Hy].
      destruct (fresh_slot sn st); [|apply skip_y; exact Hy].
      destruct (sb_copy src st) as [[sb st1]|] eqn:E; [|exact I].
      cbn [out_y]. eapply Y_lite; [|exact Hy]. eapply lite_trans; [eapply sb_copy_lite; eauto|apply new_slot_var_lite].
    - (* OSMove *)
      destruct (live_slot so st) as [src|]; [|apply skip_y; exact Hy].
      destruct (fresh_slot sn st); [|apply skip_y; exact Hy].
      destruct (sb_move src st) as [[[sb src'] st1]|] eqn:E; [|exact I].
      cbn [out_y]. eapply Y_lite; [|exact Hy]. eapply lite_trans; [eapply sb_move_lite; eauto|].
      eapply lite_trans; [apply (lite_set_sb_var so src' st1)|apply new_slot_var_lite].
    - (* OSAssign *)
      destruct (live_slot sd st); [|apply skip_y; exact Hy].
      destruct (live_slot ss st); [|apply skip_y; exact Hy].
      destruct (rkind_eqb _ _); [|apply skip_y; exact Hy].
      apply liftu_y. intros st' E. eapply Y_lite; [eapply sb_assign_lite; eauto|exact Hy].
    - (* OSMoveAssign *)
      destruct (live_slot sd st); [|apply skip_y; exact Hy].
      destruct (live_slot ss st); [|apply skip_y; exact Hy].
      destruct (rkind_eqb _ _); [|apply skip_y; exact Hy].
      apply liftu_y. intros st' E. eapply Y_lite; [eapply sb_move_assign_lite; eauto|exact Hy].
    - (* OSCall *)
      destruct (live_slot s st) as [sb|]; [|apply skip_y; exact Hy].
      destruct (negb (sb_empty sb) && negb (sb_blocked sb)); [|cbn [out_y]; apply Y_ev; exact Hy].
      pose proof (invoke_at_y rec rec_y (LVar s) arg st H Hy) as Z.
      destruct (invoke_at rec (LVar s) arg st) as [st1 v|st1|e]; cbn [out_y] in *; [apply Y_ev; exact Z| |exact I].
      destruct catch; cbn [out_y]; [apply Y_ev|]; exact Z.
    - (* OSBlock *)
      destruct (live_slot s st) as [sb|]; [|apply skip_y; exact Hy].
      cbn [out_y]. apply Y_ev. eapply Y_lite; [apply lite_set_sb_var|exact Hy].
    - (* OSDisc *)
      destruct (live_slot s st); [|apply skip_y; exact Hy].
      apply liftu_y. intros st' E. eapply rep_disconnect_y; eauto.
    - (* OSDel *)
      unfold live_slot. destruct (get_sb (LVar s) st) as [sb|] eqn:Hsb; [|apply skip_y; exact Hy].
      apply liftu_y. intros st' E. eapply Y_lite; [eapply del_slot_lite; eauto|exact Hy].
    - (* OSQuery *)
      destruct (live_slot s st); [|apply skip_y; exact Hy]. cbn [out_y]. apply Y_ev. exact Hy.
  Qed.
End QStep.

Lemma release_check_y i st st' : WFc st -> QX st -> OwnX i st -> release_check i st = Ok st' -> QY st'.
Proof.
  intros Hc Hx Ho E. split; [exact (proj2 (release_check_wx i st st' Hc Hx E))|eapply release_check_own; eauto].
Qed.

Lemma sigref_some j go : sigref j (Some go) = true -> g_impl go = Some j.
Proof. cbn [sigref]. destruct (g_impl go) as [k|]; [|discriminate]. intro Z. apply N.eqb_eq in Z. congruence. Qed.

Section QStep2.
  Variable prog : program.
  Variable rec : callee -> state -> outcome N.
  Hypothesis rec_ok : forall c st, WF st -> out_ok st (rec c st).
  Hypothesis rec_y : forall c st, WF st -> QY st -> out_y (rec c st).

  Lemma sig_destroy_y g go st st' : WF st -> QY st -> live_sig g st = Some go ->
    sig_destroy g go st = Ok st' -> QY st'.
  Proof.
    intros H Hy Hl E. unfold sig_destroy in E.
    assert (Hmid : exists st1, (if gk_track (g_kind go)
                    then st1 <- track_notify (trackable_of_sig g) st ;;
                         Ok (with_tracks (aset (trackable_of_sig g) None (tracks st1)) st1)
                    else Ok st) = Ok st1 /\ Guar st (with_sigs (aset g None (sigs st1)) st1) /\ QY st1 /\ sigs st1 = sigs st).
    { destruct (gk_track (g_kind go)) eqn:Hk.
      - destruct (track_notify_G (trackable_of_sig g) st H) as (sta & E1 & G & C & D). rewrite E1. cbn [rbind].
        eexists. split; [reflexivity|]. split; [|split].
        + eapply Guar_trans; [exact G|].
          assert (Hla : live_sig g sta = Some go) by (unfold live_sig; rewrite (ca_sigs _ _ C); exact Hl).
          pose proof (del_sig_G g go sta (proj1 G) Hla (fun _ => D)) as Z. rewrite Hk in Z. exact Z.
        + eapply Y_lite; [|eapply track_notify_y; eauto]. repeat split.
        + cbn [sigs with_tracks]. exact (ca_sigs _ _ C).
      - eexists. split; [reflexivity|]. split; [|split; [exact Hy|reflexivity]].
        pose proof (del_sig_G g go st H Hl) as Z. rewrite Hk in Z. apply Z. discriminate. }
    destruct Hmid as (st1 & E1 & G2 & Y1 & Es). rewrite E1 in E. cbn [rbind] in E.
    assert (Hl1 : live_sig g st1 = Some go) by (unfold live_sig; rewrite Es; exact Hl).
    set (st2 := with_sigs (aset g None (sigs st1)) st1) in *.
    assert (X2 : QX st2) by (apply X_with_sigs; exact (proj1 Y1)).
    destruct (g_impl go) as [i|] eqn:Hgi.
    + apply (release_check_y i st2 st' (wf_c _ (proj1 G2)) X2); [|exact E].
      apply OwnP_aset_sig; [apply Own_OwnP; exact (proj2 Y1)|].
      intros j Hj. fold (oldsig g st1). rewrite (live_sig_old _ _ _ Hl1). intro Z. apply sigref_some in Z. congruence.
    + inversion E; subst st'. split; [exact X2|]. apply OwnP_Own.
      apply OwnP_aset_sig; [apply Own_OwnP; exact (proj2 Y1)|].
      intros j _. fold (oldsig g st1). rewrite (live_sig_old _ _ _ Hl1). intro Z. apply sigref_some in Z. congruence.
  Qed.

  Lemma step_sig_y o st : WF st -> QY st ->
    match o with
    | OGNew _ _ | OGCopy _ _ | OGMove _ _ | OGAssign _ _ | OGMoveAssign _ _ | OGShare _ | OGRelease _ | OGDel _
    | OGEmit _ _ _ | OGClear _ | OGBlock _ _ | OGQuery _ | OGMakeSlot _ _ => out_y (step prog rec o st)
    | _ => True
    end.
  Proof.
    intros H Hy. pose proof (wf_c _ H) as Hc. destruct o as [t|t|td ts|td ts|t|t|t|s rk body refs|s rk|sn so|sn so|sd ss|sd ss|s arg catch|s b|s|s|s|g k|gn go|gn go|gd gs|gd gs|g|g|g|g s c front mv|g arg catch|g|g b|g|s g|c|cn co|cd cs|c|c b|c|c|c|c|k c|k|k c|kn ko|kd ks|k1 k2|k c|k|k b|k|k| | ]; try exact I; cbn [step].
    - (* OGNew *)
      unfold fresh_sig. destruct (aget g (sigs st)) eqn:Hf; cbn [andb]; [apply skip_y; exact Hy|].
      destruct (negb (gk_track k) || fresh_track (trackable_of_sig g) st); [|apply skip_y; exact Hy].
      cbn [out_y].
      assert (Y1 : QY (with_sigs (aset g (Some (mkSig k None)) (sigs st)) st)).
      { apply Y_aset_sig; [exact Hy|]. intros j. rewrite (fresh_old _ _ Hf). discriminate. }
      destruct (gk_track k); [eapply Y_lite; [|exact Y1]; repeat split|exact Y1].
    - (* OGCopy *)
      destruct (live_sig go st) as [src|] eqn:Hl; [|apply skip_y; exact Hy].
      unfold fresh_sig. destruct (aget gn (sigs st)) eqn:Hf; [apply skip_y; exact Hy|].
      destruct (ensure_impl_G go src st H Hl) as (i & st1 & E & G & P & L & Ho & _). rewrite E.
      pose proof (ensure_impl_y _ _ _ _ _ Hy Hl E) as Y1. cbn [out_y].
      assert (Y2 : QY (with_sigs (aset gn (Some (mkSig (g_kind src) (Some i))) (sigs st1)) st1)).
      { apply Y_aset_sig; [exact Y1|]. intros j. rewrite fresh_old; [discriminate|].
        rewrite Ho; [exact Hf|]. exact (fresh_sig_other st src go gn Hl Hf). }
      destruct (gk_track (g_kind src)); [eapply Y_lite; [|exact Y2]; repeat split|exact Y2].
    - (* OGMove *)
      destruct (live_sig go st) as [src|] eqn:Hl; [|apply skip_y; exact Hy].
      unfold fresh_sig. destruct (aget gn (sigs st)) eqn:Hf; cbn [andb]; [apply skip_y; exact Hy|].
      destruct (match gk_acc (g_kind src) with Some _ => false | None => true end); [|apply skip_y; exact Hy].
      pose proof (fresh_sig_other _ _ _ _ Hl Hf) as Hne.
      set (sta := with_sigs (aset go (Some (mkSig (g_kind src) None)) (sigs st)) st).
      assert (Ga : Guar st sta) by (apply (upd_sig_G go src None st H Hl); intros i Z; discriminate).
      assert (Gb : Guar sta (add_sig gn (g_kind src) (g_impl src) sta)).
      { apply (add_sig_G gn (g_kind src) (g_impl src) sta (proj1 Ga)).
        - cbn [sta sigs with_sigs]. rewrite aget_aset_other by exact Hne. exact Hf.
        - intros i Z. cbn [sta impls with_sigs]. eapply live_sig_impl_present; eauto. }
      assert (Gab : Guar st (add_sig gn (g_kind src) (g_impl src) sta)) by (eapply Guar_trans; eauto).
      unfold add_sig in Gab. cbn [sta] in Gab.
      assert (Hfa : aget gn (sigs sta) = None).
      { cbn [sta sigs with_sigs]. rewrite aget_aset_other by exact Hne. exact Hf. }
      assert (Y1 : QY (with_sigs (aset gn (Some (mkSig (g_kind src) (g_impl src))) (sigs sta)) sta)).
      { split; [apply X_with_sigs; apply X_with_sigs; exact (proj1 Hy)|].
        destruct (g_impl src) as [b|] eqn:Hb.
        - apply (Own_of_X_pos b).
          + apply OwnP_aset_sig.
            * apply OwnP_aset_sig; [apply Own_OwnP; exact (proj2 Hy)|].
              intros j Hj. fold (oldsig go st). rewrite (live_sig_old _ _ _ Hl). intro Z. apply sigref_some in Z. congruence.
            * intros j _. fold (oldsig gn sta). rewrite (fresh_old _ _ Hfa). discriminate.
          + intros im _. apply (refcount_sig_pos b gn (mkSig (g_kind src) (Some b))); [|reflexivity].
            rewrite (live_sig_aset gn gn _ sta), N.eqb_refl. reflexivity.
        - apply OwnP_Own. apply OwnP_aset_sig.
          + apply OwnP_aset_sig; [apply Own_OwnP; exact (proj2 Hy)|].
            intros j _. fold (oldsig go st). rewrite (live_sig_old _ _ _ Hl). intro Z. apply sigref_some in Z. congruence.
          + intros j _. fold (oldsig gn sta). rewrite (fresh_old _ _ Hfa). discriminate. }
      cbn [sta sigs with_sigs] in Y1.
      destruct (gk_track (g_kind src)).
      + match goal with |- out_y (liftu (track_notify ?t ?s)) =>
          assert (Ws : WF s) by exact (proj1 Gab);
          assert (Ys : QY s) by (eapply Y_lite; [|exact Y1]; repeat split)
        end.
        apply liftu_y. intros st' E. eapply track_notify_y; eauto.
      + cbn [out_y]. eapply Y_lite; [|exact Y1]. repeat split.
    - (* OGAssign *)
      destruct (live_sig gd st) as [dst|] eqn:Hld; [|apply skip_y; exact Hy].
      destruct (live_sig gs st) as [src|] eqn:Hls; [|apply skip_y; exact Hy].
      destruct (same_gkind (g_kind dst) (g_kind src)); [|apply skip_y; exact Hy].
      destruct (match g_impl dst with Some a => match g_impl src with Some b => N.eqb a b | None => false end | None => false end);
        [exact Hy|].
      destruct (ensure_impl_G gs src st H Hls) as (i & st1 & E & G & P & L & Ho & _). rewrite E.
      pose proof (ensure_impl_y _ _ _ _ _ Hy Hls E) as Y1.
      assert (Hld1 : exists dst1, live_sig gd st1 = Some dst1 /\ g_kind dst1 = g_kind dst /\
                                  (g_impl dst1 = g_impl dst \/ g_impl dst1 = Some i)).
      { destruct (N.eq_dec gd gs) as [->|Hne].
        - rewrite Hld in Hls. inversion Hls; subst src. eexists. split; [exact L|]. split; [reflexivity|right; reflexivity].
        - exists dst. split; [|split; [reflexivity|left; reflexivity]]. unfold live_sig. rewrite (Ho gd Hne). exact Hld. }
      destruct Hld1 as (dst1 & Hld1 & Hk1 & Himp1).
      pose proof (upd_sig_G gd dst1 (Some i) st1 (proj1 G) Hld1) as G2. rewrite Hk1 in G2.
      assert (G2' : Guar st1 (with_sigs (aset gd (Some (mkSig (g_kind dst) (Some i))) (sigs st1)) st1)).
      { apply G2. intros j Z. inversion Z; subst j. exact P. }
      set (st2 := with_sigs (aset gd (Some (mkSig (g_kind dst) (Some i))) (sigs st1)) st1) in *.
      assert (X2 : QX st2) by (apply X_with_sigs; exact (proj1 Y1)).
      destruct (g_impl dst) as [old|] eqn:Hold.
      + apply liftu_y. intros st' E'. apply (release_check_y old st2 st' (wf_c _ (proj1 G2')) X2); [|exact E'].
        apply OwnP_aset_sig; [apply Own_OwnP; exact (proj2 Y1)|].
        intros j Hj. fold (oldsig gd st1). rewrite (live_sig_old _ _ _ Hld1). intro Z.
        destruct Himp1 as [Q|Q]; [apply sigref_some in Z; congruence|].
        cbn [sigref g_impl] in *. rewrite Q in Z. exact Z.
      + cbn [out_y]. split; [exact X2|]. apply OwnP_Own.
        apply OwnP_aset_sig; [apply Own_OwnP; exact (proj2 Y1)|].
        intros j _. fold (oldsig gd st1). rewrite (live_sig_old _ _ _ Hld1). intro Z.
        destruct Himp1 as [Q|Q]; [apply sigref_some in Z; congruence|].
        cbn [sigref g_impl] in *. rewrite Q in Z. exact Z.
    - (* OGMoveAssign *)
      destruct (live_sig gd st) as [dst|] eqn:Hld; [|apply skip_y; exact Hy].
      destruct (live_sig gs st) as [src|] eqn:Hls; [|apply skip_y; exact Hy].
      destruct (same_gkind (g_kind dst) (g_kind src) && _); [|apply skip_y; exact Hy].
      destruct (match g_impl dst with
                | Some a => match g_impl src with Some b => N.eqb a b | None => false end
                | None => match g_impl src with Some _ => false | None => true end
                end) eqn:Hsame; [exact Hy|].
      assert (Hne : gd <> gs).
      { intro Z. subst gd. rewrite Hld in Hls. inversion Hls; subst src.
        destruct (g_impl dst); [rewrite N.eqb_refl in Hsame|]; discriminate. }
      set (sta := with_sigs (aset gs (Some (mkSig (g_kind src) None)) (sigs st)) st).
      assert (Ga : Guar st sta) by (apply (upd_sig_G gs src None st H Hls); intros i Z; discriminate).
      assert (Hlda : live_sig gd sta = Some dst).
      { unfold sta. rewrite live_sig_aset. destruct (N.eqb_spec gd gs); [contradiction|exact Hld]. }
      assert (Gb : Guar sta (with_sigs (aset gd (Some (mkSig (g_kind dst) (g_impl src))) (sigs sta)) sta)).
      { apply (upd_sig_G gd dst (g_impl src) sta (proj1 Ga) Hlda).
        intros i Z. cbn [sta impls with_sigs]. eapply live_sig_impl_present; eauto. }
      assert (O1 : OwnP (fun j => Some j <> g_impl dst) (with_sigs (aset gd (Some (mkSig (g_kind dst) (g_impl src))) (sigs sta)) sta)).
      { assert (Hsecond : forall (P : N -> Prop) j, (P j -> Some j <> g_impl dst) -> P j ->
                   sigref j (oldsig gd sta) = true -> sigref j (Some (mkSig (g_kind dst) (g_impl src))) = true).
        { intros P j HP Pj. rewrite (live_sig_old _ _ _ Hlda). intro Z. apply sigref_some in Z. exfalso. apply (HP Pj). congruence. }
        destruct (g_impl src) as [b|] eqn:Hb.
        - apply (OwnP_add_pos _ b).
          + apply OwnP_aset_sig.
            * apply OwnP_aset_sig; [apply Own_OwnP; exact (proj2 Hy)|].
              intros j (_ & Hjb). fold (oldsig gs st). rewrite (live_sig_old _ _ _ Hls). intro Z. apply sigref_some in Z. congruence.
            * intros j Pj. fold (oldsig gd sta). apply (Hsecond (fun j => Some j <> g_impl dst /\ j <> b) j); [tauto|exact Pj].
          + intros im _. apply (refcount_sig_pos b gd (mkSig (g_kind dst) (Some b))); [|reflexivity].
            rewrite (live_sig_aset gd gd _ sta), N.eqb_refl. reflexivity.
        - apply OwnP_aset_sig.
          + apply OwnP_aset_sig; [apply Own_OwnP; exact (proj2 Hy)|].
            intros j _. fold (oldsig gs st). rewrite (live_sig_old _ _ _ Hls). intro Z. apply sigref_some in Z. congruence.
          + intros j Pj. fold (oldsig gd sta). apply (Hsecond (fun j => Some j <> g_impl dst) j); [tauto|exact Pj]. }
      cbn [sta sigs with_sigs] in Gb, O1.
      set (st1 := with_sigs (aset gd (Some (mkSig (g_kind dst) (g_impl src)))
                     (aset gs (Some (mkSig (g_kind src) None)) (sigs st))) st).
      assert (G1 : Guar st st1) by (eapply Guar_trans; [exact Ga|exact Gb]).
      assert (X1 : QX st1) by (apply X_with_sigs; exact (proj1 Hy)).
      assert (O1' : OwnP (fun j => Some j <> g_impl dst) st1) by exact O1.
      assert (Hrel : exists st2, match g_impl dst with Some old => release_check old st1 | None => Ok st1 end = Ok st2 /\ Guar st st2).
      { destruct (g_impl dst) as [old|].
        - destruct (release_check_G old st1 (proj1 G1)) as (st2 & E2 & G2 & _). exists st2. split; [exact E2|eapply Guar_trans; eauto].
        - exists st1. split; [reflexivity|exact G1]. }
      destruct Hrel as (st2 & E2 & G2).
      assert (Y2 : QY st2).
      { destruct (g_impl dst) as [old|].
        - apply (release_check_y old st1 st2 (wf_c _ (proj1 G1)) X1); [|exact E2].
          eapply OwnP_weaken; [|exact O1']. intros j Hj Z. inversion Z. contradiction.
        - inversion E2; subst st2. split; [exact X1|]. apply OwnP_Own. eapply OwnP_weaken; [|exact O1']. intros j _. discriminate. }
      fold st1. rewrite E2.
      destruct (gk_track (g_kind src) && _).
      + apply liftu_y. intros st' E. eapply track_notify_y; [exact (proj1 G2)|exact Y2|exact E].
      + exact Y2.
    - (* OGShare *)
      destruct (live_sig g st) as [go|]; [|apply skip_y; exact Hy].
      destruct (negb (is_shared (sig_key g) st) && N.ltb g 1000); [|apply skip_y; exact Hy].
      cbn [out_y]. eapply Y_lite; [|exact Hy]. repeat split.
    - (* OGRelease *)
      destruct (live_sig g st) as [go|]; [|apply skip_y; exact Hy].
      destruct (is_shared (sig_key g) st && negb (is_released (sig_key g) st)); [|apply skip_y; exact Hy].
      cbn [out_y]. eapply Y_lite; [|exact Hy]. repeat split.
    - (* OGDel *)
      destruct (live_sig g st) as [go|] eqn:Hl; [|apply skip_y; exact Hy].
      destruct (negb (is_shared (sig_key g) st)); [|apply skip_y; exact Hy].
      apply liftu_y. intros st' E. eapply sig_destroy_y; eauto.
    - (* OGEmit *)
      destruct (live_sig g st) as [go|]; [|apply skip_y; exact Hy].
      pose proof (emit_sig_y prog rec rec_ok rec_y g arg st H Hy) as Z.
      destruct (emit_sig prog rec g arg st) as [st1 v|st1|e]; cbn [out_y] in *; [apply Y_ev; exact Z| |exact I].
      destruct catch; cbn [out_y]; [apply Y_ev|]; exact Z.
    - (* OGClear *)
      destruct (live_sig g st) as [go|]; [|apply skip_y; exact Hy].
      destruct (g_impl go) as [i|]; [|exact Hy].
      apply liftu_y. intros st' E.
      destruct (aget i (impls st)) as [im|] eqn:Him; [|unfold impl_clear in E; rewrite Him in E; discriminate].
      destruct (impl_clear_ok i im st Hc Him (proj1 (proj2 (wf_flags _ H i im Him)))) as (st1 & E1 & W & C).
      rewrite E in E1. inversion E1; subst st1.
      apply (Y_Casc st); [exact C|eapply impl_clear_x; [exact Hc|exact (proj1 Hy)|exact E]|exact Hy].
    - (* OGBlock *)
      destruct (live_sig g st) as [go|]; [|apply skip_y; exact Hy].
      destruct (g_impl go) as [i|]; [|exact Hy].
      apply liftu_y. intros st' E.
      pose proof (block_all_x i b st st' (proj1 Hy) E) as QX'.
      unfold upd_impl in E. destruct (aget i (impls st)) as [im|] eqn:Him; [|discriminate].
      inversion E; subst st'. destruct (block_all_ok i im b st Hc Him) as (_ & C).
      apply (Y_Casc st); [exact C|exact QX'|exact Hy].
    - (* OGQuery *)
      destruct (live_sig g st) as [go|]; [|apply skip_y; exact Hy].
      destruct (g_impl go) as [i|]; [|cbn [out_y]; apply Y_ev; exact Hy].
      destruct (aget i (impls st)); [cbn [out_y]; apply Y_ev; exact Hy|exact I].
    - (* OGMakeSlot *)
      destruct (live_sig g st) as [go|]; [|apply skip_y; exact Hy].
      destruct (fresh_slot s st && _); [|apply skip_y; exact Hy].
      destruct (bind_all _ _ _) as [st2|] eqn:E; [|exact I].
      cbn [out_y]. eapply Y_lite; [|exact Hy]. eapply lite_trans; [|apply new_slot_var_lite].
      eapply lite_trans; [|eapply bind_all_lite; eauto]. repeat split.
  Qed.
End QStep2.

Section QStep3.
  Variable prog : program.
  Variable rec : callee -> state -> outcome N.
  Hypothesis rec_ok : forall c st, WF st -> out_ok st (rec c st).
  Hypothesis rec_y : forall c st, WF st -> QY st -> out_y (rec c st).

  Lemma step_conn_y o st : WF st -> QY st ->
    match o with
    | OCEmpty _ | OCCopy _ _ | OCAssign _ _ | OCDisc _ | OCBlock _ _ | OCShare _ | OCRelease _ | OCDel _ | OCQuery _
    | OKNew _ _ | OKEmpty _ | OKAssign _ _ | OKMove _ _ | OKMoveAssign _ _ | OKSwap _ _ | OKRelease _ _
    | OKDisc _ | OKBlock _ _ | OKDel _ | OKQuery _ => out_y (step prog rec o st)
    | _ => True
    end.
  Proof.
    intros H Hy. pose proof (wf_c _ H) as Hc. destruct o as [t|t|td ts|td ts|t|t|t|s rk body refs|s rk|sn so|sn so|sd ss|sd ss|s arg catch|s b|s|s|s|g k|gn go|gn go|gd gs|gd gs|g|g|g|g s c front mv|g arg catch|g|g b|g|s g|c|cn co|cd cs|c|c b|c|c|c|c|k c|k|k c|kn ko|kd ks|k1 k2|k c|k|k b|k|k| | ]; try exact I; cbn [step].
    - (* OCEmpty *)
      destruct (fresh_conn c st); [|apply skip_y; exact Hy]. cbn [out_y]. eapply Y_lite; [apply set_connptr_lite|exact Hy].
    - (* OCCopy *)
      destruct (get_connptr (WC co) st) as [p|]; [|apply skip_y; exact Hy].
      destruct (fresh_conn cn st); [|apply skip_y; exact Hy].
      apply liftu_y. intros st' E. eapply set_conn_y; eauto.
    - (* OCAssign *)
      destruct (get_connptr (WC cd) st) as [pd|]; [|apply skip_y; exact Hy].
      destruct (get_connptr (WC cs) st) as [p|]; [|apply skip_y; exact Hy].
      apply liftu_y. intros st' E. eapply conn_set_y; eauto.
    - (* OCDisc *)
      destruct (get_connptr (WC c) st) as [p|]; [|apply skip_y; exact Hy].
      apply liftu_y. intros st' E. eapply conn_disconnect_y; eauto.
    - (* OCBlock *)
      destruct (get_connptr (WC c) st) as [p|]; [|apply skip_y; exact Hy]. apply conn_block_y. exact Hy.
    - (* OCShare *)
      destruct (get_connptr (WC c) st) as [p|]; [|apply skip_y; exact Hy].
      destruct (negb (is_shared (conn_key c) st) && N.ltb c 1000); [|apply skip_y; exact Hy].
      cbn [out_y]. eapply Y_lite; [|exact Hy]. repeat split.
    - (* OCRelease *)
      destruct (get_connptr (WC c) st) as [p|]; [|apply skip_y; exact Hy].
      destruct (is_shared (conn_key c) st && negb (is_released (conn_key c) st)); [|apply skip_y; exact Hy].
      cbn [out_y]. eapply Y_lite; [|exact Hy]. repeat split.
    - (* OCDel *)
      destruct (get_connptr (WC c) st) as [p|]; [|apply skip_y; exact Hy].
      destruct (negb (is_shared (conn_key c) st)); [|apply skip_y; exact Hy].
      apply liftu_y. intros st' E. destruct (watch_remove p (WC c) st) as [st1|] eqn:E1; cbn [rbind] in E; [|discriminate].
      inversion E; subst st'. eapply conn_destroy_y; eauto.
    - (* OCQuery *)
      destruct (get_connptr (WC c) st) as [p|]; [|apply skip_y; exact Hy]. apply conn_query_y. exact Hy.
    - (* OKNew *)
      destruct (get_connptr (WC c) st) as [p|]; [|apply skip_y; exact Hy].
      destruct (fresh_sconn k st); [|apply skip_y; exact Hy].
      apply liftu_y. intros st' E. eapply set_conn_y; eauto.
    - (* OKEmpty *)
      destruct (fresh_sconn k st); [|apply skip_y; exact Hy]. cbn [out_y]. eapply Y_lite; [apply set_connptr_lite|exact Hy].
    - (* OKAssign *)
      destruct (get_connptr (WK k) st) as [old|]; [|apply skip_y; exact Hy].
      destruct (get_connptr (WC c) st) as [pc|]; [|apply skip_y; exact Hy].
      apply liftu_y. intros st' E. destruct (conn_disconnect old st) as [st1|] eqn:E1; cbn [rbind] in E; [|discriminate].
      pose proof (conn_disconnect_y _ _ _ Hc Hy E1) as Y1.
      destruct (get_connptr (WK k) st1); [|discriminate]. destruct (get_connptr (WC c) st1); [|discriminate].
      eapply conn_set_y; eauto.
    - (* OKMove *)
      destruct (get_connptr (WK ko) st) as [p|]; [|apply skip_y; exact Hy].
      destruct (fresh_sconn kn st); [|apply skip_y; exact Hy].
      apply liftu_y. intros st' E. destruct (conn_set (WK ko) None st) as [st1|] eqn:E1; cbn [rbind] in E; [|discriminate].
      eapply set_conn_y; [|exact E]. eapply conn_set_y; eauto.
    - (* OKMoveAssign *)
      destruct (get_connptr (WK kd) st) as [old|]; [|apply skip_y; exact Hy].
      destruct (get_connptr (WK ks) st) as [ps|]; [|apply skip_y; exact Hy].
      destruct (N.eqb kd ks); [apply skip_y; exact Hy|].
      apply liftu_y. intros st' E. destruct (conn_disconnect old st) as [st1|] eqn:E1; cbn [rbind] in E; [|discriminate].
      pose proof (conn_disconnect_y _ _ _ Hc Hy E1) as Y1.
      destruct (get_connptr (WK ks) st1) as [p|]; [|discriminate].
      destruct (conn_set (WK ks) None st1) as [st2|] eqn:E2; cbn [rbind] in E; [|discriminate].
      eapply conn_set_y; [|exact E]. eapply conn_set_y; eauto.
    - (* OKSwap *)
      destruct (get_connptr (WK k1) st) as [p1|]; [|apply skip_y; exact Hy].
      destruct (get_connptr (WK k2) st) as [p2|]; [|apply skip_y; exact Hy].
      destruct (N.eqb k1 k2); [apply skip_y; exact Hy|].
      apply liftu_y. intros st' E. destruct (conn_set (WK k1) p2 st) as [st1|] eqn:E1; cbn [rbind] in E; [|discriminate].
      eapply conn_set_y; [|exact E]. eapply conn_set_y; eauto.
    - (* OKRelease *)
      destruct (get_connptr (WK k) st) as [p|]; [|apply skip_y; exact Hy].
      destruct (fresh_conn c st); [|apply skip_y; exact Hy].
      apply liftu_y. intros st' E. destruct (conn_set (WK k) None st) as [st1|] eqn:E1; cbn [rbind] in E; [|discriminate].
      eapply set_conn_y; [|exact E]. eapply conn_set_y; eauto.
    - (* OKDisc *)
      destruct (get_connptr (WK k) st) as [p|]; [|apply skip_y; exact Hy].
      apply liftu_y. intros st' E. eapply conn_disconnect_y; eauto.
    - (* OKBlock *)
      destruct (get_connptr (WK k) st) as [p|]; [|apply skip_y; exact Hy]. apply conn_block_y. exact Hy.
    - (* OKDel *)
      destruct (get_connptr (WK k) st) as [p|]; [|apply skip_y; exact Hy].
      apply liftu_y. intros st' E. destruct (conn_disconnect p st) as [st1|] eqn:E1; cbn [rbind] in E; [|discriminate].
      pose proof (conn_disconnect_y _ _ _ Hc Hy E1) as Y1.
      destruct (get_connptr (WK k) st1) as [p1|]; [|discriminate].
      destruct (watch_remove p1 (WK k) st1) as [st2|] eqn:E2; cbn [rbind] in E; [|discriminate].
      inversion E; subst st'. eapply Y_lite; [|eapply watch_remove_y; eauto]. repeat split.
    - (* OKQuery *)
      destruct (get_connptr (WK k) st) as [p|]; [|apply skip_y; exact Hy]. apply conn_query_y. exact Hy.
  Qed.

  Lemma step_connect_y g s c front mv st : WF st -> QY st -> out_y (step prog rec (OGConnect g s c front mv) st).
  Proof.
    intros H Hy. cbn [step].
    destruct (live_sig g st) as [go|] eqn:Hl; [|apply skip_y; exact Hy].
    destruct (live_slot s st) as [src|]; [|apply skip_y; exact Hy].
    destruct (rkind_eqb _ _); [|apply skip_y; exact Hy].
    destruct (ensure_impl g go st) as [i st1] eqn:E.
    pose proof (ensure_impl_y _ _ _ _ _ Hy Hl E) as Y1.
    destruct (if mv then sb_move src st1 else '(sb, st2) <- sb_copy src st1 ;; Ok (sb, src, st2)) as [[[sb src'] st2]|] eqn:E2; [|exact I].
    assert (L2 : lite st1 st2).
    { destruct mv; [eapply sb_move_lite; eauto|].
      destruct (sb_copy src st1) as [[sb0 st20]|] eqn:E3; cbn [rbind] in E2; [|discriminate].
      inversion E2; subst. eapply sb_copy_lite; eauto. }
    assert (Y3 : QY (set_sb (LVar s) src' st2)).
    { eapply Y_lite; [apply lite_set_sb_var|]. eapply Y_lite; eauto. }
    destruct (impl_insert i front sb (set_sb (LVar s) src' st2)) as [[n st4]|] eqn:E4; [|exact I].
    assert (Y4 : QY st4).
    { split; [eapply impl_insert_x; [exact (proj1 Y3)|exact E4]|eapply impl_insert_own; [exact (proj2 Y3)|exact E4]]. }
    destruct c as [cv|]; [|exact Y4].
    destruct (fresh_conn cv st4).
    - apply liftu_y. intros st' E'. eapply set_conn_y; eauto.
    - destruct (get_connptr (WC cv) st4); [|exact Y4]. apply liftu_y. intros st' E'. eapply conn_set_y; eauto.
  Qed.

  Theorem step_y o st : WF st -> QY st -> out_y (step prog rec o st).
  Proof.
    intros H Hy.
    pose proof (step_track_y prog rec o st H Hy) as X1. pose proof (step_slot_y prog rec rec_y o st H Hy) as X2.
    pose proof (step_sig_y prog rec rec_ok rec_y o st H Hy) as X3. pose proof (step_conn_y o st H Hy) as X4.
    destruct o; try exact X1; try exact X2; try exact X3; try exact X4.
    - apply step_connect_y; assumption.
    - cbn [step out_y]. apply Y_ev. exact Hy.
    - cbn [step out_y]. exact Hy.
  Qed.

  Lemma gc_y : forall fuel st st', WF st -> QY st -> gc prog fuel st = Ok st' -> QY st'.
  Proof.
    induction fuel as [|fuel IH]; intros st st' H Hy; cbn [gc].
    - destruct (find_orphan prog (shared st) st); [discriminate|]. intro E. inversion E; subst. exact Hy.
    - destruct (find_orphan prog (shared st) st) as [t|] eqn:Hfo; [|intro E; inversion E; subst; exact Hy].
      destruct (find_orphan_spec _ _ _ _ Hfo) as (rel & Hin & Hlive).
      assert (Hk : shkey t).
      { pose proof (wf_shared _ H) as F. unfold shared_ok in F. rewrite Forall_forall in F. exact (F (t, rel) Hin). }
      destruct (N.leb_spec 4000 t) as [Hge4|Hlt4]; [|destruct (N.leb_spec 2000 t) as [Hge|Hlt]].
      + destruct (get_connptr (WC (t - 4000)) st) as [p|] eqn:Hp; [|discriminate].
        destruct (conn_destroy_full (t - 4000) p st H Hp) as (st1 & E & _ & _ & G). rewrite E. cbn [rbind].
        apply (IH _ _ (proj1 G)). eapply conn_destroy_y; eauto.
      + destruct (live_sig (t - 2000) st) as [go|] eqn:Hl; [|discriminate].
        destruct (sig_destroy_G (t - 2000) go st H Hl) as (st1 & E & G). rewrite E. cbn [rbind].
        apply (IH _ _ (proj1 G)). eapply sig_destroy_y; eauto.
      + assert (Ht : t < 1000) by (destruct Hk as [|[[]|[]]]; [assumption|lia|lia]).
        destruct (del_user_track_G t st H Ht) as (st1 & E & C & G). rewrite E. cbn [rbind].
        apply (IH _ _ (proj1 G)). eapply Y_lite; [|eapply track_notify_y; eauto]. repeat split.
  Qed.

  Lemma gc_shared_y st st' : WF st -> QY st -> gc_shared prog st = Ok st' -> QY st'.
  Proof. unfold gc_shared. apply gc_y. Qed.

  Lemma run_ops_y ops : forall st, WF st -> QY st -> out_y (run_ops prog rec ops st).
  Proof.
    induction ops as [|o ops IH]; intros st H Hy; cbn [run_ops]; [exact Hy|].
    pose proof (step_ok prog rec rec_ok o st H) as Z. pose proof (step_y o st H Hy) as Zy.
    destruct (step prog rec o st) as [st1 u|st1|e]; cbn [out_ok out_y] in *; [|exact Zy|exact I].
    destruct (gc_shared_ok prog st1 (proj1 Z)) as (st2 & E2 & G2). rewrite E2.
    apply IH; [exact (proj1 G2)|eapply gc_shared_y; [exact (proj1 Z)|exact Zy|exact E2]].
  Qed.

  Lemma run_callee_y c st : WF st -> QY st -> out_y (run_callee prog rec c st).
  Proof.
    intros H Hy. destruct c as [b arg|g arg]; cbn [run_callee].
    - destruct (aget b (p_scripts prog)) as [[ops rs]|]; [|exact Hy].
      pose proof (run_ops_y ops st H Hy) as Z. destruct (run_ops prog rec ops st); exact Z.
    - apply (emit_sig_y prog rec rec_ok rec_y); assumption.
  Qed.
End QStep3.

Lemma run_callee_fuel_y prog fuel : forall c st, WF st -> QY st -> out_y (run_callee_fuel prog fuel c st).
Proof.
  induction fuel as [|fuel IH]; intros c st H Hy; cbn [run_callee_fuel]; [exact I|].
  apply run_callee_y; [apply run_callee_fuel_ok|exact IH|exact H|exact Hy].
Qed.

Lemma Y_st0 : QY st0.
Proof.
  split; [split; [reflexivity|]|]; intros i im Hi; discriminate.
Qed.

Theorem run_top_y : forall p fuel ops st st', WF_top st -> QY st -> run_top p fuel ops st = Ok st' -> QY st'.
Proof.
  intros p fuel ops. induction ops as [|o ops IH]; intros st st' [H Q] Hy; cbn [run_top]; [intro E; inversion E; subst; exact Hy|].
  pose proof (step_ok p (run_callee_fuel p fuel) (run_callee_fuel_ok p fuel) o st H) as Z.
  pose proof (step_y p (run_callee_fuel p fuel) (run_callee_fuel_ok p fuel) (run_callee_fuel_y p fuel) o st H Hy) as Zy.
  destruct (step p (run_callee_fuel p fuel) o st) as [st1 u|st1|e]; cbn [out_ok out_y] in Z, Zy; [| |discriminate].
  - destruct (gc_shared_ok p st1 (proj1 Z)) as (st2 & E2 & G2). rewrite E2. cbn [rbind].
    assert (G : Guar st st2) by (eapply Guar_trans; eauto).
    apply IH; [split; [exact (proj1 G)|eapply Guar_quiescent; eauto]|].
    eapply gc_shared_y; [exact (proj1 Z)|exact Zy|exact E2].
  - assert (G1 : Guar st (emit_ev EExn st1)) by (eapply Guar_sim_r; [apply sim_emit_ev|exact Z]).
    destruct (gc_shared_ok p (emit_ev EExn st1) (proj1 G1)) as (st2 & E2 & G2). rewrite E2. cbn [rbind].
    assert (G : Guar st st2) by (eapply Guar_trans; eauto).
    apply IH; [split; [exact (proj1 G)|eapply Guar_quiescent; eauto]|].
    eapply gc_shared_y; [exact (proj1 G1)|apply Y_ev; exact Zy|exact E2].
Qed.

(* ------------------------------------------------------------------ *)
(* The statements of SigSpec, section "Quiescence"                      *)

Theorem quiescent_lists : S_quiescent_lists.
Proof.
  intros p fuel st (ops & E).
  pose proof (run_top_safe p fuel ops st0 WF_top_st0) as Z. rewrite E in Z.
  pose proof (run_top_y p fuel ops st0 st WF_top_st0 Y_st0 E) as ((L & Hx) & Ho).
  split; [exact Z|]. split; [|split; [exact Ho|exact L]].
  intros i im nd Hi Hin. destruct Z as (W & Q). destruct (Q i im Hi) as (Q1 & Q2 & Q3 & Q4 & Q5).
  destruct (Hx i im Hi) as (_ & B). rewrite Forall_forall in B. specialize (B nd Hin). unfold node_x in B.
  rewrite Q2 in B. cbn [orb noex] in B.
  destruct (sb_rep (n_sb nd)) as [r|].
  - destruct B as (_ & [B|(B & _)]); [exists r; auto|discriminate].
  - exfalso. destruct (n_id nd) as [k|k] eqn:En; [discriminate|]. exact (Q5 nd k Hin En).
Qed.

Theorem functor_holders : S_functor_holders.
Proof.
  intros p fuel st Hr r Hin _. destruct (quiescent_lists p fuel st Hr) as ((W & _) & Hna & _).
  unfold all_reps in Hin. apply in_app_or in Hin. destruct Hin as [Hv|Hn]; [left; exact Hv|right].
  split; [exact Hn|]. apply in_node_reps_l in Hn. destruct Hn as (i & im & Hi & Hnr).
  apply in_nodes_reps in Hnr. destruct Hnr as (nd & Hnd & Hr0).
  pose proof (in_aget_nodup _ _ _ (ws_keys_impls _ (wc_struct _ (wf_c _ W))) Hi) as Hg.
  destruct (Hna i im nd Hg Hnd) as (r' & E' & A). rewrite Hr0 in E'. inversion E'; subst. exact A.
Qed.

Lemma sigcount_none i l : (forall g o, In (g, o) l -> o = None) -> sigcount i l = 0.
Proof.
  unfold sigcount. induction l as [|[g o] l IH]; intro H; [reflexivity|].
  rewrite count_if_cons. rewrite (H g o (or_introl eq_refl)). cbn [sigref b2n]. rewrite IH; [reflexivity|].
  intros g' o' Hin. apply (H g' o'). right; exact Hin.
Qed.

Lemma var_reps_none l : (forall s o, In (s, o) l -> o = None) -> var_reps_l l = [].
Proof.
  unfold var_reps_l. induction l as [|[s o] l IH]; intro H; [reflexivity|].
  cbn [flat_map snd]. rewrite (H s o (or_introl eq_refl)). cbn [slot_reps app]. apply IH.
  intros s' o' Hin. apply (H s' o'). right; exact Hin.
Qed.

Theorem teardown_complete : S_teardown_complete.
Proof.
  intros p fuel st Hr (Hs & Hg & Hc & Hk & Ht).
  destruct (quiescent_lists p fuel st Hr) as ((W & Q) & Hna & Ho & L).
  assert (Hi : impls st = []).
  { destruct (impls st) as [|[i im] l] eqn:E; [reflexivity|]. exfalso.
    assert (Hget : aget i (impls st) = Some im) by (rewrite E; cbn [aget]; rewrite N.eqb_refl; reflexivity).
    pose proof (Ho i im Hget) as Z. rewrite refcount_split in Z. unfold hold in Z. rewrite Hget in Z.
    destruct (Q i im Hget) as (_ & _ & Q3 & _). rewrite Q3, (sigcount_none i _ Hg) in Z. lia. }
  split; [exact Hi|]. split; [|exact L].
  unfold all_reps, var_reps, node_reps. rewrite Hi. cbn [node_reps_l flat_map]. rewrite app_nil_r.
  apply var_reps_none. exact Hs.
Qed.

Theorem query_reports : S_query_reports.
Proof.
  intros prog rec g st go Hl Hp. cbn [step]. rewrite Hl. unfold nodes_of, impl_of. rewrite Hl.
  destruct (g_impl go) as [i|] eqn:Hgi; [|reflexivity].
  destruct (aget i (impls st)) as [im|] eqn:Hi; [reflexivity|exfalso; exact (Hp i eq_refl Hi)].
Qed.

(* ------------------------------------------------------------------ *)
(* connect: position of the new element                                 *)

Definition rep_sim (a b : option rep) : Prop :=
  match a, b with
  | Some x, Some y => r_attached y = r_attached x /\ r_valid y = r_valid x /\ r_fn y = r_fn x
  | None, None => True
  | _, _ => False
  end.
Definition node_sim (x y : node) : Prop :=
  n_id y = n_id x /\ sb_blocked (n_sb y) = sb_blocked (n_sb x) /\ rep_sim (sb_rep (n_sb x)) (sb_rep (n_sb y)).
Definition nsim (st st' : state) : Prop :=
  sigs st' = sigs st /\
  forall j, match aget j (impls st), aget j (impls st') with
            | Some a, Some b => Forall2 node_sim (i_nodes a) (i_nodes b)
            | None, None => True
            | _, _ => False
            end.

Lemma rep_sim_refl a : rep_sim a a.
Proof. destruct a; cbn; auto. Qed.

Lemma rep_sim_trans a b c : rep_sim a b -> rep_sim b c -> rep_sim a c.
Proof. destruct a, b, c; cbn; try tauto. intros (A1 & A2 & A3) (B1 & B2 & B3). repeat split; congruence. Qed.

Lemma node_sim_refl x : node_sim x x.
Proof. repeat split. apply rep_sim_refl. Qed.

Lemma node_sim_trans x y z : node_sim x y -> node_sim y z -> node_sim x z.
Proof.
  intros (A1 & A2 & A3) (B1 & B2 & B3). split; [congruence|]. split; [congruence|eapply rep_sim_trans; eauto].
Qed.

Lemma Forall2_node_sim_refl l : Forall2 node_sim l l.
Proof. induction l; constructor; [apply node_sim_refl|assumption]. Qed.

Lemma Forall2_node_sim_trans a : forall b c, Forall2 node_sim a b -> Forall2 node_sim b c -> Forall2 node_sim a c.
Proof.
  induction a as [|x a IH]; intros b c H1 H2; inversion H1; subst; inversion H2; subst; constructor.
  - eapply node_sim_trans; eauto.
  - eapply IH; eauto.
Qed.

Lemma Forall2_node_sim_ids l l' : Forall2 node_sim l l' -> map n_id l' = map n_id l.
Proof. induction 1 as [|x y l l' (A & _) _ IH]; cbn [map]; [reflexivity|]. rewrite A, IH. reflexivity. Qed.

Lemma nsim_refl st : nsim st st.
Proof. split; [reflexivity|]. intro j. destruct (aget j (impls st)); [apply Forall2_node_sim_refl|exact I]. Qed.

Lemma nsim_trans a b c : nsim a b -> nsim b c -> nsim a c.
Proof.
  intros (S1 & I1) (S2 & I2). split; [congruence|]. intro j. specialize (I1 j). specialize (I2 j).
  destruct (aget j (impls a)), (aget j (impls b)), (aget j (impls c)); try tauto.
  eapply Forall2_node_sim_trans; eauto.
Qed.

Lemma nsim_eq st st' : impls st' = impls st -> sigs st' = sigs st -> nsim st st'.
Proof. intros Ei Es. split; [exact Es|]. intro j. rewrite Ei. destruct (aget j (impls st)); [apply Forall2_node_sim_refl|exact I]. Qed.

Lemma set_node_sim n sb' l : (forall nd, find_node n l = Some nd -> node_sim nd (mkNode n sb')) ->
  Forall2 node_sim l (set_node n sb' l).
Proof.
  induction l as [|x l IH]; cbn [find_node set_node]; intro H; [constructor|].
  destruct (nid_eqb (n_id x) n).
  - constructor; [apply H; reflexivity|apply Forall2_node_sim_refl].
  - constructor; [apply node_sim_refl|apply IH; exact H].
Qed.

Lemma set_sb_nsim i n sb sb' st : get_sb (LNode i n) st = Some sb ->
  sb_blocked sb' = sb_blocked sb -> rep_sim (sb_rep sb) (sb_rep sb') -> nsim st (set_sb (LNode i n) sb' st).
Proof.
  intros G Hb Hr. destruct (get_sb_node_inv _ _ _ _ G) as (im & nd & Hi & Hf & Hsb).
  split; [apply sigs_set_sb|]. intro j. unfold set_sb. rewrite Hi, aget_set_impl.
  destruct (N.eqb_spec j i) as [->|Hne].
  - rewrite Hi. cbn [i_nodes with_nodes]. apply set_node_sim. intros nd0 Hf0. rewrite Hf in Hf0. inversion Hf0; subst nd0.
    split; [cbn [n_id]; symmetry; exact (proj2 (find_node_in _ _ _ Hf))|]. cbn [n_sb]. rewrite Hsb. split; assumption.
  - destruct (aget j (impls st)); [apply Forall2_node_sim_refl|exact I].
Qed.

Lemma watch_add_nsim p w st st' : watch_add p w st = Ok st' -> nsim st st'.
Proof.
  unfold watch_add. destruct p as [[i n]|]; [|intro H; inversion H; apply nsim_refl].
  destruct (get_sb (LNode i n) st) as [sb|] eqn:G; [|discriminate].
  destruct (sb_rep sb) as [r|] eqn:R; intro H; okinv H; [|apply nsim_refl].
  eapply set_sb_nsim; eauto. rewrite R. cbn. auto.
Qed.

Lemma watch_remove_nsim p w st st' : watch_remove p w st = Ok st' -> nsim st st'.
Proof.
  unfold watch_remove. destruct p as [[i n]|]; [|intro H; inversion H; apply nsim_refl].
  destruct (get_sb (LNode i n) st) as [sb|] eqn:G; [|discriminate].
  destruct (sb_rep sb) as [r|] eqn:R; intro H; okinv H; [|apply nsim_refl].
  eapply set_sb_nsim; eauto. rewrite R. cbn. auto.
Qed.

Lemma set_connptr_nsim w p st : nsim st (set_connptr w p st).
Proof. destruct (set_connptr_lite w p st) as (A & B & _). apply nsim_eq; assumption. Qed.

Lemma conn_set_nsim w p st st' : conn_set w p st = Ok st' -> nsim st st'.
Proof.
  unfold conn_set. destruct (get_connptr w st) as [old|]; [|discriminate].
  destruct (watch_remove old w st) as [st1|] eqn:E1; cbn [rbind]; [|discriminate].
  destruct (watch_add p w (set_connptr w p st1)) as [st2|] eqn:E2; cbn [rbind]; [|discriminate].
  intro H. inversion H; subst. eapply nsim_trans; [eapply watch_remove_nsim; eauto|].
  eapply nsim_trans; [apply set_connptr_nsim|eapply watch_add_nsim; eauto].
Qed.

Lemma body_of_rep sb r : sb_rep sb = Some r -> body_of sb = option_map f_body (r_fn r).
Proof. unfold body_of. intros ->. destruct (r_fn r); reflexivity. Qed.

(* the slot base handed to the list: a copy of, or the rep moved out of, the connected slot *)
Lemma connect_prep st s src mv sb src' st2 : WF st -> get_sb (LVar s) st = Some src ->
  (mv = true \/ sb_rep src = None \/ sb_empty src = false \/ sb_blocked src = false) ->
  (if mv then sb_move src st else '(sb, st2) <- sb_copy src st ;; Ok (sb, src, st2)) = Ok (sb, src', st2) ->
  impls st2 = impls st /\ sigs st2 = sigs st /\ next_nid st2 = next_nid st /\
  sb_blocked sb = sb_blocked src /\
  (sb_empty src = false -> exists r0, sb_rep sb = Some r0 /\ r_valid r0 = true /\ option_map f_body (r_fn r0) = body_of src).
Proof.
  intros H Hs Hside. pose proof (wf_c _ H) as Hc. destruct mv.
  - unfold sb_move. destruct (sb_rep src) as [r|] eqn:Hr.
    + destruct (var_rep_detached _ _ _ _ (wc_struct _ Hc) Hs Hr) as (Hatt & _). rewrite Hatt.
      intro E. inversion E; subst sb src' st2.
      destruct (null_watchers_fields (r_watch r) st) as (_ & F2 & F3 & _ & _ & F6 & _).
      split; [exact F3|]. split; [exact F2|]. split; [exact F6|]. split; [reflexivity|].
      intro Hemp. exists (r_with_watch [] r). split; [reflexivity|]. unfold sb_empty in Hemp. rewrite Hr in Hemp.
      split; [cbn; destruct (r_valid r); [reflexivity|discriminate]|]. rewrite (body_of_rep _ _ Hr). reflexivity.
    + intro E. inversion E; subst sb src' st2. repeat (split; [reflexivity|]).
      intro Hemp. unfold sb_empty in Hemp. rewrite Hr in Hemp. discriminate.
  - unfold sb_copy. destruct (sb_rep src) as [r|] eqn:Hr.
    + destruct (r_valid r) eqn:Hv.
      * destruct (rep_clone_ok r (sb_blocked src) st Hc (wf_noclear _ H) (get_sb_in_all_reps _ _ _ _ Hs Hr))
          as (r' & st1 & E1 & Er' & _ & G & _).
        rewrite E1. cbn [rbind]. intro E. inversion E; subst sb src' st2.
        split; [exact (gr_impls _ _ G)|]. split; [exact (gr_sigs _ _ G)|]. split; [exact (gr_nid _ _ G)|]. split; [reflexivity|].
        intros _. exists r'. split; [reflexivity|]. rewrite Er'. cbn [r_valid r_fn]. split; [exact Hv|].
        rewrite (body_of_rep _ _ Hr). reflexivity.
      * cbn [rbind]. intro E. inversion E; subst sb src' st2. repeat (split; [reflexivity|]). split.
        -- cbn [sb_none sb_blocked]. destruct Hside as [Z|[Z|[Z|Z]]]; try discriminate; [|congruence].
           unfold sb_empty in Z. rewrite Hr, Hv in Z. discriminate.
        -- intro Hemp. unfold sb_empty in Hemp. rewrite Hr, Hv in Hemp. discriminate.
    + cbn [rbind]. intro E. inversion E; subst sb src' st2. repeat (split; [reflexivity|]).
      intro Hemp. unfold sb_empty in Hemp. rewrite Hr in Hemp. discriminate.
Qed.

Theorem connect_position_partial :
  forall prog rec g s c front mv st st' go src i,
    WF st -> live_sig g st = Some go -> g_impl go = Some i -> live_slot s st = Some src ->
    rkind_eqb (gk_ret (g_kind go)) (kind_of_slot s st) = true ->
    (mv = true \/ sb_rep src = None \/ sb_empty src = false \/ sb_blocked src = false) ->
    step prog rec (OGConnect g s c front mv) st = Done st' tt ->
    exists nd, n_id nd = Real (next_nid st) /\
      sb_blocked (n_sb nd) = sb_blocked src /\
      (exists r, sb_rep (n_sb nd) = Some r /\ r_attached r = true /\
                 (sb_empty src = false -> r_valid r = true /\ option_map f_body (r_fn r) = body_of src)) /\
      (exists l', nodes_of g st' = (if front then nd :: l' else l' ++ [nd]) /\
                  map n_id l' = map n_id (nodes_of g st)) /\
      (forall j im, j <> i -> aget j (impls st) = Some im -> exists im', aget j (impls st') = Some im' /\ map n_id (i_nodes im') = map n_id (i_nodes im)).
Proof.
  intros prog rec g s c front mv st st' go src i H Hl Hgi Hs Hk Hside.
  cbn [step]. rewrite Hl, Hs, Hk. unfold ensure_impl. rewrite Hgi.
  destruct (if mv then sb_move src st else '(sb, st2) <- sb_copy src st ;; Ok (sb, src, st2)) as [[[sb src'] st2]|] eqn:E2; [|discriminate].
  destruct (connect_prep st s src mv sb src' st2 H Hs Hside E2) as (P1 & P2 & P3 & P4 & P5).
  set (st3 := set_sb (LVar s) src' st2).
  destruct (aget i (impls st)) as [im|] eqn:Hi; [|exfalso; exact (proj2 (wc_sig _ (wf_c _ H)) g go i Hl Hgi Hi)].
  assert (Hi3 : aget i (impls st3) = Some im) by (cbn [st3 set_sb impls with_slots]; rewrite P1; exact Hi).
  unfold impl_insert. rewrite Hi3.
  assert (Hn3 : next_nid st3 = next_nid st) by (cbn [st3 set_sb next_nid with_slots]; exact P3).
  rewrite Hn3.
  (* the rep placed in the list *)
  set (pr := match sb_rep sb with
             | Some r => (r_with_attached true r, with_next_nid (next_nid st + 1) st3)
             | None => (mkRep (next_rid (with_next_nid (next_nid st + 1) st3)) false true None [],
                        with_next_rid (next_rid (with_next_nid (next_nid st + 1) st3) + 1) (with_next_nid (next_nid st + 1) st3))
             end).
  assert (Hpr : r_attached (fst pr) = true /\ impls (snd pr) = impls st /\ sigs (snd pr) = sigs st /\
                (sb_empty src = false -> r_valid (fst pr) = true /\ option_map f_body (r_fn (fst pr)) = body_of src)).
  { unfold pr. destruct (sb_rep sb) as [r0|] eqn:Hr0; cbn [fst snd].
    - split; [reflexivity|]. split; [cbn [impls with_next_nid st3 set_sb with_slots]; exact P1|].
      split; [cbn [sigs with_next_nid st3 set_sb with_slots]; exact P2|].
      intro Hemp. destruct (P5 Hemp) as (r1 & Q1 & Q2 & Q3). inversion Q1; subst r1. cbn [r_valid r_fn r_with_attached]. auto.
    - split; [reflexivity|]. split; [cbn [impls with_next_rid with_next_nid st3 set_sb with_slots]; exact P1|].
      split; [cbn [sigs with_next_rid with_next_nid st3 set_sb with_slots]; exact P2|].
      intro Hemp. destruct (P5 Hemp) as (r1 & Q1 & _). discriminate. }
  destruct pr as [r st2'] eqn:Epr. cbn [fst snd] in Hpr. destruct Hpr as (Ra & Ri & Rs & Rv).
  set (nd4 := mkNode (Real (next_nid st)) (mkSB (Some r) (sb_blocked sb))).
  set (nodes' := if front then nd4 :: i_nodes im else i_nodes im ++ [nd4]).
  set (st4 := set_impl i (with_nodes nodes' im) st2').
  (* the connection variable only touches watch lists *)
  assert (Hfin : nsim st4 st' ->
    exists nd, n_id nd = Real (next_nid st) /\
      sb_blocked (n_sb nd) = sb_blocked src /\
      (exists r, sb_rep (n_sb nd) = Some r /\ r_attached r = true /\
                 (sb_empty src = false -> r_valid r = true /\ option_map f_body (r_fn r) = body_of src)) /\
      (exists l', nodes_of g st' = (if front then nd :: l' else l' ++ [nd]) /\
                  map n_id l' = map n_id (nodes_of g st)) /\
      (forall j im, j <> i -> aget j (impls st) = Some im -> exists im', aget j (impls st') = Some im' /\ map n_id (i_nodes im') = map n_id (i_nodes im))).
  { intros (Ss & Si).
    assert (Hg4 : aget i (impls st4) = Some (with_nodes nodes' im)) by (unfold st4; rewrite aget_set_impl, N.eqb_refl; reflexivity).
    pose proof (Si i) as Zi. rewrite Hg4 in Zi. destruct (aget i (impls st')) as [im'|] eqn:Hi'; [|contradiction].
    cbn [i_nodes with_nodes] in Zi.
    assert (Hno' : nodes_of g st' = i_nodes im').
    { unfold nodes_of, impl_of, live_sig. rewrite Ss. cbn [st4 sigs set_impl with_impls]. rewrite Rs.
      unfold live_sig in Hl. rewrite Hl, Hgi, Hi'. reflexivity. }
    assert (Hno : nodes_of g st = i_nodes im) by (unfold nodes_of, impl_of; rewrite Hl, Hgi, Hi; reflexivity).
    assert (Hnd : exists nd l', node_sim nd4 nd /\ Forall2 node_sim (i_nodes im) l' /\
                                i_nodes im' = (if front then nd :: l' else l' ++ [nd])).
    { unfold nodes' in Zi. destruct front.
      - inversion Zi as [|? nd ? l' Z1 Z2]; subst. exists nd, l'. auto.
      - apply Forall2_app_inv_l in Zi. destruct Zi as (l' & l2 & Z1 & Z2 & Z3).
        inversion Z2 as [|? nd ? l3 Z4 Z5]; subst. inversion Z5; subst. exists nd, l'. auto. }
    destruct Hnd as (nd & l' & (N1 & N2 & N3) & Hl' & Enodes).
    exists nd. cbn [nd4 n_id n_sb sb_blocked sb_rep] in N1, N2, N3.
    split; [exact N1|]. split; [rewrite N2; exact P4|]. split; [|split].
    - destruct (sb_rep (n_sb nd)) as [r1|]; [|contradiction]. cbn [rep_sim] in N3. destruct N3 as (A1 & A2 & A3).
      exists r1. split; [reflexivity|]. split; [congruence|]. rewrite A2, A3. exact Rv.
    - exists l'. rewrite Hno', Hno. split; [exact Enodes|apply Forall2_node_sim_ids; exact Hl'].
    - intros j imj Hj Hgj. pose proof (Si j) as Zj. unfold st4 in Zj. rewrite aget_set_impl in Zj.
      destruct (N.eqb_spec j i); [contradiction|]. rewrite Ri, Hgj in Zj.
      destruct (aget j (impls st')) as [imj'|]; [|contradiction]. exists imj'. split; [reflexivity|].
      apply Forall2_node_sim_ids. exact Zj. }
  destruct c as [cv|].
  - fold nd4. fold nodes'. fold st4.
    destruct (fresh_conn cv st4).
    + destruct (watch_add (Some (i, Real (next_nid st))) (WC cv) (set_connptr (WC cv) (Some (i, Real (next_nid st))) st4)) as [st5|] eqn:E5;
        cbn [liftu lift]; [|discriminate].
      intro E. inversion E; subst st'. apply Hfin. eapply nsim_trans; [apply set_connptr_nsim|eapply watch_add_nsim; eauto].
    + destruct (get_connptr (WC cv) st4).
      * destruct (conn_set (WC cv) (Some (i, Real (next_nid st))) st4) as [st5|] eqn:E5; cbn [liftu lift]; [|discriminate].
        intro E. inversion E; subst st'. apply Hfin. eapply conn_set_nsim; eauto.
      * intro E. inversion E; subst st'. apply Hfin. apply nsim_refl.
  - fold nd4. fold nodes'. fold st4. intro E. inversion E; subst st'. apply Hfin. apply nsim_refl.
Qed.

(* ------------------------------------------------------------------ *)
(* S_connect_position does not hold as stated: connecting a *copy* of a slot that is disconnected
   (rep present, call_ == nullptr) and blocked yields an unblocked element, because the copy
   constructor of slot_base resets the copy to slot_base() (slot_base.cc, copy ctor: "*this = slot_base()").  *)

Definition cx_prog : program := mkProg [] [] [] [].
Definition cx_k : gkind := mkGK RV None false.
Definition cx_ops : list op := [OGNew 0 cx_k; OGCopy 1 0; OSNew 0 RV 0 []; OSBlock 0 true; OSDisc 0].
Definition cx_st : state := match run_top cx_prog 0 cx_ops st0 with Ok s => s | Err _ => st0 end.
Definition cx_rec : callee -> state -> outcome N := fun _ st => Done st 0.
Definition cx_st' : state :=
  match step cx_prog cx_rec (OGConnect 0 0 None false false) cx_st with Done s _ => s | _ => st0 end.
Definition cx_go : sigobj := match live_sig 0 cx_st with Some x => x | None => mkSig cx_k None end.
Definition cx_src : slotbase := match live_slot 0 cx_st with Some x => x | None => sb_none end.

Lemma cx_run : run_top cx_prog 0 cx_ops st0 = Ok cx_st.
Proof. vm_compute. reflexivity. Qed.

Lemma cx_wf : WF cx_st.
Proof.
  pose proof (run_top_safe cx_prog 0 cx_ops st0 WF_top_st0) as Z. rewrite cx_run in Z. exact (proj1 Z).
Qed.

Theorem connect_position_false : ~ S_connect_position_any_source.
Proof.
  intro Hs.
  destruct (Hs cx_prog cx_rec 0 0 None false false cx_st cx_st' cx_go cx_src 0 cx_wf)
    as (nd & _ & Hb & _ & (l' & Hn & Hl') & _); try (vm_compute; reflexivity).
  assert (E0 : nodes_of 0 cx_st = []) by (vm_compute; reflexivity).
  rewrite E0 in Hl'. destruct l'; [|discriminate]. cbn [app] in Hn.
  assert (E1 : sb_blocked cx_src = true) by (vm_compute; reflexivity). rewrite E1 in Hb.
  assert (E2 : map (fun x => sb_blocked (n_sb x)) (nodes_of 0 cx_st') = [false]) by (vm_compute; reflexivity).
  rewrite Hn in E2. cbn [map] in E2. congruence.
Qed.

Print Assumptions quiescent_lists.
Print Assumptions functor_holders.
Print Assumptions teardown_complete.
Print Assumptions query_reports.
Print Assumptions connect_position_partial.
Print Assumptions connect_position_false.
