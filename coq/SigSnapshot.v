(* SigSnapshot.v -- the pointer-chasing loop of the emitters visits exactly the snapshot of node
   ids taken at frame entry (C01, C03, C08, C13). *)
From Coq Require Import List NArith Bool Lia Arith Permutation.
Import ListNotations.
Require Import Util SigCore SigLemmas SigInv SigSafe SigSpec.
Local Open Scope N_scope.

(* ------------------------------------------------------------------ *)
(* emit_loop = spec_loop                                                *)

Section Loop.
  Variable prog : program.
  Variable rec : callee -> state -> outcome N.
  Hypothesis rec_ok : forall c st, WF st -> out_ok st (rec c st).

  Lemma nth_error_mid {A} (pre : list A) x post : nth_error (pre ++ x :: post) (length pre) = Some x.
  Proof. rewrite nth_error_app2 by lia. rewrite Nat.sub_diag. reflexivity. Qed.

  (* for any suffix [snap ++ [ph]] of the block fixed at frame entry, chasing node_next in whatever
     the list has become visits exactly [snap] *)
  Lemma emit_loop_snapshot i blk ph st1 arg : Open i blk ph st1 ->
    forall snap pre fuel last st, Guar st1 st -> blk = pre ++ snap ++ [ph] ->
      (length snap <= fuel)%nat ->
      emit_loop rec fuel i (hd ph (snap ++ [ph])) ph arg last st = spec_loop rec i snap arg last st.
  Proof.
    intro Op. induction snap as [|cur rest IH]; intros pre fuel last st G Eb Hf.
    - cbn [app hd spec_loop]. destruct fuel; cbn [emit_loop]; rewrite nid_eqb_refl; reflexivity.
    - cbn [app hd spec_loop].
      destruct fuel as [|fuel]; [cbn [length] in Hf; lia|]. cbn [length] in Hf.
      assert (Hne : cur <> ph).
      { intro X. subst cur. pose proof (op_nodup _ _ _ _ Op) as Hnd. rewrite Eb in Hnd. cbn [app] in Hnd.
        apply NoDup_remove_2 in Hnd. apply Hnd. apply in_or_app. right. apply in_or_app. right. left. reflexivity. }
      cbn [emit_loop]. destruct (nid_eqb_spec cur ph) as [X|_]; [contradiction|].
      destruct (get_sb (LNode i cur) st) as [sb|] eqn:Hsb; [|reflexivity].
      assert (Hk : nth_error blk (length pre) = Some cur) by (rewrite Eb; cbn [app]; apply nth_error_mid).
      assert (Eb' : blk = (pre ++ [cur]) ++ rest ++ [ph]) by (rewrite Eb, <- app_assoc; reflexivity).
      assert (Hk' : (S (length pre) < length blk)%nat).
      { rewrite Eb. rewrite !app_length. cbn [length]. rewrite ?app_length. cbn [length]. lia. }
      assert (Hcont : forall st' last', Guar st1 st' ->
                match node_next i cur st' with
                | Err e => Fail e
                | Ok None => Fail ErrDangling
                | Ok (Some nx) => emit_loop rec fuel i nx ph arg last' st'
                end = spec_loop rec i rest arg last' st').
      { intros st' last' G'. pose proof (Open_block _ _ _ _ _ Op G') as IB'.
        destruct (node_next_block _ _ _ _ _ IB' Hk Hk') as (nx & En & Hnx). rewrite En.
        assert (Enx : nx = hd ph (rest ++ [ph])).
        { rewrite Eb' in Hnx. replace (S (length pre)) with (length (pre ++ [cur])) in Hnx
            by (rewrite app_length; cbn [length]; lia).
          destruct (rest ++ [ph]) as [|y l] eqn:Ey; [destruct rest; discriminate|].
          rewrite nth_error_mid in Hnx. inversion Hnx. reflexivity. }
        rewrite Enx. apply (IH (pre ++ [cur])); [exact G'|exact Eb'|lia]. }
      destruct (sb_empty sb || sb_blocked sb) eqn:Hskip; [apply Hcont; exact G|].
      apply orb_false_elim in Hskip. destruct Hskip as [Hemp _].
      pose proof (invoke_at_ok rec rec_ok (LNode i cur) arg st sb (proj1 G) Hsb Hemp) as X.
      destruct (invoke_at rec (LNode i cur) arg st) as [st' v|st'|e]; cbn [out_ok] in X; [|reflexivity|reflexivity].
      apply Hcont. eapply Guar_trans; eauto.
  Qed.

  Lemma emit_is_snapshot_rec g arg st go : WF st -> live_sig g st = Some go -> gk_acc (g_kind go) = None ->
    emit_sig prog rec g arg st = spec_emit rec g arg st.
  Proof.
    intros H Hl Ha. unfold emit_sig, spec_emit. rewrite Hl, Ha.
    destruct (g_impl go) as [i|]; [|reflexivity].
    destruct (aget i (impls st)) as [im|] eqn:Hi; [|reflexivity].
    destruct (i_nodes im) as [|x l] eqn:En; [reflexivity|]. rewrite <- En.
    unfold with_frame.
    destruct (frame_enter_ok i im st H Hi) as (first & ph & st1 & im1 & E & W1 & Fr & Hfirst).
    rewrite E.
    pose proof (Framed_Open i im ph st st1 im1 W1 Fr) as Op.
    pose proof (fr_ids _ _ _ _ _ _ Fr) as Fids.
    assert (Hloop : emit_loop rec (length (i_nodes im1)) i first ph arg 0 st1 =
                    spec_loop rec i (map n_id (i_nodes im)) arg 0 st1).
    { assert (Ef : first = hd ph (map n_id (i_nodes im) ++ [ph])).
      { rewrite Fids in Hfirst. unfold ids in Hfirst.
        destruct (map n_id (i_nodes im) ++ [ph]) as [|y t]; [discriminate|]. cbn in Hfirst. inversion Hfirst. reflexivity. }
      rewrite Ef. apply (emit_loop_snapshot i _ ph st1 arg Op (map n_id (i_nodes im)) []).
      - apply Guar_refl. exact W1.
      - cbn [app]. exact Fids.
      - assert (L : length (ids (i_nodes im1)) = length (i_nodes im1)) by (unfold ids; apply map_length).
        rewrite <- L, Fids, app_length. unfold ids. lia. }
    rewrite Hloop. reflexivity.
  Qed.
End Loop.

Lemma emit_is_snapshot : S_emit_is_snapshot.
Proof. intros prog rec Hrec g arg st go. apply emit_is_snapshot_rec. exact Hrec. Qed.

Lemma emit_is_snapshot_fuel : S_emit_is_snapshot_fuel.
Proof.
  intros prog fuel g arg st go. apply emit_is_snapshot_rec. apply run_callee_fuel_ok.
Qed.

(* ------------------------------------------------------------------ *)
(* direct consequences of the shape of spec_loop                        *)

Lemma value_emit_last : S_value_emit_last.
Proof.
  intros rec i snap. induction snap as [|n rest IH]; intros arg last st st' v H.
  - cbn [spec_loop] in H. inversion H. left. reflexivity.
  - cbn [spec_loop] in H. destruct (get_sb (LNode i n) st) as [sb|] eqn:Hsb; [|discriminate].
    destruct (sb_empty sb || sb_blocked sb) eqn:Hskip.
    + destruct (IH _ _ _ _ _ H) as [->|(m & sb' & s0 & s1 & Hin & R)]; [left; reflexivity|].
      right. exists m, sb', s0, s1. split; [right; exact Hin|exact R].
    + destruct (invoke_at rec (LNode i n) arg st) as [st1 v1|st1|e] eqn:Hinv; try discriminate.
      destruct (IH _ _ _ _ _ H) as [->|(m & sb' & s0 & s1 & Hin & R)].
      * right. exists n, sb, st, st1. split; [left; reflexivity|]. split; [exact Hsb|]. split; [|exact Hinv].
        unfold callable_sb. apply orb_false_elim in Hskip. destruct Hskip as [-> ->]. reflexivity.
      * right. exists m, sb', s0, s1. split; [right; exact Hin|exact R].
Qed.

Lemma exception_stops_loop : S_exception_stops_loop.
Proof.
  intros rec i pre. induction pre as [|m pre IH]; intros n post arg last st st1 v1 sb st2 H Hsb Hc Hinv.
  - cbn [spec_loop] in H. inversion H; subst st1 v1. cbn [app spec_loop]. rewrite Hsb.
    unfold callable_sb in Hc. apply andb_true_iff in Hc. destruct Hc as [A B].
    apply negb_true_iff in A. apply negb_true_iff in B. rewrite A, B. cbn [orb]. rewrite Hinv. reflexivity.
  - cbn [app spec_loop] in *. destruct (get_sb (LNode i m) st) as [sbm|]; [|discriminate].
    destruct (sb_empty sbm || sb_blocked sbm).
    + eapply IH; eauto.
    + destruct (invoke_at rec (LNode i m) arg st) as [s v|s|e]; try discriminate. eapply IH; eauto.
Qed.

Lemma loop_only_invokes_snapshot : S_loop_only_invokes_snapshot.
Proof.
  intros rec i snap. induction snap as [|n rest IH]; intros arg last st Hinv st' v H.
  - cbn [spec_loop] in H. inversion H. reflexivity.
  - cbn [spec_loop] in H. destruct (get_sb (LNode i n) st) as [sb|]; [|discriminate].
    assert (Hrest : forall m, In m rest -> forall st0, invoke_at rec (LNode i m) arg st0 = Done st0 7)
      by (intros m Hm; apply Hinv; right; exact Hm).
    destruct (sb_empty sb || sb_blocked sb).
    + eapply IH; eauto.
    + rewrite (Hinv n (or_introl eq_refl) st) in H. eapply IH; eauto.
Qed.

(* ------------------------------------------------------------------ *)
(* C01: emission with slots that do not touch the library               *)

Lemma with_trace_id s : with_trace (trace s) s = s.
Proof. destruct s; reflexivity. Qed.

Lemma emit_ev_with_trace e t s : emit_ev e (with_trace t s) = with_trace (e :: t) s.
Proof. reflexivity. Qed.

Lemma aset_aset {A} k (v v' : A) l : aset k v (aset k v' l) = aset k v l.
Proof.
  induction l as [|[k' w] l IH]; cbn [aset].
  - rewrite N.eqb_refl. reflexivity.
  - destruct (N.eqb k k') eqn:E; cbn [aset]; rewrite E; [reflexivity|f_equal; exact IH].
Qed.

Lemma set_impl_twice i a b st : set_impl i a (set_impl i b st) = set_impl i a st.
Proof. unfold set_impl. cbn [impls with_impls]. rewrite aset_aset. reflexivity. Qed.

Lemma set_impl_same i im st : aget i (impls st) = Some im -> set_impl i im st = st.
Proof. intro H. unfold set_impl. rewrite (aset_same _ _ _ H). destruct st; reflexivity. Qed.

Lemma del_node_app_last n sb l : ~ In n (ids l) -> del_node n (l ++ [mkNode n sb]) = l.
Proof.
  unfold ids. induction l as [|x l IH]; intro Hn; cbn [app del_node n_id].
  - rewrite nid_eqb_refl. reflexivity.
  - cbn [map In] in Hn. destruct (nid_eqb_spec (n_id x) n) as [E|_]; [exfalso; apply Hn; left; exact E|].
    f_equal. apply IH. intro X. apply Hn. right. exact X.
Qed.

Lemma pure_callee p fuel b arg st : pure_prog p ->
  run_callee_fuel p (S fuel) (CScript b arg) st = Done st (script_ret p b arg).
Proof.
  intro Hp. cbn [run_callee_fuel]. unfold run_callee, script_ret.
  destruct (aget b (p_scripts p)) as [[ops rs]|] eqn:E; [|reflexivity].
  rewrite (Hp _ _ _ E). cbn [run_ops]. destruct rs; reflexivity.
Qed.

Lemma invocation_events_cons p arg nd l :
  invocation_events p arg (nd :: l) =
  (if callable_sb (n_sb nd)
   then match body_of (n_sb nd) with
        | Some b => [EEnter b arg; ELeave b (script_ret p b arg)]
        | None => []
        end
   else []) ++ invocation_events p arg l.
Proof. reflexivity. Qed.

Lemma pure_loop p fuel i arg st1 im1 :
  pure_prog p -> WF st1 -> aget i (impls st1) = Some im1 ->
  forall l, (forall nd, In nd l -> In nd (i_nodes im1)) ->
    forallb (fun nd => is_script_sb (n_sb nd)) l = true ->
    forall last t,
      spec_loop (run_callee_fuel p (S fuel)) i (map n_id l) arg last (with_trace t st1) =
      Done (with_trace (rev (invocation_events p arg l) ++ t) st1)
           (fold_left (fun acc nd => if callable_sb (n_sb nd)
                                     then match body_of (n_sb nd) with Some b => script_ret p b arg | None => acc end
                                     else acc) l last).
Proof.
  intros Hp W Hi. pose proof (proj1 (wf_node_ids st1 i im1 W Hi)) as Hnd. fold (ids (i_nodes im1)) in Hnd.
  induction l as [|nd l IH]; intros Hin Hall last t.
  - reflexivity.
  - cbn [map spec_loop]. cbn [forallb] in Hall. apply andb_true_iff in Hall. destruct Hall as [Hs Hall].
    assert (Hin' : forall x, In x l -> In x (i_nodes im1)) by (intros x Hx; apply Hin; right; exact Hx).
    assert (Hget : forall t', get_sb (LNode i (n_id nd)) (with_trace t' st1) = Some (n_sb nd)).
    { intro t'. rewrite get_sb_node. cbn [impls with_trace]. rewrite Hi.
      rewrite (find_node_in_nodup nd (i_nodes im1) Hnd (Hin nd (or_introl eq_refl))). reflexivity. }
    rewrite Hget. rewrite invocation_events_cons. cbn [fold_left]. unfold callable_sb at 1 3.
    destruct (sb_empty (n_sb nd)) eqn:Hemp; cbn [negb andb orb app].
    { apply IH; assumption. }
    destruct (sb_blocked (n_sb nd)) eqn:Hbl; cbn [negb andb orb app].
    { apply IH; assumption. }
    unfold sb_empty in Hemp. destruct (sb_rep (n_sb nd)) as [r|] eqn:Hr; [|discriminate].
    assert (Hv : r_valid r = true) by (destruct (r_valid r); [reflexivity|discriminate]).
    assert (Hget1 : get_sb (LNode i (n_id nd)) st1 = Some (n_sb nd)).
    { rewrite <- (Hget (trace st1)), with_trace_id. reflexivity. }
    pose proof (wf_valid_has_fn st1 r W (all_reps_complete _ _ _ _ Hget1 Hr) Hv) as Hf.
    destruct (r_fn r) as [f|] eqn:Hfn; [|contradiction].
    unfold is_script_sb in Hs. rewrite Hr, Hfn in Hs.
    destruct (f_fwd f) as [gf|] eqn:Hfwd; [discriminate|].
    unfold invoke_at, get_rep. rewrite Hget, Hr, Hfn. unfold invoke_functor. rewrite Hfwd.
    rewrite (pure_callee p fuel _ _ _ Hp). rewrite !emit_ev_with_trace.
    unfold body_of. rewrite Hr, Hfn.
    rewrite (IH Hin' Hall). f_equal. f_equal.
    rewrite rev_app_distr. cbn [rev app]. rewrite <- app_assoc. reflexivity.
Qed.

Lemma frame_leave_restore i im ph s0 g go :
  aget i (impls s0) = Some im -> i_deferred im = false -> ~ In ph (ids (i_nodes im)) ->
  live_sig g s0 = Some go -> g_impl go = Some i ->
  frame_leave i ph
    (set_impl i (with_nodes (i_nodes im ++ [mkNode ph sb_none])
                            (with_exec (i_exec im + 1) (with_holders (i_holders im + 1) im))) s0) = Ok s0.
Proof.
  intros Hi Hdef Hfresh Hl Hg. unfold frame_leave, erase_node.
  rewrite aget_set_impl, N.eqb_refl. cbn [i_nodes with_nodes].
  rewrite find_node_app. replace (find_node ph (i_nodes im)) with (@None node)
    by (symmetry; apply find_node_none_iff; exact Hfresh).
  cbn [find_node n_id]. rewrite nid_eqb_refl. cbn [n_sb]. unfold sb_delete. cbn [sb_none sb_rep rbind].
  rewrite set_impl_twice, (del_node_app_last _ _ _ Hfresh).
  unfold unreference_exec, upd_impl. rewrite aget_set_impl, N.eqb_refl. cbn [rbind].
  rewrite set_impl_twice, aget_set_impl, N.eqb_refl.
  cbn [i_exec i_deferred i_holders i_dying i_nodes with_exec with_nodes with_holders].
  rewrite Hdef, andb_false_r. cbn [rbind]. rewrite aget_set_impl, N.eqb_refl. cbn [rbind].
  rewrite set_impl_twice.
  cbn [i_exec i_deferred i_holders i_dying i_nodes with_exec with_nodes with_holders].
  rewrite !N.add_sub.
  match goal with
  | |- release_check i (set_impl i ?x s0) = _ => replace x with im by (destruct im; reflexivity)
  end.
  rewrite (set_impl_same _ _ _ Hi).
  unfold release_check. rewrite Hi.
  destruct (N.eqb_spec (refcount i s0) 0) as [Z|_]; [|reflexivity].
  exfalso. exact (proj1 (refcount_zero i s0 Z) g go Hl Hg).
Qed.

Lemma emission_exact_pure : S_emission_exact_pure.
Proof.
  intros p fuel g arg st go Hp [W Q] Hl Ha Hall.
  rewrite (emit_is_snapshot_fuel p (S fuel) g arg st go W Hl Ha).
  unfold spec_emit. unfold nodes_of, impl_of in *. rewrite Hl in *.
  assert (Hnil : exists st', Done st 0 = Done st' (last_result p arg []) /\ appended st st' (invocation_events p arg []) /\
            slots st' = slots st /\ sigs st' = sigs st /\ impls st' = impls st /\ tracks st' = tracks st /\
            conns st' = conns st /\ sconns st' = sconns st).
  { exists st. repeat split; reflexivity. }
  destruct (g_impl go) as [i|] eqn:Hgi; [|exact Hnil].
  destruct (aget i (impls st)) as [im|] eqn:Hi.
  2:{ exfalso. exact (live_sig_impl_present st g go i W Hl Hgi Hi). }
  destruct (i_nodes im) as [|x l] eqn:En; [exact Hnil|]. rewrite <- En in *. clear Hnil.
  destruct (Q i im Hi) as (Qe & Qd & Qh & Qdy & Qph).
  unfold with_frame.
  destruct (frame_enter_ok i im st W Hi) as (first & ph & st1 & im1 & E & W1 & Fr & Hfirst).
  rewrite E. unfold frame_enter in E. rewrite Hi in E. injection E as E1 E2 E3 E4.
  pose proof (fr_get _ _ _ _ _ _ Fr) as Hi1.
  assert (Enodes1 : i_nodes im1 = i_nodes im ++ [mkNode ph sb_none]).
  { rewrite <- E4, aget_set_impl, N.eqb_refl in Hi1. inversion Hi1. rewrite E2. reflexivity. }
  pose proof (pure_loop p fuel i arg st1 im1 Hp W1 Hi1 (i_nodes im)) as L.
  specialize (L ltac:(intros nd Hnd; rewrite Enodes1; apply in_or_app; left; exact Hnd) Hall 0 (trace st1)).
  rewrite with_trace_id in L. rewrite L. clear L.
  set (T := rev (invocation_events p arg (i_nodes im)) ++ trace st1).
  set (s0 := with_trace T (with_next_ph (next_ph st + 1) st)).
  assert (Es : with_trace T st1 =
               set_impl i (with_nodes (i_nodes im ++ [mkNode ph sb_none])
                                      (with_exec (i_exec im + 1) (with_holders (i_holders im + 1) im))) s0).
  { rewrite <- E4, E2. reflexivity. }
  rewrite Es.
  rewrite (frame_leave_restore i im ph s0 g go); [|exact Hi|exact Qd|exact (fr_fresh _ _ _ _ _ _ Fr)|exact Hl|exact Hgi].
  cbn [lift]. exists s0. split; [reflexivity|]. split; [|repeat split; reflexivity].
  unfold appended. cbn [s0 trace with_trace]. unfold T. rewrite <- E4. reflexivity.
Qed.

Print Assumptions emit_is_snapshot.
Print Assumptions emit_is_snapshot_fuel.
Print Assumptions emission_exact_pure.
Print Assumptions value_emit_last.
Print Assumptions exception_stops_loop.
Print Assumptions loop_only_invokes_snapshot.
