(* Properties_C13.v -- Emission results: last slot's value, or the accumulator's verdict.
   Statements only: each Prop is defined in SigSpec.v (or spelled out here) and closed by a lemma of
   SigSafe.v, SigValues.v, SigSnapshot.v; Print Assumptions follows each. *)
From Coq Require Import List NArith Bool.
Import ListNotations.
Require Import Util SigCore SigLemmas SigInv SigSafe SigSpec SigValues SigSnapshot SigAccSnapshot.
Local Open Scope N_scope.

Theorem C13_value_emit_returns_last_invoked : S_value_emit_last.
Proof. exact value_emit_last. Qed.
Print Assumptions C13_value_emit_returns_last_invoked.

Theorem C13_deref_invokes_at_most_once : S_deref_at_most_once.
Proof. exact deref_at_most_once_partial. Qed.
Print Assumptions C13_deref_invokes_at_most_once.

Theorem C13_deref_skips_blocked_or_empty : S_deref_skips_blocked.
Proof. exact deref_skips_blocked. Qed.
Print Assumptions C13_deref_skips_blocked_or_empty.

Theorem C13_moving_rearms : S_move_rearms.
Proof. exact move_rearms. Qed.
Print Assumptions C13_moving_rearms.

Theorem C13_undereferenced_never_invoked : S_undereferenced_never_invoked.
Proof. exact undereferenced_never_invoked. Qed.
Print Assumptions C13_undereferenced_never_invoked.

(* with an accumulator: the accumulator is called once per emission with a range covering exactly the
   slots present when the emission started, in order, walkable forwards and backwards by index,
   whatever the running slots do; emit() returns what the accumulator computed *)
Theorem C13_accumulator_range_is_start_snapshot : S_acc_emit_is_snapshot.
Proof. exact acc_emit_is_snapshot. Qed.
Print Assumptions C13_accumulator_range_is_start_snapshot.
