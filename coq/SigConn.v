(* SigConn.v -- C02 (trackable death), C04 (connections) and C17 (scoped connections). *)
From Coq Require Import List NArith Bool Lia Arith Permutation.
Import ListNotations.
Require Import Util SigCore SigLemmas SigInv SigSafe SigSpec.
Local Open Scope N_scope.

(* ------------------------------------------------------------------ *)
(* small facts                                                          *)

Lemma invalid_never_invoked : S_invalid_never_invoked.
Proof.
  intros sb r Hr Hv. unfold callable_sb, sb_empty. rewrite Hr, Hv. split; reflexivity.
Qed.

Lemma conn_never_dangles : S_conn_never_dangles.
Proof. intros st w i n H Hp. exact (wf_conn_target st w i n H Hp). Qed.

Lemma node_ids_fresh : S_node_ids_fresh.
Proof. intros st i im nd H Hi Hin. exact (proj2 (wf_node_ids st i im H Hi) nd Hin). Qed.

Lemma conn_query_truth : S_conn_query_truth.
Proof.
  intros prog rec c st p H Hp. cbn [step]. rewrite Hp. unfold conn_query, conn_target.
  destruct p as [[i n]|].
  - destruct (wf_conn_target st (WC c) i n H Hp) as (sb & r & G & R & _). rewrite G.
    exists (negb (sb_empty sb)), (sb_blocked sb). split; [reflexivity|].
    unfold sb_empty. rewrite R, negb_involutive. split.
    + intro V. exists i, n, sb, r. auto.
    + intros (i' & n' & sb' & r' & E & G' & R' & V). inversion E; subst i' n'.
      rewrite G in G'. inversion G'; subst sb'. rewrite R in R'. inversion R'; subst r'. exact V.
  - exists false, false. split; [reflexivity|]. split; [discriminate|].
    intros (i & n & sb & r & E & _). discriminate.
Qed.

Lemma disconnect_idempotent : S_disconnect_idempotent.
Proof. intros prog rec c st Hp. cbn [step]. rewrite Hp. reflexivity. Qed.

(* ------------------------------------------------------------------ *)
(* unconditional frames of the small primitives                         *)

Lemma track_remove_frame t rid st st' : track_remove t rid st = Ok st' ->
  same_heavy st st' /\ conns st' = conns st /\ sconns st' = sconns st.
Proof.
  unfold track_remove. destruct (live_track t st) as [tr|]; [|discriminate].
  destruct (t_clearing tr); intro H; inversion H; subst st';
    (split; [apply set_track_heavy|split; reflexivity]).
Qed.

Lemma unbind_all_frame rid refs : forall st st', unbind_all rid refs st = Ok st' ->
  same_heavy st st' /\ conns st' = conns st /\ sconns st' = sconns st.
Proof.
  induction refs as [|t refs IH]; intros st st'; cbn [unbind_all].
  - intro H. inversion H; subst st'. split; [apply same_heavy_refl|split; reflexivity].
  - destruct (track_remove t rid st) as [st1|e] eqn:E1; cbn [rbind]; [|discriminate].
    intro H. destruct (track_remove_frame _ _ _ _ E1) as (H1 & C1 & K1).
    destruct (IH _ _ H) as (H2 & C2 & K2).
    split; [eapply same_heavy_trans; eauto|split; congruence].
Qed.

Lemma del_set_node n sb l : del_node n (set_node n sb l) = del_node n l.
Proof.
  induction l as [|x l IH]; cbn [set_node del_node]; [reflexivity|].
  destruct (nid_eqb (n_id x) n) eqn:E; cbn [del_node n_id].
  - rewrite nid_eqb_refl. reflexivity.
  - rewrite E, IH. reflexivity.
Qed.

(* disconnecting an attached element of a list that is not being emitted erases it *)
Lemma disc_quiet i n st im sb r st' :
  aget i (impls st) = Some im -> i_exec im = 0 -> i_dying im = false ->
  get_sb (LNode i n) st = Some sb -> sb_rep sb = Some r -> r_attached r = true ->
  rep_disconnect (LNode i n) st = Ok st' ->
  exists st3, st' = null_watchers (r_watch r) st3 /\
    (forall j, aget j (impls st3) =
               if N.eqb j i then Some (with_nodes (del_node n (i_nodes im)) im) else aget j (impls st)) /\
    slots st3 = slots st /\ sigs st3 = sigs st /\ conns st3 = conns st /\ sconns st3 = sconns st.
Proof.
  intros Hi He Hd Hsb Hrep Hatt. unfold rep_disconnect, get_rep. rewrite Hsb, Hrep, Hatt.
  unfold set_rep. rewrite Hsb.
  set (r1 := r_with_attached false (r_with_valid false r)).
  set (sb1 := mkSB (Some r1) (sb_blocked sb)).
  unfold set_sb. rewrite Hi.
  set (im1 := with_nodes (set_node n sb1 (i_nodes im)) im).
  set (st1 := set_impl i im1 st).
  assert (Hi1 : aget i (impls st1) = Some im1) by (unfold st1; rewrite aget_set_impl, N.eqb_refl; reflexivity).
  unfold parent_cleanup. rewrite Hi1.
  assert (Hd1 : i_dying im1 = false) by exact Hd. rewrite Hd1.
  assert (He1 : N.eqb (i_exec im1) 0 = true) by (apply N.eqb_eq; exact He). rewrite He1.
  unfold erase_node. rewrite Hi1.
  destruct (get_sb_node_inv _ _ _ _ Hsb) as (im0 & nd & Hi0 & Hf & Hnsb). rewrite Hi in Hi0. inversion Hi0; subst im0.
  assert (Hf1 : find_node n (i_nodes im1) = Some (mkNode n sb1)).
  { unfold im1. cbn [i_nodes with_nodes]. rewrite find_node_set_node, nid_eqb_refl, Hf. reflexivity. }
  rewrite Hf1. cbn [n_sb]. unfold sb_delete. cbn [sb1 sb_rep].
  set (st2 := set_impl i (with_nodes (del_node n (i_nodes im1)) im1) st1).
  unfold rep_delete. cbn [r1 r_attached r_with_attached r_with_valid r_fn r_id r_watch].
  intro H.
  assert (Hu : exists st3, match r_fn r with Some f => unbind_all (r_id r) (f_refs f) st2 | None => Ok st2 end = Ok st3).
  { destruct (match r_fn r with Some f => unbind_all (r_id r) (f_refs f) st2 | None => Ok st2 end) as [st3|e];
      [eauto|discriminate]. }
  destruct Hu as (st3 & E3). rewrite E3 in H. cbn [rbind] in H. inversion H; subst st'. clear H.
  assert (F3 : same_heavy st2 st3 /\ conns st3 = conns st2 /\ sconns st3 = sconns st2).
  { destruct (r_fn r) as [f|].
    - eapply unbind_all_frame; eauto.
    - inversion E3; subst st3. split; [apply same_heavy_refl|split; reflexivity]. }
  destruct F3 as (H3 & C3 & K3). exists st3. split; [reflexivity|].
  split; [|split; [rewrite (sh_slots _ _ H3); reflexivity|split; [rewrite (sh_sigs _ _ H3); reflexivity|split; [rewrite C3; reflexivity|rewrite K3; reflexivity]]]].
  intro j. rewrite (sh_impls _ _ H3). unfold st2. rewrite aget_set_impl. destruct (N.eqb_spec j i) as [->|Hn].
  - unfold im1. cbn [i_nodes with_nodes]. rewrite del_set_node. reflexivity.
  - unfold st1. rewrite aget_set_impl. destruct (N.eqb_spec j i); [contradiction|reflexivity].
Qed.

Lemma conn_ptr_some w st p : conn_ptr w st = Some p -> get_connptr w st = Some (Some p).
Proof.
  unfold conn_ptr. destruct (get_connptr w st) as [[q|]|]; try discriminate. intro H. rewrite H. reflexivity.
Qed.

Lemma disconnect_exact : S_disconnect_exact.
Proof.
  intros prog rec c st i n im [H Q] Hp Hi (r & sb & Hsb & Hrep & Hatt).
  destruct (Q i im Hi) as (He & _ & _ & Hd & _).
  destruct (rep_disconnect_ok (LNode i n) st (wf_c _ H)) as (st' & E & _).
  destruct (disc_quiet i n st im sb r st' Hi He Hd Hsb Hrep Hatt E) as (st3 & -> & Him & Hsl & Hsg & Hc & Hk).
  exists (null_watchers (r_watch r) st3), (with_nodes (del_node n (i_nodes im)) im).
  destruct (null_watchers_fields (r_watch r) st3) as (F1 & F2 & F3 & _).
  split.
  { cbn [step]. rewrite Hp. unfold conn_disconnect, conn_target. rewrite Hsb. cbn [rbind]. rewrite E. reflexivity. }
  split; [rewrite F3, Him, N.eqb_refl; reflexivity|].
  split; [reflexivity|].
  split.
  { intros j imj Hj Hg. rewrite F3, Him. destruct (N.eqb_spec j i); [contradiction|exact Hg]. }
  split; [congruence|]. split; [congruence|].
  intros w Hw. apply conn_ptr_some in Hw.
  destruct (wf_conn_target st w i n H Hw) as (sb' & r' & G & R & Hin).
  rewrite Hsb in G. inversion G; subst sb'. rewrite Hrep in R. inversion R; subst r'.
  unfold conn_ptr. rewrite get_connptr_null_watchers.
  apply existsb_wref in Hin. rewrite Hin. destruct (get_connptr w st3); reflexivity.
Qed.

(* ------------------------------------------------------------------ *)
(* C17: the watch-list primitives keep the lists and the validity of their elements *)

Definition vmap (l : list node) := map (fun x => option_map r_valid (sb_rep (n_sb x))) l.

Definition same_shape (st st' : state) : Prop :=
  forall i im, aget i (impls st) = Some im -> exists im', aget i (impls st') = Some im' /\
    map n_id (i_nodes im') = map n_id (i_nodes im) /\ vmap (i_nodes im') = vmap (i_nodes im).

Lemma same_shape_refl st : same_shape st st.
Proof. intros i im H. exists im. auto. Qed.

Lemma same_shape_trans a b c : same_shape a b -> same_shape b c -> same_shape a c.
Proof.
  intros H1 H2 i im Hi. destruct (H1 i im Hi) as (im1 & Hi1 & A1 & B1).
  destruct (H2 i im1 Hi1) as (im2 & Hi2 & A2 & B2). exists im2. split; [exact Hi2|]. split; congruence.
Qed.

Lemma same_shape_impls st st' : impls st' = impls st -> same_shape st st'.
Proof. intros E i im H. exists im. rewrite E. auto. Qed.

Lemma map_set_node {B} (f : node -> B) n sb l nd :
  find_node n l = Some nd -> f (mkNode n sb) = f nd -> map f (set_node n sb l) = map f l.
Proof.
  intros Hf Hn. induction l as [|x l IH]; cbn [find_node set_node map] in *; [reflexivity|].
  destruct (nid_eqb (n_id x) n).
  - inversion Hf; subst x. cbn [map]. rewrite Hn. reflexivity.
  - cbn [map]. rewrite (IH Hf). reflexivity.
Qed.

Lemma set_sb_watch_shape i n st sb r ws :
  get_sb (LNode i n) st = Some sb -> sb_rep sb = Some r ->
  same_shape st (set_sb (LNode i n) (mkSB (Some (r_with_watch ws r)) (sb_blocked sb)) st).
Proof.
  intros Hsb Hrep. destruct (get_sb_node_inv _ _ _ _ Hsb) as (im0 & nd & Hi0 & Hf & Hnsb).
  intros j im Hj. unfold set_sb. rewrite Hi0, aget_set_impl. destruct (N.eqb_spec j i) as [->|Hn].
  - rewrite Hi0 in Hj. inversion Hj; subst im0. eexists. split; [reflexivity|]. cbn [i_nodes with_nodes]. split.
    + apply (ids_set_node n _ (i_nodes im)).
    + unfold vmap. eapply map_set_node; [exact Hf|]. cbn [n_sb sb_rep option_map r_valid r_with_watch].
      rewrite Hnsb, Hrep. reflexivity.
  - exists im. auto.
Qed.

Lemma Ok_inj {A} (a b : A) : Ok a = Ok b -> a = b.
Proof. intro H. congruence. Qed.

Lemma watch_add_frame p w st st' : watch_add p w st = Ok st' ->
  same_shape st st' /\ (forall w', get_connptr w' st' = get_connptr w' st).
Proof.
  unfold watch_add. destruct p as [[i n]|].
  - destruct (get_sb (LNode i n) st) as [sb|] eqn:Hsb; [|discriminate].
    destruct (sb_rep sb) as [r|] eqn:Hrep; intro H; apply Ok_inj in H; subst st'.
    + split; [eapply set_sb_watch_shape; eauto|]. intro w'. apply get_connptr_set_sb.
    + split; [apply same_shape_refl|reflexivity].
  - intro H; apply Ok_inj in H; subst st'. split; [apply same_shape_refl|reflexivity].
Qed.

Lemma watch_remove_frame p w st st' : watch_remove p w st = Ok st' ->
  same_shape st st' /\ (forall w', get_connptr w' st' = get_connptr w' st).
Proof.
  unfold watch_remove. destruct p as [[i n]|].
  - destruct (get_sb (LNode i n) st) as [sb|] eqn:Hsb; [|discriminate].
    destruct (sb_rep sb) as [r|] eqn:Hrep; intro H; apply Ok_inj in H; subst st'.
    + split; [eapply set_sb_watch_shape; eauto|]. intro w'. apply get_connptr_set_sb.
    + split; [apply same_shape_refl|reflexivity].
  - intro H; apply Ok_inj in H; subst st'. split; [apply same_shape_refl|reflexivity].
Qed.

Lemma set_connptr_impls w p st : impls (set_connptr w p st) = impls st.
Proof. destruct w; reflexivity. Qed.

Lemma conn_set_frame w p st st' : conn_set w p st = Ok st' ->
  same_shape st st' /\
  (forall w', get_connptr w' st' = if wref_eqb w' w then Some p else get_connptr w' st).
Proof.
  unfold conn_set. destruct (get_connptr w st) as [old|]; [|discriminate].
  destruct (watch_remove old w st) as [st1|e] eqn:E1; cbn [rbind]; [|discriminate].
  destruct (watch_add p w (set_connptr w p st1)) as [st2|e] eqn:E2; cbn [rbind]; [|discriminate].
  intro H; inversion H; subst st'.
  destruct (watch_remove_frame _ _ _ _ E1) as (S1 & G1). destruct (watch_add_frame _ _ _ _ E2) as (S2 & G2).
  split.
  - eapply same_shape_trans; [exact S1|]. eapply same_shape_trans; [|exact S2].
    apply same_shape_impls. apply set_connptr_impls.
  - intro w'. rewrite G2, get_set_connptr, G1. reflexivity.
Qed.

Lemma wref_eqb_refl w : wref_eqb w w = true.
Proof. apply wref_eqb_eq. reflexivity. Qed.

Lemma scoped_move_no_disconnect : S_scoped_move_no_disconnect.
Proof.
  intros prog rec kn ko st st' p _ Hp Hfresh Hstep. cbn [step] in Hstep. rewrite Hp, Hfresh in Hstep.
  unfold liftu, lift in Hstep.
  destruct (conn_set (WK ko) None st) as [st1|e] eqn:E1; cbn [rbind] in Hstep; [|discriminate].
  destruct (watch_add p (WK kn) (set_connptr (WK kn) p st1)) as [st2|e] eqn:E2; [|discriminate].
  inversion Hstep; subst st2. clear Hstep.
  destruct (conn_set_frame _ _ _ _ E1) as (S1 & G1). destruct (watch_add_frame _ _ _ _ E2) as (S2 & G2).
  assert (Hne : N.eqb ko kn = false).
  { apply N.eqb_neq. intros ->. unfold fresh_sconn in Hfresh. cbn [get_connptr] in Hp.
    destruct (aget kn (sconns st)); discriminate. }
  split; [|split].
  - unfold conn_ptr. rewrite G2, get_set_connptr, wref_eqb_refl. reflexivity.
  - unfold conn_ptr. rewrite G2, get_set_connptr. cbn [wref_eqb]. rewrite Hne, G1, wref_eqb_refl. reflexivity.
  - eapply same_shape_trans; [exact S1|]. eapply same_shape_trans; [|exact S2].
    apply same_shape_impls. apply set_connptr_impls.
Qed.

Lemma scoped_release_no_disconnect : S_scoped_release_no_disconnect.
Proof.
  intros prog rec k c st st' p _ Hp Hfresh Hstep. cbn [step] in Hstep. rewrite Hp, Hfresh in Hstep.
  unfold liftu, lift in Hstep.
  destruct (conn_set (WK k) None st) as [st1|e] eqn:E1; cbn [rbind] in Hstep; [|discriminate].
  destruct (watch_add p (WC c) (set_connptr (WC c) p st1)) as [st2|e] eqn:E2; [|discriminate].
  inversion Hstep; subst st2. clear Hstep.
  destruct (conn_set_frame _ _ _ _ E1) as (S1 & G1). destruct (watch_add_frame _ _ _ _ E2) as (S2 & G2).
  split; [|split].
  - unfold conn_ptr. rewrite G2, get_set_connptr, wref_eqb_refl. reflexivity.
  - unfold conn_ptr. rewrite G2, get_set_connptr. cbn [wref_eqb]. rewrite G1, wref_eqb_refl. reflexivity.
  - eapply same_shape_trans; [exact S1|]. eapply same_shape_trans; [|exact S2].
    apply same_shape_impls. apply set_connptr_impls.
Qed.

Lemma scoped_swap_exchanges : S_scoped_swap_exchanges.
Proof.
  intros prog rec k1 k2 st st' p1 p2 _ Hne Hp1 Hp2 Hstep. cbn [step] in Hstep. rewrite Hp1, Hp2 in Hstep.
  apply N.eqb_neq in Hne. rewrite Hne in Hstep. unfold liftu, lift in Hstep.
  destruct (conn_set (WK k1) p2 st) as [st1|e] eqn:E1; cbn [rbind] in Hstep; [|discriminate].
  destruct (conn_set (WK k2) p1 st1) as [st2|e] eqn:E2; [|discriminate].
  inversion Hstep; subst st2. clear Hstep.
  destruct (conn_set_frame _ _ _ _ E1) as (S1 & G1). destruct (conn_set_frame _ _ _ _ E2) as (S2 & G2).
  split; [|split].
  - unfold conn_ptr. rewrite G2. cbn [wref_eqb]. rewrite Hne, G1, wref_eqb_refl. reflexivity.
  - unfold conn_ptr. rewrite G2, wref_eqb_refl. reflexivity.
  - intros i im Hi. destruct (same_shape_trans _ _ _ S1 S2 i im Hi) as (im' & A & B & _). exists im'. auto.
Qed.

(* the disconnect performed first by ~scoped_connection / scoped_connection::operator= *)
Lemma scoped_disc_first w st i n im r sb :
  WF_top st -> get_connptr w st = Some (Some (i, n)) -> aget i (impls st) = Some im ->
  get_sb (LNode i n) st = Some sb -> sb_rep sb = Some r -> r_attached r = true ->
  exists st3, conn_disconnect (Some (i, n)) st = Ok (null_watchers (r_watch r) st3) /\
    In w (r_watch r) /\
    impls (null_watchers (r_watch r) st3) = impls st3 /\
    aget i (impls st3) = Some (with_nodes (del_node n (i_nodes im)) im) /\
    conns st3 = conns st /\ sconns st3 = sconns st.
Proof.
  intros [H Q] Hp Hi Hsb Hrep Hatt.
  destruct (Q i im Hi) as (He & _ & _ & Hd & _).
  destruct (rep_disconnect_ok (LNode i n) st (wf_c _ H)) as (st' & E & _).
  destruct (disc_quiet i n st im sb r st' Hi He Hd Hsb Hrep Hatt E) as (st3 & -> & Him & Hsl & Hsg & Hc & Hk).
  exists st3. split.
  { unfold conn_disconnect, conn_target. rewrite Hsb. cbn [rbind]. exact E. }
  destruct (wf_conn_target st w i n H Hp) as (sb' & r' & G & R & Hin).
  rewrite Hsb in G. inversion G; subst sb'. rewrite Hrep in R. inversion R; subst r'.
  split; [exact Hin|]. destruct (null_watchers_fields (r_watch r) st3) as (_ & _ & F3 & _).
  split; [exact F3|]. split; [rewrite Him, N.eqb_refl; reflexivity|]. split; assumption.
Qed.

Lemma scoped_destroy_disconnects : S_scoped_destroy_disconnects.
Proof.
  intros prog rec k st st' i n im HT Hp Hi (r & sb & Hsb & Hrep & Hatt) Hstep.
  destruct (scoped_disc_first (WK k) st i n im r sb HT Hp Hi Hsb Hrep Hatt) as (st3 & E & Hin & F3 & Him & Hc & Hk).
  cbn [step] in Hstep. rewrite Hp, E in Hstep. cbn [rbind] in Hstep.
  assert (G : get_connptr (WK k) (null_watchers (r_watch r) st3) = Some None).
  { rewrite get_connptr_null_watchers. apply existsb_wref in Hin. rewrite Hin.
    rewrite (get_connptr_eq _ _ _ Hc Hk), Hp. reflexivity. }
  rewrite G in Hstep. cbn [watch_remove rbind liftu lift] in Hstep. inversion Hstep; subst st'. clear Hstep.
  split.
  - cbn [get_connptr sconns with_sconns]. rewrite aget_aset_same. reflexivity.
  - exists (with_nodes (del_node n (i_nodes im)) im). cbn [impls with_sconns]. rewrite F3. split; [exact Him|reflexivity].
Qed.

(* S_scoped_assign_disconnects_old does not hold for every WF_top state: WF only says that a
   non-null handle is registered at its target, not that a registered handle points at that element.
   In a state where c is (spuriously) registered at the element held by k while pointing elsewhere,
   the disconnect nulls c and k ends up empty.  With the side condition that c is not registered at
   the element being disconnected (which implies pc <> Some (i, n) by WF) the statement holds. *)
Lemma scoped_assign_disconnects_old_partial :
  forall prog rec k c st st' i n im pc, WF_top st -> get_connptr (WK k) st = Some (Some (i, n)) ->
    get_connptr (WC c) st = Some pc -> pc <> Some (i, n) ->
    aget i (impls st) = Some im ->
    (exists r sb, get_sb (LNode i n) st = Some sb /\ sb_rep sb = Some r /\ r_attached r = true /\
                  ~ In (WC c) (r_watch r)) ->
    step prog rec (OKAssign k c) st = Done st' tt ->
    conn_ptr (WK k) st' = pc /\
    exists im', aget i (impls st') = Some im' /\ map n_id (i_nodes im') = map n_id (del_node n (i_nodes im)).
Proof.
  intros prog rec k c st st' i n im pc HT Hp Hpc _ Hi (r & sb & Hsb & Hrep & Hatt & Hnin) Hstep.
  destruct (scoped_disc_first (WK k) st i n im r sb HT Hp Hi Hsb Hrep Hatt) as (st3 & E & Hin & F3 & Him & Hc & Hk).
  cbn [step] in Hstep. rewrite Hp, Hpc, E in Hstep. cbn [rbind] in Hstep.
  assert (G : get_connptr (WK k) (null_watchers (r_watch r) st3) = Some None).
  { rewrite get_connptr_null_watchers. apply existsb_wref in Hin. rewrite Hin.
    rewrite (get_connptr_eq _ _ _ Hc Hk), Hp. reflexivity. }
  assert (G' : get_connptr (WC c) (null_watchers (r_watch r) st3) = Some pc).
  { rewrite get_connptr_null_watchers. destruct (existsb (wref_eqb (WC c)) (r_watch r)) eqn:X.
    - apply existsb_wref in X. contradiction.
    - rewrite (get_connptr_eq _ _ _ Hc Hk). exact Hpc. }
  rewrite G, G' in Hstep. unfold liftu, lift in Hstep.
  destruct (conn_set (WK k) pc (null_watchers (r_watch r) st3)) as [st2|e] eqn:E2; [|discriminate].
  inversion Hstep; subst st2. clear Hstep.
  destruct (conn_set_frame _ _ _ _ E2) as (S2 & G2). split.
  - unfold conn_ptr. rewrite G2, wref_eqb_refl. reflexivity.
  - destruct (S2 i (with_nodes (del_node n (i_nodes im)) im)) as (im' & A & B & _); [rewrite F3; exact Him|].
    exists im'. split; [exact A|exact B].
Qed.

(* ------------------------------------------------------------------ *)
(* C02: what a notification cascade does to the reps.  A rep never moves, never changes id, its
   functor is only ever dropped, and an attached rep of a list that is not being emitted cannot be
   changed without being erased from its list. *)

Definition nq (l : loc) (st : state) : Prop :=
  match l with
  | LNode i _ => exists im, aget i (impls st) = Some im /\ (i_exec im <> 0 \/ i_dying im = true)
  | LVar _ => False
  end.

Definition rchg (l : loc) (st : state) (r r' : rep) : Prop :=
  r_id r' = r_id r /\
  ((r_attached r' = r_attached r /\ r_fn r' = r_fn r) \/
   (r_attached r' = false /\ (r_fn r' = r_fn r \/ r_fn r' = None) /\ (r_attached r = false \/ nq l st))).

Definition RR (st st' : state) : Prop :=
  forall l sb' r', get_sb l st' = Some sb' -> sb_rep sb' = Some r' ->
    exists sb r, get_sb l st = Some sb /\ sb_rep sb = Some r /\ rchg l st r r'.

Definition nqmono (a b : state) : Prop := forall l, nq l b -> nq l a.

Lemma rchg_refl l st r : rchg l st r r.
Proof. split; [reflexivity|]. left. split; reflexivity. Qed.

Lemma RR_sub st st' : (forall l sb', get_sb l st' = Some sb' -> get_sb l st = Some sb') -> RR st st'.
Proof. intros H l sb' r' G R. exists sb', r'. split; [apply H; exact G|]. split; [exact R|apply rchg_refl]. Qed.

Lemma RR_refl st : RR st st.
Proof. apply RR_sub. auto. Qed.

Lemma nqmono_impls a b : impls b = impls a -> nqmono a b.
Proof. intros E [s|i n]; cbn [nq]; [tauto|]. rewrite E. tauto. Qed.

Lemma nqmono_casc a b : Casc a b -> nqmono a b.
Proof.
  intros C [s|i n]; cbn [nq]; [tauto|]. intros (im' & Hi' & Hq).
  pose proof (ca_impls _ _ C i) as X. rewrite Hi' in X. destruct (aget i (impls a)) as [im|]; [|contradiction].
  destruct X as (X1 & _ & X3 & _). exists im. split; [reflexivity|]. rewrite <- X1, <- X3. exact Hq.
Qed.

Lemma RR_trans a b c : nqmono a b -> RR a b -> RR b c -> RR a c.
Proof.
  intros M R1 R2 l sb'' r'' G'' Hr''.
  destruct (R2 l sb'' r'' G'' Hr'') as (sb' & r' & G' & Hr' & (I2 & C2)).
  destruct (R1 l sb' r' G' Hr') as (sb & r & G & Hr & (I1 & C1)).
  exists sb, r. split; [exact G|]. split; [exact Hr|]. split; [congruence|].
  destruct C2 as [(A2 & F2)|(A2 & F2 & Q2)].
  - destruct C1 as [(A1 & F1)|(A1 & F1 & Q1)].
    + left. split; congruence.
    + right. split; [congruence|]. split; [|exact Q1]. rewrite F2. exact F1.
  - right. split; [exact A2|]. split.
    + destruct F2 as [F2|F2]; [|right; exact F2]. rewrite F2.
      destruct C1 as [(_ & F1)|(_ & F1 & _)]; [left; exact F1|exact F1].
    + destruct C1 as [(A1 & _)|(_ & _ & Q1)]; [|exact Q1].
      destruct Q2 as [Q2|Q2]; [left; congruence|right; apply M; exact Q2].
Qed.

Lemma RR_getsb_r a b c : RR a b -> (forall l, get_sb l c = get_sb l b) -> RR a c.
Proof. intros R E l sb' r' G Hr. rewrite E in G. exact (R l sb' r' G Hr). Qed.

Lemma RR_heavy st st' : same_heavy st st' -> RR st st'.
Proof. intro H. eapply RR_getsb_r; [apply RR_refl|]. intro l. apply get_sb_heavy. exact H. Qed.

Lemma RR_set_sb l st sb r r2 b : get_sb l st = Some sb -> sb_rep sb = Some r -> rchg l st r r2 ->
  RR st (set_sb l (mkSB (Some r2) b) st).
Proof.
  intros G R C l' sb' r' G' R'. destruct (loc_eqb_spec l' l) as [->|Hn].
  - rewrite (get_set_sb_same _ _ _ _ G) in G'. inversion G'; subst sb'. cbn [sb_rep] in R'. inversion R'; subst r'.
    exists sb, r. auto.
  - rewrite get_set_sb_other in G' by exact Hn. exists sb', r'. split; [exact G'|]. split; [exact R'|apply rchg_refl].
Qed.

Lemma rep_ids_inj_c st l l' sb sb' r r' : WFc st ->
  get_sb l st = Some sb -> sb_rep sb = Some r -> get_sb l' st = Some sb' -> sb_rep sb' = Some r' ->
  r_id r = r_id r' -> l = l'.
Proof.
  intros H G1 R1 G2 R2 E. destruct (loc_eqb_spec l l') as [|Hne]; [assumption|exfalso].
  destruct (all_reps_set_sb l st sb (mkSB None false) G1) as (A & B & Ea & Ea').
  unfold sb_reps in Ea, Ea'. rewrite R1 in Ea. cbn [sb_rep optl app] in Ea, Ea'.
  assert (G2' : get_sb l' (set_sb l (mkSB None false) st) = Some sb') by (rewrite get_set_sb_other by congruence; exact G2).
  pose proof (get_sb_in_all_reps _ _ _ _ G2' R2) as Hin. rewrite Ea' in Hin.
  pose proof (ws_rids _ (wc_struct _ H)) as Hnd. rewrite Ea, map_app in Hnd. cbn [map] in Hnd.
  apply NoDup_remove_2 in Hnd. apply Hnd. rewrite <- map_app, E. apply in_map. exact Hin.
Qed.

Lemma rep_disconnect_RR l st st' : WFc st -> rep_disconnect l st = Ok st' ->
  RR st st' /\ (forall sb1 r1, get_sb l st' = Some sb1 -> sb_rep sb1 = Some r1 -> r_attached r1 = false).
Proof.
  intros Hc E. destruct (get_rep l st) as [r|] eqn:Hg.
  2:{ unfold rep_disconnect in E. rewrite Hg in E. apply Ok_inj in E. subst st'. split; [apply RR_refl|].
      intros sb1 r1 G R. unfold get_rep in Hg. rewrite G, R in Hg. discriminate. }
  destruct (get_rep_inv _ _ _ Hg) as (sb & Hsb & Hrep).
  destruct (r_attached r) eqn:Hatt.
  2:{ unfold rep_disconnect in E. rewrite Hg, Hatt in E. unfold set_rep in E. rewrite Hsb in E.
      apply Ok_inj in E. subst st'. split.
      - eapply RR_set_sb; eauto. split; [reflexivity|]. left. split; reflexivity.
      - intros sb1 r1 G R. rewrite (get_set_sb_same _ _ _ _ Hsb) in G. inversion G; subst sb1.
        cbn [sb_rep] in R. inversion R; subst r1. exact Hatt. }
  destruct l as [s|i n].
  { unfold rep_disconnect in E. rewrite Hg, Hatt in E. discriminate. }
  destruct (get_sb_node_inv _ _ _ _ Hsb) as (im & nd & Hi & Hf & Hnsb).
  pose proof (proj1 (ws_nodes _ (wc_struct _ Hc) i im Hi)) as Hnd.
  destruct (i_dying im) eqn:Hd; [|destruct (N.eqb_spec (i_exec im) 0) as [He|He]].
  3:{ (* emission in progress: deferred *)
      unfold rep_disconnect in E. rewrite Hg, Hatt in E. unfold set_rep in E. rewrite Hsb in E.
      set (r1 := r_with_attached false (r_with_valid false r)) in E.
      set (st1 := set_sb (LNode i n) (mkSB (Some r1) (sb_blocked sb)) st) in E.
      assert (Hi1 : exists im1, aget i (impls st1) = Some im1 /\ i_dying im1 = false /\ i_exec im1 = i_exec im /\
                      forall m, get_sb (LNode i m) st1 = option_map n_sb (find_node m (i_nodes im1))).
      { unfold st1, set_sb. rewrite Hi. eexists. rewrite aget_set_impl, N.eqb_refl. split; [reflexivity|].
        split; [exact Hd|]. split; [reflexivity|]. intro m. rewrite get_sb_set_impl_node, N.eqb_refl. reflexivity. }
      destruct Hi1 as (im1 & Hi1 & Hd1 & He1 & Hg1).
      unfold parent_cleanup in E. rewrite Hi1, Hd1, He1 in E. destruct (N.eqb_spec (i_exec im) 0); [contradiction|].
      apply Ok_inj in E. subst st'.
      assert (EG : forall l', get_sb l' (set_impl i (with_deferred true im1) st1) = get_sb l' st1).
      { intros [s|j m]; [reflexivity|]. rewrite get_sb_set_impl_node. destruct (N.eqb_spec j i) as [->|]; [|reflexivity].
        rewrite Hg1. reflexivity. }
      assert (R1 : RR st st1).
      { unfold st1. eapply RR_set_sb; eauto. split; [reflexivity|]. right. split; [reflexivity|].
        split; [left; reflexivity|]. right. exists im. split; [exact Hi|]. left. exact He. }
      split; [eapply RR_getsb_r; eauto|].
      intros sb1 r2 G R. rewrite EG in G. unfold st1 in G. rewrite (get_set_sb_same _ _ _ _ Hsb) in G.
      inversion G; subst sb1. cbn [sb_rep] in R. inversion R; subst r2. reflexivity. }
  { (* the list is being destroyed *)
      unfold rep_disconnect in E. rewrite Hg, Hatt in E. unfold set_rep in E. rewrite Hsb in E.
      set (r1 := r_with_attached false (r_with_valid false r)) in E.
      set (st1 := set_sb (LNode i n) (mkSB (Some r1) (sb_blocked sb)) st) in E.
      assert (Hi1 : exists im1, aget i (impls st1) = Some im1 /\ i_dying im1 = true).
      { unfold st1, set_sb. rewrite Hi. eexists. rewrite aget_set_impl, N.eqb_refl. split; [reflexivity|exact Hd]. }
      destruct Hi1 as (im1 & Hi1 & Hd1).
      unfold parent_cleanup in E. rewrite Hi1, Hd1 in E. apply Ok_inj in E. subst st'. split.
      - unfold st1. eapply RR_set_sb; eauto. split; [reflexivity|]. right. split; [reflexivity|].
        split; [left; reflexivity|]. right. exists im. split; [exact Hi|]. right. exact Hd.
      - intros sb1 r2 G R. unfold st1 in G. rewrite (get_set_sb_same _ _ _ _ Hsb) in G.
        inversion G; subst sb1. cbn [sb_rep] in R. inversion R; subst r2. reflexivity. }
  (* not emitting: the element is erased *)
  destruct (disc_quiet i n st im sb r st' Hi He Hd Hsb Hrep Hatt E) as (st3 & -> & Him & Hsl & _).
  destruct (null_watchers_fields (r_watch r) st3) as (F1 & _ & F3 & _).
  assert (EG : forall l' sb', get_sb l' (null_watchers (r_watch r) st3) = Some sb' ->
                 l' <> LNode i n /\ get_sb l' st = Some sb').
  { intros [s|j m] sb'.
    - rewrite !get_sb_var, F1, Hsl. intro G. split; [discriminate|exact G].
    - rewrite !get_sb_node, F3, Him. destruct (N.eqb_spec j i) as [->|Hne].
      + cbn [i_nodes with_nodes]. rewrite Hi. destruct (nid_eqb_spec m n) as [->|Hm].
        * rewrite (find_node_del_same n _ Hnd). discriminate.
        * rewrite find_node_del_other by exact Hm. intro G. split; [congruence|exact G].
      + intro G. split; [congruence|exact G]. }
  split.
  - apply RR_sub. intros l' sb' G. exact (proj2 (EG l' sb' G)).
  - intros sb1 r1 G _. exfalso. exact (proj1 (EG _ _ G) eq_refl).
Qed.

Lemma rep_destroy_RR l st st' : (forall r, get_rep l st = Some r -> r_attached r = false) ->
  rep_destroy l st = Ok st' -> RR st st'.
Proof.
  intros Hdet E. unfold rep_destroy in E. destruct (get_rep l st) as [r|] eqn:Hg.
  2:{ apply Ok_inj in E. subst st'. apply RR_refl. }
  destruct (get_rep_inv _ _ _ Hg) as (sb & Hsb & Hrep). unfold set_rep in E. rewrite Hsb in E.
  set (r0 := r_with_fn None (r_with_valid false r)) in E.
  set (st1 := set_sb l (mkSB (Some r0) (sb_blocked sb)) st) in E.
  assert (R1 : RR st st1).
  { unfold st1. eapply RR_set_sb; eauto. split; [reflexivity|]. right.
    split; [exact (Hdet r eq_refl)|]. split; [right; reflexivity|]. left. exact (Hdet r eq_refl). }
  assert (H1 : same_heavy st1 st').
  { destruct (r_fn r) as [f|].
    - exact (proj1 (unbind_all_frame _ _ _ _ E)).
    - apply Ok_inj in E. subst st'. apply same_heavy_refl. }
  eapply RR_getsb_r; [exact R1|]. intro l'. apply get_sb_heavy. exact H1.
Qed.

Lemma rep_invalidated_RR rid st st' : WFc st -> rep_invalidated rid st = Ok st' ->
  RR st st' /\ WFc st' /\ Casc st st'.
Proof.
  intros Hc E.
  assert (Hex : exists r, In r (all_reps st) /\ r_id r = rid).
  { unfold rep_invalidated in E. destruct (find_rep rid st) as [l|] eqn:Hf; [|discriminate].
    destruct (find_rep_sound _ _ _ (WFstruct_keys_ok _ (wc_struct _ Hc)) Hf) as (sb & r & G & R & I).
    exists r. split; [eapply get_sb_in_all_reps; eauto|exact I]. }
  destruct (rep_invalidated_ok rid st Hc Hex) as (st'' & E'' & W & C & _).
  rewrite E in E''. apply Ok_inj in E''. subst st''. split; [|split; assumption].
  unfold rep_invalidated in E. destruct (find_rep rid st) as [l|] eqn:Hf; [|discriminate].
  destruct (rep_disconnect_ok l st Hc) as (st1 & E1 & W1 & C1 & _). rewrite E1 in E. cbn [rbind] in E.
  destruct (rep_disconnect_RR l st st1 Hc E1) as (R1 & Hdet).
  destruct (find_rep rid st1) as [l'|] eqn:Hf1.
  2:{ apply Ok_inj in E. subst st'. exact R1. }
  eapply RR_trans; [apply nqmono_casc; exact C1|exact R1|].
  eapply rep_destroy_RR; [|exact E].
  intros r1 Hg1. destruct (get_rep_inv _ _ _ Hg1) as (sb1 & G1 & Hr1).
  destruct (find_rep_sound _ _ _ (WFstruct_keys_ok _ (wc_struct _ W1)) Hf1) as (sb1' & r1' & G1' & Hr1' & I1).
  rewrite G1 in G1'. inversion G1'; subst sb1'. rewrite Hr1 in Hr1'. inversion Hr1'; subst r1'.
  destruct (R1 l' sb1 r1 G1 Hr1) as (sb & r & G & Hr & (I & _)).
  destruct (find_rep_sound _ _ _ (WFstruct_keys_ok _ (wc_struct _ Hc)) Hf) as (sb0 & r0 & G0 & Hr0 & I0).
  assert (l' = l) by (eapply (rep_ids_inj_c st l' l); eauto; congruence). subst l'.
  exact (Hdet sb1 r1 G1 Hr1).
Qed.

Lemma track_round_RR fuel : forall i t st st', WFc st -> track_round fuel i t st = Ok st' -> RR st st'.
Proof.
  induction fuel as [|fuel IH]; intros i t st st' Hc E; cbn [track_round] in E.
  - apply Ok_inj in E. subst st'. apply RR_refl.
  - destruct (live_track t st) as [tr|]; [|discriminate].
    destruct (t_list tr) as [l|]; [|apply Ok_inj in E; subst st'; apply RR_refl].
    destruct (nth_error l i) as [[rid [|]]|]; [| |apply Ok_inj in E; subst st'; apply RR_refl].
    + destruct (rep_invalidated rid st) as [st1|e] eqn:E1; cbn [rbind] in E; [|discriminate].
      destruct (rep_invalidated_RR rid st st1 Hc E1) as (R1 & W1 & C1).
      eapply RR_trans; [apply nqmono_casc; exact C1|exact R1|]. eapply IH; eauto.
    + eapply IH; eauto.
Qed.

Lemma track_notify_RR t st st' : WFc st -> track_notify t st = Ok st' -> RR st st'.
Proof.
  intros Hc E. unfold track_notify in E. destruct (live_track t st) as [tr|] eqn:Hl.
  2:{ apply Ok_inj in E. subst st'. apply RR_refl. }
  destruct (t_list tr) as [l|] eqn:Hlist.
  2:{ apply Ok_inj in E. subst st'. apply RR_refl. }
  set (tr1 := mkTr (Some l) true) in E. set (st1 := set_track t tr1 st) in E.
  assert (El : tl_of tr1 = tl_of tr) by (unfold tl_of; rewrite Hlist; reflexivity).
  assert (Hc1 : WFc st1) by (eapply WFc_set_track_same; eauto).
  destruct (track_round (length l) 0 t st1) as [st2|e] eqn:E2; cbn [rbind] in E; [|discriminate].
  apply Ok_inj in E. subst st'.
  pose proof (track_round_RR _ _ _ _ _ Hc1 E2) as R2.
  apply RR_trans with (b := st1); [apply nqmono_impls; reflexivity|apply RR_heavy; apply set_track_heavy|].
  eapply RR_getsb_r; [exact R2|]. intro l'. apply get_sb_heavy. apply set_track_heavy.
Qed.

Lemma NoDup_map_inj {A B} (f : A -> B) l x y :
  NoDup (map f l) -> In x l -> In y l -> f x = f y -> x = y.
Proof.
  induction l as [|a l IH]; cbn [map In]; [tauto|]. intros Hnd Hx Hy E.
  inversion Hnd as [|? ? Hn Hnd']; subst.
  destruct Hx as [->|Hx], Hy as [->|Hy]; [reflexivity| | |auto].
  - exfalso. apply Hn. rewrite E. apply in_map. exact Hy.
  - exfalso. apply Hn. rewrite <- E. apply in_map. exact Hx.
Qed.

Lemma in_all_reps_loc st r : WF st -> In r (all_reps st) ->
  exists l sb, get_sb l st = Some sb /\ sb_rep sb = Some r.
Proof.
  intros H Hin. unfold all_reps in Hin. apply in_app_or in Hin. destruct Hin as [Hin|Hin].
  - destruct (var_reps_sound st r H Hin) as (s & sb & G & R). exists (LVar s), sb. auto.
  - destruct (node_reps_sound st r H Hin) as (i & n & sb & G & R). exists (LNode i n), sb. auto.
Qed.

(* S_trackable_death: the first three clauses hold as stated.  The fourth does not hold in every
   WF + quiescent state: WF does not say that the elements of a list that is not being emitted are
   attached (that is S_quiescent_lists, a property of reachable states).  A detached element whose
   functor refers to t is only destroyed in place by the notification, it stays in its list.  The
   fourth clause is proved for reps that are attached when they sit in a list. *)
Lemma trackable_death_partial :
  forall prog rec t st st', WF st -> live_track t st <> None -> t < 1000 -> is_shared t st = false ->
    step prog rec (OTDel t) st = Done st' tt ->
    live_track t st' = None /\
    (forall r f, In r (all_reps st') -> r_fn r = Some f -> ~ In t (f_refs f)) /\
    (forall r, In r (all_reps st) -> In t (refs_of r) ->
       forall r', In r' (all_reps st') -> r_id r' = r_id r -> r_valid r' = false /\ r_fn r' = None) /\
    (quiescent st -> forall r, In r (all_reps st) -> In t (refs_of r) ->
       (In r (node_reps st) -> r_attached r = true) ->
       forall r', In r' (node_reps st') -> r_id r' <> r_id r).
Proof.
  intros prog rec t st st' H Hlive Ht Hsh Hstep.
  cbn [step] in Hstep. destruct (live_track t st) as [tr|] eqn:Hl; [|contradiction].
  apply N.ltb_lt in Ht. rewrite Ht, Hsh in Hstep. cbn [negb andb] in Hstep. apply N.ltb_lt in Ht.
  destruct (del_user_track_G t st H Ht) as (st1 & E & C & G).
  destruct (track_notify_G t st H) as (st1' & E' & _ & _ & D). rewrite E in E'. apply Ok_inj in E'. subst st1'.
  rewrite E in Hstep. cbn [rbind liftu lift] in Hstep. inversion Hstep; subst st'. clear Hstep.
  set (st' := with_tracks (aset t None (tracks st1)) st1) in *.
  assert (W' : WF st') by exact (proj1 G).
  assert (Hh : same_heavy st1 st') by apply with_tracks_heavy.
  assert (R : RR st st').
  { eapply RR_getsb_r; [exact (track_notify_RR t st st1 (wf_c _ H) E)|]. intro l. apply get_sb_heavy. exact Hh. }
  assert (C2 : forall r f, In r (all_reps st') -> r_fn r = Some f -> ~ In t (f_refs f)).
  { intros r f Hin Hf Hin_t. rewrite (all_reps_heavy _ _ Hh) in Hin.
    assert (X : (0 < dem t (r_id r) (dem_of (all_reps st1)))%nat).
    { eapply dem_in_pos; [|exact Hin_t]. unfold dem_of. apply in_map_iff. exists r. split; [|exact Hin].
      unfold refs_of. rewrite Hf. reflexivity. }
    rewrite D in X. lia. }
  (* a rep of st' with the id of a rep r of st sits where r sat and evolved from it *)
  assert (Hev : forall r r' l sb', In r (all_reps st) -> get_sb l st' = Some sb' -> sb_rep sb' = Some r' ->
                  r_id r' = r_id r -> exists sb, get_sb l st = Some sb /\ sb_rep sb = Some r /\ rchg l st r r').
  { intros r r' l sb' Hin G' R' I. destruct (R l sb' r' G' R') as (sb & r0 & G0 & R0 & Ch).
    assert (r0 = r).
    { eapply (NoDup_map_inj r_id); [exact (proj1 (wf_rids_unique st H))|eapply get_sb_in_all_reps; eauto|exact Hin|].
      destruct Ch as (I0 & _). congruence. }
    subst r0. exists sb. auto. }
  assert (Hfn : forall r r', In t (refs_of r) -> In r' (all_reps st') -> r_fn r' = r_fn r -> False).
  { intros r r' Hin_t Hin' F. unfold refs_of in Hin_t. destruct (r_fn r) as [f|] eqn:Hf; [|destruct Hin_t].
    exact (C2 r' f Hin' F Hin_t). }
  split; [|split; [exact C2|split]].
  - unfold st'. rewrite live_track_aset, N.eqb_refl. reflexivity.
  - intros r Hin Hin_t r' Hin' I.
    destruct (in_all_reps_loc st' r' W' Hin') as (l & sb' & G' & R').
    destruct (Hev r r' l sb' Hin G' R' I) as (sb & G0 & R0 & (_ & Ch)).
    assert (F : r_fn r' = None).
    { destruct Ch as [(_ & F)|(_ & [F|F] & _)]; [exfalso; eauto|exfalso; eauto|exact F]. }
    split; [|exact F]. destruct (r_valid r') eqn:V; [|reflexivity].
    exfalso. exact (wf_valid_has_fn st' r' W' Hin' V F).
  - intros Q r Hin Hin_t Hatt r' Hin' I.
    destruct (node_reps_sound st' r' W' Hin') as (i & n & sb' & G' & R').
    assert (Hin'' : In r' (all_reps st')) by (unfold all_reps; apply in_or_app; right; exact Hin').
    destruct (Hev r r' (LNode i n) sb' Hin G' R' I) as (sb & G0 & R0 & (_ & Ch)).
    destruct Ch as [(_ & F)|(_ & _ & [A|Nq])]; [eauto| |].
    + rewrite Hatt in A; [discriminate|]. exact (get_sb_in_reps _ _ _ _ G0 R0).
    + destruct Nq as (im & Hi & Hq). destruct (Q i im Hi) as (He & _ & _ & Hd & _).
      destruct Hq as [Hq|Hq]; [contradiction|congruence].
Qed.

Lemma nodes_attached_rep st r : WF st -> nodes_attached st -> In r (node_reps st) -> r_attached r = true.
Proof.
  intros H Ha Hin. apply in_node_reps_l in Hin. destruct Hin as (i & im & Hi & Hn).
  apply in_nodes_reps in Hn. destruct Hn as (nd & Hnd & Hr).
  pose proof (in_aget_nodup _ _ _ (ws_keys_impls _ (wc_struct _ (wf_c _ H))) Hi) as Hg.
  destruct (Ha i im nd Hg Hnd) as (r2 & Hr2 & A). rewrite Hr in Hr2. inversion Hr2; subst r2. exact A.
Qed.

(* the statement of SigSpec with the fourth clause restricted to states whose lists hold attached
   elements only (every reachable quiescent state, S_quiescent_lists) *)
Lemma trackable_death_attached :
  forall prog rec t st st', WF st -> live_track t st <> None -> t < 1000 -> is_shared t st = false ->
    step prog rec (OTDel t) st = Done st' tt ->
    live_track t st' = None /\
    (forall r f, In r (all_reps st') -> r_fn r = Some f -> ~ In t (f_refs f)) /\
    (forall r, In r (all_reps st) -> In t (refs_of r) ->
       forall r', In r' (all_reps st') -> r_id r' = r_id r -> r_valid r' = false /\ r_fn r' = None) /\
    (quiescent st -> nodes_attached st -> forall r, In r (all_reps st) -> In t (refs_of r) ->
       forall r', In r' (node_reps st') -> r_id r' <> r_id r).
Proof.
  intros prog rec t st st' H Hlive Ht Hsh Hstep.
  destruct (trackable_death_partial prog rec t st st' H Hlive Ht Hsh Hstep) as (A & B & C & D).
  split; [exact A|]. split; [exact B|]. split; [exact C|].
  intros Q Ha r Hin Hin_t. apply (D Q r Hin Hin_t). intro Hn. exact (nodes_attached_rep st r H Ha Hn).
Qed.

(* ------------------------------------------------------------------ *)
(* The two statements that do not hold over all WF_top states: machine-checked counterexamples.

   cx1: a quiescent WF state whose only list holds a *detached* element (id 0) whose functor refers
   to trackable 0.  OTDel 0 destroys the functor in place; the element stays in the list, so the
   fourth clause of S_trackable_death fails.

   cx2: list 0 holds elements Real 0 (watchers [WK 0; WC 0]) and Real 1 (watchers [WC 0]);
   scoped_connection 0 points at Real 0, connection 0 points at Real 1 but is also registered at
   Real 0 (WF allows surplus registrations).  OKAssign 0 0 disconnects Real 0, which nulls
   connection 0 as well, and the scoped connection ends up empty instead of pointing at Real 1. *)

Definition cx1_rep := mkRep 0 false false (Some (mkFun 0 [0] None)) [].
Definition cx1 : state :=
  mkState [] [] [] [(0, mkImpl [mkNode (Real 0) (mkSB (Some cx1_rep) false)] 0 false 0 false)]
          [(0, Some (mkTr (Some [(0, true)]) false))] [] [] 1 1 1 0 0 [] [].
Definition pdummy := mkProg [] [] [] [].
Definition rdummy : callee -> state -> outcome N := fun _ _ => Fail ErrFuel.



Lemma WF_top_cx1 : WF_top cx1.
Proof.
  split; [constructor; [constructor; [constructor|..]|..]|].
  - cbn. constructor.
  - cbn. constructor; [intros []|constructor].
  - cbn. intros i [<-|[]]. lia.
  - intros i im X. cbn in X. destruct (N.eqb i 0); [|discriminate]. inversion X; subst im.
    split; cbn; [constructor; [intros []|constructor]|]. constructor; [cbn; lia|constructor].
  - cbn. constructor; [intros []|constructor].
  - cbn. constructor; [|constructor]. split; [cbn; lia|cbn; discriminate].
  - cbn. constructor.
  - split.
    + intros t rid Hd. destruct t as [|p]; [cbn; discriminate|]. exfalso. destruct rid; cbn in Hd; lia.
    + intros t tr Hl rid. destruct t as [|p]; [|discriminate].
      inversion Hl; subst tr. destruct rid; reflexivity.
  - split.
    + intro g. split; [split|].
      * intro X. exfalso. apply X. unfold live_track, cx1. cbn [tracks aget].
        destruct (N.eqb_spec (trackable_of_sig g) 0) as [E|]; [unfold trackable_of_sig in E; lia|reflexivity].
      * intros (go & X & _). discriminate.
      * intros _. unfold cx1. cbn [tracks aget].
        destruct (N.eqb_spec (trackable_of_sig g) 0) as [E|]; [unfold trackable_of_sig in E; lia|reflexivity].
    + intros g go i X. discriminate.
  - intros w i n X. destruct w; discriminate.
  - intros t tr X. unfold live_track in X. cbn in X. destruct (N.eqb t 0); [|discriminate]. inversion X. reflexivity.
  - intros i im X. cbn in X. destruct (N.eqb i 0); [|discriminate]. inversion X. cbn.
    split; [reflexivity|]. split; [reflexivity|lia].
  - constructor.
  - intros i im X. cbn in X. destruct (N.eqb i 0); [|discriminate]. inversion X. cbn.
    split; [reflexivity|]. split; [reflexivity|]. split; [reflexivity|]. split; [reflexivity|].
    intros nd n [<-|[]]. discriminate.
Qed.

Lemma trackable_death_false : ~ S_trackable_death_all_wf.
Proof.
  intro S.
  assert (E : exists st', step pdummy rdummy (OTDel 0) cx1 = Done st' tt /\ In (mkRep 0 false false None []) (node_reps st')).
  { eexists. split; [vm_compute; reflexivity|]. vm_compute. left. reflexivity. }
  destruct E as (st' & E & Hin).
  assert (D := S pdummy rdummy 0 cx1 st' (proj1 WF_top_cx1)).
  specialize (D ltac:(discriminate) ltac:(reflexivity) ltac:(reflexivity) E).
  apply (D (proj2 WF_top_cx1) cx1_rep) with (r' := mkRep 0 false false None []).
  - vm_compute. left. reflexivity.
  - vm_compute. left. reflexivity.
  - exact Hin.
  - reflexivity.
Qed.

Definition cx2_im : impl :=
  mkImpl [mkNode (Real 0) (mkSB (Some (mkRep 0 false true None [WK 0; WC 0])) false);
          mkNode (Real 1) (mkSB (Some (mkRep 1 false true None [WC 0])) false)] 0 false 0 false.
Definition cx2 : state :=
  mkState [] [] [] [(0, cx2_im)] [] [(0, Some (Some (0, Real 1)))] [(0, Some (Some (0, Real 0)))] 2 2 1 0 0 [] [].

Lemma WF_top_cx2 : WF_top cx2.
Proof.
  split; [constructor; [constructor; [constructor|..]|..]|].
  - cbn. constructor.
  - cbn. constructor; [intros []|constructor].
  - cbn. intros i [<-|[]]. lia.
  - intros i im X. cbn in X. destruct (N.eqb i 0); [|discriminate]. inversion X; subst im.
    split; cbn.
    + constructor; [intros [Y|[]]; discriminate|]. constructor; [intros []|constructor].
    + constructor; [cbn; lia|]. constructor; [cbn; lia|constructor].
  - cbn. constructor; [intros [Y|[]]; discriminate|]. constructor; [intros []|constructor].
  - cbn. constructor; [split; [cbn; lia|cbn; discriminate]|]. constructor; [split; [cbn; lia|cbn; discriminate]|constructor].
  - cbn. constructor.
  - split.
    + intros t rid Hd. exfalso. destruct (dem_pos_in _ _ _ Hd) as (refs & Hin & Ht). cbn in Hin.
      destruct Hin as [X|[X|[]]]; inversion X; subst refs; destruct Ht.
    + intros t tr Hl. discriminate.
  - split.
    + intro g. split; [split|].
      * intro X. exfalso. apply X. reflexivity.
      * intros (go & X & _). discriminate.
      * reflexivity.
    + intros g go i X. discriminate.
  - intros w i n X. right. destruct w as [c|k]; cbn in X.
    + destruct (N.eqb c 0) eqn:Ec; [|discriminate]. inversion X; subst i n. apply N.eqb_eq in Ec. subst c.
      eexists; eexists. split; [reflexivity|]. split; [reflexivity|]. left. reflexivity.
    + destruct (N.eqb k 0) eqn:Ek; [|discriminate]. inversion X; subst i n. apply N.eqb_eq in Ek. subst k.
      eexists; eexists. split; [reflexivity|]. split; [reflexivity|]. left. reflexivity.
  - intros t tr X. discriminate.
  - intros i im X. cbn in X. destruct (N.eqb i 0); [|discriminate]. inversion X. cbn.
    split; [reflexivity|]. split; [reflexivity|lia].
  - constructor.
  - intros i im X. cbn in X. destruct (N.eqb i 0); [|discriminate]. inversion X. cbn.
    split; [reflexivity|]. split; [reflexivity|]. split; [reflexivity|]. split; [reflexivity|].
    intros nd n [<-|[<-|[]]]; discriminate.
Qed.

Lemma scoped_assign_disconnects_old_false : ~ S_scoped_assign_all_wf.
Proof.
  intro S.
  assert (E : exists st', step pdummy rdummy (OKAssign 0 0) cx2 = Done st' tt /\ conn_ptr (WK 0) st' = None).
  { eexists. split; [vm_compute; reflexivity|]. reflexivity. }
  destruct E as (st' & E & Hn).
  destruct (S pdummy rdummy 0 0 cx2 st' 0 (Real 0) cx2_im (Some (0, Real 1)) WF_top_cx2 eq_refl eq_refl) as (A & _);
    [discriminate|reflexivity| |exact E|].
  - eexists; eexists. split; [reflexivity|]. split; reflexivity.
  - rewrite Hn in A. discriminate.
Qed.

Print Assumptions trackable_death_partial.
Print Assumptions trackable_death_attached.
Print Assumptions trackable_death_false.
Print Assumptions invalid_never_invoked.
Print Assumptions conn_query_truth.
Print Assumptions disconnect_exact.
Print Assumptions disconnect_idempotent.
Print Assumptions conn_never_dangles.
Print Assumptions node_ids_fresh.
Print Assumptions scoped_move_no_disconnect.
Print Assumptions scoped_release_no_disconnect.
Print Assumptions scoped_swap_exchanges.
Print Assumptions scoped_destroy_disconnects.
Print Assumptions scoped_assign_disconnects_old_partial.
Print Assumptions scoped_assign_disconnects_old_false.
