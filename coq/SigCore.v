(* SigCore.v -- executable low-level model (LL) of signal_impl / slot_base / slot_rep /
   trackable / connection / scoped_connection / the three emitters, following the C++ control
   flow of /repo/sigc++/{signal_base.cc, signal_base.h, signal.h, functors/slot_base.cc,
   functors/slot.h, trackable.cc, connection.cc, scoped_connection.cc, weak_raw_ptr.h}.

   Representation choices (see DESIGN.md section 2.2):
   * ownership is structural: a slot_rep lives *inside* the slot_base that owns it (a user slot
     variable or a node of a signal's list), so double ownership cannot be expressed; everything
     that the C++ reaches through a raw pointer to a rep (trackable callback entries, the
     weak_raw_ptr guard in notify_slot_rep_invalidated / delete_rep_with_check) goes through a
     unique rep id and a search; a search that fails is a use-after-free (Err ErrUAF);
   * the self_and_iter record of a connected slot is the flag r_attached of the rep in the node;
     a rep that is deleted while still attached leaks its record (counter [leaked]);
   * iterators are node ids; following a node id that is no longer in the list is
     Err ErrDangling; erasing an absent node is Err ErrDoubleErase;
   * a connection's weak_raw_ptr<slot_base> is an optional (impl id, node id) plus a
     registration in the watch list of the rep held by that node; using a non-null pointer
     whose node is gone is Err ErrUAF;
   * user code (slot bodies) are scripts of the same operations (open recursion through [rec]).
   No proofs in this file. *)
From Coq Require Import List NArith Bool.
Import ListNotations.
Require Import Util.
Local Open Scope N_scope.

(* ------------------------------------------------------------------------------------------ *)
(* Identifiers and records *)

Inductive nid := Real (n : N) | Ph (n : N).
Definition nid_eqb (a b : nid) : bool :=
  match a, b with
  | Real x, Real y => N.eqb x y
  | Ph x, Ph y => N.eqb x y
  | _, _ => false
  end.

Inductive wref := WC (c : N) | WK (k : N).   (* a connection variable / a scoped_connection variable *)
Definition wref_eqb (a b : wref) : bool :=
  match a, b with
  | WC x, WC y => N.eqb x y
  | WK x, WK y => N.eqb x y
  | _, _ => false
  end.

Inductive rkind := RV | RI.                  (* slot<void(int)> | slot<int(int)> *)
Definition rkind_eqb (a b : rkind) : bool :=
  match a, b with RV, RV => true | RI, RI => true | _, _ => false end.

Record functor := mkFun
  { f_body : N                 (* script run when invoked *)
  ; f_refs : list N            (* trackables referred to by reference, in visit order *)
  ; f_fwd : option N }.        (* Some g: this is g.make_slot(); invoking it emits signal object g *)

Record rep := mkRep
  { r_id : N
  ; r_valid : bool             (* call_ != nullptr *)
  ; r_attached : bool          (* parent_ != nullptr: a live self_and_iter record points at our node *)
  ; r_fn : option functor      (* functor_; None after destroy() and for dummy_slot_rep *)
  ; r_watch : list wref }.     (* weak_raw_ptr registrations on this rep (it is a trackable) *)

Record slotbase := mkSB { sb_rep : option rep; sb_blocked : bool }.
Definition sb_none : slotbase := mkSB None false.
Definition sb_empty (sb : slotbase) : bool :=        (* slot_base::empty() *)
  match sb_rep sb with Some r => negb (r_valid r) | None => true end.

Record node := mkNode { n_id : nid; n_sb : slotbase }.

Record impl := mkImpl
  { i_nodes : list node
  ; i_exec : N                 (* exec_count_ *)
  ; i_deferred : bool          (* deferred_ *)
  ; i_holders : N              (* shared_ptr copies held by running signal_impl_holders *)
  ; i_dying : bool }.          (* use_count reached 0: ~signal_impl is running (weak_ptr expired) *)

Record gkind := mkGK { gk_ret : rkind; gk_acc : option N; gk_track : bool }.
Record sigobj := mkSig { g_kind : gkind; g_impl : option N }.

Record trackable := mkTr
  { t_list : option (list (N * bool))   (* callback_list_: (rep id, func_ != nullptr) *)
  ; t_clearing : bool }.

Definition connptr := option (N * nid).   (* weak_raw_ptr<slot_base>::p_ *)

Inductive event :=
| EEnter (body arg : N)
| ELeave (body ret : N)
| EThrowOut (body : N)
| ECallRet (v : N)
| EEmitRet (v : N)
| EExn
| ESlotQ (empty blocked : bool)
| ESigQ (size : N) (empty blocked : bool)
| EConnQ (connected blocked : bool)
| EBlockRet (old : bool)
| EProbe (functors : list N) (regs : list (N * N)) (leak : N)
| ESkip.

(* A variable table maps a variable index to Some object (live) or None (destroyed; the
   index is never reused). *)
Record state := mkState
  { slots : list (N * option slotbase)
  ; skind : list (N * rkind)
  ; sigs : list (N * option sigobj)
  ; impls : list (N * impl)               (* live signal_impl objects *)
  ; tracks : list (N * option trackable)
  ; conns : list (N * option connptr)
  ; sconns : list (N * option connptr)
  ; next_rid : N
  ; next_nid : N
  ; next_iid : N
  ; next_ph : N
  ; leaked : N                            (* self_and_iter records never freed *)
  ; trace : list event                    (* most recent first *)
  ; shared : list (N * bool) }.           (* trackables held through shared ownership: (t, program handle released) *)

Definition st0 : state := mkState [] [] [] [] [] [] [] 0 0 0 0 0 [] [].

(* setters *)
Definition with_slots v (s : state) := mkState v (skind s) (sigs s) (impls s) (tracks s) (conns s) (sconns s) (next_rid s) (next_nid s) (next_iid s) (next_ph s) (leaked s) (trace s) (shared s).
Definition with_skind v (s : state) := mkState (slots s) v (sigs s) (impls s) (tracks s) (conns s) (sconns s) (next_rid s) (next_nid s) (next_iid s) (next_ph s) (leaked s) (trace s) (shared s).
Definition with_sigs v (s : state) := mkState (slots s) (skind s) v (impls s) (tracks s) (conns s) (sconns s) (next_rid s) (next_nid s) (next_iid s) (next_ph s) (leaked s) (trace s) (shared s).
Definition with_impls v (s : state) := mkState (slots s) (skind s) (sigs s) v (tracks s) (conns s) (sconns s) (next_rid s) (next_nid s) (next_iid s) (next_ph s) (leaked s) (trace s) (shared s).
Definition with_tracks v (s : state) := mkState (slots s) (skind s) (sigs s) (impls s) v (conns s) (sconns s) (next_rid s) (next_nid s) (next_iid s) (next_ph s) (leaked s) (trace s) (shared s).
Definition with_conns v (s : state) := mkState (slots s) (skind s) (sigs s) (impls s) (tracks s) v (sconns s) (next_rid s) (next_nid s) (next_iid s) (next_ph s) (leaked s) (trace s) (shared s).
Definition with_sconns v (s : state) := mkState (slots s) (skind s) (sigs s) (impls s) (tracks s) (conns s) v (next_rid s) (next_nid s) (next_iid s) (next_ph s) (leaked s) (trace s) (shared s).
Definition with_next_rid v (s : state) := mkState (slots s) (skind s) (sigs s) (impls s) (tracks s) (conns s) (sconns s) v (next_nid s) (next_iid s) (next_ph s) (leaked s) (trace s) (shared s).
Definition with_next_nid v (s : state) := mkState (slots s) (skind s) (sigs s) (impls s) (tracks s) (conns s) (sconns s) (next_rid s) v (next_iid s) (next_ph s) (leaked s) (trace s) (shared s).
Definition with_next_iid v (s : state) := mkState (slots s) (skind s) (sigs s) (impls s) (tracks s) (conns s) (sconns s) (next_rid s) (next_nid s) v (next_ph s) (leaked s) (trace s) (shared s).
Definition with_next_ph v (s : state) := mkState (slots s) (skind s) (sigs s) (impls s) (tracks s) (conns s) (sconns s) (next_rid s) (next_nid s) (next_iid s) v (leaked s) (trace s) (shared s).
Definition with_leaked v (s : state) := mkState (slots s) (skind s) (sigs s) (impls s) (tracks s) (conns s) (sconns s) (next_rid s) (next_nid s) (next_iid s) (next_ph s) v (trace s) (shared s).
Definition with_trace v (s : state) := mkState (slots s) (skind s) (sigs s) (impls s) (tracks s) (conns s) (sconns s) (next_rid s) (next_nid s) (next_iid s) (next_ph s) (leaked s) v (shared s).

Definition with_shared v (s : state) := mkState (slots s) (skind s) (sigs s) (impls s) (tracks s) (conns s) (sconns s) (next_rid s) (next_nid s) (next_iid s) (next_ph s) (leaked s) (trace s) v.

Definition emit_ev (e : event) (s : state) : state := with_trace (e :: trace s) s.

Inductive error := ErrUAF | ErrDangling | ErrDoubleErase | ErrLoop | ErrFuel | ErrUnsupported.
Inductive res (A : Type) := Ok (a : A) | Err (e : error).
Arguments Ok {A} a.
Arguments Err {A} e.

Definition rbind {A B} (x : res A) (k : A -> res B) : res B :=
  match x with Ok a => k a | Err e => Err e end.
Notation "x <- e ;; k" := (rbind e (fun x => k)) (at level 60, e at next level, right associativity).
Notation "' p <- e ;; k" := (rbind e (fun x => match x with p => k end))
  (at level 60, p pattern, e at next level, right associativity).

(* ------------------------------------------------------------------------------------------ *)
(* Locating reps *)

Inductive loc := LVar (s : N) | LNode (i : N) (n : nid).

Definition sb_has_rid (rid : N) (sb : slotbase) : bool :=
  match sb_rep sb with Some r => N.eqb (r_id r) rid | None => false end.

Fixpoint find_node (n : nid) (l : list node) : option node :=
  match l with
  | [] => None
  | x :: r => if nid_eqb (n_id x) n then Some x else find_node n r
  end.

Fixpoint set_node (n : nid) (sb : slotbase) (l : list node) : list node :=
  match l with
  | [] => []
  | x :: r => if nid_eqb (n_id x) n then mkNode n sb :: r else x :: set_node n sb r
  end.

Fixpoint del_node (n : nid) (l : list node) : list node :=
  match l with
  | [] => []
  | x :: r => if nid_eqb (n_id x) n then r else x :: del_node n r
  end.

Definition get_sb (l : loc) (st : state) : option slotbase :=
  match l with
  | LVar s => match aget s (slots st) with Some (Some sb) => Some sb | _ => None end
  | LNode i n =>
      match aget i (impls st) with
      | Some im => option_map n_sb (find_node n (i_nodes im))
      | None => None
      end
  end.

Definition set_impl (i : N) (im : impl) (st : state) : state := with_impls (aset i im (impls st)) st.

Definition with_nodes (l : list node) (im : impl) : impl :=
  mkImpl l (i_exec im) (i_deferred im) (i_holders im) (i_dying im).
Definition with_exec (e : N) (im : impl) : impl :=
  mkImpl (i_nodes im) e (i_deferred im) (i_holders im) (i_dying im).
Definition with_deferred (d : bool) (im : impl) : impl :=
  mkImpl (i_nodes im) (i_exec im) d (i_holders im) (i_dying im).
Definition with_holders (h : N) (im : impl) : impl :=
  mkImpl (i_nodes im) (i_exec im) (i_deferred im) h (i_dying im).
Definition with_dying (d : bool) (im : impl) : impl :=
  mkImpl (i_nodes im) (i_exec im) (i_deferred im) (i_holders im) d.

Definition set_sb (l : loc) (sb : slotbase) (st : state) : state :=
  match l with
  | LVar s => with_slots (aset s (Some sb) (slots st)) st
  | LNode i n =>
      match aget i (impls st) with
      | Some im => set_impl i (with_nodes (set_node n sb (i_nodes im)) im) st
      | None => st
      end
  end.

Fixpoint find_in_slots (rid : N) (l : list (N * option slotbase)) : option loc :=
  match l with
  | [] => None
  | (s, Some sb) :: r => if sb_has_rid rid sb then Some (LVar s) else find_in_slots rid r
  | (_, None) :: r => find_in_slots rid r
  end.

Fixpoint find_in_nodes (rid : N) (i : N) (l : list node) : option loc :=
  match l with
  | [] => None
  | x :: r => if sb_has_rid rid (n_sb x) then Some (LNode i (n_id x)) else find_in_nodes rid i r
  end.

Fixpoint find_in_impls (rid : N) (l : list (N * impl)) : option loc :=
  match l with
  | [] => None
  | (i, im) :: r =>
      match find_in_nodes rid i (i_nodes im) with
      | Some lc => Some lc
      | None => find_in_impls rid r
      end
  end.

Definition find_rep (rid : N) (st : state) : option loc :=
  match find_in_slots rid (slots st) with
  | Some l => Some l
  | None => find_in_impls rid (impls st)
  end.

Definition get_rep (l : loc) (st : state) : option rep :=
  match get_sb l st with Some sb => sb_rep sb | None => None end.

Definition set_rep (l : loc) (r : rep) (st : state) : state :=
  match get_sb l st with
  | Some sb => set_sb l (mkSB (Some r) (sb_blocked sb)) st
  | None => st
  end.

Definition r_with_valid v (r : rep) := mkRep (r_id r) v (r_attached r) (r_fn r) (r_watch r).
Definition r_with_attached v (r : rep) := mkRep (r_id r) (r_valid r) v (r_fn r) (r_watch r).
Definition r_with_fn v (r : rep) := mkRep (r_id r) (r_valid r) (r_attached r) v (r_watch r).
Definition r_with_watch v (r : rep) := mkRep (r_id r) (r_valid r) (r_attached r) (r_fn r) v.

(* ------------------------------------------------------------------------------------------ *)
(* trackable callback lists (trackable.cc:98-154), entries are (rep id, func set) *)

Definition live_track (t : N) (st : state) : option trackable :=
  match aget t (tracks st) with Some (Some tr) => Some tr | _ => None end.

Definition set_track (t : N) (tr : trackable) (st : state) : state :=
  with_tracks (aset t (Some tr) (tracks st)) st.

Fixpoint cb_erase_first (rid : N) (l : list (N * bool)) : list (N * bool) :=
  match l with
  | [] => []
  | (d, f) :: r => if N.eqb d rid && f then r else (d, f) :: cb_erase_first rid r
  end.

Fixpoint cb_null_first (rid : N) (l : list (N * bool)) : list (N * bool) :=
  match l with
  | [] => []
  | (d, f) :: r => if N.eqb d rid && f then (d, false) :: r else (d, f) :: cb_null_first rid r
  end.

(* trackable::add_destroy_notify_callback(rep, notify_slot_rep_invalidated)  -- slot_do_bind *)
Definition track_add (t rid : N) (st : state) : res state :=
  match live_track t st with
  | None => Err ErrUAF                                  (* binding to a destroyed object *)
  | Some tr =>
      let l := match t_list tr with Some l => l | None => [] end in       (* callback_list() allocates *)
      if t_clearing tr then Ok (set_track t (mkTr (Some l) true) st)      (* add ignored while clearing *)
      else Ok (set_track t (mkTr (Some (l ++ [(rid, true)])) false) st)
  end.

(* trackable::remove_destroy_notify_callback(rep)  -- slot_do_unbind *)
Definition track_remove (t rid : N) (st : state) : res state :=
  match live_track t st with
  | None => Err ErrUAF                                  (* unbinding from a destroyed object *)
  | Some tr =>
      let l := match t_list tr with Some l => l | None => [] end in       (* callback_list() allocates *)
      if t_clearing tr then Ok (set_track t (mkTr (Some (cb_null_first rid l)) true) st)
      else Ok (set_track t (mkTr (Some (cb_erase_first rid l)) false) st)
  end.

Fixpoint bind_all (rid : N) (refs : list N) (st : state) : res state :=
  match refs with
  | [] => Ok st
  | t :: r => st1 <- track_add t rid st ;; bind_all rid r st1
  end.

Fixpoint unbind_all (rid : N) (refs : list N) (st : state) : res state :=
  match refs with
  | [] => Ok st
  | t :: r => st1 <- track_remove t rid st ;; unbind_all rid r st1
  end.

(* ------------------------------------------------------------------------------------------ *)
(* weak_raw_ptr registrations of connections on reps (weak_raw_ptr.h) *)

Definition get_connptr (w : wref) (st : state) : option connptr :=
  match w with
  | WC c => match aget c (conns st) with Some (Some p) => Some p | _ => None end
  | WK k => match aget k (sconns st) with Some (Some p) => Some p | _ => None end
  end.

Definition set_connptr (w : wref) (p : connptr) (st : state) : state :=
  match w with
  | WC c => with_conns (aset c (Some p) (conns st)) st
  | WK k => with_sconns (aset k (Some p) (sconns st)) st
  end.

(* ~trackable of a rep: notify_object_invalidated on every registered weak_raw_ptr *)
(* a registered handle that no longer exists cannot occur on reachable states (watch lists are exact,
   SigWatch.v); on other states the notification writes nothing rather than bringing the handle back *)
Fixpoint null_watchers (ws : list wref) (st : state) : state :=
  match ws with
  | [] => st
  | w :: r => null_watchers r (match get_connptr w st with Some _ => set_connptr w None st | None => st end)
  end.

(* weak_raw_ptr(T* p) / copy: p->add_destroy_notify_callback(this, ...) through
   slot_base::add_destroy_notify_callback (only if rep_) *)
Definition watch_add (p : connptr) (w : wref) (st : state) : res state :=
  match p with
  | None => Ok st
  | Some (i, n) =>
      match get_sb (LNode i n) st with
      | None => Err ErrUAF
      | Some sb =>
          match sb_rep sb with
          | None => Ok st
          | Some r => Ok (set_sb (LNode i n) (mkSB (Some (r_with_watch (r_watch r ++ [w]) r)) (sb_blocked sb)) st)
          end
      end
  end.

Definition watch_remove (p : connptr) (w : wref) (st : state) : res state :=
  match p with
  | None => Ok st
  | Some (i, n) =>
      match get_sb (LNode i n) st with
      | None => Err ErrUAF
      | Some sb =>
          match sb_rep sb with
          | None => Ok st
          | Some r => Ok (set_sb (LNode i n) (mkSB (Some (r_with_watch (remove_first (wref_eqb w) (r_watch r)) r)) (sb_blocked sb)) st)
          end
      end
  end.

(* ------------------------------------------------------------------------------------------ *)
(* slot_rep *)

(* `delete rep` of a rep value already taken out of its owner:
   ~typed_slot_rep -> destroy() (unbind, drop functor); ~slot_rep -> ~trackable -> weak ptrs.
   slot_rep's destructor does not touch parent_: a still attached rep leaks its self_and_iter. *)
Definition rep_delete (r : rep) (st : state) : res state :=
  let st0 := if r_attached r then with_leaked (leaked st + 1) st else st in
  st1 <- match r_fn r with
         | Some f => unbind_all (r_id r) (f_refs f) st0
         | None => Ok st0
         end ;;
  Ok (null_watchers (r_watch r) st1).

Definition sb_delete (sb : slotbase) (st : state) : res state :=   (* ~slot_base *)
  match sb_rep sb with Some r => rep_delete r st | None => Ok st end.

(* typed_slot_rep::destroy() on a rep that stays where it is (slot.h:83-95) *)
Definition rep_destroy (l : loc) (st : state) : res state :=
  match get_rep l st with
  | None => Ok st
  | Some r =>
      let st1 := set_rep l (r_with_fn None (r_with_valid false r)) st in
      match r_fn r with
      | Some f => unbind_all (r_id r) (f_refs f) st1
      | None => Ok st1
      end
  end.

(* std::list::erase of a node of impl i + ~slot_base of the element *)
Definition erase_node (i : N) (n : nid) (st : state) : res state :=
  match aget i (impls st) with
  | None => Err ErrUAF
  | Some im =>
      match find_node n (i_nodes im) with
      | None => Err ErrDoubleErase
      | Some nd =>
          let st1 := set_impl i (with_nodes (del_node n (i_nodes im)) im) st in
          sb_delete (n_sb nd) st1
      end
  end.

(* signal_impl::notify_self_and_iter_of_invalidated_slot (signal_base.cc:186-215) *)
Definition parent_cleanup (i : N) (n : nid) (st : state) : res state :=
  match aget i (impls st) with
  | None => Ok st                          (* cannot happen for a live record; treated as expired *)
  | Some im =>
      if i_dying im then Ok st             (* si->self_.lock() failed *)
      else if N.eqb (i_exec im) 0 then erase_node i n st      (* holder: exec 0 -> 1 -> 0, not deferred *)
      else Ok (set_impl i (with_deferred true im) st)
  end.

(* slot_rep::disconnect() (slot_base.cc:54-71) on the rep at l *)
Definition rep_disconnect (l : loc) (st : state) : res state :=
  match get_rep l st with
  | None => Ok st                          (* slot_base::disconnect(): if (rep_) *)
  | Some r =>
      if r_attached r then
        let st1 := set_rep l (r_with_attached false (r_with_valid false r)) st in
        match l with
        | LNode i n => parent_cleanup i n st1
        | LVar _ => Err ErrUnsupported     (* a user variable is never attached *)
        end
      else Ok (set_rep l (r_with_valid false r) st)
  end.

(* slot_rep::notify_slot_rep_invalidated (slot_base.cc:73-91), data = rep id *)
Definition rep_invalidated (rid : N) (st : state) : res state :=
  match find_rep rid st with
  | None => Err ErrUAF
  | Some l =>
      st1 <- rep_disconnect l st ;;
      match find_rep rid st1 with           (* the weak_raw_ptr guard *)
      | Some l' => rep_destroy l' st1
      | None => Ok st1
      end
  end.

(* ~trackable_callback_list (trackable.cc:98-107): positional walk, list length is stable *)
Fixpoint track_round (fuel : nat) (i : nat) (t : N) (st : state) : res state :=
  match fuel with
  | O => Ok st
  | S fuel' =>
      match live_track t st with
      | None => Err ErrUAF
      | Some tr =>
          match t_list tr with
          | None => Ok st
          | Some l =>
              match nth_error l i with
              | None => Ok st
              | Some (rid, true) => st1 <- rep_invalidated rid st ;; track_round fuel' (S i) t st1
              | Some (_, false) => track_round fuel' (S i) t st
              end
          end
      end
  end.

(* trackable::notify_callbacks (trackable.cc:79-84) *)
Definition track_notify (t : N) (st : state) : res state :=
  match live_track t st with
  | None => Ok st
  | Some tr =>
      match t_list tr with
      | None => Ok st
      | Some l =>
          let st1 := set_track t (mkTr (Some l) true) st in
          st2 <- track_round (length l) 0 t st1 ;;
          Ok (set_track t (mkTr None false) st2)
      end
  end.

(* ------------------------------------------------------------------------------------------ *)
(* slot_base value operations (slot_base.cc:95-249) *)

(* typed_slot_rep copy constructor: clone() *)
Definition rep_clone (r : rep) (st : state) : res (rep * state) :=
  let rid := next_rid st in
  let st1 := with_next_rid (rid + 1) st in
  st2 <- match r_fn r with Some f => bind_all rid (f_refs f) st1 | None => Ok st1 end ;;
  Ok (mkRep rid (r_valid r) false (r_fn r) [], st2).

(* slot_base(const slot_base& src) *)
Definition sb_copy (src : slotbase) (st : state) : res (slotbase * state) :=
  match sb_rep src with
  | None => Ok (mkSB None (sb_blocked src), st)
  | Some r =>
      if r_valid r then
        '(r', st1) <- rep_clone r st ;; Ok (mkSB (Some r') (sb_blocked src), st1)
      else Ok (sb_none, st)                   (* *this = slot_base() *)
  end.

(* slot_base(slot_base&& src); returns (new, what is left in src) *)
Definition sb_move (src : slotbase) (st : state) : res (slotbase * slotbase * state) :=
  match sb_rep src with
  | None => Ok (mkSB None (sb_blocked src), src, st)
  | Some r =>
      if r_attached r then
        if r_valid r then
          '(r', st1) <- rep_clone r st ;; Ok (mkSB (Some r') (sb_blocked src), src, st1)
        else Ok (sb_none, src, st)
      else
        (* src.rep_->notify_callbacks(); steal the rep; wipe src *)
        let st1 := null_watchers (r_watch r) st in
        Ok (mkSB (Some (r_with_watch [] r)) (sb_blocked src), sb_none, st1)
  end.

Definition same_rep (a b : slotbase) : bool :=
  match sb_rep a, sb_rep b with
  | None, None => true
  | Some x, Some y => N.eqb (r_id x) (r_id y)
  | _, _ => false
  end.

(* slot_base::delete_rep_with_check on the slot_base at l *)
Definition delete_rep_with_check (l : loc) (st : state) : res state :=
  match get_sb l st with
  | None => Err ErrUAF
  | Some sb =>
      match sb_rep sb with
      | None => Ok st
      | Some r =>
          st1 <- rep_disconnect l st ;;
          match find_rep (r_id r) st1 with        (* weak_raw_ptr guard *)
          | Some l' =>
              match get_sb l' st1 with
              | Some sb1 =>
                  match sb_rep sb1 with
                  | Some r1 =>
                      let st2 := set_sb l' (mkSB None (sb_blocked sb1)) st1 in
                      rep_delete r1 st2
                  | None => Ok st1
                  end
              | None => Ok st1
              end
          | None => Ok st1
          end
      end
  end.

(* dst = src (copy assignment) for two user slot variables *)
Definition sb_assign (d s : N) (st : state) : res state :=
  match get_sb (LVar d) st, get_sb (LVar s) st with
  | Some dst, Some src =>
      if same_rep src dst then Ok (set_sb (LVar d) (mkSB (sb_rep dst) (sb_blocked src)) st)
      else if sb_empty src then delete_rep_with_check (LVar d) st
      else
        match sb_rep src with
        | None => Ok st
        | Some r =>
            '(r', st1) <- rep_clone r st ;;
            st2 <- (match sb_rep dst with
                    | Some old => rep_delete (r_with_attached false old) st1   (* parent copied to new rep; old deleted w/o disconnect *)
                    | None => Ok st1
                    end) ;;
            let r'' := match sb_rep dst with Some old => r_with_attached (r_attached old) r' | None => r' end in
            Ok (set_sb (LVar d) (mkSB (Some r'') (sb_blocked src)) st2)
        end
  | _, _ => Err ErrUnsupported
  end.

(* dst = std::move(src) for two user slot variables *)
Definition sb_move_assign (d s : N) (st : state) : res state :=
  match get_sb (LVar d) st, get_sb (LVar s) st with
  | Some dst, Some src =>
      if same_rep src dst then Ok (set_sb (LVar d) (mkSB (sb_rep dst) (sb_blocked src)) st)
      else if sb_empty src then delete_rep_with_check (LVar d) st
      else
        match sb_rep src with
        | None => Ok st
        | Some r =>
            '(newrep, src', st1) <-
               (if r_attached r then
                  '(r', st1) <- rep_clone r st ;; Ok (r', src, st1)
                else Ok (r_with_watch [] r, sb_none, null_watchers (r_watch r) st)) ;;
            let st1' := set_sb (LVar s) src' st1 in
            st2 <- (match sb_rep dst with
                    | Some old => rep_delete (r_with_attached false old) st1'
                    | None => Ok st1'
                    end) ;;
            let r'' := match sb_rep dst with Some old => r_with_attached (r_attached old) newrep | None => newrep end in
            Ok (set_sb (LVar d) (mkSB (Some r'') (sb_blocked src)) st2)
        end
  | _, _ => Err ErrUnsupported
  end.

(* ------------------------------------------------------------------------------------------ *)
(* signal_impl *)

Definition refcount (i : N) (st : state) : N :=
  count_if (fun '(_, o) => match o with
                           | Some g => match g_impl g with Some j => N.eqb i j | None => false end
                           | None => false
                           end) (sigs st)
  + match aget i (impls st) with Some im => i_holders im | None => 0 end.

Fixpoint disconnect_nodes (i : N) (ids : list nid) (st : state) : res state :=
  match ids with
  | [] => Ok st
  | n :: r => st1 <- rep_disconnect (LNode i n) st ;; disconnect_nodes i r st1
  end.

Fixpoint delete_sbs (l : list node) (st : state) : res state :=
  match l with
  | [] => Ok st
  | x :: r => st1 <- sb_delete (n_sb x) st ;; delete_sbs r st1
  end.

(* signal_impl::sweep (signal_base.cc:166-183); erases empty slots one at a time *)
Fixpoint sweep_nodes (i : N) (ids : list nid) (st : state) : res state :=
  match ids with
  | [] => Ok st
  | n :: r =>
      match get_sb (LNode i n) st with
      | None => Err ErrDangling
      | Some sb =>
          if sb_empty sb then
            st0 <- rep_disconnect (LNode i n) st ;;      (* releases the self_and_iter of a never-valid slot *)
            st1 <- erase_node i n st0 ;; sweep_nodes i r st1
          else sweep_nodes i r st
      end
  end.

Definition upd_impl (i : N) (f : impl -> impl) (st : state) : res state :=
  match aget i (impls st) with
  | Some im => Ok (set_impl i (f im) st)
  | None => Err ErrUAF
  end.

Definition upd_impl_opt (i : N) (f : impl -> impl) (st : state) : res state :=
  match aget i (impls st) with
  | Some im => Ok (set_impl i (f im) st)
  | None => Ok st
  end.

(* ~signal_impl: clear() with an expired weak pointer, then the list and the object go *)
Definition destroy_impl (i : N) (st : state) : res state :=
  st1 <- upd_impl i (fun im => with_exec (i_exec im + 1) (with_dying true im)) st ;;
  match aget i (impls st1) with
  | None => Err ErrUAF
  | Some im =>
      st2 <- disconnect_nodes i (map n_id (i_nodes im)) st1 ;;
      match aget i (impls st2) with
      | None => Err ErrUAF
      | Some im2 =>
          let st3 := set_impl i (with_nodes [] im2) st2 in
          st4 <- delete_sbs (i_nodes im2) st3 ;;
          Ok (with_impls (adel i (impls st4)) st4)
      end
  end.

(* a shared_ptr<signal_impl> copy has just been dropped *)
Definition release_check (i : N) (st : state) : res state :=
  match aget i (impls st) with
  | None => Ok st
  | Some im => if N.eqb (refcount i st) 0 && negb (i_dying im) then destroy_impl i st else Ok st
  end.

(* one pass of signal_impl::sweep between the holder's constructor and its destructor *)
Definition sweep_pass (i : N) (st : state) : res state :=
  st1 <- upd_impl i (fun im => with_deferred false (with_exec (i_exec im + 1) (with_holders (i_holders im + 1) im))) st ;;
  match aget i (impls st1) with
  | None => Err ErrUAF
  | Some im =>
      st2 <- sweep_nodes i (map n_id (i_nodes im)) st1 ;;
      upd_impl i (fun im => with_exec (i_exec im - 1) im) st2
  end.

(* sweep(): the holder's destructor runs unreference_exec, which sweeps once more when the pass
   itself set deferred_ (it does when it had to disconnect a never-valid slot); the second pass
   finds nothing attached, so the recursion stops there. *)
Definition sweep (i : N) (st : state) : res state :=
  st1 <- sweep_pass i st ;;
  st2 <- match aget i (impls st1) with
         | None => Err ErrUAF
         | Some im =>
             if N.eqb (i_exec im) 0 && i_deferred im then
               st2 <- sweep_pass i st1 ;;
               st3 <- upd_impl i (fun im => with_holders (i_holders im - 1) im) st2 ;;
               release_check i st3
             else Ok st1
         end ;;
  st3 <- upd_impl_opt i (fun im => with_holders (i_holders im - 1) im) st2 ;;
  release_check i st3.

(* signal_impl::unreference_exec *)
Definition unreference_exec (i : N) (st : state) : res state :=
  st1 <- upd_impl i (fun im => with_exec (i_exec im - 1) im) st ;;
  match aget i (impls st1) with
  | None => Err ErrUAF
  | Some im => if N.eqb (i_exec im) 0 && i_deferred im then sweep i st1 else Ok st1
  end.

(* signal_impl::clear (signal_base.cc:64-91) called through a handle *)
Definition impl_clear (i : N) (st : state) : res state :=
  match aget i (impls st) with
  | None => Err ErrUAF
  | Some im =>
      let during := negb (N.eqb (i_exec im) 0) in
      let saved := i_deferred im in
      let st1 := set_impl i (with_exec (i_exec im + 1) im) st in
      st2 <- disconnect_nodes i (map n_id (i_nodes im)) st1 ;;
      st3 <- (if during then Ok st2
              else match aget i (impls st2) with
                   | None => Err ErrUAF
                   | Some im2 =>
                       let st3 := set_impl i (with_nodes [] (with_deferred saved im2)) st2 in
                       delete_sbs (i_nodes im2) st3
                   end) ;;
      unreference_exec i st3
  end.

(* signal_base::impl(): create the signal_impl lazily *)
Definition ensure_impl (g : N) (go : sigobj) (st : state) : N * state :=
  match g_impl go with
  | Some i => (i, st)
  | None =>
      let i := next_iid st in
      let st1 := with_next_iid (i + 1) st in
      let st2 := set_impl i (mkImpl [] 0 false 0 false) st1 in
      (i, with_sigs (aset g (Some (mkSig (g_kind go) (Some i))) (sigs st2)) st2)
  end.

Definition live_sig (g : N) (st : state) : option sigobj :=
  match aget g (sigs st) with Some (Some go) => Some go | _ => None end.

Definition live_slot (s : N) (st : state) : option slotbase := get_sb (LVar s) st.

(* signal_impl::insert + add_notification_to_iter; returns the node id *)
Definition impl_insert (i : N) (front : bool) (sb : slotbase) (st : state) : res (nid * state) :=
  match aget i (impls st) with
  | None => Err ErrUAF
  | Some im =>
      let n := Real (next_nid st) in
      let st1 := with_next_nid (next_nid st + 1) st in
      (* set_parent: a slot_base without rep gets a dummy_slot_rep *)
      let '(r, st2) :=
        match sb_rep sb with
        | Some r => (r_with_attached true r, st1)
        | None => (mkRep (next_rid st1) false true None [], with_next_rid (next_rid st1 + 1) st1)
        end in
      let nd := mkNode n (mkSB (Some r) (sb_blocked sb)) in
      let nodes' := if front then nd :: i_nodes im else i_nodes im ++ [nd] in
      Ok (n, set_impl i (with_nodes nodes' im) st2)
  end.

Definition trackable_of_sig (g : N) : N := 1000 + g.   (* the trackable base of a trackable_signal *)

(* ------------------------------------------------------------------------------------------ *)
(* Observations at a quiescent point, compared with probes of the implementation *)

Definition live_functors_sb (sb : slotbase) : list N :=
  match sb_rep sb with
  | Some r => match r_fn r with
              | Some f => match f_fwd f with None => [f_body f] | Some _ => [] end
              | None => []
              end
  | None => []
  end.

(* bodies of all functor copies the library holds *)
Definition live_functors (st : state) : list N :=
  flat_map (fun '(_, o) => match o with Some sb => live_functors_sb sb | None => [] end) (slots st)
  ++ flat_map (fun '(_, im) => flat_map (fun x => live_functors_sb (n_sb x)) (i_nodes im)) (impls st).

(* number of callback entries registered on each live user trackable *)
Definition registrations (st : state) : list (N * N) :=
  flat_map (fun '(t, o) => match o with
                           | Some tr => [(t, match t_list tr with Some l => N.of_nat (length l) | None => 0 end)]
                           | None => []
                           end) (tracks st).

(* ------------------------------------------------------------------------------------------ *)
(* Programs *)

Inductive retspec := RConst (v : N) | RArgPlus (k : N).

Inductive accop :=
| ACopy (k j : N)          (* cursor k := cursor j   (0 = first, 1 = last are read-only) *)
| AInc (k : N)             (* ++k unless k == last *)
| ADec (k : N)             (* --k unless k == first *)
| ADeref (k : N)           (* read *k unless k == last *)
| AWalk (k : N)            (* while k != last: read *k; ++k *)
| AWalkRev (k : N)         (* k := last; while k != first: --k; read *k *)
| AWalkUntil (k z : N).    (* while k != last: v = *k; ++k; stop after v > z *)

Inductive op :=
| OTNew (t : N)
| OTDel (t : N)
| OTAssign (td ts : N)
| OTMoveAssign (td ts : N)
| OTNotify (t : N)
| OTNewShared (t : N)      (* a trackable held through shared ownership (std::shared_ptr) by the program and by functors *)
| OTRelease (t : N)        (* the program drops its handle: the object dies with its last owning functor copy *)
| OSNew (s : N) (rk : rkind) (body : N) (refs : list N)
| OSEmpty (s : N) (rk : rkind)
| OSCopy (sn so : N)
| OSMove (sn so : N)
| OSAssign (sd ss : N)
| OSMoveAssign (sd ss : N)
| OSCall (s arg : N) (catch : bool)
| OSBlock (s : N) (b : bool)
| OSDisc (s : N)
| OSDel (s : N)
| OSQuery (s : N)
| OGNew (g : N) (k : gkind)
| OGCopy (gn go : N)
| OGMove (gn go : N)
| OGAssign (gd gs : N)
| OGMoveAssign (gd gs : N)
| OGShare (g : N)          (* the signal object g becomes co-owned (std::shared_ptr) by the program and by functor copies *)
| OGRelease (g : N)        (* the program drops its own shared_ptr to signal object g *)
| OGDel (g : N)
| OGConnect (g s : N) (c : option N) (front mv : bool)
| OGEmit (g arg : N) (catch : bool)
| OGClear (g : N)
| OGBlock (g : N) (b : bool)
| OGQuery (g : N)
| OGMakeSlot (s g : N)
| OCEmpty (c : N)
| OCCopy (cn co : N)
| OCAssign (cd cs : N)
| OCDisc (c : N)
| OCBlock (c : N) (b : bool)
| OCShare (c : N)          (* the connection object c becomes co-owned (std::shared_ptr) by the program and by functor copies *)
| OCRelease (c : N)        (* the program drops its own shared_ptr to connection object c *)
| OCDel (c : N)
| OCQuery (c : N)
| OKNew (k c : N)
| OKEmpty (k : N)
| OKAssign (k c : N)
| OKMove (kn ko : N)
| OKMoveAssign (kd ks : N)
| OKSwap (k1 k2 : N)
| OKRelease (k c : N)
| OKDisc (k : N)
| OKBlock (k : N) (b : bool)
| OKDel (k : N)
| OKQuery (k : N)
| OProbe
| OThrow.

Record program := mkProg
  { p_scripts : list (N * (list op * retspec))
  ; p_accs : list (N * list accop)
  ; p_owns : list (N * list N)      (* functor body -> shared trackables every copy of that functor co-owns *)
  ; p_main : list op }.

Inductive outcome (A : Type) :=
| Done (s : state) (v : A)
| Thrown (s : state)
| Fail (e : error).
Arguments Done {A} s v.
Arguments Thrown {A} s.
Arguments Fail {A} e.

Definition lift {A} (r : res state) (v : A) : outcome A :=
  match r with Ok s => Done s v | Err e => Fail e end.

Inductive callee := CScript (body arg : N) | CFwd (g arg : N).

Definition acc_mod : N := 1000003.
Definition acc_step (a v : N) : N := (a * 3 + v + 1) mod acc_mod.

Record cursor := mkCur { c_pos : nid; c_invoked : bool; c_buf : N }.

Section Interp.
  Variable prog : program.
  (* open recursion: running a script body / a make_slot forwarder *)
  Variable rec : callee -> state -> outcome N.

  (* adaptor_functor::operator() of the functor stored in a rep *)
  Definition invoke_functor (f : functor) (arg : N) (st : state) : outcome N :=
    match f_fwd f with
    | Some g => rec (CFwd g arg) st
    | None =>
        match rec (CScript (f_body f) arg) (emit_ev (EEnter (f_body f) arg) st) with
        | Done s v => Done (emit_ev (ELeave (f_body f) v) s) v
        | Thrown s => Thrown (emit_ev (EThrowOut (f_body f)) s)
        | Fail e => Fail e
        end
    end.

  (* rep_->call_(rep_, a) on the slot at l, which the caller has checked to be !empty() && !blocked() *)
  Definition invoke_at (l : loc) (arg : N) (st : state) : outcome N :=
    match get_rep l st with
    | Some r => match r_fn r with
                | Some f => invoke_functor f arg st
                | None => Fail ErrUAF         (* valid rep without functor: call through a dead functor *)
                end
    | None => Fail ErrUAF
    end.

  Definition node_next (i : N) (cur : nid) (st : state) : res (option nid) :=
    match aget i (impls st) with
    | None => Err ErrUAF
    | Some im =>
        match find_index (fun x => nid_eqb (n_id x) cur) (i_nodes im) with
        | None => Err ErrDangling
        | Some k => Ok (option_map n_id (nth_error (i_nodes im) (S k)))
        end
    end.

  Definition node_prev (i : N) (cur : nid) (st : state) : res (option nid) :=
    match aget i (impls st) with
    | None => Err ErrUAF
    | Some im =>
        match find_index (fun x => nid_eqb (n_id x) cur) (i_nodes im) with
        | None => Err ErrDangling
        | Some O => Ok None
        | Some (S k) => Ok (option_map n_id (nth_error (i_nodes im) k))
        end
    end.

  (* the loop of signal_emit<void,void>/<T,void>::emit from cur up to the placeholder ph.
     last = result of the last slot invoked so far. *)
  Fixpoint emit_loop (fuel : nat) (i : N) (cur ph : nid) (arg : N) (last : N) (st : state) : outcome N :=
    if nid_eqb cur ph then Done st last else
    match fuel with
    | O => Fail ErrLoop
    | S fuel' =>
        match get_sb (LNode i cur) st with
        | None => Fail ErrDangling
        | Some sb =>
            let continue (st1 : state) (last1 : N) :=
              match node_next i cur st1 with
              | Err e => Fail e
              | Ok None => Fail ErrDangling        (* ran past end() *)
              | Ok (Some nx) => emit_loop fuel' i nx ph arg last1 st1
              end in
            if sb_empty sb || sb_blocked sb then continue st last
            else match invoke_at (LNode i cur) arg st with
                 | Done st1 v => continue st1 v
                 | Thrown st1 => Thrown st1
                 | Fail e => Fail e
                 end
        end
    end.

  (* signal_impl_holder + temp_slot_list constructors *)
  Definition frame_enter (i : N) (st : state) : res (nid * nid * nat * state) :=
    match aget i (impls st) with
    | None => Err ErrUAF
    | Some im =>
        let ph := Ph (next_ph st) in
        let nodes' := i_nodes im ++ [mkNode ph sb_none] in
        let im' := with_nodes nodes' (with_exec (i_exec im + 1) (with_holders (i_holders im + 1) im)) in
        let first := match nodes' with x :: _ => n_id x | [] => ph end in
        Ok (first, ph, length nodes', set_impl i im' (with_next_ph (next_ph st + 1) st))
    end.

  (* ~temp_slot_list then ~signal_impl_holder (exec_holder_ first, then the shared_ptr) *)
  Definition frame_leave (i : N) (ph : nid) (st : state) : res state :=
    st1 <- erase_node i ph st ;;
    st2 <- unreference_exec i st1 ;;
    st3 <- upd_impl i (fun im => with_holders (i_holders im - 1) im) st2 ;;
    release_check i st3.

  Definition with_frame {A} (i : N) (body : nid -> nid -> nat -> state -> outcome A) (st : state) : outcome A :=
    match frame_enter i st with
    | Err e => Fail e
    | Ok (first, ph, n, st1) =>
        match body first ph n st1 with
        | Done st2 v => lift (frame_leave i ph st2) v
        | Thrown st2 => match frame_leave i ph st2 with Ok st3 => Thrown st3 | Err e => Fail e end
        | Fail e => Fail e
        end
    end.

  (* ---- accumulator emission: slot_iterator_buf (signal.h:44-120) ---- *)
  Definition get_cur (k : N) (cs : list (N * cursor)) (dflt : cursor) : cursor :=
    match aget k cs with Some c => c | None => dflt end.

  (* operator*: invoke at most once per arrival; returns the buffered value *)
  Definition cur_deref (i : N) (arg : N) (c : cursor) (st : state) : outcome cursor :=
    match get_sb (LNode i (c_pos c)) st with
    | None => Fail ErrDangling
    | Some sb =>
        if negb (sb_empty sb) && negb (sb_blocked sb) && negb (c_invoked c)
        then match invoke_at (LNode i (c_pos c)) arg st with
             | Done st1 v => Done st1 (mkCur (c_pos c) true v)
             | Thrown st1 => Thrown st1
             | Fail e => Fail e
             end
        else Done st c
    end.

  Definition cur_inc (i : N) (c : cursor) (st : state) : res cursor :=
    nx <- node_next i (c_pos c) st ;;
    match nx with Some n => Ok (mkCur n false (c_buf c)) | None => Err ErrDangling end.

  Definition cur_dec (i : N) (c : cursor) (st : state) : res cursor :=
    pv <- node_prev i (c_pos c) st ;;
    match pv with Some n => Ok (mkCur n false (c_buf c)) | None => Err ErrDangling end.

  (* while k != last: v = *k; ++k; (stop after v > z when z is given) *)
  Fixpoint acc_walk (fuel : nat) (i arg : N) (lastpos : nid) (z : option N) (c : cursor) (a : N) (st : state)
    : outcome (cursor * N) :=
    if nid_eqb (c_pos c) lastpos then Done st (c, a) else
    match fuel with
    | O => Fail ErrLoop
    | S fuel' =>
        match cur_deref i arg c st with
        | Done st1 c1 =>
            let a1 := acc_step a (c_buf c1) in
            match cur_inc i c1 st1 with
            | Err e => Fail e
            | Ok c2 =>
                if match z with Some zz => N.ltb zz (c_buf c1) | None => false end
                then Done st1 (c2, a1)
                else acc_walk fuel' i arg lastpos z c2 a1 st1
            end
        | Thrown st1 => Thrown st1
        | Fail e => Fail e
        end
    end.

  (* k := last; while k != first: --k; v = *k *)
  Fixpoint acc_walk_rev (fuel : nat) (i arg : N) (firstpos : nid) (c : cursor) (a : N) (st : state)
    : outcome (cursor * N) :=
    if nid_eqb (c_pos c) firstpos then Done st (c, a) else
    match fuel with
    | O => Fail ErrLoop
    | S fuel' =>
        match cur_dec i c st with
        | Err e => Fail e
        | Ok c1 =>
            match cur_deref i arg c1 st with
            | Done st1 c2 => acc_walk_rev fuel' i arg firstpos c2 (acc_step a (c_buf c2)) st1
            | Thrown st1 => Thrown st1
            | Fail e => Fail e
            end
        end
    end.

  Definition writable (k : N) : bool := negb (N.eqb k 0) && negb (N.eqb k 1).

  Fixpoint acc_run (n : nat) (i arg : N) (fc lc : cursor) (ops : list accop)
           (cs : list (N * cursor)) (a : N) (st : state) : outcome N :=
    match ops with
    | [] => Done st a
    | o :: rest =>
        let getc k := if N.eqb k 0 then fc else if N.eqb k 1 then lc else get_cur k cs fc in
        match o with
        | ACopy k j =>
            if writable k then acc_run n i arg fc lc rest (aset k (getc j) cs) a st
            else acc_run n i arg fc lc rest cs a st
        | AInc k =>
            if writable k && negb (nid_eqb (c_pos (getc k)) (c_pos lc)) then
              match cur_inc i (getc k) st with
              | Ok c => acc_run n i arg fc lc rest (aset k c cs) a st
              | Err e => Fail e
              end
            else acc_run n i arg fc lc rest cs a st
        | ADec k =>
            if writable k && negb (nid_eqb (c_pos (getc k)) (c_pos fc)) then
              match cur_dec i (getc k) st with
              | Ok c => acc_run n i arg fc lc rest (aset k c cs) a st
              | Err e => Fail e
              end
            else acc_run n i arg fc lc rest cs a st
        | ADeref k =>
            if writable k && negb (nid_eqb (c_pos (getc k)) (c_pos lc)) then
              match cur_deref i arg (getc k) st with
              | Done st1 c => acc_run n i arg fc lc rest (aset k c cs) (acc_step a (c_buf c)) st1
              | Thrown st1 => Thrown st1
              | Fail e => Fail e
              end
            else acc_run n i arg fc lc rest cs a st
        | AWalk k =>
            if writable k then
              match acc_walk n i arg (c_pos lc) None (getc k) a st with
              | Done st1 (c, a1) => acc_run n i arg fc lc rest (aset k c cs) a1 st1
              | Thrown st1 => Thrown st1
              | Fail e => Fail e
              end
            else acc_run n i arg fc lc rest cs a st
        | AWalkUntil k z =>
            if writable k then
              match acc_walk n i arg (c_pos lc) (Some z) (getc k) a st with
              | Done st1 (c, a1) => acc_run n i arg fc lc rest (aset k c cs) a1 st1
              | Thrown st1 => Thrown st1
              | Fail e => Fail e
              end
            else acc_run n i arg fc lc rest cs a st
        | AWalkRev k =>
            if writable k then
              match acc_walk_rev n i arg (c_pos fc) (mkCur (c_pos lc) false (c_buf lc)) a st with
              | Done st1 (c, a1) => acc_run n i arg fc lc rest (aset k c cs) a1 st1
              | Thrown st1 => Thrown st1
              | Fail e => Fail e
              end
            else acc_run n i arg fc lc rest cs a st
        end
    end.

  (* signal_with_accumulator::emit through signal object g *)
  Definition emit_sig (g arg : N) (st : state) : outcome N :=
    match live_sig g st with
    | None => Fail ErrUnsupported           (* emitting a destroyed signal object *)
    | Some go =>
        match gk_acc (g_kind go) with
        | None =>
            (* signal_emit<T,void>/<void,void>: if (!impl || impl->slots_.empty()) return T() *)
            match g_impl go with
            | None => Done st 0
            | Some i =>
                match aget i (impls st) with
                | None => Fail ErrUAF
                | Some im =>
                    match i_nodes im with
                    | [] => Done st 0
                    | _ => with_frame i (fun first ph n st1 => emit_loop n i first ph arg 0 st1) st
                    end
                end
            end
        | Some a =>
            let ops := match aget a (p_accs prog) with Some l => l | None => [] end in
            match g_impl go with
            | None =>
                (* accumulator(slot_iterator_buf(), slot_iterator_buf()): c_ == nullptr, all cursors equal *)
                let c := mkCur (Ph 0) false 0 in
                acc_run O 0 arg c c ops [] 0 st
            | Some i =>
                with_frame i (fun first ph n st1 =>
                                acc_run n i arg (mkCur first false 0) (mkCur ph false 0) ops [] 0 st1) st
            end
        end
    end.

  (* ---- shared ownership of trackables by functors ----
     A functor copy whose body is listed in p_owns holds a std::shared_ptr to each of those
     trackables; the object is destroyed when the program has released its own handle and the last
     such functor copy has been destroyed.  In the C++ the destruction happens inside the library
     call that destroys the last functor copy; no user code can run between that moment and the end
     of the operation in progress, so the model performs it at the end of the operation. *)
  (* signal objects held through shared ownership use the keys 2000 + g in the same table *)
  Definition sig_key (g : N) : N := 2000 + g.
  Definition owns (b : N) : list N := match aget b (p_owns prog) with Some l => l | None => [] end.

  Definition owner_count (t : N) (st : state) : N :=
    count_if (fun b => existsb (N.eqb t) (owns b)) (live_functors st).

  Definition is_released (t : N) (st : state) : bool :=
    match aget t (shared st) with Some true => true | _ => false end.
  Definition is_shared (t : N) (st : state) : bool :=
    match aget t (shared st) with Some _ => true | None => false end.
  (* a trackable the program can still name: live and its handle not released *)
  Definition prog_track (t : N) (st : state) : option trackable :=
    if is_released t st then None else live_track t st.

  (* connection objects held through shared ownership use the keys 4000 + c *)
  Definition conn_key (c : N) : N := 4000 + c.
  Definition key_live (k : N) (st : state) : bool :=
    if N.leb 4000 k
    then match get_connptr (WC (k - 4000)) st with Some _ => true | None => false end
    else if N.leb 2000 k
    then match live_sig (k - 2000) st with Some _ => true | None => false end
    else match live_track k st with Some _ => true | None => false end.

  Fixpoint find_orphan (l : list (N * bool)) (st : state) : option N :=
    match l with
    | [] => None
    | (t, rel) :: r =>
        if rel && key_live t st && N.eqb (owner_count t st) 0
        then Some t else find_orphan r st
    end.

  (* ---- the operations ---- *)

  Definition skip (st : state) : outcome unit := Done (emit_ev ESkip st) tt.
  Definition liftu (r : res state) : outcome unit := lift r tt.

  Definition fresh_slot (s : N) (st : state) : bool :=
    match aget s (slots st) with None => true | Some _ => false end.
  Definition fresh_sig (g : N) (st : state) : bool :=
    match aget g (sigs st) with None => true | Some _ => false end.
  Definition fresh_track (t : N) (st : state) : bool :=
    match aget t (tracks st) with None => true | Some _ => false end.
  Definition fresh_conn (c : N) (st : state) : bool :=
    match aget c (conns st) with None => true | Some _ => false end.
  Definition fresh_sconn (k : N) (st : state) : bool :=
    match aget k (sconns st) with None => true | Some _ => false end.

  Definition kind_of_slot (s : N) (st : state) : rkind :=
    match aget s (skind st) with Some k => k | None => RI end.

  Definition new_slot_var (s : N) (rk : rkind) (sb : slotbase) (st : state) : state :=
    with_skind (aset s rk (skind st)) (with_slots (aset s (Some sb) (slots st)) st).

  (* the slot referred to by a connection pointer; a non-null pointer to a vanished node is a UAF *)
  Definition conn_target (p : connptr) (st : state) : res (option (loc * slotbase)) :=
    match p with
    | None => Ok None
    | Some (i, n) =>
        match get_sb (LNode i n) st with
        | Some sb => Ok (Some (LNode i n, sb))
        | None => Err ErrUAF
        end
    end.

  Definition conn_query (p : connptr) (st : state) : outcome unit :=
    match conn_target p st with
    | Err e => Fail e
    | Ok None => Done (emit_ev (EConnQ false false) st) tt
    | Ok (Some (_, sb)) => Done (emit_ev (EConnQ (negb (sb_empty sb)) (sb_blocked sb)) st) tt
    end.

  Definition conn_block (p : connptr) (b : bool) (st : state) : outcome unit :=
    match conn_target p st with
    | Err e => Fail e
    | Ok None => Done (emit_ev (EBlockRet false) st) tt
    | Ok (Some (l, sb)) => Done (emit_ev (EBlockRet (sb_blocked sb)) (set_sb l (mkSB (sb_rep sb) b) st)) tt
    end.

  Definition conn_disconnect (p : connptr) (st : state) : res state :=
    t <- conn_target p st ;;
    match t with
    | None => Ok st
    | Some (l, _) => rep_disconnect l st
    end.

  (* w = p  (weak_raw_ptr::operator=): unregister from the old target, register at the new one *)
  Definition conn_set (w : wref) (p : connptr) (st : state) : res state :=
    match get_connptr w st with
    | None => Err ErrUnsupported
    | Some old =>
        st1 <- watch_remove old w st ;;
        st2 <- watch_add p w (set_connptr w p st1) ;;
        Ok st2
    end.

  (* destroy a signal object (handle): trackable base first, then the shared_ptr *)
  Definition sig_destroy (g : N) (go : sigobj) (st : state) : res state :=
    st1 <- (if gk_track (g_kind go)
            then st1 <- track_notify (trackable_of_sig g) st ;;
                 Ok (with_tracks (aset (trackable_of_sig g) None (tracks st1)) st1)
            else Ok st) ;;
    let st2 := with_sigs (aset g None (sigs st1)) st1 in
    match g_impl go with
    | Some i => release_check i st2
    | None => Ok st2
    end.

  (* end-of-operation destruction of what nobody owns any more: a trackable, or a signal object
     (its destruction is that of OGDel: trackable base first, then the handle) *)
  Fixpoint gc (fuel : nat) (st : state) : res state :=
    match find_orphan (shared st) st with
    | None => Ok st
    | Some t =>
        match fuel with
        | O => Err ErrLoop
        | S f =>
            if N.leb 4000 t
            then match get_connptr (WC (t - 4000)) st with
                 | Some p => st1 <- watch_remove p (WC (t - 4000)) st ;; gc f (with_conns (aset (t - 4000) None (conns st1)) st1)
                 | None => Err ErrLoop
                 end
            else if N.leb 2000 t
            then match live_sig (t - 2000) st with
                 | Some go => st1 <- sig_destroy (t - 2000) go st ;; gc f st1
                 | None => Err ErrLoop
                 end
            else st1 <- track_notify t st ;; gc f (with_tracks (aset t None (tracks st1)) st1)
        end
    end.

  Definition gc_shared (st : state) : res state := gc (S (List.length (shared st))) st.

  Definition same_gkind (a b : gkind) : bool :=
    rkind_eqb (gk_ret a) (gk_ret b) && Bool.eqb (gk_track a) (gk_track b) &&
    match gk_acc a, gk_acc b with
    | None, None => true
    | Some x, Some y => N.eqb x y
    | _, _ => false
    end.

  Definition step (o : op) (st : state) : outcome unit :=
    match o with
    (* ---- trackables ---- *)
    | OTNew t =>
        if fresh_track t st && N.ltb t 1000 then Done (with_tracks (aset t (Some (mkTr None false)) (tracks st)) st) tt
        else skip st
    | OTNewShared t =>
        if fresh_track t st && N.ltb t 1000
        then Done (with_shared (aset t false (shared st)) (with_tracks (aset t (Some (mkTr None false)) (tracks st)) st)) tt
        else skip st
    | OTRelease t =>
        match live_track t st with
        | Some _ => if is_shared t st && negb (is_released t st)
                    then Done (with_shared (aset t true (shared st)) st) tt else skip st
        | None => skip st
        end
    | OTDel t =>
        match live_track t st with
        | Some _ => if N.ltb t 1000 && negb (is_shared t st)
                    then liftu (st1 <- track_notify t st ;; Ok (with_tracks (aset t None (tracks st1)) st1))
                    else skip st
        | None => skip st
        end
    | OTAssign td ts =>
        match prog_track td st, prog_track ts st with
        | Some _, Some _ => if N.eqb td ts then Done st tt else liftu (track_notify td st)
        | _, _ => skip st
        end
    | OTMoveAssign td ts =>
        match prog_track td st, prog_track ts st with
        | Some _, Some _ => if N.eqb td ts then Done st tt
                            else liftu (st1 <- track_notify td st ;; track_notify ts st1)
        | _, _ => skip st
        end
    | OTNotify t =>
        match prog_track t st with
        | Some _ => liftu (track_notify t st)
        | None => skip st
        end
    (* ---- slots ---- *)
    | OSNew s rk body refs =>
        if fresh_slot s st
           && forallb (fun t => match live_track t st with Some _ => negb (is_released t st) | None => false end) refs
           && forallb (fun t => N.leb 2000 t || negb (fresh_track t st)) (owns body)     (* an owned trackable must have been created; an owned signal object (key >= 2000) need not exist yet *)
        then
          let rid := next_rid st in
          let st1 := with_next_rid (rid + 1) st in
          match bind_all rid refs st1 with
          | Err e => Fail e
          | Ok st2 => Done (new_slot_var s rk (mkSB (Some (mkRep rid true false (Some (mkFun body refs None)) [])) false) st2) tt
          end
        else skip st
    | OSEmpty s rk =>
        if fresh_slot s st then Done (new_slot_var s rk sb_none st) tt else skip st
    | OSCopy sn so =>
        match live_slot so st with
        | Some src =>
            if fresh_slot sn st then
              match sb_copy src st with
              | Ok (sb, st1) => Done (new_slot_var sn (kind_of_slot so st) sb st1) tt
              | Err e => Fail e
              end
            else skip st
        | None => skip st
        end
    | OSMove sn so =>
        match live_slot so st with
        | Some src =>
            if fresh_slot sn st then
              match sb_move src st with
              | Ok (sb, src', st1) =>
                  Done (new_slot_var sn (kind_of_slot so st) sb (set_sb (LVar so) src' st1)) tt
              | Err e => Fail e
              end
            else skip st
        | None => skip st
        end
    | OSAssign sd ss =>
        match live_slot sd st, live_slot ss st with
        | Some _, Some _ =>
            if rkind_eqb (kind_of_slot sd st) (kind_of_slot ss st) then liftu (sb_assign sd ss st) else skip st
        | _, _ => skip st
        end
    | OSMoveAssign sd ss =>
        match live_slot sd st, live_slot ss st with
        | Some _, Some _ =>
            if rkind_eqb (kind_of_slot sd st) (kind_of_slot ss st) then liftu (sb_move_assign sd ss st) else skip st
        | _, _ => skip st
        end
    | OSCall s arg catch =>
        match live_slot s st with
        | Some sb =>
            if negb (sb_empty sb) && negb (sb_blocked sb) then
              match invoke_at (LVar s) arg st with
              | Done st1 v => Done (emit_ev (ECallRet (match kind_of_slot s st with RV => 0 | RI => v end)) st1) tt
              | Thrown st1 => if catch then Done (emit_ev EExn st1) tt else Thrown st1
              | Fail e => Fail e
              end
            else Done (emit_ev (ECallRet 0) st) tt
        | None => skip st
        end
    | OSBlock s b =>
        match live_slot s st with
        | Some sb => Done (emit_ev (EBlockRet (sb_blocked sb)) (set_sb (LVar s) (mkSB (sb_rep sb) b) st)) tt
        | None => skip st
        end
    | OSDisc s =>
        match live_slot s st with
        | Some _ => liftu (rep_disconnect (LVar s) st)
        | None => skip st
        end
    | OSDel s =>
        match live_slot s st with
        | Some sb => liftu (sb_delete sb (with_slots (aset s None (slots st)) st))
        | None => skip st
        end
    | OSQuery s =>
        match live_slot s st with
        | Some sb => Done (emit_ev (ESlotQ (sb_empty sb) (sb_blocked sb)) st) tt
        | None => skip st
        end
    (* ---- signals ---- *)
    | OGNew g k =>
        if fresh_sig g st && (negb (gk_track k) || fresh_track (trackable_of_sig g) st) then
          let st1 := with_sigs (aset g (Some (mkSig k None)) (sigs st)) st in
          Done (if gk_track k then with_tracks (aset (trackable_of_sig g) (Some (mkTr None false)) (tracks st1)) st1 else st1) tt
        else skip st
    | OGCopy gn go =>
        match live_sig go st with
        | Some src =>
            if fresh_sig gn st then
              let '(i, st1) := ensure_impl go src st in             (* impl_(src.impl()) *)
              let st2 := with_sigs (aset gn (Some (mkSig (g_kind src) (Some i))) (sigs st1)) st1 in
              Done (if gk_track (g_kind src)
                    then with_tracks (aset (trackable_of_sig gn) (Some (mkTr None false)) (tracks st2)) st2
                    else st2) tt
            else skip st
        | None => skip st
        end
    | OGMove gn go =>
        match live_sig go st with
        | Some src =>
            (* signal<>::accumulated declares no move constructor: not part of the modelled API *)
            if fresh_sig gn st && match gk_acc (g_kind src) with None => true | Some _ => false end then
              let st1 := with_sigs (aset gn (Some (mkSig (g_kind src) (g_impl src)))
                                     (aset go (Some (mkSig (g_kind src) None)) (sigs st))) st in
              if gk_track (g_kind src) then
                let st2 := with_tracks (aset (trackable_of_sig gn) (Some (mkTr None false)) (tracks st1)) st1 in
                liftu (track_notify (trackable_of_sig go) st2)      (* trackable(trackable&& src) *)
              else Done st1 tt
            else skip st
        | None => skip st
        end
    | OGAssign gd gs =>
        match live_sig gd st, live_sig gs st with
        | Some dst, Some src =>
            if same_gkind (g_kind dst) (g_kind src) then
              if match g_impl dst, g_impl src with
                 | Some a, Some b => N.eqb a b
                 | _, _ => false
                 end
              then Done st tt                                         (* impl_ && src.impl_ == impl_ *)
              else
                let '(i, st1) := ensure_impl gs src st in
                let st2 := with_sigs (aset gd (Some (mkSig (g_kind dst) (Some i))) (sigs st1)) st1 in
                match g_impl dst with
                | Some old => liftu (release_check old st2)
                | None => Done st2 tt
                end
            else skip st
        | _, _ => skip st
        end
    | OGMoveAssign gd gs =>
        match live_sig gd st, live_sig gs st with
        | Some dst, Some src =>
            if same_gkind (g_kind dst) (g_kind src) && match gk_acc (g_kind src) with None => true | Some _ => false end then
              if match g_impl dst, g_impl src with
                 | None, None => true
                 | Some a, Some b => N.eqb a b
                 | _, _ => false
                 end
              then Done st tt
              else
                let st1 := with_sigs (aset gd (Some (mkSig (g_kind dst) (g_impl src)))
                                       (aset gs (Some (mkSig (g_kind src) None)) (sigs st))) st in
                match (match g_impl dst with Some old => release_check old st1 | None => Ok st1 end) with
                | Err e => Fail e
                | Ok st2 =>
                    (* trackable_signal: if (src.impl_ != impl_) src.notify_callbacks();
                       src.impl_ is nullptr now, so this fires iff the moved impl was non-null *)
                    if gk_track (g_kind src) && match g_impl src with Some _ => true | None => false end
                    then liftu (track_notify (trackable_of_sig gs) st2)
                    else Done st2 tt
                end
            else skip st
        | _, _ => skip st
        end
    | OGShare g =>
        match live_sig g st with
        | Some _ => if negb (is_shared (sig_key g) st) && N.ltb g 1000
                    then Done (with_shared (aset (sig_key g) false (shared st)) st) tt else skip st
        | None => skip st
        end
    | OGRelease g =>
        match live_sig g st with
        | Some _ => if is_shared (sig_key g) st && negb (is_released (sig_key g) st)
                    then Done (with_shared (aset (sig_key g) true (shared st)) st) tt else skip st
        | None => skip st
        end
    | OGDel g =>
        match live_sig g st with
        | Some go => if negb (is_shared (sig_key g) st) then liftu (sig_destroy g go st) else skip st
        | None => skip st
        end
    | OGConnect g s c front mv =>
        match live_sig g st, live_slot s st with
        | Some go, Some src =>
            if rkind_eqb (gk_ret (g_kind go)) (kind_of_slot s st) then
              let '(i, st1) := ensure_impl g go st in
              match (if mv then sb_move src st1
                     else '(sb, st2) <- sb_copy src st1 ;; Ok (sb, src, st2)) with
              | Err e => Fail e
              | Ok (sb, src', st2) =>
                  let st3 := set_sb (LVar s) src' st2 in
                  match impl_insert i front sb st3 with
                  | Err e => Fail e
                  | Ok (n, st4) =>
                      (* the returned connection: assigned to / constructs variable c, or dropped *)
                      match c with
                      | None => Done st4 tt
                      | Some cv =>
                          if fresh_conn cv st4 then
                            liftu (watch_add (Some (i, n)) (WC cv) (set_connptr (WC cv) (Some (i, n)) st4))
                          else match get_connptr (WC cv) st4 with
                               | Some _ => liftu (conn_set (WC cv) (Some (i, n)) st4)
                               | None => Done st4 tt
                               end
                      end
                  end
              end
            else skip st
        | _, _ => skip st
        end
    | OGEmit g arg catch =>
        match live_sig g st with
        | Some go =>
            match emit_sig g arg st with
            | Done st1 v => Done (emit_ev (EEmitRet (match gk_ret (g_kind go) with RV => 0 | RI => v end)) st1) tt
            | Thrown st1 => if catch then Done (emit_ev EExn st1) tt else Thrown st1
            | Fail e => Fail e
            end
        | None => skip st
        end
    | OGClear g =>
        match live_sig g st with
        | Some go => match g_impl go with Some i => liftu (impl_clear i st) | None => Done st tt end
        | None => skip st
        end
    | OGBlock g b =>
        match live_sig g st with
        | Some go =>
            match g_impl go with
            | Some i => liftu (upd_impl i (fun im => with_nodes (map (fun x => mkNode (n_id x) (mkSB (sb_rep (n_sb x)) b)) (i_nodes im)) im) st)
            | None => Done st tt
            end
        | None => skip st
        end
    | OGQuery g =>
        match live_sig g st with
        | Some go =>
            match g_impl go with
            | Some i =>
                match aget i (impls st) with
                | Some im =>
                    Done (emit_ev (ESigQ (N.of_nat (length (i_nodes im)))
                                         (match i_nodes im with [] => true | _ => false end)
                                         (forallb (fun x => sb_blocked (n_sb x)) (i_nodes im))) st) tt
                | None => Fail ErrUAF
                end
            | None => Done (emit_ev (ESigQ 0 true true) st) tt
            end
        | None => skip st
        end
    | OGMakeSlot s g =>
        match live_sig g st with
        | Some go =>
            if fresh_slot s st && match gk_acc (g_kind go) with None => true | Some _ => false end then
              let rid := next_rid st in
              let st1 := with_next_rid (rid + 1) st in
              let refs := if gk_track (g_kind go) then [trackable_of_sig g] else [] in
              match bind_all rid refs st1 with
              | Err e => Fail e
              | Ok st2 => Done (new_slot_var s (gk_ret (g_kind go))
                                  (mkSB (Some (mkRep rid true false (Some (mkFun 0 refs (Some g))) [])) false) st2) tt
              end
            else skip st
        | None => skip st
        end
    (* ---- connections ---- *)
    | OCEmpty c =>
        if fresh_conn c st then Done (set_connptr (WC c) None st) tt else skip st
    | OCCopy cn co =>
        match get_connptr (WC co) st with
        | Some p => if fresh_conn cn st then liftu (watch_add p (WC cn) (set_connptr (WC cn) p st)) else skip st
        | None => skip st
        end
    | OCAssign cd cs =>
        match get_connptr (WC cd) st, get_connptr (WC cs) st with
        | Some _, Some p => liftu (conn_set (WC cd) p st)
        | _, _ => skip st
        end
    | OCDisc c =>
        match get_connptr (WC c) st with
        | Some p => liftu (conn_disconnect p st)
        | None => skip st
        end
    | OCBlock c b =>
        match get_connptr (WC c) st with
        | Some p => conn_block p b st
        | None => skip st
        end
    | OCShare c =>
        match get_connptr (WC c) st with
        | Some _ => if negb (is_shared (conn_key c) st) && N.ltb c 1000
                    then Done (with_shared (aset (conn_key c) false (shared st)) st) tt else skip st
        | None => skip st
        end
    | OCRelease c =>
        match get_connptr (WC c) st with
        | Some _ => if is_shared (conn_key c) st && negb (is_released (conn_key c) st)
                    then Done (with_shared (aset (conn_key c) true (shared st)) st) tt else skip st
        | None => skip st
        end
    | OCDel c =>
        match get_connptr (WC c) st with
        | Some p => if negb (is_shared (conn_key c) st)
                    then liftu (st1 <- watch_remove p (WC c) st ;; Ok (with_conns (aset c None (conns st1)) st1))
                    else skip st
        | None => skip st
        end
    | OCQuery c =>
        match get_connptr (WC c) st with
        | Some p => conn_query p st
        | None => skip st
        end
    (* ---- scoped connections ---- *)
    | OKNew k c =>
        match get_connptr (WC c) st with
        | Some p => if fresh_sconn k st then liftu (watch_add p (WK k) (set_connptr (WK k) p st)) else skip st
        | None => skip st
        end
    | OKEmpty k =>
        if fresh_sconn k st then Done (set_connptr (WK k) None st) tt else skip st
    | OKAssign k c =>
        match get_connptr (WK k) st, get_connptr (WC c) st with
        | Some old, Some _ =>
            (* operator=(connection c): c is a registered copy, so it is nulled like every other
               watcher if conn_.disconnect() erases the slot it refers to: read it afterwards *)
            liftu (st1 <- conn_disconnect old st ;;
                   match get_connptr (WK k) st1, get_connptr (WC c) st1 with
                   | Some _, Some p => conn_set (WK k) p st1
                   | _, _ => Err ErrUnsupported
                   end)
        | _, _ => skip st
        end
    | OKMove kn ko =>
        match get_connptr (WK ko) st with
        | Some p =>
            if fresh_sconn kn st then
              liftu (st1 <- conn_set (WK ko) None st ;; watch_add p (WK kn) (set_connptr (WK kn) p st1))
            else skip st
        | None => skip st
        end
    | OKMoveAssign kd ks =>
        match get_connptr (WK kd) st, get_connptr (WK ks) st with
        | Some old, Some _ =>
            if N.eqb kd ks then skip st else
            liftu (st1 <- conn_disconnect old st ;;
                   match get_connptr (WK ks) st1 with
                   | Some p => st2 <- conn_set (WK ks) None st1 ;; conn_set (WK kd) p st2
                   | None => Err ErrUnsupported
                   end)
        | _, _ => skip st
        end
    | OKSwap k1 k2 =>
        match get_connptr (WK k1) st, get_connptr (WK k2) st with
        | Some p1, Some p2 =>
            if N.eqb k1 k2 then skip st else
            liftu (st1 <- conn_set (WK k1) p2 st ;; conn_set (WK k2) p1 st1)
        | _, _ => skip st
        end
    | OKRelease k c =>
        match get_connptr (WK k) st with
        | Some p =>
            if fresh_conn c st then
              liftu (st1 <- conn_set (WK k) None st ;; watch_add p (WC c) (set_connptr (WC c) p st1))
            else skip st
        | None => skip st
        end
    | OKDisc k =>
        match get_connptr (WK k) st with
        | Some p => liftu (conn_disconnect p st)
        | None => skip st
        end
    | OKBlock k b =>
        match get_connptr (WK k) st with
        | Some p => conn_block p b st
        | None => skip st
        end
    | OKDel k =>
        match get_connptr (WK k) st with
        | Some p =>
            liftu (st1 <- conn_disconnect p st ;;
                   match get_connptr (WK k) st1 with
                   | Some p1 => st2 <- watch_remove p1 (WK k) st1 ;; Ok (with_sconns (aset k None (sconns st2)) st2)
                   | None => Err ErrUnsupported
                   end)
        | None => skip st
        end
    | OKQuery k =>
        match get_connptr (WK k) st with
        | Some p => conn_query p st
        | None => skip st
        end
    | OProbe => Done (emit_ev (EProbe (live_functors st) (registrations st) (leaked st)) st) tt
    | OThrow => Thrown st
    end.

  Fixpoint run_ops (ops : list op) (st : state) : outcome unit :=
    match ops with
    | [] => Done st tt
    | o :: r =>
        match step o st with
        | Done st1 _ => match gc_shared st1 with Ok st2 => run_ops r st2 | Err e => Fail e end
        | Thrown st1 => Thrown st1
        | Fail e => Fail e
        end
    end.

  Definition run_callee (c : callee) (st : state) : outcome N :=
    match c with
    | CScript b arg =>
        match aget b (p_scripts prog) with
        | None => Done st 0
        | Some (ops, rs) =>
            match run_ops ops st with
            | Done st1 _ => Done st1 (match rs with RConst v => v | RArgPlus k => arg + k end)
            | Thrown st1 => Thrown st1
            | Fail e => Fail e
            end
        end
    | CFwd g arg => emit_sig g arg st
    end.
End Interp.

(* closing the knot: fuel bounds the nesting depth of user code *)
Fixpoint run_callee_fuel (prog : program) (fuel : nat) (c : callee) (st : state) : outcome N :=
  match fuel with
  | O => Fail ErrFuel
  | S f => run_callee prog (run_callee_fuel prog f) c st
  end.

(* top level: an exception that escapes an operation is caught and logged by the driver *)
Fixpoint run_top (prog : program) (fuel : nat) (ops : list op) (st : state) : res state :=
  match ops with
  | [] => Ok st
  | o :: r =>
      match step prog (run_callee_fuel prog fuel) o st with
      | Done st1 _ => st2 <- gc_shared prog st1 ;; run_top prog fuel r st2
      | Thrown st1 => st2 <- gc_shared prog (emit_ev EExn st1) ;; run_top prog fuel r st2
      | Fail e => Err e
      end
  end.

Definition run_program (fuel : nat) (p : program) : res state := run_top p fuel (p_main p) st0.

