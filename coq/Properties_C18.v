(* Properties_C18.v -- Signals chain through make_slot(); a dying trackable_signal unhooks itself.
   Statements only: each Prop is defined in SigSpec.v (or spelled out here) and closed by a lemma of
   SigSafe.v, SigValues.v; Print Assumptions follows each. *)
From Coq Require Import List NArith Bool.
Import ListNotations.
Require Import Util SigCore SigLemmas SigInv SigSafe SigSpec SigValues.
From Coq Require Import String.
Require Import GenTypes gen.Tables.
Local Open Scope N_scope.

Theorem C18_forwarder_emits_target_with_same_argument : S_forwarder_emits.
Proof. exact forwarder_emits. Qed.
Print Assumptions C18_forwarder_emits_target_with_same_argument.

Theorem C18_forwarder_tracks_its_signal : S_forwarder_tracks_its_signal.
Proof. exact forwarder_tracks_its_signal. Qed.
Print Assumptions C18_forwarder_tracks_its_signal.

Theorem C18_forwarder_dies_with_signal : S_forwarder_dies_with_signal.
Proof. exact forwarder_dies_with_signal. Qed.
Print Assumptions C18_forwarder_dies_with_signal.

Theorem C18_copy_is_distinct_trackable : S_copy_is_distinct_trackable.
Proof. exact copy_is_distinct_trackable. Qed.
Print Assumptions C18_copy_is_distinct_trackable.

(* SigCore.sig_destroy destroys a trackable_signal "trackable base first, then the handle": that is the
   reverse of the order in which the class lists its bases.  A trackable_signal whose slots were destroyed
   before its forwarders are invalidated would let a dying functor reach the half-destroyed signal. *)
Theorem C18_gen_trackable_signal_destroys_trackable_base_first :
  existsb (fun '(c, bs) => String.eqb c "trackable_signal_with_accumulator" &&
                           match bs with [b1; b2] => String.eqb b1 "signal_base" && String.eqb b2 "trackable" | _ => false end)
          gen_bases = true.
Proof. vm_compute. reflexivity. Qed.
Print Assumptions C18_gen_trackable_signal_destroys_trackable_base_first.
