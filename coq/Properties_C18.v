(* Properties_C18.v -- Signals chain through make_slot(); a dying trackable_signal unhooks itself.
   Statements only: each Prop is defined in SigSpec.v (or spelled out here) and closed by a lemma of
   SigSafe.v, SigValues.v; Print Assumptions follows each. *)
From Coq Require Import List NArith Bool.
Import ListNotations.
Require Import Util SigCore SigLemmas SigInv SigSafe SigSpec SigValues.
Local Open Scope N_scope.

Theorem C18_forwarder_emits_target_with_same_argument : S_forwarder_emits.
Proof. exact forwarder_emits. Qed.
Print Assumptions C18_forwarder_emits_target_with_same_argument.

Theorem C18_forwarder_tracks_its_signal : S_forwarder_tracks_its_signal.
Proof. exact forwarder_tracks_its_signal. Qed.
Print Assumptions C18_forwarder_tracks_its_signal.

Theorem C18_forwarder_dies_with_signal : S_forwarder_dies_with_signal.
Proof. exact forwarder_dies_with_signal. Qed.
Print Assumptions C18_forwarder_dies_with_signal.

Theorem C18_copy_is_distinct_trackable : S_copy_is_distinct_trackable.
Proof. exact copy_is_distinct_trackable. Qed.
Print Assumptions C18_copy_is_distinct_trackable.
