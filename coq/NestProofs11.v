(* NestProofs11.v -- invalidate, disconnect, the notification loop *)
From Coq Require Import List NArith Bool Arith Lia Permutation.
Import ListNotations.
Require Import Util NestModel NestSpec NestProofs1 NestProofs2 NestProofs3 NestProofs4 NestProofs5 NestProofs6 NestProofs7 NestProofs8 NestProofs10.
Local Open Scope N_scope.

Definition Destroyed (id : N) (st : nstate) : Prop := forall r, lk id (all_reps st) = Some r -> r_fn r = None.

Lemma ginv_pop : forall T P B st id po, GInv T ((id, po) :: P) B st ->
  (po = None \/ exists p, po = Some p /\ Destroyed p st) -> GInv T P B st.
Proof.
  intros T P B st id po HG Hpo.
  assert (Hhead : forall q c, In q (all_reps st) -> In c (kids (items_of q)) -> (r_id c, Some (r_id q)) = (id, po) -> False).
  { intros q c Hq Hc E. injection E as E1 E2. destruct Hpo as [->|(p & -> & Hd)]; [discriminate|]. injection E2 as <-.
    pose proof (Hd q (lk_in _ q (gi_nodup _ _ _ _ HG) Hq)) as Hfn. unfold items_of in Hc. rewrite Hfn in Hc. destruct Hc. }
  constructor; try (destruct HG; assumption).
  - intros q c Hq Hc. destruct (gi_vcp _ _ _ _ HG q c Hq Hc) as [H|[H1 [H2|H2]]]; [left; exact H | | right; split; assumption].
    exfalso. exact (Hhead q c Hq Hc (eq_sym H2)).
  - intros i po' r Hi Hr. apply (gi_pending _ _ _ _ HG i po' r); [right; exact Hi | exact Hr].
  - intros q c Hq Hc Hfn. destruct (gi_kidfn _ _ _ _ HG q c Hq Hc Hfn) as [H|H]; [|exact H].
    exfalso. exact (Hhead q c Hq Hc (eq_sym H)).
Qed.

Lemma destroy_view : forall id st ro, NoDup (ids (all_reps st)) -> lk id (all_reps st) = Some ro ->
  lk id (all_reps (map_rep id fdestroy st)) = Some (fdestroy ro).
Proof.
  intros id st ro Hnd Hlk.
  destruct (map_rep_destroy_split id fdestroy st ro pres_id_fdestroy Hnd Hlk) as (l1 & l2 & EU & EU' & Hl2).
  destruct (lk_some _ _ _ Hlk) as [_ Hro_id].
  rewrite EU'. rewrite lk_app.
  assert (Hn : lk id (map (map_in_rep id fdestroy) l1) = None).
  { apply lk_none_iff. intros Hin. unfold ids in Hin. rewrite map_map in Hin. apply in_map_iff in Hin. destruct Hin as (u & Eu & Hu).
    rewrite map_in_rep_id in Eu by exact pres_id_fdestroy.
    rewrite EU, ids_app in Hnd. apply (NoDup_app_disj _ _ _ id Hnd); [rewrite <- Eu; apply in_ids; exact Hu|].
    rewrite ids_app. apply in_or_app. left. rewrite <- Hro_id. apply in_ids. apply reps_of_self. }
  rewrite Hn. rewrite reps_of_eq. unfold lk. cbn [app find]. cbn [fdestroy set_fn r_id]. cbn [set_valid r_id]. rewrite Hro_id, N.eqb_refl. reflexivity.
Qed.

Lemma unbind_item_adopt : forall me it st st', NoDup (ids (all_reps st)) -> unbind_item me it st = NOk st' ->
  GoneOrInvalid me st -> AdoptRel st st'.
Proof.
  intros me [t|s|v] st st' Hnd H Hg; cbn [unbind_item] in H.
  - unfold track_remove in H. destruct (live_tr t st); [|discriminate]. injection H as <-. apply adoptx_same. reflexivity.
  - destruct (live_var s st) as [[r|]|] eqn:Hs; [| |discriminate].
    + destruct (r_parent r) as [p|] eqn:Hp.
      * destruct (N.eqb p me) eqn:E; injection H as <-; [|apply adopt_same; reflexivity].
        apply N.eqb_eq in E. subst p.
        apply (adopt_clear_parent (r_id r) me st r Hnd); [apply lk_in; [exact Hnd | eapply live_var_in; exact Hs] | exact Hp | exact Hg].
      * injection H as <-. apply adoptx_same. reflexivity.
    + injection H as <-. apply adoptx_same. reflexivity.
  - injection H as <-. apply adoptx_same. reflexivity.
Qed.

Lemma unbind_list_ok3 : forall T P B1 B st, GInv T P (B1 ++ B) st -> (forall b, In b B1 -> GoneOrInvalid (fst b) st) ->
  exists st', unbind_list B1 st = NOk st' /\ GInv T P B st' /\ IFrame st st' /\ AdoptRel st st'.
Proof.
  induction B1 as [|[me it] tl IH]; intros B st HG Hg.
  - exists st. split; [reflexivity|]. split; [exact HG|]. split; [apply IFrame_refl | apply adopt_same; reflexivity].
  - cbn [app] in HG. destruct (unbind_item_ok T P (tl ++ B) st me it HG) as (st1 & E1 & HG1).
    cbn [unbind_list]. rewrite E1. cbn [nbind].
    pose proof (iframe_unbind_item me it st st1 (gi_nodup _ _ _ _ HG) E1) as F1.
    pose proof (unbind_item_adopt me it st st1 (gi_nodup _ _ _ _ HG) E1 (Hg (me, it) (or_introl eq_refl))) as A1.
    destruct (IH B st1 HG1) as (st' & E & HG' & F' & A').
    { intros b Hb. apply (gone_mono _ st st1 (if_e _ _ F1)). apply Hg. right. exact Hb. }
    exists st'. split; [exact E|]. split; [exact HG'|]. split; [eapply IFrame_trans; eassumption|].
    eapply adopt_trans; [exact A1 | exact A' | exact (if_e _ _ F')].
Qed.

Lemma destroy_if_found_ok : forall T P st id, GInv T P [] st ->
  (forall r, lk id (all_reps st) = Some r -> r_parent r = None) ->
  exists st', (match find_rep id st with None => NOk st | Some _ => destroy_in_place id st end) = NOk st' /\
    GInv T P [] st' /\ IFrame st st' /\ Destroyed id st' /\ AdoptRel st st'.
Proof.
  intros T P st id HG Hpn. unfold destroy_in_place. rewrite find_rep_lk.
  destruct (lk id (all_reps st)) as [r|] eqn:Hlk.
  - change (fun x : rep => set_fn None (set_valid false x)) with fdestroy.
    pose proof (gi_nodup _ _ _ _ HG) as Hnd.
    pose proof (ginv_destroy T P [] st id r HG Hlk (Hpn r eq_refl)) as HG3.
    rewrite drop_rep_unbind.
    destruct (unbind_list_ok3 T P _ [] _ HG3) as (st4 & E4 & HG4 & F4 & A4).
    { intros [i it] Hb. apply in_bindings in Hb. destruct Hb as (u & Hu & <- & _). cbn [fst].
      exact (gone_after_destroy id st r Hnd Hlk u Hu). }
    exists st4. split; [exact E4|]. split; [exact HG4|]. split; [|split].
    + eapply IFrame_trans; [eapply iframe_destroy; eassumption | exact F4].
    + intros r4 Hr4. destruct (if_e _ _ F4 id r4 Hr4) as (r3 & Hr3 & _ & Hf).
      rewrite (destroy_view id st r Hnd Hlk) in Hr3. injection Hr3 as <-.
      destruct Hf as [Hf|[Hf _]]; [exact Hf | exfalso; apply Hf; reflexivity].
    + eapply adopt_trans; [exact (adopt_destroy id st r Hnd Hlk (Hpn r eq_refl)) | exact A4 | exact (if_e _ _ F4)].
  - exists st. split; [reflexivity|]. split; [exact HG|]. split; [apply IFrame_refl|]. split; [|apply adopt_same; reflexivity].
    intros r Hr. rewrite Hlk in Hr. discriminate.
Qed.

Lemma ginv_mark : forall T P st id ro, GInv T P [] st -> lk id (all_reps st) = Some ro ->
  GInv T ((id, r_parent ro) :: P) [] (map_rep id fmark st).
Proof.
  intros T P st id ro HG Hlk. destruct (lk_some _ _ _ Hlk) as [Hro_in Hro_id].
  apply (ginv_field T P [] ((id, r_parent ro) :: P) [] st id fmark ro HG pres_id_fmark pres_fn_fmark Hlk).
  - reflexivity.
  - intros x H. exact H.
  - reflexivity.
  - intros i t [].
  - intros i s [].
  - intros b [].
  - intros x H. right. exact H.
  - intros i po [H|H]; [injection H as <- _; right; reflexivity | left; exact H].
  - intros po _. split; reflexivity.
  - intros p H. discriminate.
  - intros q Hq Hk. right. split; [reflexivity|].
    destruct (gi_vcp _ _ _ _ HG q ro Hq Hk) as [H|[H1 H2]]; [left; rewrite H; reflexivity | right; rewrite <- Hro_id; exact H2].
Qed.

Lemma invalidate_ok : forall fuel id T P st, GInv T P [] st -> (np st < fuel)%nat -> lk id (all_reps st) <> None ->
  exists st', invalidate fuel id st = NOk st' /\ GInv T P [] st' /\ IFrame st st' /\ Destroyed id st' /\ AdoptRel st st'.
Proof.
  induction fuel as [|f IH]; intros id T P st HG Hfuel Hfound; [lia|].
  cbn [invalidate]. rewrite find_rep_lk. destruct (lk id (all_reps st)) as [r|] eqn:Hlk; [|contradiction].
  change (fun x : rep => set_parent None (set_valid false x)) with fmark.
  pose proof (gi_nodup _ _ _ _ HG) as Hnd.
  pose proof (ginv_mark T P st id r HG Hlk) as HG1.
  assert (F1 : IFrame st (map_rep id fmark st)).
  { apply iframe_field; [exact Hnd | exact pres_id_fmark | exact pres_fn_fmark | reflexivity]. }
  set (st1 := map_rep id fmark st) in *.
  assert (Hmid : exists st2, (match r_parent r with None => NOk st1 | Some p => invalidate f p st1 end) = NOk st2 /\
                   GInv T ((id, r_parent r) :: P) [] st2 /\ IFrame st1 st2 /\
                   (r_parent r = None \/ exists p, r_parent r = Some p /\ Destroyed p st2) /\ AdoptRel st1 st2).
  { destruct (r_parent r) as [p|] eqn:Hp.
    - pose proof (np_mark id st r Hnd Hlk) as Hnp. unfold hasp in Hnp. rewrite Hp in Hnp. fold st1 in Hnp.
      assert (Hlkp : lk p (all_reps st1) <> None).
      { destruct (lk_some _ _ _ Hlk) as [Hr_in _].
        destruct (gi_parent _ _ _ _ HG r p Hr_in Hp) as [(q & Hq & _)|(s & [] & _)].
        unfold st1. rewrite (all_reps_map_field id fmark pres_fn_fmark st Hnd).
        rewrite lk_map by (intros x; apply map_in_rep_id; exact pres_id_fmark). rewrite Hq. discriminate. }
      destruct (IH p T ((id, Some p) :: P) st1 HG1) as (st2 & E2 & HG2 & F2 & D2 & A2); [lia | exact Hlkp|].
      exists st2. split; [exact E2|]. split; [exact HG2|]. split; [exact F2|]. split; [|exact A2]. right. exists p. split; [reflexivity | exact D2].
    - exists st1. split; [reflexivity|]. split; [exact HG1|]. split; [apply IFrame_refl|]. split; [left; reflexivity | apply adopt_same; reflexivity]. }
  destruct Hmid as (st2 & E2 & HG2 & F2 & Hpo & A2). rewrite E2. cbn [nbind].
  assert (Hpn : forall r2, lk id (all_reps st2) = Some r2 -> r_parent r2 = None).
  { intros r2 Hr2. exact (proj2 (gi_pending _ _ _ _ HG2 id (r_parent r) r2 (or_introl eq_refl) Hr2)). }
  assert (HG2' : GInv T P [] st2).
  { apply (ginv_pop T P [] st2 id (r_parent r) HG2). destruct Hpo as [H|(p & H & D)]; [left; exact H | right; exists p; split; assumption]. }
  destruct (destroy_if_found_ok T P st2 id HG2' Hpn) as (st' & E' & HG' & F' & D' & A').
  exists st'. split; [exact E'|]. split; [exact HG'|]. split; [|split; [exact D'|]].
  - eapply IFrame_trans; [exact F1|]. eapply IFrame_trans; [exact F2 | exact F'].
  - assert (AX : AdoptRelX (eq id) st st').
    { eapply adoptx_trans; [|eapply adoptx_weaken; [|exact A'] | exact (if_e _ _ F')]; [|intros i []].
      eapply adoptx_trans; [|eapply adoptx_weaken; [|exact A2] | exact (if_e _ _ F2)]; [|intros i []].
      apply adopt_field_x; [exact Hnd | exact pres_id_fmark | exact pres_fn_fmark]. }
    intros i x x' p _ Hx Hx' Hp. destruct (N.eq_dec i id) as [->|Hne].
    + rewrite Hlk in Hx. injection Hx as <-. right.
      destruct Hpo as [Hn|(p0 & Hp0 & D2)]; [congruence|]. rewrite Hp in Hp0. injection Hp0 as <-.
      apply (gone_mono p st2 st' (if_e _ _ F')). intros q Hq.
      apply (gi_fnvalid _ _ _ _ HG2' q (proj1 (lk_some _ _ _ Hq))). apply D2. exact Hq.
    + apply (AX i x x' p); try assumption. congruence.
Qed.

Lemma np_mark_le : forall id st ro, NoDup (ids (all_reps st)) -> lk id (all_reps st) = Some ro ->
  (np (map_rep id fmark st) <= np st)%nat.
Proof. intros id st ro Hnd Hlk. pose proof (np_mark id st ro Hnd Hlk). lia. Qed.

Lemma disconnect_ok : forall fuel id T st, GInv T [] [] st -> (np st < fuel)%nat -> lk id (all_reps st) <> None ->
  exists st', disconnect_rep fuel id st = NOk st' /\ GInv T [] [] st' /\ IFrame st st'.
Proof.
  intros fuel id T st HG Hfuel Hfound. unfold disconnect_rep. rewrite find_rep_lk.
  destruct (lk id (all_reps st)) as [r|] eqn:Hlk; [|contradiction].
  change (fun x : rep => set_parent None (set_valid false x)) with fmark.
  pose proof (gi_nodup _ _ _ _ HG) as Hnd.
  pose proof (ginv_mark T [] st id r HG Hlk) as HG1.
  assert (F1 : IFrame st (map_rep id fmark st)).
  { apply iframe_field; [exact Hnd | exact pres_id_fmark | exact pres_fn_fmark | reflexivity]. }
  set (st1 := map_rep id fmark st) in *.
  destruct (r_parent r) as [p|] eqn:Hp.
  - pose proof (np_mark_le id st r Hnd Hlk) as Hnp. fold st1 in Hnp.
    assert (Hlkp : lk p (all_reps st1) <> None).
    { destruct (lk_some _ _ _ Hlk) as [Hr_in _].
      destruct (gi_parent _ _ _ _ HG r p Hr_in Hp) as [(q & Hq & _)|(s & [] & _)].
      unfold st1. rewrite (all_reps_map_field id fmark pres_fn_fmark st Hnd).
      rewrite lk_map by (intros x; apply map_in_rep_id; exact pres_id_fmark). rewrite Hq. discriminate. }
    destruct (invalidate_ok fuel p T [(id, Some p)] st1 HG1) as (st2 & E2 & HG2 & F2 & D2 & _); [lia | exact Hlkp|].
    exists st2. split; [exact E2|]. split; [|eapply IFrame_trans; eassumption].
    apply (ginv_pop T [] [] st2 id (Some p) HG2). right. exists p. split; [reflexivity | exact D2].
  - exists st1. split; [reflexivity|]. split; [|exact F1]. apply (ginv_pop T [] [] st1 id None HG1). left. reflexivity.
Qed.

(* ---- the notification loop of a dying trackable ---- *)
Lemma acount_pos : forall d l, In (d, true) l -> (1 <= acount d l)%nat.
Proof.
  intros d l. induction l as [|[d' a] tl IH]; intros H; [destruct H|]. rewrite acount_cons. destruct H as [H|H].
  - injection H as -> ->. rewrite N.eqb_refl. lia.
  - specialize (IH H). lia.
Qed.

Lemma acount_zero : forall d l, acount d l = O -> forall e, In e l -> fst e = d -> snd e = false.
Proof.
  intros d l. induction l as [|[d' a] tl IH]; intros H e He Hd; [destruct He|]. rewrite acount_cons in H. destruct He as [<-|He].
  - cbn in Hd. subst d'. cbn. destruct a; [|reflexivity]. rewrite N.eqb_refl in H. lia.
  - apply IH; [lia | exact He | exact Hd].
Qed.

Lemma acount_all_disarmed : forall l, (forall e, In e l -> snd e = false) -> forall d, acount d l = O.
Proof.
  induction l as [|[d' a] tl IH]; intros H d; [reflexivity|]. rewrite acount_cons.
  rewrite (H (d', a) (or_introl eq_refl) : a = false). rewrite IH; [reflexivity|]. intros e He. apply H. right. exact He.
Qed.

Lemma RegsLe_nth : forall l l' k e', RegsLe l l' -> nth_error l' k = Some e' ->
  exists e, nth_error l k = Some e /\ fst e' = fst e /\ (snd e' = true -> snd e = true).
Proof.
  intros l l' k e' H. revert k. induction H as [|x y l l' Hxy H IH]; intros k Hk; [destruct k; discriminate|].
  destruct k as [|k]; cbn [nth_error] in *.
  - injection Hk as <-. exists x. split; [reflexivity | exact Hxy].
  - apply IH. exact Hk.
Qed.

Lemma RegsLe_nth_fwd : forall l l' k e, RegsLe l l' -> nth_error l k = Some e ->
  exists e', nth_error l' k = Some e' /\ fst e' = fst e.
Proof.
  intros l l' k e H. revert k. induction H as [|x y l l' Hxy H IH]; intros k Hk; [destruct k; discriminate|].
  destruct k as [|k]; cbn [nth_error] in *.
  - injection Hk as <-. exists y. split; [reflexivity | exact (proj1 Hxy)].
  - apply IH. exact Hk.
Qed.

Lemma direct_refs_destroyed : forall t r, r_fn r = None -> direct_refs t r = O.
Proof. intros t r H. unfold direct_refs, items_of. rewrite H. reflexivity. Qed.

Lemma notify_loop_ok : forall n i t st, GInv (Some t) [] [] st ->
  (exists x, live_tr t st = Some x /\ t_clearing x = true /\
       forall k e, (k < i)%nat -> nth_error (t_regs x) k = Some e -> snd e = false) ->
  exists st', notify_loop n i t st = NOk st' /\ GInv (Some t) [] [] st' /\ IFrame st st' /\ AdoptRel st st' /\
    (exists x', live_tr t st' = Some x' /\ t_clearing x' = true /\
       forall k e, (k < i + n)%nat -> nth_error (t_regs x') k = Some e -> snd e = false).
Proof.
  induction n as [|n IH]; intros i t st HG (x & Hx & Hc & Hdis).
  - exists st. split; [reflexivity|]. split; [exact HG|]. split; [apply IFrame_refl|]. split; [apply adopt_same; reflexivity|].
    exists x. split; [exact Hx|]. split; [exact Hc|]. intros k e Hk. apply Hdis. lia.
  - cbn [notify_loop]. rewrite Hx. destruct (nth_error (t_regs x) i) as [[d armed]|] eqn:Hnth.
    + assert (Hstep : exists st1, (if armed then invalidate (nfuel st) d st else NOk st) = NOk st1 /\
                        GInv (Some t) [] [] st1 /\ IFrame st st1 /\ AdoptRel st st1 /\
                        (exists x1, live_tr t st1 = Some x1 /\ t_clearing x1 = true /\
                           forall k e, (k < Datatypes.S i)%nat -> nth_error (t_regs x1) k = Some e -> snd e = false)).
      { destruct armed.
        - assert (Hfound : lk d (all_reps st) <> None).
          { pose proof (gi_regs _ _ _ _ HG t x d Hx) as Hr. pose proof (acount_pos d (t_regs x) (nth_error_In _ _ Hnth)) as Hpos.
            unfold drefs in Hr. destruct (lk d (all_reps st)); [discriminate | cbn in Hr; lia]. }
          destruct (invalidate_ok (nfuel st) d (Some t) [] st HG (np_le st) Hfound) as (st1 & E1 & HG1 & F1 & D1 & A1).
          exists st1. split; [exact E1|]. split; [exact HG1|]. split; [exact F1|]. split; [exact A1|].
          destruct (if_t _ _ F1 t x Hx) as (x1 & Hx1 & Hc1 & Hle). rewrite Hc in Hc1. specialize (Hle Hc).
          exists x1. split; [exact Hx1|]. split; [exact Hc1|].
          intros k e Hk Hke. destruct (RegsLe_nth _ _ k e Hle Hke) as (e0 & He0 & Hf & Hs).
          destruct (Nat.eq_dec k i) as [->|Hne].
          + rewrite Hnth in He0. injection He0 as <-. cbn [fst] in Hf.
            apply (acount_zero d (t_regs x1)); [|eapply nth_error_In; exact Hke | exact Hf].
            rewrite (gi_regs _ _ _ _ HG1 t x1 d Hx1). cbn [bcount filter length]. rewrite Nat.add_0_r.
            unfold drefs. destruct (lk d (all_reps st1)) as [r1|] eqn:Er1; [|reflexivity].
            apply direct_refs_destroyed. apply D1. exact Er1.
          + assert (Hlt : (k < i)%nat) by lia. pose proof (Hdis k e0 Hlt He0) as Hf0.
            destruct (snd e) eqn:Es; [|reflexivity]. rewrite (Hs eq_refl) in Hf0. discriminate.
        - exists st. split; [reflexivity|]. split; [exact HG|]. split; [apply IFrame_refl|]. split; [apply adopt_same; reflexivity|].
          exists x. split; [exact Hx|]. split; [exact Hc|]. intros k e Hk Hke.
          destruct (Nat.eq_dec k i) as [->|Hne]; [rewrite Hnth in Hke; injection Hke as <-; reflexivity | apply (Hdis k e); [lia | exact Hke]]. }
      destruct Hstep as (st1 & E1 & HG1 & F1 & A1 & Hinv1). rewrite E1. cbn [nbind].
      destruct (IH (Datatypes.S i) t st1 HG1 Hinv1) as (st' & E' & HG' & F' & A' & (x' & Hx' & Hc' & Hdis')).
      exists st'. split; [exact E'|]. split; [exact HG'|]. split; [eapply IFrame_trans; eassumption|].
      split; [eapply adopt_trans; [exact A1 | exact A' | exact (if_e _ _ F')]|].
      exists x'. split; [exact Hx'|]. split; [exact Hc'|]. intros k e Hk. apply Hdis'. lia.
    + exists st. split; [reflexivity|]. split; [exact HG|]. split; [apply IFrame_refl|]. split; [apply adopt_same; reflexivity|].
      exists x. split; [exact Hx|]. split; [exact Hc|]. intros k e Hk Hke.
      destruct (Nat.lt_ge_cases k i) as [Hlt|Hge]; [exact (Hdis k e Hlt Hke)|].
      apply nth_error_None in Hnth. assert (Hn : nth_error (t_regs x) k = None) by (apply nth_error_None; lia). congruence.
Qed.
